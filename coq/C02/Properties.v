(* Property C02 — incremental (warm-cache) runs report exactly what a cold run reports.
   Only theorem statements closed by `exact`, each followed by Print Assumptions; then Examples showing that
   the contracts are satisfiable by a concrete, non-trivial instance. *)
From Coq Require Import List Bool Arith Lia.
From C02 Require Import Model Proofs Statement.
Import ListNotations.

Section Theorems.
  Variable content_of : modid -> stamp -> content.
  Variable imports : modid -> content -> opts -> list modid.
  Variable probes : modid -> content -> opts -> list modid.
  Variable check : modid -> content -> opts -> (modid -> option ihash) -> result.
  Variable analyze : list modid -> (modid -> content) -> opts -> (modid -> option ihash) -> modid -> result.
  Variable sccs_of : list (modid * list modid) -> list (list modid).
  Variable reach : list (modid * list modid) -> modid -> modid -> bool.
  Variable sdo_of : list modid -> opts -> nat.
  Variable thash : list (modid * list modid) -> modid -> nat.
  Variable ign_of : modid -> stamp -> opts -> bool.
  Variable blocker : modid -> content -> bool.
  Hypothesis AC : AnalysisContract imports probes check analyze.   (* contract, monitored not proved *)
  Hypothesis GC : GraphContract analyze sccs_of reach thash.                   (* contract, checked on every observed SCC list *)

  Notation CacheOK := (CacheOK content_of imports probes check reach thash blocker).
  Notation ProbeFresh := (ProbeFresh content_of probes ign_of).
  Notation HistOK := (HistOK content_of imports probes analyze sccs_of reach sdo_of thash ign_of blocker).
  Notation Unique := (Unique content_of check ign_of).
  Notation warm := (warm content_of imports probes analyze sccs_of reach sdo_of thash ign_of blocker).
  Notation cold := (cold content_of imports probes analyze sccs_of reach sdo_of thash ign_of blocker).
  Notation runs := (runs content_of imports probes analyze sccs_of reach sdo_of thash ign_of blocker).

  (* every run (also one aborted by a blocking error) from a cache satisfying the invariant leaves such a cache,
     provided the dependency lists it reuses are still right (ProbeFresh: no probed `from pkg import name` that was
     not a module has become one) *)
  Theorem run_preserves_CacheOK : forall c fs o now,
    CacheOK c -> ProbeFresh c o fs -> Proofs.FSOK fs -> CacheOK (snd (warm c fs o now)).
  Proof. exact (p_run_preserves_CacheOK content_of imports probes check analyze sccs_of reach sdo_of thash ign_of blocker AC GC). Qed.

  (* a warm run from ANY cache satisfying the invariant reports what the cold run reports (both abort, or both
     report the same per-file diagnostics and status) *)
  Theorem warm_eq_cold : forall c fs o n n',
    CacheOK c -> ProbeFresh c o fs -> Proofs.FSOK fs -> Unique fs o ->
    output fs (warm c fs o n) = output fs (cold fs o n').
  Proof. exact (p_warm_eq_cold content_of imports probes check analyze sccs_of reach sdo_of thash ign_of blocker AC GC). Qed.

  (* all finite histories before the final state (cycles, aborted runs, option changes), side condition HistOK *)
  Theorem warm_eq_cold_all_histories_partial : forall (h : list (FS * opts)) (fs : FS) (o : opts) (n n' : nat),
    HistOK empty_store 0 h -> ProbeFresh (runs empty_store 0 h) o fs -> Proofs.FSOK fs -> Unique fs o ->
    output fs (warm (runs empty_store 0 h) fs o n) = output fs (cold fs o n').
  Proof. exact (p_history_partial content_of imports probes check analyze sccs_of reach sdo_of thash ign_of blocker AC GC). Qed.

  (* uniqueness is a THEOREM for programs whose imports and reported indirect dependencies are well-founded ... *)
  Theorem unique_for_acyclic_programs : forall fs o rank,
    Acyclic content_of imports probes check fs o rank -> Unique fs o.
  Proof. exact (p_acyclic_unique content_of imports probes check analyze ign_of AC). Qed.

  (* ... and for programs with import cycles it follows from the SCC-as-a-unit assumption LevelUnique (rank = index of
     the SCC): two solutions that agree on all lower SCCs agree on this SCC *)
  Theorem unique_from_scc_uniqueness : forall fs o rank,
    LevelUnique content_of check ign_of fs o rank -> Unique fs o.
  Proof. exact (p_level_unique content_of imports probes check analyze ign_of AC). Qed.

  (* hence, with NO uniqueness assumption: on an acyclic final program, warm = cold *)
  Theorem warm_eq_cold_all_histories_acyclic : forall (h : list (FS * opts)) (fs : FS) (o : opts) rank (n n' : nat),
    HistOK empty_store 0 h -> ProbeFresh (runs empty_store 0 h) o fs -> Proofs.FSOK fs ->
    Acyclic content_of imports probes check fs o rank ->
    output fs (warm (runs empty_store 0 h) fs o n) = output fs (cold fs o n').
  Proof.
    exact (fun h fs o rank n n' Hh HP Hfs Ha =>
             p_history_partial content_of imports probes check analyze sccs_of reach sdo_of thash ign_of blocker AC GC h fs o n n' Hh HP Hfs (p_acyclic_unique content_of imports probes check analyze ign_of AC fs o rank Ha)).
  Qed.

  (* the full statement of Statement.v for programs that never probe (`from pkg import x` only for non-modules) *)
  Theorem warm_eq_cold_all_histories_noprobes : (forall m c o, probes m c o = []) ->
    (forall fs o, Proofs.FSOK fs -> Unique fs o) ->
    warm_equals_cold_for_all_histories content_of imports probes analyze sccs_of reach sdo_of thash ign_of blocker.
  Proof. exact (p_history_noprobes content_of imports probes check analyze sccs_of reach sdo_of thash ign_of blocker AC GC). Qed.

  (* the same with the property's edits spelled out: any start, any list of Change/Add/Delete edits *)
  Theorem warm_eq_cold_all_edit_lists_noprobes : (forall m c o, probes m c o = []) ->
    forall (fs0 : FS) (es : list edit) (e : edit) (o : opts) n n',
    Proofs.FSOK fs0 ->
    let visited := fs0 :: states fs0 es in
    let final := apply_edit (last visited fs0) e in
    Unique final o ->
    output final (warm (runs empty_store 0 (map (fun x => (x, o)) visited)) final o n) = output final (cold final o n').
  Proof. exact (p_edits content_of imports probes check analyze sccs_of reach sdo_of thash ign_of blocker AC GC). Qed.
End Theorems.

Print Assumptions run_preserves_CacheOK.
Print Assumptions warm_eq_cold.
Print Assumptions warm_eq_cold_all_histories_partial.
Print Assumptions unique_for_acyclic_programs.
Print Assumptions unique_from_scc_uniqueness.
Print Assumptions warm_eq_cold_all_histories_acyclic.
Print Assumptions warm_eq_cold_all_histories_noprobes.
Print Assumptions warm_eq_cold_all_edit_lists_noprobes.

(* ------------------------------------------------------------------ the hypotheses are satisfiable *)
(* An instance in which diagnostics really depend on the interfaces of the imported (and probed) modules. *)
Definition ex_content_of (m : modid) (s : stamp) : content := s.
Definition ex_imports (m : modid) (c : content) (o : opts) : list modid := if Nat.even c then [] else [c / 2].
Definition ex_probes (m : modid) (c : content) (o : opts) : list modid := if Nat.eqb c 6 then [3] else [].
Definition ex_noprobes (m : modid) (c : content) (o : opts) : list modid := [].
Definition ex_check (pr : modid -> content -> opts -> list modid)
           (m : modid) (c : content) (o : opts) (env : modid -> option ihash) : result :=
  {| r_iface := S c;
     r_errors := map (fun d => match env d with Some h => h | None => 0 end) (ex_imports m c o ++ pr m c o);
     r_indirect := [] |}.
Definition ex_analyze pr (S0 : list modid) (src : modid -> content) (o : opts) (env : modid -> option ihash) (m : modid) :=
  ex_check pr m (src m) o (extend env S0 (fun x => S (src x))).
Definition ex_sccs (dm : list (modid * list modid)) : list (list modid) := [map fst dm].
Definition ex_reach (dm : list (modid * list modid)) (m d : modid) : bool := false.   (* no indirect deps in the instance *)
Definition ex_thash (dm : list (modid * list modid)) (m : modid) : nat := 0.
Definition ex_sdo (l : list modid) (o : opts) : nat := length l.
Definition ex_ign (m : modid) (s : stamp) (o : opts) : bool := Nat.eqb m 7.     (* module 7 is followed silently *)
Definition ex_blocker (m : modid) (c : content) : bool := Nat.eqb c 99.          (* content 99 has a syntax error *)

Fact ex_one : forall (l : list modid) L1 S0 L2, [l] = L1 ++ S0 :: L2 -> L1 = [] /\ S0 = l.
Proof.
  intros l [|a L1] S0 L2 H; simpl in H; inversion H; auto.
  exfalso. eapply app_cons_not_nil; eauto.
Qed.

Example analysis_contract_satisfiable : forall pr, AnalysisContract ex_imports pr (ex_check pr) (ex_analyze pr).
Proof.
  intros pr. constructor.
  - intros m c o env env' H. unfold ex_check. f_equal. apply map_ext_in. intros d Hd. rewrite H; auto.
  - simpl; tauto.
  - simpl; tauto.
  - simpl; intros; discriminate.
  - intros; reflexivity.
Qed.

Example graph_contract_satisfiable : forall pr, GraphContract (ex_analyze pr) ex_sccs ex_reach ex_thash.
Proof.
  intros pr. constructor.
  - intros dm [ND CL]. unfold ex_sccs. split; [|split].
    + simpl. rewrite app_nil_r. auto.
    + simpl. intros; rewrite app_nil_r. tauto.
    + intros L1 S0 L2 m ds d H Hm Hl Hd. apply ex_one in H as [-> ->]. simpl. eapply CL; eauto. eapply lookup_In; eauto.
  - intros dm L1 S0 L2 m d H Hm Hr. discriminate.
  - reflexivity.
  - simpl; tauto.
Qed.

(* in this instance every program (cyclic ones too) has a unique solution *)
Example unique_satisfiable : forall pr fs o, Proofs.FSOK fs -> Unique ex_content_of (ex_check pr) ex_ign fs o.
Proof.
  intros pr fs o HFS I E I' E' S1 S2 m G. apply inG_lookup in G as [s Hs].
  destruct (S1 _ _ Hs) as [A1 A2]. destruct (S2 _ _ Hs) as [B1 B2]. simpl in *. split. congruence.
  rewrite A2, B2. destruct (ex_ign m s o); auto. apply map_ext_in. intros d _. unfold genv. destruct (inG fs d) eqn:G; auto.
  apply inG_lookup in G as [s' Hs']. destruct (S1 _ _ Hs') as [C1 _]. destruct (S2 _ _ Hs') as [D1 _]. simpl in *. congruence.
Qed.

(* the positive theorem instantiated (no probes): closed, no hypotheses left *)
Example warm_eq_cold_instance :
  warm_equals_cold_for_all_histories ex_content_of ex_imports ex_noprobes (ex_analyze ex_noprobes) ex_sccs ex_reach ex_sdo
                                     ex_thash ex_ign ex_blocker.
Proof.
  exact (warm_eq_cold_all_histories_noprobes _ _ _ _ _ _ _ _ _ _ _ (analysis_contract_satisfiable ex_noprobes)
           (graph_contract_satisfiable ex_noprobes) (fun _ _ _ => eq_refl) (unique_satisfiable ex_noprobes)).
Qed.

Definition ex_o := {| o_snap := 1; o_version := 1; o_plugin := 0 |}.

(* ------------------------------------------------------------------ the FULL statement is refuted by the faithful model *)
(* `from pkg import name` (module 1, content 6, probes module 3) while pkg/name.py (module 3) does not exist; then it is
   added.  The cached lists of module 1 mention module 3 nowhere, so module 1 is judged fresh and its old diagnostics
   are replayed.  Reproduced on the real tree: see notes/C02.md, finding F6. *)
(* SCC function of the witness: singletons, dependencies first.  On the three dependency maps that occur below it
   returns [[1]], [[3];[1]] (cold: 1 depends on 3) and [[3];[1]] (warm: 1 has no recorded dependency): all in
   dependency order.  (It is not claimed to satisfy GraphContract on every graph.) *)
Definition ex_sccs2 (dm : list (modid * list modid)) : list (list modid) := map (fun p => [fst p]) (rev dm).
Definition ex_reach2 (dm : list (modid * list modid)) (m d : modid) : bool := false.

Theorem warm_equals_cold_refuted :
  exists content_of imports probes check analyze sccs_of reach sdo_of thash ign_of blocker,
    AnalysisContract imports probes check analyze /\
    (forall fs o, Proofs.FSOK fs -> Unique content_of check ign_of fs o) /\
    ~ warm_equals_cold_for_all_histories content_of imports probes analyze sccs_of reach sdo_of thash ign_of blocker.
Proof.
  exists ex_content_of, ex_imports, ex_probes, (ex_check ex_probes), (ex_analyze ex_probes), ex_sccs2, ex_reach2, ex_sdo,
         ex_thash, ex_ign, ex_blocker.
  split; [apply analysis_contract_satisfiable|].
  split; [apply unique_satisfiable|].
  intro H. specialize (H [([(1, 6)], ex_o)] [(1, 6); (3, 4)] ex_o 2 1).
  assert (A : forall fs' o', In (fs', o') [([(1, 6)], ex_o)] -> Statement.FSOK fs').
  { intros fs' o' [X|[]]. inversion X; subst. repeat constructor; simpl; tauto. }
  assert (B : Statement.FSOK [(1, 6); (3, 4)]).
  { repeat constructor; simpl; intuition; discriminate. }
  specialize (H A B). vm_compute in H. discriminate.
Qed.
Print Assumptions warm_equals_cold_refuted.

(* an acyclic program in the sense of `Acyclic`: module 5 (content 5) imports module 2 (content 8, no imports) *)
Definition ex_fs1 : FS := [(5, 5); (2, 8)].
Definition ex_fs2 : FS := [(5, 5); (2, 10)].   (* module 2 edited *)
Definition ex_fs3 : FS := [(5, 5); (2, 99)].   (* module 2 now has a syntax error *)
Example acyclic_satisfiable : Acyclic ex_content_of ex_imports ex_noprobes (ex_check ex_noprobes) ex_fs1 ex_o (fun m => m).
Proof.
  intros m s d env Hs Hd [H|H]; [|inversion H].
  simpl in Hs. destruct (Nat.eqb m 5) eqn:E5.
  - apply Nat.eqb_eq in E5; subst. inversion Hs; subst. simpl in H. destruct H as [<-|[]]. simpl; lia.
  - destruct (Nat.eqb m 2) eqn:E2; try discriminate. inversion Hs; subst. simpl in H. tauto.
Qed.

(* a concrete history: editing module 2 changes the diagnostics of the unchanged module 5; then a syntax error in
   module 2 aborts the run (None) and leaves the cache usable; then the error is repaired *)
Example ex_history_outputs :
  let W := warm ex_content_of ex_imports ex_noprobes (ex_analyze ex_noprobes) ex_sccs ex_reach ex_sdo ex_thash ex_ign ex_blocker in
  let c1 := snd (W empty_store ex_fs1 ex_o 1) in
  let c2 := snd (W c1 ex_fs2 ex_o 2) in
  let c3 := snd (W c2 ex_fs3 ex_o 3) in
  (output ex_fs1 (W empty_store ex_fs1 ex_o 1), output ex_fs2 (W c1 ex_fs2 ex_o 2),
   output ex_fs3 (W c2 ex_fs3 ex_o 3), output ex_fs2 (W c3 ex_fs2 ex_o 4))
  = (Some ([(5, Some [9]); (2, Some [])], true), Some ([(5, Some [11]); (2, Some [])], true),
     None, Some ([(5, Some [11]); (2, Some [])], true)).
Proof. vm_compute. reflexivity. Qed.
