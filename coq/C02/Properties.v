(* Property C02 — incremental (warm-cache) runs report exactly what a cold run reports.
   Only theorem statements closed by `exact`, each followed by Print Assumptions; then Examples showing that
   the contracts are satisfiable by a concrete, non-trivial instance, and the refutation of the full statement. *)
From Coq Require Import List Bool Arith Lia.
From C02 Require Import Model Proofs Statement.
Import ListNotations.

Section Theorems.
  Variable content_of : modid -> stamp -> content.
  Variable imports : modid -> content -> opts -> list modid.
  Variable probes : modid -> content -> opts -> list modid.
  Variable analyze : list modid -> (modid -> content) -> opts -> (modid -> option ihash) -> modid -> result.
  Variable sccs_of : list (modid * list modid) -> list (list modid).
  Variable reach : list (modid * list modid) -> modid -> modid -> bool.
  Variable sdo_of : list modid -> opts -> nat.
  Variable thash : list (modid * list modid) -> modid -> nat.
  Variable ign_of : modid -> stamp -> opts -> bool.
  Variable blocker : modid -> content -> bool.
  (* contract, monitored not proved: the analysis of an SCC is a function of the SET of member sources, the options and
     the lower interfaces it reads.  No uniqueness assumption about import cycles.  Recorded violations: F10 (member
     order matters), F9 (implicit reads), F7 (stub-ness is not part of the hashed source). *)
  Hypothesis AC : AnalysisContract imports probes analyze.
  Hypothesis GC : GraphContract analyze sccs_of reach thash.

  Notation CacheOK := (CacheOK content_of imports probes analyze reach thash blocker).
  Notation SideOK := (SideOK content_of imports probes sccs_of ign_of).
  Notation HistOK := (HistOK content_of imports probes analyze sccs_of reach sdo_of thash ign_of blocker).
  Notation warm := (warm content_of imports probes analyze sccs_of reach sdo_of thash ign_of blocker).
  Notation cold := (cold content_of imports probes analyze sccs_of reach sdo_of thash ign_of blocker).
  Notation runs := (runs content_of imports probes analyze sccs_of reach sdo_of thash ign_of blocker).

  (* every run (also an aborted one) keeps the invariant: every entry was produced by ONE analysis call on exactly the
     inputs its hashes name, and the members of a call are written together (provenance) *)
  Theorem run_preserves_CacheOK : forall c fs o now,
    CacheOK c -> GenBound c now -> SideOK c o fs -> Proofs.FSOK fs ->
    CacheOK (snd (warm c fs o now)) /\ GenBound (snd (warm c fs o now)) (S now).
  Proof. exact (p_run_preserves content_of imports probes analyze sccs_of reach sdo_of thash ign_of blocker AC GC). Qed.

  (* warm = cold from ANY cache satisfying the invariant, under the two decidable side conditions *)
  Theorem warm_eq_cold : forall c fs o n n',
    CacheOK c -> GenBound c n -> SideOK c o fs -> Proofs.FSOK fs ->
    output fs (warm c fs o n) = output fs (cold fs o n').
  Proof. exact (p_warm_eq_cold content_of imports probes analyze sccs_of reach sdo_of thash ign_of blocker AC GC). Qed.

  (* all finite histories (cycles, aborted runs, option changes) along which the side conditions hold *)
  Theorem warm_eq_cold_all_histories_partial : forall (h : list (FS * opts)) (fs : FS) (o : opts) (n' : nat),
    HistOK empty_store 0 h -> SideOK (runs empty_store 0 h) o fs -> Proofs.FSOK fs ->
    output fs (warm (runs empty_store 0 h) fs o (length h)) = output fs (cold fs o n').
  Proof. exact (p_history_partial content_of imports probes analyze sccs_of reach sdo_of thash ign_of blocker AC GC). Qed.

  (* the side conditions are decidable predicates of (cache, options, files): Model.probe_fresh / Model.scc_stable *)
  Theorem probe_fresh_decides : forall c o fs,
    probe_fresh content_of probes ign_of c o fs = true -> ProbeFresh content_of probes ign_of c o fs.
  Proof. exact (probe_fresh_sound content_of probes ign_of). Qed.
  Theorem scc_stable_decides : forall c o fs,
    scc_stable content_of imports probes sccs_of ign_of c o fs = true ->
    SccFresh content_of imports probes sccs_of ign_of c o fs.
  Proof. exact (scc_stable_sound content_of imports probes sccs_of ign_of). Qed.
End Theorems.

Print Assumptions run_preserves_CacheOK.
Print Assumptions warm_eq_cold.
Print Assumptions warm_eq_cold_all_histories_partial.
Print Assumptions probe_fresh_decides.
Print Assumptions scc_stable_decides.

(* ------------------------------------------------------------------ the hypotheses are satisfiable *)
Definition ex_content_of (m : modid) (s : stamp) : content := s.
Definition ex_imports (m : modid) (c : content) (o : opts) : list modid := if Nat.even c then [] else [c / 2].
Definition ex_probes (m : modid) (c : content) (o : opts) : list modid := if Nat.eqb c 6 then [3] else [].
Definition ex_noprobes (m : modid) (c : content) (o : opts) : list modid := [].
(* diagnostics depend on the interfaces of the imported / probed modules: of co-members through their sources, of lower
   modules through the environment *)
Definition ex_analyze (pr : modid -> content -> opts -> list modid)
           (S0 : list modid) (src : modid -> content) (o : opts) (env : modid -> option ihash) (m : modid) : result :=
  {| r_iface := S (src m);
     r_errors := map (fun d => if mem d S0 then S (src d) else match env d with Some h => h | None => 0 end)
                     (ex_imports m (src m) o ++ pr m (src m) o);
     r_indirect := [] |}.
Definition ex_sccs (dm : list (modid * list modid)) : list (list modid) := [map fst dm].
Definition ex_reach (dm : list (modid * list modid)) (m d : modid) : bool := false.
Definition ex_thash (dm : list (modid * list modid)) (m : modid) : nat := 0.
Definition ex_sdo (l : list modid) (o : opts) : nat := length l.
Definition ex_ign (m : modid) (s : stamp) (o : opts) : bool := Nat.eqb m 7.
Definition ex_blocker (m : modid) (c : content) : bool := Nat.eqb c 99.

Fact ex_one : forall (l : list modid) L1 S0 L2, [l] = L1 ++ S0 :: L2 -> L1 = [] /\ S0 = l.
Proof.
  intros l [|a L1] S0 L2 H; simpl in H; inversion H; auto.
  exfalso. eapply app_cons_not_nil; eauto.
Qed.

Fact mem_equiv : forall d (a b : list modid), (forall x, In x a <-> In x b) -> mem d a = mem d b.
Proof.
  intros. destruct (mem d a) eqn:A; destruct (mem d b) eqn:B; auto.
  - apply mem_In in A. apply H in A. apply mem_In in A. congruence.
  - apply mem_In in B. apply H in B. apply mem_In in B. congruence.
Qed.

Example analysis_contract_satisfiable : forall pr, AnalysisContract ex_imports pr (ex_analyze pr).
Proof.
  intros pr. constructor.
  - intros S0 S' src src' o env env' EQ SRC RD m Hm. unfold ex_analyze. rewrite <- (SRC m Hm). f_equal.
    apply map_ext_in. intros d Hd. rewrite <- (mem_equiv d S0 S' EQ). destruct (mem d S0) eqn:M.
    + apply mem_In in M. rewrite (SRC d M). auto.
    + rewrite (RD m d Hm); auto. split. apply mem_false; auto. left; auto.
  - simpl; tauto.
  - simpl; tauto.
  - simpl; intros; discriminate.
Qed.

Example graph_contract_satisfiable : forall pr, GraphContract (ex_analyze pr) ex_sccs ex_reach ex_thash.
Proof.
  intros pr. constructor.
  - intros dm [ND CL]. unfold ex_sccs. split; [|split].
    + simpl. rewrite app_nil_r. auto.
    + simpl. intros; rewrite app_nil_r. tauto.
    + intros L1 S0 L2 m ds d H Hm Hl Hd. apply ex_one in H as [-> ->]. simpl. eapply CL; eauto. eapply lookup_In; eauto.
  - intros dm dm' K _ S0 [<-|[]]. exists (map fst dm'). split. left; auto. rewrite K. tauto.
  - intros; discriminate.
  - reflexivity.
  - simpl; tauto.
Qed.

Definition ex_o := {| o_snap := 1; o_version := 1; o_plugin := 0 |}.
Definition ex_fs1 : FS := [(5, 5); (2, 8)].    (* module 5 (content 5) imports module 2 *)
Definition ex_fs2 : FS := [(5, 5); (2, 10)].   (* module 2 edited *)
Definition ex_fs3 : FS := [(5, 5); (2, 99)].   (* module 2 has a syntax error *)

(* a concrete history: an edit changes the diagnostics of an unchanged module; a syntax error aborts the run and leaves
   the cache usable; the side conditions hold (decided by computation) *)
Example ex_history_outputs :
  let W := warm ex_content_of ex_imports ex_noprobes (ex_analyze ex_noprobes) ex_sccs ex_reach ex_sdo ex_thash ex_ign ex_blocker in
  let c1 := snd (W empty_store ex_fs1 ex_o 0) in
  let c2 := snd (W c1 ex_fs2 ex_o 1) in
  let c3 := snd (W c2 ex_fs3 ex_o 2) in
  (output ex_fs1 (W empty_store ex_fs1 ex_o 0), output ex_fs2 (W c1 ex_fs2 ex_o 1),
   output ex_fs3 (W c2 ex_fs3 ex_o 2), output ex_fs2 (W c3 ex_fs2 ex_o 3),
   scc_stable ex_content_of ex_imports ex_noprobes ex_sccs ex_ign c1 ex_o ex_fs2,
   probe_fresh ex_content_of ex_noprobes ex_ign c1 ex_o ex_fs2)
  = (Some ([(5, Some [9]); (2, Some [])], true), Some ([(5, Some [11]); (2, Some [])], true),
     None, Some ([(5, Some [11]); (2, Some [])], true), true, true).
Proof. vm_compute. reflexivity. Qed.

(* ------------------------------------------------------------------ the FULL statement is refuted by the faithful model *)
(* F6: `from pkg import name` (module 1, content 6, probes module 3) while pkg/name.py (module 3) does not exist; then it
   is added.  Module 1's cached lists mention module 3 nowhere, so module 1 is judged fresh and its old diagnostics are
   replayed; `probe_fresh` is false on that step, i.e. the side condition of the positive theorem detects it. *)
Definition ex_sccs2 (dm : list (modid * list modid)) : list (list modid) := map (fun p => [fst p]) (rev dm).

Theorem warm_equals_cold_refuted :
  exists content_of imports probes analyze sccs_of reach sdo_of thash ign_of blocker,
    AnalysisContract imports probes analyze /\
    ~ warm_equals_cold_for_all_histories content_of imports probes analyze sccs_of reach sdo_of thash ign_of blocker.
Proof.
  exists ex_content_of, ex_imports, ex_probes, (ex_analyze ex_probes), ex_sccs2, ex_reach, ex_sdo, ex_thash, ex_ign, ex_blocker.
  split; [apply analysis_contract_satisfiable|].
  intro H. specialize (H [([(1, 6)], ex_o)] [(1, 6); (3, 4)] ex_o 0).
  assert (A : forall fs' o', In (fs', o') [([(1, 6)], ex_o)] -> Statement.FSOK fs').
  { intros fs' o' [X|[]]. inversion X; subst. repeat constructor; simpl; tauto. }
  assert (B : Statement.FSOK [(1, 6); (3, 4)]).
  { repeat constructor; simpl; intuition; discriminate. }
  specialize (H A B). vm_compute in H. discriminate.
Qed.
Print Assumptions warm_equals_cold_refuted.

Example refutation_is_caught_by_side_condition :
  let c1 := snd (warm ex_content_of ex_imports ex_probes (ex_analyze ex_probes) ex_sccs2 ex_reach ex_sdo ex_thash ex_ign ex_blocker
                      empty_store [(1, 6)] ex_o 0) in
  probe_fresh ex_content_of ex_probes ex_ign c1 ex_o [(1, 6); (3, 4)] = false.
Proof. vm_compute. reflexivity. Qed.
