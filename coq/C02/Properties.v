(* Property C02 — incremental (warm-cache) runs report exactly what a cold run reports.
   Only theorem statements closed by `exact`, each followed by Print Assumptions; then Examples showing that the
   contracts are satisfiable, and the refutations of the full statement that PREDICT findings F6, F7, F9. *)
From Coq Require Import List Bool Arith Lia.
From C02 Require Import Model Proofs Statement.
Import ListNotations.

Section Theorems.
  Variable content_of : modid -> stamp -> content.
  Variable view_of : modid -> stamp -> content.
  Variable imports : modid -> content -> opts -> list modid.
  Variable probes : modid -> content -> opts -> list modid.
  Variable implicits : modid -> content -> opts -> list modid.
  Variable analyze : list modid -> (modid -> content) -> opts -> (modid -> option ihash) -> modid -> result.
  Variable sccs_of : list (modid * list modid) -> list (list modid).
  Variable reach : list (modid * list modid) -> modid -> modid -> bool.
  Variable sdo_of : list modid -> opts -> nat.
  Variable thash : list (modid * list modid) -> modid -> nat.
  Variable ign_of : modid -> stamp -> opts -> bool.
  Variable pkg_of : modid -> stamp -> bool.
  Variable parent_of : modid -> option modid.
  Variable blocker : modid -> content -> bool.
  (* contract, monitored not proved: the analysis of an SCC is a function of the SET of member sources (as SEEN: text and
     kind), the options and the lower interfaces it reads.  No uniqueness assumption.  Recorded violation: F10. *)
  Hypothesis AC : AnalysisContract imports probes implicits analyze.
  Hypothesis GC : GraphContract analyze sccs_of reach thash.

  Notation CacheOK := (CacheOK content_of view_of imports probes implicits analyze reach thash blocker).
  Notation SideOK := (SideOK content_of view_of imports probes implicits sccs_of reach ign_of pkg_of parent_of).
  Notation ProgOK := (ProgOK content_of view_of imports probes implicits sccs_of reach ign_of pkg_of parent_of).
  Notation HistOK := (HistOK content_of view_of imports probes implicits analyze sccs_of reach sdo_of thash ign_of pkg_of parent_of blocker).
  Notation warm := (warm content_of view_of imports probes analyze sccs_of reach sdo_of thash ign_of pkg_of parent_of blocker).
  Notation cold := (cold content_of view_of imports probes analyze sccs_of reach sdo_of thash ign_of pkg_of parent_of blocker).
  Notation runs := (runs content_of view_of imports probes analyze sccs_of reach sdo_of thash ign_of pkg_of parent_of blocker).
  Notation run := (run content_of view_of imports probes analyze sccs_of reach sdo_of thash ign_of pkg_of parent_of).

  Theorem run_preserves_CacheOK : forall c fs o now,
    CacheOK c -> GenBound c now -> SideOK c o fs -> Proofs.FSOK fs ->
    CacheOK (snd (warm c fs o now)) /\ GenBound (snd (warm c fs o now)) (S now).
  Proof. exact (p_run_preserves content_of view_of imports probes implicits analyze sccs_of reach sdo_of thash ign_of pkg_of parent_of blocker AC GC). Qed.

  (* SideOK c o fs = ProbeFresh (F6) /\ KindStable (F7) /\ ImplicitStable (F9) /\ SccFresh (F11); ProgOK o fs = the
     program has no dangling implicit submodule reference (F9, cold side).  All decidable, see below. *)
  Theorem warm_eq_cold : forall c fs o n n',
    CacheOK c -> GenBound c n -> SideOK c o fs -> ProgOK o fs -> Proofs.FSOK fs ->
    output fs (warm c fs o n) = output fs (cold fs o n').
  Proof. exact (p_warm_eq_cold content_of view_of imports probes implicits analyze sccs_of reach sdo_of thash ign_of pkg_of parent_of blocker AC GC). Qed.

  Theorem warm_eq_cold_all_histories_partial : forall (h : list (FS * opts)) (fs : FS) (o : opts) (n' : nat),
    HistOK empty_store 0 h -> SideOK (runs empty_store 0 h) o fs -> ProgOK o fs -> Proofs.FSOK fs ->
    output fs (warm (runs empty_store 0 h) fs o (length h)) = output fs (cold fs o n').
  Proof. exact (p_history_partial content_of view_of imports probes implicits analyze sccs_of reach sdo_of thash ign_of pkg_of parent_of blocker AC GC). Qed.

  (* after a run the source hash, interface hash and effective error_lines recorded for every module of the program are a
     function of (files, options): they do not depend on the cache the run started from *)
  Theorem cache_is_function_of_inputs : forall c1 c2 fs o n1 n2,
    CacheOK c1 -> GenBound c1 n1 -> SideOK c1 o fs -> CacheOK c2 -> GenBound c2 n2 -> SideOK c2 o fs ->
    Proofs.FSOK fs -> NB content_of blocker fs ->
    forall m s e1 x1 e2 x2, lookup fs m = Some s ->
      s_meta (snd (run c1 fs o n1)) m = Some e1 -> s_ex (snd (run c1 fs o n1)) m = Some x1 ->
      s_meta (snd (run c2 fs o n2)) m = Some e2 -> s_ex (snd (run c2 fs o n2)) m = Some x2 ->
      m_hash e1 = m_hash e2 /\ m_ihash e1 = m_ihash e2 /\
      (if ign_of m s o then [] else x_errors x1) = (if ign_of m s o then [] else x_errors x2).
  Proof. exact (p_cache_function content_of view_of imports probes implicits analyze sccs_of reach sdo_of thash ign_of pkg_of parent_of blocker AC GC). Qed.

  (* the side conditions are decidable predicates of (cache, options, files) *)
  Theorem probe_fresh_decides : forall c o fs,
    probe_fresh content_of view_of probes ign_of c o fs = true -> ProbeFresh content_of view_of probes ign_of c o fs.
  Proof. exact (probe_fresh_sound content_of view_of probes ign_of). Qed.
  Theorem kind_stable_decides : forall c o fs,
    kind_stable content_of view_of ign_of c o fs = true -> KindStable content_of view_of ign_of c o fs.
  Proof. exact (kind_stable_sound content_of view_of ign_of). Qed.
  Theorem implicit_stable_decides : forall c o fs,
    NoDup (concat (sccs_of (depmap content_of view_of imports probes ign_of pkg_of parent_of c o fs))) ->
    implicit_stable content_of view_of imports probes implicits sccs_of reach ign_of pkg_of parent_of c o fs = true ->
    ImplicitStable content_of view_of imports probes implicits sccs_of reach ign_of pkg_of parent_of c o fs.
  Proof. exact (implicit_stable_sound content_of view_of imports probes implicits sccs_of reach ign_of pkg_of parent_of). Qed.
  Theorem scc_stable_decides : forall c o fs,
    scc_stable content_of view_of imports probes sccs_of ign_of pkg_of parent_of c o fs = true ->
    SccFresh content_of view_of imports probes sccs_of ign_of pkg_of parent_of c o fs.
  Proof. exact (scc_stable_sound content_of view_of imports probes sccs_of ign_of pkg_of parent_of). Qed.
  (* the two side conditions of findings F6 and F7 are characterised EXACTLY: the boolean functions decide them (iff), and a
     failure is precisely a concrete witness in the cache - for F6 a module with a reused entry that probes a name which IS a
     module of the build now and is not among the entry's recorded dependencies (the probe's result changed since the entry
     was written); for F7 a module with a reused entry that is seen differently (text or .py/.pyi kind) than at the stamp the
     entry records *)
  Theorem probe_fresh_iff : forall c o fs, Proofs.FSOK fs ->
    (probe_fresh content_of view_of probes ign_of c o fs = true <-> ProbeFresh content_of view_of probes ign_of c o fs).
  Proof.
    exact (fun c o fs H => conj (probe_fresh_sound content_of view_of probes ign_of c o fs)
                                (probe_fresh_complete content_of view_of imports probes implicits ign_of pkg_of parent_of blocker c o fs H)).
  Qed.
  Theorem F6_exact : forall c o fs, Proofs.FSOK fs ->
    (~ ProbeFresh content_of view_of probes ign_of c o fs <->
     exists m s e x d, In (m, s) fs /\ load_meta content_of ign_of c o fs m = Some (e, x) /\
                       In d (probes m (view_of m s) o) /\ inG fs d = true /\ ~ In d (m_deps e)).
  Proof. exact (F6_exact_lemma content_of view_of imports probes implicits ign_of pkg_of parent_of blocker). Qed.
  Theorem kind_stable_iff : forall c o fs, Proofs.FSOK fs ->
    (kind_stable content_of view_of ign_of c o fs = true <-> KindStable content_of view_of ign_of c o fs).
  Proof.
    exact (fun c o fs H => conj (kind_stable_sound content_of view_of ign_of c o fs)
                                (kind_stable_complete content_of view_of imports probes implicits ign_of pkg_of parent_of blocker c o fs H)).
  Qed.
  Theorem F7_exact : forall c o fs, Proofs.FSOK fs ->
    (~ KindStable content_of view_of ign_of c o fs <->
     exists m s e x, In (m, s) fs /\ load_meta content_of ign_of c o fs m = Some (e, x) /\
                     view_of m (m_stamp e) <> view_of m s).
  Proof. exact (F7_exact_lemma content_of view_of imports probes implicits ign_of pkg_of parent_of blocker). Qed.
  (* F11 exactly: SccFresh fails iff some SCC of the current graph has a valid meta for every member and one of those entries
     was written by an analysis call on a different member set (a cycle was shrunk, grown or re-formed without the remaining
     members being invalidated) *)
  Theorem scc_stable_iff : forall c o fs,
    (scc_stable content_of view_of imports probes sccs_of ign_of pkg_of parent_of c o fs = true <->
     SccFresh content_of view_of imports probes sccs_of ign_of pkg_of parent_of c o fs).
  Proof.
    exact (fun c o fs => conj (scc_stable_sound content_of view_of imports probes sccs_of ign_of pkg_of parent_of c o fs)
                              (scc_stable_complete content_of view_of imports probes sccs_of ign_of pkg_of parent_of c o fs)).
  Qed.
  Theorem F11_exact : forall c o fs,
    (~ SccFresh content_of view_of imports probes sccs_of ign_of pkg_of parent_of c o fs <->
     exists S m e x, In S (sccs_of (depmap content_of view_of imports probes ign_of pkg_of parent_of c o fs)) /\
                     (forall m', In m' S -> load_meta content_of ign_of c o fs m' <> None) /\
                     In m S /\ load_meta content_of ign_of c o fs m = Some (e, x) /\
                     ~ (forall y, In y (m_scc e) <-> In y S)).
  Proof. exact (F11_exact_lemma content_of view_of imports probes sccs_of ign_of pkg_of parent_of). Qed.
  (* two side conditions discharged for sub-classes: programs without `from pkg import maybe_submodule` never violate
     ProbeFresh (F6 cannot occur); and if what the analysis sees of a file were determined by what is hashed (the repair of
     F7: make the kind .py/.pyi part of the hash / of the comparison in validate_meta) KindStable would hold for every cache
     satisfying the invariant (F7 could not occur) *)
  Theorem ProbeFresh_when_no_probes : (forall m v o, probes m v o = []) ->
    forall c o fs, ProbeFresh content_of view_of probes ign_of c o fs.
  Proof. exact (ProbeFresh_noprobes content_of view_of probes ign_of). Qed.
  Theorem KindStable_when_hash_determines_view :
    (forall m s s', content_of m s = content_of m s' -> view_of m s = view_of m s') ->
    forall c o fs, CacheOK c -> KindStable content_of view_of ign_of c o fs.
  Proof. exact (p_KindStable_if_hash_determines_view content_of view_of imports probes implicits analyze reach thash ign_of blocker). Qed.
End Theorems.

Print Assumptions ProbeFresh_when_no_probes.
Print Assumptions KindStable_when_hash_determines_view.
Print Assumptions scc_stable_iff.
Print Assumptions F11_exact.
Print Assumptions probe_fresh_iff.
Print Assumptions F6_exact.
Print Assumptions kind_stable_iff.
Print Assumptions F7_exact.
Print Assumptions run_preserves_CacheOK.
Print Assumptions warm_eq_cold.
Print Assumptions warm_eq_cold_all_histories_partial.
Print Assumptions cache_is_function_of_inputs.
Print Assumptions probe_fresh_decides.
Print Assumptions kind_stable_decides.
Print Assumptions implicit_stable_decides.
Print Assumptions scc_stable_decides.

(* the hypothesis of KindStable_when_hash_determines_view is satisfiable (view = content) *)
Example hash_determines_view_satisfiable :
  forall (m : modid) (s s' : stamp), (fun (_ : modid) (x : stamp) => x / 2) m s = (fun (_ : modid) (x : stamp) => x / 2) m s' ->
                                     (fun (_ : modid) (x : stamp) => x / 2) m s = (fun (_ : modid) (x : stamp) => x / 2) m s'.
Proof. auto. Qed.

(* ------------------------------------------------------------------ instances *)
(* a stamp s encodes (text, kind): text = s / 2, kind = s mod 2 (0 = .py, 1 = .pyi); the analysis sees the whole stamp *)
Definition ex_content_of (m : modid) (s : stamp) : content := s / 2.
Definition ex_view_of (m : modid) (s : stamp) : content := s.
Definition ex_imports (m : modid) (v : content) (o : opts) : list modid := if Nat.even v then [] else [v / 2].
Definition ex_probes (m : modid) (v : content) (o : opts) : list modid := if Nat.eqb v 6 then [3] else [].
Definition ex_implicits (m : modid) (v : content) (o : opts) : list modid := if Nat.eqb v 12 then [3] else [].
Definition ex_none (m : modid) (v : content) (o : opts) : list modid := [].
Definition vis (env : modid -> option ihash) (d : modid) : bool := match env d with Some _ => true | None => false end.
Definition ex_analyze (pr im : modid -> content -> opts -> list modid)
           (S0 : list modid) (src : modid -> content) (o : opts) (env : modid -> option ihash) (m : modid) : result :=
  {| r_iface := S (src m);
     r_errors := map (fun d => if mem d S0 then S (src d) else match env d with Some h => h | None => 0 end)
                     ((ex_imports m (src m) o ++ pr m (src m) o) ++ im m (src m) o);
     r_indirect := filter (fun d => negb (mem d S0) && negb (Nat.eqb d m) && vis env d) (im m (src m) o) |}.
Definition ex_sccs (dm : list (modid * list modid)) : list (list modid) := [map fst dm].
Definition ex_sccs2 (dm : list (modid * list modid)) : list (list modid) := map (fun p => [fst p]) (rev dm).
Definition ex_reach (dm : list (modid * list modid)) (m d : modid) : bool := false.
Definition ex_thash (dm : list (modid * list modid)) (m : modid) : nat := 0.
Definition ex_sdo (l : list modid) (o : opts) : nat := length l.
Definition ex_ign (m : modid) (s : stamp) (o : opts) : bool := Nat.eqb m 7.
Definition ex_blocker (m : modid) (c : content) : bool := Nat.eqb c 99.
Definition ex_pkg (m : modid) (s : stamp) : bool := false.
Definition ex_parent (m : modid) : option modid := None.

Fact ex_one : forall (l : list modid) L1 S0 L2, [l] = L1 ++ S0 :: L2 -> L1 = [] /\ S0 = l.
Proof.
  intros l [|a L1] S0 L2 H; simpl in H; inversion H; auto.
  exfalso. eapply app_cons_not_nil; eauto.
Qed.
Fact mem_equiv : forall d (a b : list modid), (forall x, In x a <-> In x b) -> mem d a = mem d b.
Proof.
  intros. destruct (mem d a) eqn:A; destruct (mem d b) eqn:B; auto.
  - apply mem_In in A. apply H in A. apply mem_In in A. congruence.
  - apply mem_In in B. apply H in B. apply mem_In in B. congruence.
Qed.
Fact filter_ext_in' : forall (f g : modid -> bool) l, (forall a, In a l -> f a = g a) -> filter f l = filter g l.
Proof. induction l; simpl; intros; auto. rewrite H by auto. destruct (g a); [f_equal|]; auto. Qed.

Example analysis_contract_satisfiable : forall pr im, AnalysisContract ex_imports pr im (ex_analyze pr im).
Proof.
  intros pr im. constructor.
  - intros S0 S' src src' o env env' EQ SRC RD m Hm. unfold ex_analyze. rewrite <- (SRC m Hm). f_equal.
    + apply map_ext_in. intros d Hd. rewrite <- (mem_equiv d S0 S' EQ). destruct (mem d S0) eqn:M.
      * apply mem_In in M. rewrite (SRC d M). auto.
      * rewrite (RD m d Hm); auto. split. apply mem_false; auto.
        apply in_app_or in Hd as [Hd|Hd]; [left|right; left]; auto.
    + apply filter_ext_in'. intros d Hd. rewrite <- (mem_equiv d S0 S' EQ). destruct (mem d S0) eqn:M; auto. simpl.
      unfold vis. rewrite (RD m d Hm); auto. split. apply mem_false; auto. right; left; auto.
  - intros S0 src o env m d Hm Hd. simpl in Hd. apply filter_In in Hd as [_ Hd].
    apply andb_true_iff in Hd as [_ Hd]. right. unfold vis in Hd. destruct (env d); congruence.
  - intros S0 src o env m Hd. simpl in Hd. apply filter_In in Hd as [_ Hd].
    apply andb_true_iff in Hd as [Hd _]. apply andb_true_iff in Hd as [_ Hd]. rewrite Nat.eqb_refl in Hd. discriminate.
  - simpl; intros; discriminate.
  - intros S0 src o env m d Hm Hd HnS Hv. right. simpl. apply filter_In. split; auto.
    apply mem_false in HnS. rewrite HnS. simpl. unfold vis. destruct (env d) eqn:E; try congruence. rewrite andb_true_r.
    apply negb_true_iff. apply Nat.eqb_neq. intro; subst. apply mem_false in HnS. auto.
Qed.

Example graph_contract_satisfiable : forall pr, GraphContract (ex_analyze pr ex_none) ex_sccs ex_reach ex_thash.
Proof.
  intros pr. constructor.
  - intros dm [ND CL]. unfold ex_sccs. split; [|split].
    + simpl. rewrite app_nil_r. auto.
    + simpl. intros; rewrite app_nil_r. tauto.
    + intros L1 S0 L2 m ds d H Hm Hl Hd. apply ex_one in H as [-> ->]. simpl. eapply CL; eauto. eapply lookup_In; eauto.
  - intros dm dm' K _ S0 [<-|[]]. exists (map fst dm'). split. left; auto. rewrite K. tauto.
  - intros; discriminate.
  - reflexivity.
  - simpl; tauto.
Qed.

Definition ex_o := {| o_snap := 1; o_version := 1; o_plugin := 0 |}.
Definition W pr im sccs := warm ex_content_of ex_view_of ex_imports pr (ex_analyze pr im) sccs ex_reach ex_sdo ex_thash ex_ign ex_pkg ex_parent ex_blocker.
Definition Cold pr im sccs := cold ex_content_of ex_view_of ex_imports pr (ex_analyze pr im) sccs ex_reach ex_sdo ex_thash ex_ign ex_pkg ex_parent ex_blocker.

(* a history on which everything is fine: an edit changes the diagnostics of an unchanged module, a syntax error
   (text 99 = stamp 198) aborts a run and leaves the cache usable; all side conditions evaluate to true *)
Definition ex_fs1 : FS := [(5, 5); (2, 8)].
Definition ex_fs2 : FS := [(5, 5); (2, 10)].
Definition ex_fs3 : FS := [(5, 5); (2, 198)].
Example ex_history_outputs :
  let c1 := snd (W ex_none ex_none ex_sccs empty_store ex_fs1 ex_o 0) in
  let c2 := snd (W ex_none ex_none ex_sccs c1 ex_fs2 ex_o 1) in
  let c3 := snd (W ex_none ex_none ex_sccs c2 ex_fs3 ex_o 2) in
  (output ex_fs1 (W ex_none ex_none ex_sccs empty_store ex_fs1 ex_o 0), output ex_fs2 (W ex_none ex_none ex_sccs c1 ex_fs2 ex_o 1),
   output ex_fs3 (W ex_none ex_none ex_sccs c2 ex_fs3 ex_o 2), output ex_fs2 (W ex_none ex_none ex_sccs c3 ex_fs2 ex_o 3),
   scc_stable ex_content_of ex_view_of ex_imports ex_none ex_sccs ex_ign ex_pkg ex_parent c1 ex_o ex_fs2,
   probe_fresh ex_content_of ex_view_of ex_none ex_ign c1 ex_o ex_fs2,
   kind_stable ex_content_of ex_view_of ex_ign c1 ex_o ex_fs2,
   implicit_stable ex_content_of ex_view_of ex_imports ex_none ex_none ex_sccs ex_reach ex_ign ex_pkg ex_parent c1 ex_o ex_fs2)
  = (Some ([(5, Some [9]); (2, Some [])], true), Some ([(5, Some [11]); (2, Some [])], true),
     None, Some ([(5, Some [11]); (2, Some [])], true), true, true, true, true).
Proof. vm_compute. reflexivity. Qed.

(* ------------------------------------------------------------------ the FULL statement is refuted: F6, F7, F9 *)
Definition refuted pr im (h : list (FS * opts)) (fs : FS) : Prop :=
  output fs (W pr im ex_sccs2 (runs ex_content_of ex_view_of ex_imports pr (ex_analyze pr im) ex_sccs2 ex_reach ex_sdo ex_thash
                                   ex_ign ex_pkg ex_parent ex_blocker empty_store 0 h) fs ex_o (length h))
  <> output fs (Cold pr im ex_sccs2 fs ex_o 0).

(* F6 (hand history 9001): module 1 = `from pkg import name` (view 6 probes module 3 = pkg.name); pkg/name.py is added *)
Theorem F6_predicted : refuted ex_probes ex_none [([(1, 6)], ex_o)] [(1, 6); (3, 4)].
Proof. unfold refuted. vm_compute. discriminate. Qed.
(* F7 (hand history 9013): module 1 (view 5) imports module 2; b.py (stamp 8 = text 4, kind .py) is replaced by b.pyi
   (stamp 9 = the same text 4, kind .pyi): validate_meta accepts the old entry by hash *)
Theorem F7_predicted : refuted ex_none ex_none [([(1, 5); (2, 8)], ex_o)] [(1, 5); (2, 9)].
Proof. unfold refuted. vm_compute. discriminate. Qed.
(* F9 (hand history 9015, abstract form): module 1 (view 12) refers implicitly to module 3; whether it resolves depends on
   module 3 having been analysed before; the entry written while it did not resolve records nothing about module 3 *)
Theorem F9_predicted : refuted ex_none ex_implicits [([(1, 12)], ex_o)] [(1, 12); (3, 4)].
Proof. unfold refuted. vm_compute. discriminate. Qed.
Print Assumptions F6_predicted.
Print Assumptions F7_predicted.
Print Assumptions F9_predicted.

(* ... and each refutation is caught by its decidable side condition on exactly that step *)
Example refutations_caught_by_side_conditions :
  let c6 := snd (W ex_probes ex_none ex_sccs2 empty_store [(1, 6)] ex_o 0) in
  let c7 := snd (W ex_none ex_none ex_sccs2 empty_store [(1, 5); (2, 8)] ex_o 0) in
  let c9 := snd (W ex_none ex_implicits ex_sccs2 empty_store [(1, 12)] ex_o 0) in
  (probe_fresh ex_content_of ex_view_of ex_probes ex_ign c6 ex_o [(1, 6); (3, 4)],
   kind_stable ex_content_of ex_view_of ex_ign c7 ex_o [(1, 5); (2, 9)],
   implicit_stable ex_content_of ex_view_of ex_imports ex_none ex_implicits ex_sccs2 ex_reach ex_ign ex_pkg ex_parent c9 ex_o [(1, 12); (3, 4)])
  = (false, false, false).
Proof. vm_compute. reflexivity. Qed.

(* the full statement of Statement.v is therefore false for an instance satisfying the analysis contract *)
Theorem warm_equals_cold_refuted :
  exists content_of view_of imports probes implicits analyze sccs_of reach sdo_of thash ign_of pkg_of parent_of blocker,
    AnalysisContract imports probes implicits analyze /\
    ~ warm_equals_cold_for_all_histories content_of view_of imports probes analyze sccs_of reach sdo_of thash ign_of pkg_of parent_of blocker.
Proof.
  exists ex_content_of, ex_view_of, ex_imports, ex_none, ex_none, (ex_analyze ex_none ex_none), ex_sccs2, ex_reach, ex_sdo, ex_thash,
         ex_ign, ex_pkg, ex_parent, ex_blocker.
  split; [apply analysis_contract_satisfiable|].
  intro H. specialize (H [([(1, 5); (2, 8)], ex_o)] [(1, 5); (2, 9)] ex_o 0).
  assert (A : forall fs' o', In (fs', o') [([(1, 5); (2, 8)], ex_o)] -> Statement.FSOK fs').
  { intros fs' o' [X|[]]. inversion X; subst. repeat constructor; simpl; intuition; discriminate. }
  assert (B : Statement.FSOK [(1, 5); (2, 9)]).
  { repeat constructor; simpl; intuition; discriminate. }
  specialize (H A B). apply F7_predicted. exact H.
Qed.
Print Assumptions warm_equals_cold_refuted.
