(* Property C02 — incremental (warm-cache) runs report exactly what a cold run reports.
   Only theorem statements closed by `exact`, each followed by Print Assumptions; then Examples showing that
   the contracts are satisfiable by a concrete, non-trivial instance. *)
From Coq Require Import List Bool Arith Lia.
From C02 Require Import Model Proofs Statement.
Import ListNotations.

Section Theorems.
  Variable content_of : modid -> stamp -> content.
  Variable imports : modid -> content -> opts -> list modid.
  Variable check : modid -> content -> opts -> (modid -> option ihash) -> result.
  Variable analyze : list modid -> (modid -> content) -> opts -> (modid -> option ihash) -> modid -> result.
  Variable sccs_of : list (modid * list modid) -> list (list modid).
  Variable reach : list (modid * list modid) -> modid -> modid -> bool.
  Variable sdo_of : list modid -> opts -> nat.
  Hypothesis AC : AnalysisContract content_of imports check analyze.   (* contract, monitored not proved *)
  Hypothesis GC : GraphContract sccs_of reach.                          (* contract, checked on every observed SCC list *)

  (* every run, from a cache satisfying the invariant, leaves a cache satisfying the invariant *)
  Theorem run_preserves_CacheOK : forall c fs o now,
    CacheOK content_of imports check c -> Proofs.FSOK fs ->
    CacheOK content_of imports check (snd (warm content_of imports analyze sccs_of reach sdo_of c fs o now)).
  Proof. exact (p_run_preserves_CacheOK _ _ _ _ _ _ _ AC GC). Qed.

  (* a warm run from ANY cache satisfying the invariant reports what the cold run reports *)
  Theorem warm_eq_cold : forall c fs o n n',
    CacheOK content_of imports check c -> Proofs.FSOK fs ->
    output fs (warm content_of imports analyze sccs_of reach sdo_of c fs o n)
    = output fs (cold content_of imports analyze sccs_of reach sdo_of fs o n').
  Proof. exact (p_warm_eq_cold _ _ _ _ _ _ _ AC GC). Qed.

  (* the full statement of Statement.v: all finite histories of file-system states (and options), a run after each *)
  Theorem warm_eq_cold_all_histories :
    warm_equals_cold_for_all_histories content_of imports analyze sccs_of reach sdo_of.
  Proof. exact (p_history _ _ _ _ _ _ _ AC GC). Qed.

  (* the same with the property's edits spelled out: any start, any list of Change/Add/Delete edits *)
  Theorem warm_eq_cold_all_edit_lists : forall (fs0 : FS) (es : list edit) (e : edit) (o : opts) n n',
    Proofs.FSOK fs0 ->
    let visited := fs0 :: states fs0 es in
    let final := apply_edit (last visited fs0) e in
    output final (warm content_of imports analyze sccs_of reach sdo_of
                       (runs content_of imports analyze sccs_of reach sdo_of empty_store 0 (map (fun x => (x, o)) visited))
                       final o n)
    = output final (cold content_of imports analyze sccs_of reach sdo_of final o n').
  Proof. exact (p_edits _ _ _ _ _ _ _ AC GC). Qed.
End Theorems.

Print Assumptions run_preserves_CacheOK.
Print Assumptions warm_eq_cold.
Print Assumptions warm_eq_cold_all_histories.
Print Assumptions warm_eq_cold_all_edit_lists.

(* ------------------------------------------------------------------ the hypotheses are satisfiable *)
(* An instance in which diagnostics really depend on the interfaces of the imported modules. *)
Definition ex_content_of (m : modid) (s : stamp) : content := s.
Definition ex_imports (m : modid) (c : content) (o : opts) : list modid := if Nat.even c then [] else [c / 2].
Definition ex_check (m : modid) (c : content) (o : opts) (env : modid -> option ihash) : result :=
  {| r_iface := S c;
     r_errors := map (fun d => match env d with Some h => h | None => 0 end) (ex_imports m c o);
     r_indirect := [] |}.
Definition ex_analyze (S0 : list modid) (src : modid -> content) (o : opts) (env : modid -> option ihash) (m : modid) :=
  ex_check m (src m) o (extend env S0 (fun x => S (src x))).
Definition ex_sccs (dm : list (modid * list modid)) : list (list modid) := [map fst dm].
Definition ex_reach (dm : list (modid * list modid)) (m d : modid) : bool := mem d (map fst dm).
Definition ex_sdo (l : list modid) (o : opts) : nat := length l.

Fact ex_one : forall (l : list modid) L1 S0 L2, [l] = L1 ++ S0 :: L2 -> L1 = [] /\ S0 = l.
Proof.
  intros l [|a L1] S0 L2 H; simpl in H; inversion H; auto.
  exfalso. eapply app_cons_not_nil; eauto.
Qed.

Example analysis_contract_satisfiable : AnalysisContract ex_content_of ex_imports ex_check ex_analyze.
Proof.
  constructor.
  - intros m c o env env' H. unfold ex_check. f_equal. apply map_ext_in. intros d Hd. rewrite H; auto.
  - simpl; tauto.
  - simpl; tauto.
  - simpl; intros; discriminate.
  - intros; reflexivity.
  - intros fs o I E I' E' HFS S1 S2 m G. apply inG_lookup in G as [s Hs].
    destruct (S1 _ _ Hs) as [A1 A2]. destruct (S2 _ _ Hs) as [B1 B2]. simpl in *. split. congruence.
    rewrite A2, B2. apply map_ext_in. intros d _. unfold genv. destruct (inG fs d) eqn:G; auto.
    apply inG_lookup in G as [s' Hs']. destruct (S1 _ _ Hs') as [C1 _]. destruct (S2 _ _ Hs') as [D1 _]. simpl in *. congruence.
Qed.

Example graph_contract_satisfiable : GraphContract ex_sccs ex_reach.
Proof.
  constructor.
  - intros dm [ND CL]. unfold ex_sccs. split; [|split].
    + simpl. rewrite app_nil_r. auto.
    + simpl. intros; rewrite app_nil_r. tauto.
    + intros L1 S0 L2 m ds d H Hm Hl Hd. apply ex_one in H as [-> ->]. simpl. eapply CL; eauto. eapply lookup_In; eauto.
  - intros dm L1 S0 L2 m d H Hm Hr. apply ex_one in H as [-> ->]. simpl. apply mem_In; auto.
Qed.

(* the main theorem instantiated: closed, no hypotheses left *)
Example warm_eq_cold_instance :
  warm_equals_cold_for_all_histories ex_content_of ex_imports ex_analyze ex_sccs ex_reach ex_sdo.
Proof. exact (warm_eq_cold_all_histories _ _ _ _ _ _ _ analysis_contract_satisfiable graph_contract_satisfiable). Qed.

(* a concrete history on which something non-trivial happens: module 1 (content 3 imports module 1? no: 3/2 = 1)
   ... module 5 imports module 2; editing module 2 changes module 5's diagnostics although 5 is unchanged *)
Definition ex_o := {| o_snap := 1; o_version := 1; o_plugin := 0 |}.
Definition ex_fs1 : FS := [(5, 5); (2, 8)].    (* module 5 has content 5 -> imports module 2; module 2 content 8 *)
Definition ex_fs2 : FS := [(5, 5); (2, 10)].   (* module 2 edited *)
Example ex_history_outputs :
  let W := warm ex_content_of ex_imports ex_analyze ex_sccs ex_reach ex_sdo in
  let c1 := snd (W empty_store ex_fs1 ex_o 1) in
  (output ex_fs1 (W empty_store ex_fs1 ex_o 1), output ex_fs2 (W c1 ex_fs2 ex_o 2))
  = (([(5, Some [9]); (2, Some [])], true), ([(5, Some [11]); (2, Some [])], true)).
Proof. vm_compute. reflexivity. Qed.
