(* C02 — proofs: every run establishes/preserves CacheOK and computes a solution of the per-module
   analysis equations; hence warm = cold, for every finite edit history. *)
From Coq Require Import List Bool Arith Lia.
From C02 Require Import Model.
Import ListNotations.

(* ------------------------------------------------------------------ generic helpers *)
Lemma mem_In : forall d l, mem d l = true <-> In d l.
Proof.
  unfold mem; intros; rewrite existsb_exists; split.
  - intros [x [H E]]. apply Nat.eqb_eq in E; subst; auto.
  - intros H; exists d; split; auto. apply Nat.eqb_refl.
Qed.

Lemma mem_false : forall d l, mem d l = false <-> ~ In d l.
Proof. intros; rewrite <- mem_In. destruct (mem d l); split; intros; congruence. Qed.

Lemma list_eqb_eq : forall a b, list_eqb a b = true -> a = b.
Proof.
  induction a; destruct b; simpl; intros; try discriminate; auto.
  apply andb_true_iff in H as [H1 H2]. apply Nat.eqb_eq in H1. f_equal; auto.
Qed.

Lemma lookup_In : forall A (l : list (modid * A)) m v, lookup l m = Some v -> In (m, v) l.
Proof.
  induction l as [|[k w] t]; simpl; intros; try discriminate.
  destruct (Nat.eqb m k) eqn:E. apply Nat.eqb_eq in E; inversion H; subst; auto. right; auto.
Qed.

Lemma lookup_None : forall A (l : list (modid * A)) m, lookup l m = None <-> ~ In m (map fst l).
Proof.
  induction l as [|[k w] t]; simpl; intros. tauto.
  destruct (Nat.eqb m k) eqn:E.
  - apply Nat.eqb_eq in E; subst. split; intros; try discriminate. exfalso; auto.
  - apply Nat.eqb_neq in E. rewrite IHt. split; intros; intuition.
Qed.

Lemma lookup_Some_dom : forall A (l : list (modid * A)) m v, lookup l m = Some v -> In m (map fst l).
Proof. intros. apply lookup_In in H. apply in_map_iff; exists (m, v); auto. Qed.

Lemma lookup_dom : forall A (l : list (modid * A)) m, In m (map fst l) -> exists v, lookup l m = Some v.
Proof. intros. destruct (lookup l m) eqn:E; eauto. apply lookup_None in E; tauto. Qed.

Lemma lookup_app_l : forall A (l1 l2 : list (modid * A)) m v, lookup l1 m = Some v -> lookup (l1 ++ l2) m = Some v.
Proof.
  induction l1 as [|[k w] t]; simpl; intros; try discriminate.
  destruct (Nat.eqb m k); auto.
Qed.

Lemma lookup_app_r : forall A (l1 l2 : list (modid * A)) m, lookup l1 m = None -> lookup (l1 ++ l2) m = lookup l2 m.
Proof.
  induction l1 as [|[k w] t]; simpl; intros; auto.
  destruct (Nat.eqb m k); try discriminate; auto.
Qed.

Lemma lookup_map_fn : forall A (f : modid -> A) S m, In m S -> lookup (map (fun x => (x, f x)) S) m = Some (f m).
Proof.
  induction S; simpl; intros. tauto.
  destruct (Nat.eqb m a) eqn:E. apply Nat.eqb_eq in E; subst; auto.
  apply Nat.eqb_neq in E. destruct H; [congruence | auto].
Qed.

Lemma lookup_map_fn_None : forall A (f : modid -> A) S m, ~ In m S -> lookup (map (fun x => (x, f x)) S) m = None.
Proof. intros. apply lookup_None. rewrite map_map; simpl. rewrite map_id. auto. Qed.

Lemma inG_In : forall fs d, inG fs d = true <-> In d (map fst fs).
Proof. intros; apply mem_In. Qed.

Lemma inG_lookup : forall (fs : FS) d, inG fs d = true <-> exists s, lookup fs d = Some s.
Proof.
  intros; rewrite inG_In; split. apply lookup_dom. intros [s H]; eapply lookup_Some_dom; eauto.
Qed.

Lemma found_In : forall fs l d, In d (found fs l) <-> In d l /\ inG fs d = true.
Proof. intros; unfold found; apply filter_In. Qed.

Lemma notfound_In : forall fs l d, In d (notfound fs l) <-> In d l /\ inG fs d = false.
Proof. intros; unfold notfound; rewrite filter_In. rewrite negb_true_iff. tauto. Qed.

Lemma found_all : forall fs l, (forall d, In d l -> inG fs d = true) -> found fs l = l.
Proof.
  induction l; simpl; intros; auto. rewrite H by auto. f_equal; auto.
Qed.

Lemma found_length : forall fs l, length (found fs l) <= length l.
Proof. intros; unfold found. induction l; simpl; auto. destruct (inG fs a); simpl; lia. Qed.

(* State.is_fresh's list comparison: equality of the adjusted list with the cached one means that
   every cached dependency (direct and indirect) is still found and no suppressed one has appeared *)
Lemma deps_eq_spec : forall fs D X Sp,
  found fs D ++ found fs X ++ found fs Sp = D ++ X ->
  (forall d, In d (D ++ X) -> inG fs d = true) /\ found fs Sp = [].
Proof.
  intros fs D X Sp H.
  assert (A : forall d, In d (D ++ X) -> inG fs d = true).
  { intros d Hd. rewrite <- H in Hd. rewrite !in_app_iff in Hd. rewrite !found_In in Hd. tauto. }
  split; auto.
  rewrite (found_all fs D) in H by (intros; apply A; apply in_or_app; auto).
  rewrite (found_all fs X) in H by (intros; apply A; apply in_or_app; auto).
  apply app_inv_head in H. rewrite <- (app_nil_r X) in H at 2. apply app_inv_head in H. auto.
Qed.

Lemma combine_map_In : forall (f : modid -> ihash) l d h, In (d, h) (combine l (map f l)) -> h = f d /\ In d l.
Proof.
  induction l; simpl; intros. tauto.
  destruct H. inversion H; subst; auto. apply IHl in H; tauto.
Qed.

Lemma combine_In_ex : forall (l : list modid) (hs : list ihash) d, length hs = length l -> In d l -> exists h, In (d, h) (combine l hs).
Proof.
  induction l; destruct hs; simpl; intros; try discriminate; try tauto.
  destruct H0. subst; eauto. destruct (IHl hs d) as [h Hh]; auto. eauto.
Qed.

Lemma NoDup_app_r' : forall (a b : list modid), NoDup (a ++ b) -> NoDup b.
Proof. induction a; simpl; intros; auto. inversion H; auto. Qed.

Lemma NoDup_app_l' : forall (a b : list modid), NoDup (a ++ b) -> NoDup a.
Proof.
  induction a; simpl; intros. constructor. inversion H; subst. constructor; eauto.
  intro; apply H2; apply in_or_app; auto.
Qed.

Lemma NoDup_app_disj : forall (a b : list modid) x, NoDup (a ++ b) -> In x a -> In x b -> False.
Proof.
  induction a; simpl; intros; try tauto. inversion H; subst. destruct H0; subst; eauto.
  apply H4; apply in_or_app; auto.
Qed.

(* ------------------------------------------------------------------ the development *)
Section Correct.
  Variable content_of : modid -> stamp -> content.
  Variable imports : modid -> content -> opts -> list modid.
  Variable probes : modid -> content -> opts -> list modid.
  Variable check : modid -> content -> opts -> (modid -> option ihash) -> result.
  Variable analyze : list modid -> (modid -> content) -> opts -> (modid -> option ihash) -> modid -> result.
  Variable sccs_of : list (modid * list modid) -> list (list modid).
  Variable reach : list (modid * list modid) -> modid -> modid -> bool.
  Variable sdo_of : list modid -> opts -> nat.
  Variable thash : list (modid * list modid) -> modid -> nat.
  Variable ign_of : modid -> stamp -> opts -> bool.
  Variable blocker : modid -> content -> bool.

  (* ---- the analysis contract (monitored on the implementation, not proved) *)
  (* the result for a module depends on the environment only through its import candidates and the
     modules it reports as indirect dependencies *)
  Hypothesis check_reads : forall m c o env env',
    (forall d, In d (imports m c o ++ probes m c o) \/ In d (r_indirect (check m c o env)) -> env d = env' d) ->
    check m c o env = check m c o env'.
  Hypothesis check_indirect_dom : forall m c o env d, In d (r_indirect (check m c o env)) -> env d <> None.
  Hypothesis indirect_noself : forall m c o env, ~ In m (r_indirect (check m c o env)).
  Hypothesis iface_nonzero : forall m c o env, r_iface (check m c o env) <> 0.
  (* analysing an SCC yields, for each member, the per-module result w.r.t. the final interfaces *)
  Hypothesis analyze_local : forall S src o env m, In m S ->
    analyze S src o env m = check m (src m) o (extend env S (fun x => r_iface (analyze S src o env x))).

  (* ---- the graph-algorithm contract *)
  Definition graph_ok (dm : list (modid * list modid)) : Prop :=
    NoDup (map fst dm) /\ forall m ds d, In (m, ds) dm -> In d ds -> In d (map fst dm).
  Definition sccs_ok (dm : list (modid * list modid)) (L : list (list modid)) : Prop :=
    NoDup (concat L) /\ (forall m, In m (concat L) <-> In m (map fst dm)) /\
    (forall L1 S L2 m ds d, L = L1 ++ S :: L2 -> In m S -> lookup dm m = Some ds -> In d ds -> In d (concat L1 ++ S)).
  Hypothesis sccs_spec : forall dm, graph_ok dm -> sccs_ok dm (sccs_of dm).
  Hypothesis reach_before : forall dm L1 S L2 m d,
    sccs_of dm = L1 ++ S :: L2 -> In m S -> reach dm m d = true -> In d (concat L1 ++ S).
  (* hash injectivity, as used by the fast path of verify_transitive_deps: equal trans_dep_hash => same transitive
     import structure below the module, hence the same reachable modules *)
  Hypothesis thash_reach : forall dm dm' m, thash dm m = thash dm' m -> forall d, reach dm m d = reach dm' m d.
  (* mypy's stated invariant: indirect dependencies reported by the analysis are reachable through direct imports *)
  Hypothesis indirect_reach : forall dm S src o env m d,
    In S (sccs_of dm) -> In m S -> In d (r_indirect (analyze S src o env m)) -> reach dm m d = true.

  Notation find_cache_meta := Model.find_cache_meta.
  Notation load_meta := (Model.load_meta content_of ign_of).
  Notation validate_meta := (Model.validate_meta content_of ign_of).
  Notation restamp := (Model.restamp content_of ign_of).
  Notation cands := (Model.cands content_of imports probes ign_of).
  Notation direct_deps := (Model.direct_deps content_of imports probes ign_of).
  Notation supp_deps := (Model.supp_deps content_of imports ign_of).
  Notation old_indirect := (Model.old_indirect content_of ign_of).
  Notation new_indirect := (Model.new_indirect content_of imports probes ign_of).
  Notation depmap := (Model.depmap content_of imports probes ign_of).
  Notation is_fresh := (Model.is_fresh content_of sdo_of ign_of).
  Notation dep_hashes_ok := (Model.dep_hashes_ok content_of ign_of).
  Notation trans_ok := (Model.trans_ok content_of reach thash ign_of).
  Notation scc_fresh := (Model.scc_fresh content_of reach sdo_of thash ign_of).
  Notation cached_pm := (Model.cached_pm content_of ign_of).
  Notation fresh_pm := (Model.fresh_pm ign_of).
  Notation src_of := (Model.src_of content_of).
  Notation write_module := (Model.write_module content_of imports probes sdo_of thash ign_of).
  Notation process_scc := (Model.process_scc content_of imports probes analyze reach sdo_of thash ign_of).
  Notation run := (Model.run content_of imports probes analyze sccs_of reach sdo_of thash ign_of).

  Definition eo (e : meta) : opts := {| o_snap := m_snap e; o_version := m_version e; o_plugin := m_plugin e |}.

  (* an entry was produced by `check` on exactly the inputs its hashes name *)
  Definition EntryOK (m : modid) (e : meta) (x : meta_ex) : Prop :=
    (m_hash e = content_of m (m_stamp e) /\ blocker m (m_hash e) = false) /\
    exists envm, let r := check m (m_hash e) (eo e) envm in
      m_ihash e = r_iface r /\ x_errors x = (if m_ignore_all e then [] else r_errors r) /\
      incl (imports m (m_hash e) (eo e)) (m_deps e ++ m_supp e) /\
      incl (r_indirect r) (m_deps e ++ x_deps x) /\
      (forall d h, In (d, h) (combine (m_deps e ++ x_deps x) (m_dep_hashes e ++ x_dep_hashes x)) -> envm d = Some h) /\
      length (m_dep_hashes e ++ x_dep_hashes x) = length (m_deps e ++ x_deps x) /\
      (forall d, In d (m_supp e) -> envm d = None) /\
      (forall d, In d (probes m (m_hash e) (eo e)) -> In d (m_deps e) \/ envm d = None) /\
      (forall dm d, thash dm m = m_thash e -> In d (r_indirect r) -> reach dm m d = true).

  Definition CacheOK (c : store) : Prop :=
    (forall m e x, s_meta c m = Some e -> s_ex c m = Some x -> EntryOK m e x) /\
    (forall m e d, s_meta c m = Some e -> s_data c m = Some d -> d_iface d = m_ihash e).

  Lemma CacheOK_empty : CacheOK empty_store.
  Proof. split; simpl; intros; discriminate. Qed.

  Definition FSOK (fs : FS) : Prop := NoDup (map fst fs).

  (* ---- facts about find / validate / load *)
  Lemma find_spec : forall c o m e x, find_cache_meta c o m = Some (e, x) ->
    s_meta c m = Some e /\ s_ex c m = Some x /\ eo e = o.
  Proof.
    unfold Model.find_cache_meta; intros c o m e x H.
    destruct (s_meta c m) as [e0|]; try discriminate. destruct (s_ex c m) as [x0|]; try discriminate.
    destruct (_ && _) eqn:E; try discriminate. inversion H; subst.
    apply andb_true_iff in E as [E E3]. apply andb_true_iff in E as [E1 E2].
    apply Nat.eqb_eq in E1, E2, E3. repeat split; auto. unfold eo. destruct o; simpl in *; congruence.
  Qed.

  Lemma load_spec : forall c o fs m e x, load_meta c o fs m = Some (e, x) ->
    exists s, lookup fs m = Some s /\ find_cache_meta c o m = Some (e, x) /\ validate_meta c o m s e = true.
  Proof.
    unfold Model.load_meta; intros. destruct (lookup fs m) as [s|]; try discriminate.
    destruct (find_cache_meta c o m) as [[e0 x0]|]; try discriminate.
    destruct (validate_meta c o m s e0) eqn:V; try discriminate. inversion H; subst. eauto.
  Qed.

  Lemma validate_spec : forall c o m s e, validate_meta c o m s e = true ->
    m_hash e = content_of m (m_stamp e) ->
    m_hash e = content_of m s /\ (exists d, s_data c m = Some d) /\ (m_ignore_all e = true -> ign_of m s o = true).
  Proof.
    unfold Model.validate_meta; intros c o m s e H Hh.
    apply andb_true_iff in H as [H H3]. apply andb_true_iff in H as [H1 H2].
    split; [|split].
    - apply orb_true_iff in H3 as [H3|H3]; apply Nat.eqb_eq in H3; congruence.
    - destruct (s_data c m); try discriminate; eauto.
    - intros I. rewrite I in H1. simpl in H1. auto.
  Qed.

  (* everything one needs to know about a module whose cached meta was accepted *)
  Lemma load_ok : forall c o fs m e x, CacheOK c -> load_meta c o fs m = Some (e, x) ->
    exists s d, lookup fs m = Some s /\ s_meta c m = Some e /\ s_ex c m = Some x /\ s_data c m = Some d /\
      eo e = o /\ m_hash e = content_of m s /\ d_iface d = m_ihash e /\ EntryOK m e x /\
      find_cache_meta c o m = Some (e, x) /\ (m_ignore_all e = true -> ign_of m s o = true).
  Proof.
    intros c o fs m e x [C1 C2] H. apply load_spec in H as [s [Hs [Hf Hv]]].
    pose proof (find_spec _ _ _ _ _ Hf) as [Hm [Hx Ho]].
    pose proof (C1 _ _ _ Hm Hx) as EOK. pose proof EOK as [[Hh _] _].
    destruct (validate_spec _ _ _ _ _ Hv Hh) as [Hsrc [[d Hd] Hig]].
    exists s, d. assert (d_iface d = m_ihash e) by (eapply C2; eauto).
    split; [auto|]. split; [auto|]. split; [auto|]. split; [auto|]. split; [auto|]. split; [auto|].
    split; [auto|]. split; [auto|]. split; auto.
  Qed.

  (* The condition under which reusing the cached dependency lists is right: no probed name that was NOT a module when
     the entry was written is a module now.  mypy does not check it (finding: `from pkg import name`, then pkg/name.py
     is added). *)
  Definition ProbeFresh (c : store) (o : opts) (fs : FS) : Prop :=
    forall m e x s, load_meta c o fs m = Some (e, x) -> lookup fs m = Some s ->
      forall d, In d (probes m (content_of m s) o) -> inG fs d = true -> In d (m_deps e).

  Lemma imports_in_cands : forall c o fs m s d, CacheOK c -> ProbeFresh c o fs -> lookup fs m = Some s ->
    In d (imports m (content_of m s) o ++ probes m (content_of m s) o) -> inG fs d = true -> In d (cands c o fs m s).
  Proof.
    intros c o fs m s d HC HP Hs Hd HG. unfold Model.cands. destruct (load_meta c o fs m) as [[e x]|] eqn:L; auto.
    destruct (load_ok _ _ _ _ _ _ HC L) as [s' [dd [Hs' [_ [_ [_ [Ho [Hh [_ [[_ [envm EOK]] _]]]]]]]]]].
    rewrite Hs in Hs'; inversion Hs'; subst s'. simpl in EOK. destruct EOK as [_ [_ [Hi _]]].
    rewrite Hh, Ho in Hi. apply in_app_or in Hd as [Hd|Hd]. apply Hi; auto.
    apply in_or_app; left. eapply HP; eauto.
  Qed.

  Lemma hard_in_cands : forall c o fs m s, CacheOK c -> lookup fs m = Some s ->
    incl (imports m (content_of m s) o) (Model.hard_cands content_of imports ign_of c o fs m s).
  Proof.
    intros c o fs m s HC Hs. unfold Model.hard_cands. destruct (load_meta c o fs m) as [[e x]|] eqn:L.
    - destruct (load_ok _ _ _ _ _ _ HC L) as [s' [dd [Hs' [_ [_ [_ [Ho [Hh [_ [[_ [envm EOK]] _]]]]]]]]]].
      rewrite Hs in Hs'; inversion Hs'; subst s'. simpl in EOK. destruct EOK as [_ [_ [Hi _]]].
      rewrite Hh, Ho in Hi. exact Hi.
    - apply incl_refl.
  Qed.

  Lemma lookup_depmap : forall c o (fs : FS) m s, lookup fs m = Some s ->
    lookup (depmap c o fs) m = Some (direct_deps c o fs m s).
  Proof.
    intros c o fs m s. unfold Model.depmap. generalize (direct_deps c o fs) as f. intros f.
    induction fs as [|[k v] t]; simpl; intros; try discriminate.
    destruct (Nat.eqb m k) eqn:E. apply Nat.eqb_eq in E; subst. inversion H; subst; auto. auto.
  Qed.

  Lemma depmap_dom : forall c o fs, map fst (depmap c o fs) = map fst fs.
  Proof. intros; unfold Model.depmap. rewrite map_map; simpl. auto. Qed.

  Lemma depmap_ok : forall c o fs, FSOK fs -> graph_ok (depmap c o fs).
  Proof.
    intros c o fs H; split. rewrite depmap_dom; auto.
    intros m ds d Hin Hd. rewrite depmap_dom. unfold Model.depmap in Hin. apply in_map_iff in Hin as [[k v] [E _]].
    simpl in E. inversion E; subst. unfold Model.direct_deps in Hd. apply found_In in Hd as [_ Hd]. apply inG_In; auto.
  Qed.

  (* ---- the per-module equations a run solves *)
  Definition Good (fs : FS) (o : opts) (env : penv) : Prop :=
    forall m p, lookup env m = Some p -> exists s, lookup fs m = Some s /\
      let r := check m (content_of m s) o (ienv env) in
      p_iface p = r_iface r /\ p_errors p = (if ign_of m s o then [] else r_errors r) /\ p_hash p = p_iface p.

  Definition Closed (fs : FS) (o : opts) (env : penv) : Prop :=
    forall m s d, In m (map fst env) -> lookup fs m = Some s ->
                  In d (imports m (content_of m s) o ++ probes m (content_of m s) o) ->
                  inG fs d = true -> In d (map fst env).

  Lemma good_dom : forall fs o env m, Good fs o env -> In m (map fst env) -> inG fs m = true.
  Proof. intros. apply lookup_dom in H0 as [p Hp]. apply H in Hp as [s [Hs _]]. apply inG_lookup; eauto. Qed.

  (* extending the environment does not disturb the modules already processed *)
  Lemma good_extend : forall fs o env ext m p,
    Good fs o env -> Closed fs o env -> (forall d, In d (map fst ext) -> inG fs d = true) ->
    lookup env m = Some p -> exists s, lookup fs m = Some s /\
      let r := check m (content_of m s) o (ienv (env ++ ext)) in
      p_iface p = r_iface r /\ p_errors p = (if ign_of m s o then [] else r_errors r) /\ p_hash p = p_iface p.
  Proof.
    intros fs o env ext m p HG HC Hext Hp. destruct (HG _ _ Hp) as [s [Hs H]]. exists s; split; auto.
    simpl in *. replace (check m (content_of m s) o (ienv (env ++ ext))) with (check m (content_of m s) o (ienv env)); auto.
    apply check_reads. intros d [Hd|Hd]; unfold ienv.
    - destruct (inG fs d) eqn:G.
      + assert (In d (map fst env)) by (eapply HC; eauto; eapply lookup_Some_dom; eauto).
        apply lookup_dom in H0 as [q Hq]. rewrite Hq. erewrite lookup_app_l; eauto.
      + assert (N1 : lookup env d = None).
        { apply lookup_None. intro. apply (good_dom fs o) in H0; auto. congruence. }
        rewrite N1. rewrite lookup_app_r by auto.
        assert (N2 : lookup ext d = None). { apply lookup_None. intro X. apply Hext in X. congruence. }
        rewrite N2; auto.
    - apply check_indirect_dom in Hd. unfold ienv in Hd. destruct (lookup env d) eqn:Q; simpl in Hd; try congruence.
      erewrite lookup_app_l; eauto.
  Qed.

  (* ---- facts about the SCC being processed *)
  Lemma step_facts : forall c o fs L1 S L2 (env : penv),
    FSOK fs -> sccs_of (depmap c o fs) = L1 ++ S :: L2 -> map fst env = concat L1 ->
    (forall m, In m S -> inG fs m = true) /\ (forall m, In m S -> ~ In m (map fst env)) /\ NoDup S /\
    (forall m s d, In m S -> lookup fs m = Some s -> In d (direct_deps c o fs m s) -> In d (map fst env ++ S)).
  Proof.
    intros c o fs L1 S L2 env HFS HL Hdom.
    destruct (sccs_spec _ (depmap_ok c o fs HFS)) as [ND [Hcov Htopo]]. rewrite HL in *.
    rewrite concat_app in ND, Hcov. simpl in ND, Hcov.
    repeat split.
    - intros m Hm. apply inG_In. rewrite <- (depmap_dom c o fs). apply Hcov. rewrite !in_app_iff; auto.
    - intros m Hm Hin. rewrite Hdom in Hin. eapply NoDup_app_disj; eauto. apply in_or_app; auto.
    - apply NoDup_app_r' in ND. apply NoDup_app_l' in ND. auto.
    - intros m s d Hm Hs Hd. rewrite Hdom. eapply Htopo; eauto. apply lookup_depmap; auto.
  Qed.

  Lemma fresh_parts : forall c o fs dm env S m, scc_fresh c o fs dm env S = true -> In m S ->
    is_fresh c o fs m = true /\ dep_hashes_ok c o fs env m = true /\ trans_ok c o fs dm S m = true.
  Proof.
    unfold Model.scc_fresh; intros. apply andb_true_iff in H as [H H3]. apply andb_true_iff in H as [H1 H2].
    rewrite forallb_forall in H1, H2, H3. auto.
  Qed.

  Lemma is_fresh_spec : forall c o fs m, is_fresh c o fs m = true ->
    exists e x, load_meta c o fs m = Some (e, x) /\
      (forall d, In d (m_deps e ++ x_deps x) -> inG fs d = true) /\ found fs (m_supp e) = [].
  Proof.
    unfold Model.is_fresh; intros. destruct (load_meta c o fs m) as [[e x]|]; try discriminate.
    apply andb_true_iff in H as [H _]. apply list_eqb_eq in H. apply deps_eq_spec in H. exists e, x; tauto.
  Qed.

  Lemma cached_pm_eq : forall c o fs m e x d s, load_meta c o fs m = Some (e, x) -> s_data c m = Some d ->
    lookup fs m = Some s ->
    cached_pm c o fs m = {| p_hash := m_ihash e; p_iface := d_iface d;
                            p_errors := if ign_of m s o then [] else x_errors x |}.
  Proof. intros. unfold Model.cached_pm. rewrite H, H0, H1. auto. Qed.

  (* ---- a fresh SCC: the replayed results solve the equations *)
  Lemma fresh_good : forall c o fs L1 S L2 env m,
    CacheOK c -> ProbeFresh c o fs -> FSOK fs -> sccs_of (depmap c o fs) = L1 ++ S :: L2 -> map fst env = concat L1 ->
    Good fs o env -> scc_fresh c o fs (depmap c o fs) env S = true -> In m S ->
    exists s, lookup fs m = Some s /\
      let r := check m (content_of m s) o (ienv (env ++ map (fun x => (x, cached_pm c o fs x)) S)) in
      p_iface (cached_pm c o fs m) = r_iface r /\
      p_errors (cached_pm c o fs m) = (if ign_of m s o then [] else r_errors r) /\
      p_hash (cached_pm c o fs m) = p_iface (cached_pm c o fs m).
  Proof.
    intros c o fs L1 S L2 env m HC HP HFS HL Hdom HG HF Hm.
    destruct (step_facts _ _ _ _ _ _ _ HFS HL Hdom) as [SinG [Sdisj [SND Stopo]]].
    destruct (fresh_parts _ _ _ _ _ _ _ HF Hm) as [F1 [F2 F3]].
    destruct (is_fresh_spec _ _ _ _ F1) as [e [x [L [Hall Hsupp]]]].
    destruct (load_ok _ _ _ _ _ _ HC L) as [s [d [Hs [Hme [Hx [Hd [Ho [Hh [Hdi [[_ [envm EOK]] [Hfind Hig]]]]]]]]]]].
    simpl in EOK. destruct EOK as [E1 [E2 [E3 [E4 [E5 [E6 [E7 [E8 E9]]]]]]]].
    exists s; split; auto. rewrite (cached_pm_eq _ _ _ _ _ _ _ _ L Hd Hs); simpl.
    set (env' := env ++ map (fun x0 => (x0, cached_pm c o fs x0)) S).
    rewrite Hh, Ho in *.
    assert (AG : forall d0, In d0 (m_deps e ++ x_deps x) ->
                 In d0 (m_deps e) \/ In d0 (r_indirect (check m (content_of m s) o envm)) -> envm d0 = ienv env' d0).
    { intros d0 Hd0 HR. destruct (combine_In_ex _ _ d0 E6 Hd0) as [h Hh0]. rewrite (E5 _ _ Hh0).
      unfold Model.dep_hashes_ok in F2. rewrite L in F2. rewrite forallb_forall in F2. specialize (F2 _ Hh0). simpl in F2.
      rewrite (Hall _ Hd0) in F2. simpl in F2. apply Nat.eqb_eq in F2. unfold Model.cur_hash in F2.
      unfold ienv, env'. destruct (lookup env d0) as [q|] eqn:Q.
      - erewrite lookup_app_l by eauto. simpl. destruct (HG _ _ Q) as [_ [_ [_ [_ Hq]]]]. congruence.
      - rewrite lookup_app_r by auto.
        assert (In d0 S).
        { assert (In d0 (map fst env ++ S)).
          { assert (DIR : In d0 (m_deps e) -> In d0 (map fst env ++ S)).
            { intros A. eapply Stopo; eauto. unfold Model.direct_deps, Model.cands. rewrite L. apply found_In. split.
              apply in_or_app; auto. apply Hall. apply in_or_app; auto. }
            destruct HR as [HRd|HRi]; auto.
            apply in_app_or in Hd0 as [Hd0|Hd0]; auto.
            unfold Model.trans_ok in F3. rewrite L in F3. apply orb_true_iff in F3 as [FT|F3].
            - apply Nat.eqb_eq in FT. rewrite Hdom. eapply reach_before; eauto.
            - rewrite forallb_forall in F3. specialize (F3 _ Hd0).
              apply orb_true_iff in F3 as [F3|F3]. apply mem_In in F3. apply in_or_app; auto.
              rewrite Hdom. eapply reach_before; eauto. }
          apply in_app_or in H as [H|H]; auto. apply lookup_None in Q. tauto. }
        rewrite (lookup_map_fn _ (cached_pm c o fs) S d0 H). simpl.
        destruct (fresh_parts _ _ _ _ _ _ _ HF H) as [G1 _].
        destruct (is_fresh_spec _ _ _ _ G1) as [e0 [x0 [L0 _]]].
        destruct (load_ok _ _ _ _ _ _ HC L0) as [s0 [dd [Hs0 [_ [_ [Hdd [_ [_ [Hddi [_ [Hfind0 _]]]]]]]]]]].
        rewrite Hfind0 in F2. rewrite (cached_pm_eq _ _ _ _ _ _ _ _ L0 Hdd Hs0). simpl. congruence. }
    assert (DOM : forall d0, inG fs d0 = false -> ienv env' d0 = None).
    { intros d0 Hd0. unfold ienv, env'. destruct (lookup (env ++ map (fun x1 => (x1, cached_pm c o fs x1)) S) d0) eqn:Q; auto.
      apply lookup_Some_dom in Q. rewrite map_app, in_app_iff in Q. destruct Q as [Q|Q].
      - apply (good_dom fs o) in Q; auto. congruence.
      - rewrite map_map in Q; simpl in Q. rewrite map_id in Q. apply SinG in Q. congruence. }
    replace (check m (content_of m s) o (ienv env')) with (check m (content_of m s) o envm).
    { split; [congruence|]. split; [|congruence].
      destruct (ign_of m s o) eqn:IG; auto. rewrite E2.
      destruct (m_ignore_all e) eqn:MI; auto. specialize (Hig eq_refl). discriminate. }
    apply check_reads. intros d0 [Hd0|Hd0].
    - apply in_app_or in Hd0 as [Hd0|Hp].
      + apply E3 in Hd0. apply in_app_or in Hd0 as [Hd0|Hd0].
        * apply AG; [apply in_or_app; auto | left; auto].
        * rewrite (E7 _ Hd0). symmetry. apply DOM.
          destruct (inG fs d0) eqn:G; auto. assert (In d0 (found fs (m_supp e))) by (apply found_In; auto).
          rewrite Hsupp in H. inversion H.
      + destruct (inG fs d0) eqn:G.
        * assert (In d0 (m_deps e)) by (eapply HP; eauto). apply AG; [apply in_or_app; auto | left; auto].
        * destruct (E8 _ Hp) as [X|X]. apply AG; [apply in_or_app; auto | left; auto]. rewrite X. symmetry. apply DOM; auto.
    - apply AG; [apply E4; auto | right; auto].
  Qed.
  (* ---- a stale SCC: the re-analysed results solve the equations *)
  Lemma ienv_stale : forall fs o (env : penv) S (R : modid -> result) d,
    (forall m, In m S -> ~ In m (map fst env)) ->
    ienv (env ++ map (fun m => (m, fresh_pm fs o R m)) S) d = extend (ienv env) S (fun x => r_iface (R x)) d.
  Proof.
    intros fs o env S R d Hdisj. unfold ienv, extend. destruct (mem d S) eqn:M.
    - apply mem_In in M. rewrite lookup_app_r by (apply lookup_None; auto).
      rewrite (lookup_map_fn _ (fun m => fresh_pm fs o R m) S d M). auto.
    - apply mem_false in M. destruct (lookup env d) eqn:Q.
      + erewrite lookup_app_l; eauto.
      + rewrite lookup_app_r by auto. rewrite (lookup_map_fn_None _ (fun m => fresh_pm fs o R m) S d M). auto.
  Qed.

  Lemma src_of_eq : forall (fs : FS) m s, lookup fs m = Some s -> src_of fs m = content_of m s.
  Proof. intros. unfold Model.src_of. rewrite H. auto. Qed.

  Lemma stale_good : forall c o fs L1 S L2 (env : penv) m,
    FSOK fs -> sccs_of (depmap c o fs) = L1 ++ S :: L2 -> map fst env = concat L1 -> In m S ->
    let R := analyze S (src_of fs) o (ienv env) in
    exists s, lookup fs m = Some s /\
      R m = check m (content_of m s) o (ienv (env ++ map (fun m => (m, fresh_pm fs o R m)) S)).
  Proof.
    intros c o fs L1 S L2 env m HFS HL Hdom Hm R.
    destruct (step_facts _ _ _ _ _ _ _ HFS HL Hdom) as [SinG [Sdisj [SND Stopo]]].
    destruct (proj1 (inG_lookup fs m) (SinG _ Hm)) as [s Hs]. exists s; split; auto.
    unfold R at 1. rewrite analyze_local by auto. rewrite (src_of_eq _ _ _ Hs).
    apply check_reads. intros d _. symmetry. apply ienv_stale; auto.
  Qed.

  (* ---- the invariant of the SCC loop, environment part *)
  Lemma closed_step : forall c o fs L1 S L2 (env : penv) (ext : penv),
    CacheOK c -> ProbeFresh c o fs -> FSOK fs -> sccs_of (depmap c o fs) = L1 ++ S :: L2 -> map fst env = concat L1 ->
    map fst ext = S -> Closed fs o env -> Closed fs o (env ++ ext).
  Proof.
    intros c o fs L1 S L2 env ext HC HP HFS HL Hdom Hext HCl m s d Hm Hs Hd HG.
    destruct (step_facts _ _ _ _ _ _ _ HFS HL Hdom) as [SinG [Sdisj [SND Stopo]]].
    rewrite map_app, Hext in *. apply in_app_or in Hm as [Hm|Hm].
    - apply in_or_app; left. eapply HCl; eauto.
    - eapply Stopo; eauto. unfold Model.direct_deps. apply found_In. split; auto.
      eapply imports_in_cands; eauto.
  Qed.

  Lemma good_step : forall c o fs L1 S L2 (env : penv) (f : modid -> pm),
    FSOK fs -> sccs_of (depmap c o fs) = L1 ++ S :: L2 -> map fst env = concat L1 ->
    Good fs o env -> Closed fs o env ->
    (forall m, In m S -> exists s, lookup fs m = Some s /\
       let r := check m (content_of m s) o (ienv (env ++ map (fun x => (x, f x)) S)) in
       p_iface (f m) = r_iface r /\ p_errors (f m) = (if ign_of m s o then [] else r_errors r) /\ p_hash (f m) = p_iface (f m)) ->
    Good fs o (env ++ map (fun x => (x, f x)) S).
  Proof.
    intros c o fs L1 S L2 env f HFS HL Hdom HG HCl Hnew m p Hp.
    destruct (step_facts _ _ _ _ _ _ _ HFS HL Hdom) as [SinG [Sdisj [SND Stopo]]].
    destruct (lookup env m) as [q|] eqn:Q.
    - erewrite lookup_app_l in Hp by eauto. inversion Hp; subst q.
      eapply good_extend; eauto. intros d Hd. rewrite map_map in Hd; simpl in Hd. rewrite map_id in Hd. auto.
    - rewrite lookup_app_r in Hp by auto.
      assert (In m S).
      { apply lookup_Some_dom in Hp. rewrite map_map in Hp; simpl in Hp. rewrite map_id in Hp. auto. }
      rewrite (lookup_map_fn _ f S m H) in Hp. inversion Hp; subst p. auto.
  Qed.
  (* ---- the cache entry written for a re-analysed module satisfies EntryOK *)
  Lemma ienv_dom : forall fs o (env : penv) d, Good fs o env -> ienv env d <> None -> In d (map fst env) /\ inG fs d = true.
  Proof.
    intros. unfold ienv in H0. destruct (lookup env d) eqn:Q; simpl in H0; try congruence.
    apply lookup_Some_dom in Q. split; auto. eapply good_dom; eauto.
  Qed.

  Lemma new_entry_ok : forall c o fs (env' : penv) m s (R : modid -> result) dmt dm,
    CacheOK c -> ProbeFresh c o fs -> Good fs o env' -> Closed fs o env' -> In m (map fst env') -> lookup fs m = Some s ->
    R m = check m (content_of m s) o (ienv env') -> blocker m (content_of m s) = false ->
    (forall d, In d (r_indirect (R m)) -> reach dm m d = true) ->
    EntryOK m
      {| m_stamp := s; m_hash := content_of m s; m_deps := direct_deps c o fs m s; m_supp := supp_deps c o fs m s;
         m_snap := o_snap o; m_version := o_version o; m_plugin := o_plugin o;
         m_sdo := sdo_of (supp_deps c o fs m s) o; m_ihash := r_iface (R m);
         m_dep_hashes := map (cur_hash c o env') (direct_deps c o fs m s); m_thash := thash dm m;
         m_ignore_all := ign_of m s o;
         m_data_mtime := dmt |}
      {| x_deps := new_indirect c o fs m s (R m);
         x_dep_hashes := map (cur_hash c o env') (new_indirect c o fs m s (R m));
         x_errors := if ign_of m s o then [] else r_errors (R m) |}.
  Proof.
    intros c o fs env' m s R dmt dm HC HP HG HCl Hm Hs HR HNB HRch.
    set (deps := direct_deps c o fs m s). set (supp := supp_deps c o fs m s).
    set (ind := new_indirect c o fs m s (R m)).
    assert (INDG : forall d, In d ind -> inG fs d = true).
    { intros d Hd. unfold ind, Model.new_indirect in Hd. apply in_app_or in Hd as [Hd|Hd].
      - unfold Model.old_indirect in Hd. destruct (load_meta c o fs m) as [[e x]|]; simpl in Hd; try tauto.
        apply found_In in Hd; tauto.
      - apply filter_In in Hd as [Hd _]. rewrite HR in Hd. apply check_indirect_dom in Hd.
        eapply ienv_dom; eauto. }
    assert (DEPG : forall d, In d deps -> inG fs d = true).
    { intros d Hd. apply found_In in Hd; tauto. }
    split; [split; [reflexivity|exact HNB]|]. simpl.
    exists (fun d => match lookup env' d with
                     | Some q => Some (p_iface q)
                     | None => if mem d (deps ++ ind) then Some (cur_hash c o env' d) else None end).
    assert (EO : {| o_snap := o_snap o; o_version := o_version o; o_plugin := o_plugin o |} = o) by (destruct o; auto).
    unfold eo; simpl. rewrite EO.
    match goal with |- context [check m (content_of m s) o ?E] => set (envm := E) end.
    assert (CE : check m (content_of m s) o envm = R m).
    { rewrite HR. symmetry. apply check_reads. intros d Hd. unfold envm, ienv.
      destruct (lookup env' d) eqn:Q; auto. simpl.
      assert (NG : inG fs d = false).
      { destruct Hd as [Hd|Hd].
        - destruct (inG fs d) eqn:G; auto. exfalso. apply lookup_None in Q. apply Q. eapply HCl; eauto.
        - apply check_indirect_dom in Hd. unfold ienv in Hd. rewrite Q in Hd. simpl in Hd. congruence. }
      destruct (mem d (deps ++ ind)) eqn:M; auto. apply mem_In in M. apply in_app_or in M as [M|M].
      apply DEPG in M; congruence. apply INDG in M; congruence. }
    rewrite CE. split; [auto|]. split; [auto|]. split.
    { intros d Hd. unfold Model.direct_deps, Model.supp_deps.
      apply in_or_app. destruct (inG fs d) eqn:G.
      - left; apply found_In; split; auto. eapply imports_in_cands; eauto. apply in_or_app; auto.
      - right; apply notfound_In; split; auto. eapply hard_in_cands; eauto. }
    split.
    { intros d Hd. apply in_or_app.
      assert (DG : inG fs d = true). { rewrite HR in Hd. apply check_indirect_dom in Hd. eapply ienv_dom; eauto. }
      destruct (mem d (cands c o fs m s)) eqn:M1.
      - left. apply found_In. split; auto. apply mem_In; auto.
      - right. unfold ind, Model.new_indirect. apply in_or_app.
        destruct (mem d (old_indirect c o fs m)) eqn:M2. left; apply mem_In; auto.
        right. apply filter_In. split; auto. rewrite M1, M2. simpl.
        destruct (Nat.eqb d m) eqn:E; auto. apply Nat.eqb_eq in E; subst d. exfalso.
        rewrite HR in Hd. eapply indirect_noself; eauto. }
    split.
    { intros d h Hdh. rewrite <- map_app in Hdh. apply combine_map_In in Hdh as [Hh Hd]. subst h.
      unfold envm. destruct (lookup env' d) eqn:Q.
      - unfold Model.cur_hash. rewrite Q. destruct (HG _ _ Q) as [_ [_ [_ [_ Hq]]]]. congruence.
      - apply mem_In in Hd. rewrite Hd. auto. }
    split.
    { rewrite <- map_app. apply map_length. }
    assert (NONE : forall d, inG fs d = false -> envm d = None).
    { intros d Hd. unfold envm. destruct (lookup env' d) eqn:Q.
      - apply lookup_Some_dom in Q. apply (good_dom fs o) in Q; auto. congruence.
      - destruct (mem d (deps ++ ind)) eqn:M; auto. apply mem_In in M. apply in_app_or in M as [M|M].
        apply DEPG in M; congruence. apply INDG in M; congruence. }
    split.
    { intros d Hd. apply notfound_In in Hd as [_ Hd]. apply NONE; auto. }
    split.
    { intros d Hd. destruct (inG fs d) eqn:G; [|right; apply NONE; auto]. left. apply found_In; split; auto.
      eapply imports_in_cands; eauto. apply in_or_app; auto. }
    { intros dm' d Heq Hd. rewrite (thash_reach dm' dm m Heq). apply HRch. exact Hd. }
  Qed.
  (* ---- writing the cache records of one module *)
  Definition same_at (c1 c2 : store) (m : modid) : Prop :=
    s_meta c1 m = s_meta c2 m /\ s_ex c1 m = s_ex c2 m /\ s_data c1 m = s_data c2 m.

  Lemma upd_same : forall A (f : modid -> option A) m v, upd f m v m = v.
  Proof. intros; unfold upd. rewrite Nat.eqb_refl; auto. Qed.
  Lemma upd_other : forall A (f : modid -> option A) m v m', m' <> m -> upd f m v m' = f m'.
  Proof. intros; unfold upd. apply Nat.eqb_neq in H. rewrite H; auto. Qed.

  Lemma write_module_spec : forall c o fs now dm (env' : penv) (R : modid -> result) c' m s,
    CacheOK c -> ProbeFresh c o fs -> CacheOK c' -> s_data c' m = s_data c m ->
    Good fs o env' -> Closed fs o env' -> In m (map fst env') -> lookup fs m = Some s ->
    R m = check m (content_of m s) o (ienv env') -> blocker m (content_of m s) = false ->
    (forall d, In d (r_indirect (R m)) -> reach dm m d = true) ->
    CacheOK (write_module c o fs now dm env' R c' m) /\
    (forall m', m' <> m -> same_at (write_module c o fs now dm env' R c' m) c' m').
  Proof.
    intros c o fs now dm env' R c' m s HC HP HC' Hdata HG HCl Hm Hs HR HNB HRch.
    unfold Model.write_module. rewrite Hs.
    set (old_h := match find_cache_meta c o m with Some (e, _) => m_ihash e | None => 0 end).
    assert (OLD : old_h = r_iface (R m) -> forall d, s_data c m = Some d -> d_iface d = r_iface (R m)).
    { intros E d Hd. unfold old_h in E. destruct (find_cache_meta c o m) as [[e1 x1]|] eqn:F.
      - apply find_spec in F as [F1 _]. destruct HC as [_ C2]. rewrite <- E. eapply C2; eauto.
      - exfalso. rewrite HR in E. symmetry in E. eapply iface_nonzero; eauto. }
    assert (DEL : CacheOK (del_entry c' m)).
    { destruct HC' as [C1 C2]. split; simpl.
      - intros m0 e0 x0 H1 H2. destruct (Nat.eq_dec m0 m) as [->|N].
        + rewrite upd_same in H1. discriminate.
        + rewrite upd_other in H1, H2 by auto. eauto.
      - intros m0 e0 d0 H1 H2. destruct (Nat.eq_dec m0 m) as [->|N].
        + rewrite upd_same in H1. discriminate.
        + rewrite upd_other in H1 by auto. eauto. }
    destruct (Nat.eqb old_h (r_iface (R m))) eqn:E.
    - apply Nat.eqb_eq in E. simpl. destruct (s_data c' m) as [d|] eqn:D.
      + split.
        * destruct HC' as [C1 C2]. split; simpl.
          { intros m0 e0 x0 H1 H2. destruct (Nat.eq_dec m0 m) as [->|N].
            - rewrite upd_same in H1, H2. inversion H1; inversion H2; subst. eapply new_entry_ok; eauto.
            - repeat (rewrite upd_other in H1 by auto); repeat (rewrite upd_other in H2 by auto). eauto. }
          { intros m0 e0 d0 H1 H2. destruct (Nat.eq_dec m0 m) as [->|N].
            - rewrite upd_same in H1. inversion H1; subst; simpl. apply OLD; auto. congruence.
            - repeat (rewrite upd_other in H1 by auto). eauto. }
        * intros m' N. unfold same_at; simpl. rewrite !upd_other by auto. auto.
      + split; auto. intros m' N; unfold same_at; simpl. rewrite !upd_other by auto. auto.
    - simpl. rewrite upd_same. split.
      + destruct HC' as [C1 C2]. split; simpl.
        { intros m0 e0 x0 H1 H2. destruct (Nat.eq_dec m0 m) as [->|N].
          - rewrite upd_same in H1, H2. inversion H1; inversion H2; subst. eapply new_entry_ok; eauto.
          - repeat (rewrite upd_other in H1 by auto); repeat (rewrite upd_other in H2 by auto). eauto. }
        { intros m0 e0 d0 H1 H2. destruct (Nat.eq_dec m0 m) as [->|N].
          - rewrite upd_same in H1, H2. inversion H1; inversion H2; subst; simpl. auto.
          - repeat (rewrite upd_other in H1 by auto); repeat (rewrite upd_other in H2 by auto). eauto. }
      + intros m' N. unfold same_at; simpl. rewrite !upd_other by auto. auto.
  Qed.

  Lemma write_fold_spec : forall c o fs now dm (env' : penv) (R : modid -> result) S c',
    CacheOK c -> ProbeFresh c o fs -> CacheOK c' -> NoDup S -> (forall m, In m S -> s_data c' m = s_data c m) ->
    Good fs o env' -> Closed fs o env' ->
    (forall m, In m S -> In m (map fst env') /\ exists s, lookup fs m = Some s /\ R m = check m (content_of m s) o (ienv env') /\
                                                          blocker m (content_of m s) = false /\
                                                          (forall d, In d (r_indirect (R m)) -> reach dm m d = true)) ->
    CacheOK (fold_left (write_module c o fs now dm env' R) S c') /\
    (forall m', ~ In m' S -> same_at (fold_left (write_module c o fs now dm env' R) S c') c' m').
  Proof.
    intros c o fs now dm env' R S. induction S as [|m S IH]; simpl; intros c' HC HP HC' ND Hd HG HCl HS.
    - split; auto. intros; unfold same_at; auto.
    - inversion ND; subst. destruct (HS m (or_introl eq_refl)) as [Hm [s [Hs [HR [HNB HRch]]]]].
      destruct (write_module_spec c o fs now dm env' R c' m s HC HP HC' (Hd _ (or_introl eq_refl)) HG HCl Hm Hs HR HNB HRch) as [W1 W2].
      destruct (IH (write_module c o fs now dm env' R c' m)) as [I1 I2]; auto.
      + intros m0 Hm0. assert (m0 <> m) by (intro; subst; auto). destruct (W2 _ H) as [_ [_ W]]. rewrite W. auto.
      + split; auto. intros m' Hm'. assert (m' <> m) by (intro; subst; auto).
        destruct (I2 m') as [A1 [A2 A3]]; auto. destruct (W2 _ H) as [B1 [B2 B3]]. unfold same_at. repeat split; congruence.
  Qed.

  (* ---- the invariant of the SCC loop *)
  Definition Inv (c : store) (fs : FS) (o : opts) (done : list (list modid)) (st : penv * store) : Prop :=
    map fst (fst st) = concat done /\ Good fs o (fst st) /\ Closed fs o (fst st) /\ CacheOK (snd st) /\
    (forall m, ~ In m (concat done) -> s_data (snd st) m = s_data c m).

  Definition NB (fs : FS) : Prop := forall m s, lookup fs m = Some s -> blocker m (content_of m s) = false.

  Lemma process_scc_inv : forall c o fs now L1 S L2 st,
    CacheOK c -> ProbeFresh c o fs -> FSOK fs -> NB fs -> sccs_of (depmap c o fs) = L1 ++ S :: L2 ->
    Inv c fs o L1 st -> Inv c fs o (L1 ++ [S]) (process_scc c o fs now (depmap c o fs) st S).
  Proof.
    intros c o fs now L1 S L2 [env c'] HC HP HFS HNB HL [Hdom [HG [HCl [HC' Hfr]]]]. simpl in *.
    destruct (step_facts _ _ _ _ _ _ _ HFS HL Hdom) as [SinG [Sdisj [SND Stopo]]].
    assert (CC : concat (L1 ++ [S]) = concat L1 ++ S) by (rewrite concat_app; simpl; rewrite app_nil_r; auto).
    unfold Model.process_scc. destruct (scc_fresh c o fs (depmap c o fs) env S) eqn:F.
    - unfold Inv; simpl. rewrite CC. split.
      { rewrite map_app, map_map; simpl. rewrite map_id. congruence. }
      split. { eapply good_step; eauto. intros m Hm. eapply fresh_good; eauto. }
      split. { apply (closed_step c o fs L1 S L2 env _ HC HP HFS HL Hdom); auto. rewrite map_map; simpl. apply map_id. }
      split; auto. intros m Hm. apply Hfr. intro; apply Hm; apply in_or_app; auto.
    - set (R := analyze S (src_of fs) o (ienv env)).
      set (env' := env ++ map (fun m => (m, fresh_pm fs o R m)) S).
      assert (G' : Good fs o env').
      { eapply good_step; eauto. intros m Hm.
        destruct (stale_good c o fs L1 S L2 env m HFS HL Hdom Hm) as [s [Hs HR]]. fold R in HR.
        exists s; split; auto. simpl. unfold Model.ign_now. rewrite Hs, <- HR. auto. }
      assert (C' : Closed fs o env').
      { apply (closed_step c o fs L1 S L2 env _ HC HP HFS HL Hdom); auto. rewrite map_map; simpl. apply map_id. }
      destruct (write_fold_spec c o fs now (depmap c o fs) env' R S c' HC HP HC' SND) as [W1 W2]; auto.
      { intros m Hm. apply Hfr. rewrite <- Hdom. auto. }
      { intros m Hm. split.
        - unfold env'. rewrite map_app, map_map; simpl. rewrite map_id. apply in_or_app; auto.
        - destruct (stale_good c o fs L1 S L2 env m HFS HL Hdom Hm) as [s [Hs HR]]. exists s. split; auto. split; auto. split; auto.
          intros d Hd. eapply indirect_reach; eauto. rewrite HL. apply in_or_app; right; left; auto. }
      unfold Inv; simpl. rewrite CC. split.
      { unfold env'. rewrite map_app, map_map; simpl. rewrite map_id. congruence. }
      split; auto. split; auto. split; auto.
      intros m Hm. destruct (W2 m) as [_ [_ W]]. intro; apply Hm; apply in_or_app; auto.
      rewrite W. apply Hfr. intro; apply Hm; apply in_or_app; auto.
  Qed.

  Lemma process_all_inv : forall c o fs now L2 L1 st,
    CacheOK c -> ProbeFresh c o fs -> FSOK fs -> NB fs -> sccs_of (depmap c o fs) = L1 ++ L2 -> Inv c fs o L1 st ->
    Inv c fs o (L1 ++ L2) (fold_left (process_scc c o fs now (depmap c o fs)) L2 st).
  Proof.
    intros c o fs now L2. induction L2 as [|S L2 IH]; simpl; intros L1 st HC HP HFS HNB HL HI.
    - rewrite app_nil_r; auto.
    - replace (L1 ++ S :: L2) with ((L1 ++ [S]) ++ L2) in * by (rewrite <- app_assoc; auto).
      apply IH; auto. eapply process_scc_inv; eauto. rewrite <- app_assoc in HL. exact HL.
  Qed.

  (* ---- the mtime-update write of validate_meta keeps the invariant *)
  Lemma restamp_ok : forall c o fs, CacheOK c -> CacheOK (restamp c o fs).
  Proof.
    intros c o fs HC. pose proof HC as [C1 C2]. split; simpl.
    - intros m e' x H1 H2.
      destruct (load_meta c o fs m) as [[e x0]|] eqn:L; [|eauto].
      destruct (lookup fs m) as [s|] eqn:Hs; [|eauto].
      destruct (Nat.eqb (m_stamp e) s) eqn:E; [eauto|].
      destruct (load_ok _ _ _ _ _ _ HC L) as [s' [d [Hs' [Hme [Hx [_ [Ho [Hh [_ [EOK _]]]]]]]]]].
      rewrite Hs in Hs'; inversion Hs'; subst s'. rewrite Hx in H2; inversion H2; subst x0.
      inversion H1; subst e'; clear H1. destruct EOK as [[G1 G2] [envm G3]]. subst o.
      split; [split; simpl; auto|]. exists envm. exact G3.
    - intros m e' d H1 H2.
      destruct (load_meta c o fs m) as [[e x0]|] eqn:L; [|eauto].
      destruct (lookup fs m) as [s|] eqn:Hs; [|eauto].
      destruct (Nat.eqb (m_stamp e) s) eqn:E; [eauto|].
      destruct (load_ok _ _ _ _ _ _ HC L) as [s' [d' [_ [Hme _]]]].
      inversion H1; subst e'; simpl. eauto.
  Qed.

  Lemma run_inv : forall c fs o now, CacheOK c -> ProbeFresh c o fs -> FSOK fs -> NB fs ->
    Inv c fs o (sccs_of (depmap c o fs)) (run c fs o now).
  Proof.
    intros. unfold Model.run.
    apply (process_all_inv c o fs now (sccs_of (depmap c o fs)) [] ([], restamp c o fs)); auto.
    unfold Inv; simpl. split; [reflexivity|]. split; [intros m p Hp; discriminate|].
    split; [intros m s d Hm; inversion Hm|]. split; auto. apply restamp_ok; auto.
  Qed.

  (* ---- what a run computes: a solution of the per-module equations over the whole program *)
  Definition genv (fs : FS) (I : modid -> ihash) : modid -> option ihash :=
    fun d => if inG fs d then Some (I d) else None.
  Definition Sol (fs : FS) (o : opts) (I : modid -> ihash) (E : modid -> list diag) : Prop :=
    forall m s, lookup fs m = Some s ->
      let r := check m (content_of m s) o (genv fs I) in
      I m = r_iface r /\ E m = (if ign_of m s o then [] else r_errors r).

  Definition I_of (env : penv) (m : modid) : ihash := match lookup env m with Some p => p_iface p | None => 0 end.
  Definition E_of (env : penv) (m : modid) : list diag := match lookup env m with Some p => p_errors p | None => [] end.

  Lemma run_sol : forall c fs o now, CacheOK c -> ProbeFresh c o fs -> FSOK fs -> NB fs ->
    let env := fst (run c fs o now) in
    (forall m, inG fs m = true -> exists p, lookup env m = Some p) /\ Sol fs o (I_of env) (E_of env) /\
    CacheOK (snd (run c fs o now)).
  Proof.
    intros c fs o now HC HP HFS HNB env.
    destruct (run_inv c fs o now HC HP HFS HNB) as [Hdom [HG [_ [HC' _]]]]. fold env in Hdom, HG.
    destruct (sccs_spec _ (depmap_ok c o fs HFS)) as [_ [Hcov _]].
    assert (DOM : forall m, inG fs m = true -> exists p, lookup env m = Some p).
    { intros m Hm. apply lookup_dom. rewrite Hdom. apply Hcov. rewrite depmap_dom. apply inG_In; auto. }
    split; auto. split; auto.
    intros m s Hs. destruct (DOM m) as [p Hp]. apply inG_lookup; eauto.
    destruct (HG _ _ Hp) as [s' [Hs' [G1 [G2 _]]]]. rewrite Hs in Hs'; inversion Hs'; subst s'.
    simpl. unfold I_of at 1, E_of. rewrite Hp.
    replace (check m (content_of m s) o (genv fs (I_of env))) with (check m (content_of m s) o (ienv env)); auto.
    apply check_reads. intros d _. unfold ienv, genv, I_of. destruct (inG fs d) eqn:G.
    - destruct (DOM d G) as [q Hq]. rewrite Hq; auto.
    - destruct (lookup env d) eqn:Q; auto. apply lookup_Some_dom in Q. apply (good_dom fs o) in Q; auto. congruence.
  Qed.

  (* ---- uniqueness of the solution.  What has to be ASSUMED for import cycles is LevelUnique: with the SCC index as
     rank, "two solutions of the program that agree on all lower SCCs agree on this SCC" (the SCC is the unit).
     For programs whose imports and reported indirect dependencies are well-founded it is a THEOREM (acyclic_unique). *)
  Definition Unique (fs : FS) (o : opts) : Prop :=
    forall I E I' E', Sol fs o I E -> Sol fs o I' E' -> forall m, inG fs m = true -> I m = I' m /\ E m = E' m.

  Definition LevelUnique (fs : FS) (o : opts) (rank : modid -> nat) : Prop :=
    forall k I E I' E', Sol fs o I E -> Sol fs o I' E' ->
      (forall d, inG fs d = true -> rank d < k -> I d = I' d) ->
      forall m, inG fs m = true -> rank m = k -> I m = I' m.

  Definition Acyclic (fs : FS) (o : opts) (rank : modid -> nat) : Prop :=
    forall m s d env, lookup fs m = Some s -> inG fs d = true ->
      In d (imports m (content_of m s) o ++ probes m (content_of m s) o) \/
      In d (r_indirect (check m (content_of m s) o env)) ->
      rank d < rank m.

  Lemma level_unique_unique : forall fs o rank, LevelUnique fs o rank -> Unique fs o.
  Proof.
    intros fs o rank LU I E I' E' S1 S2.
    assert (A : forall k m, inG fs m = true -> rank m = k -> I m = I' m).
    { induction k as [k IH] using lt_wf_ind. intros m G Rk.
      eapply (LU k I E I' E'); eauto; intros d Gd Hd; eapply IH; eauto. }
    intros m G. split. eapply A; eauto.
    apply inG_lookup in G as [s Hs]. destruct (S1 _ _ Hs) as [_ A2]. destruct (S2 _ _ Hs) as [_ B2]. simpl in *.
    rewrite A2, B2.
    replace (check m (content_of m s) o (genv fs I')) with (check m (content_of m s) o (genv fs I)); auto.
    apply check_reads. intros d _. unfold genv. destruct (inG fs d) eqn:Gd; auto. f_equal. eapply A; eauto.
  Qed.

  Lemma acyclic_level_unique : forall fs o rank, Acyclic fs o rank -> LevelUnique fs o rank.
  Proof.
    intros fs o rank AC k I E I' E' S1 S2 Hlow m G Rk.
    apply inG_lookup in G as [s Hs]. destruct (S1 _ _ Hs) as [A1 _]. destruct (S2 _ _ Hs) as [B1 _]. simpl in *.
    rewrite A1, B1. f_equal. apply check_reads. intros d Hd. unfold genv.
    destruct (inG fs d) eqn:Gd; auto. f_equal. apply Hlow; auto. rewrite <- Rk. eapply AC; eauto.
  Qed.

  Lemma acyclic_unique : forall fs o rank, Acyclic fs o rank -> Unique fs o.
  Proof. intros. eapply level_unique_unique. eapply acyclic_level_unique; eauto. Qed.

  Lemma existsb_ext_in : forall A (f g : A -> bool) l, (forall a, In a l -> f a = g a) -> existsb f l = existsb g l.
  Proof. induction l; simpl; intros; auto. rewrite H by auto. f_equal; auto. Qed.

  Lemma ProbeFresh_empty : forall o fs, ProbeFresh empty_store o fs.
  Proof.
    intros o fs m e x s L. unfold Model.load_meta, Model.find_cache_meta in L. simpl in L.
    destruct (lookup fs m); discriminate.
  Qed.

  Lemma ProbeFresh_noprobes : (forall m c o, probes m c o = []) -> forall c o fs, ProbeFresh c o fs.
  Proof. intros H c o fs m e x s _ _ d Hd. rewrite H in Hd. inversion Hd. Qed.

  Lemma runs_agree : forall c c' fs o n n', CacheOK c -> ProbeFresh c o fs -> CacheOK c' -> ProbeFresh c' o fs ->
    FSOK fs -> NB fs -> Unique fs o ->
    let env := fst (run c fs o n) in let env' := fst (run c' fs o n') in
    (report fs env, status fs env) = (report fs env', status fs env').
  Proof.
    intros c c' fs o n n' HC HP HC' HP' HFS HNB HU env env'.
    destruct (run_sol c fs o n HC HP HFS HNB) as [D1 [S1 _]]. destruct (run_sol c' fs o n' HC' HP' HFS HNB) as [D2 [S2 _]].
    fold env in D1, S1. fold env' in D2, S2.
    assert (EQ : forall ms, In ms fs ->
              exists p p', lookup env (fst ms) = Some p /\ lookup env' (fst ms) = Some p' /\ p_errors p = p_errors p').
    { intros [m s] Hin; simpl. assert (G : inG fs m = true). { apply inG_In. apply in_map_iff. exists (m, s); auto. }
      destruct (D1 m G) as [p Hp]. destruct (D2 m G) as [p' Hp']. exists p, p'. repeat split; auto.
      destruct (HU _ _ _ _ S1 S2 m G) as [_ HE]. unfold E_of in HE. rewrite Hp, Hp' in HE. auto. }
    unfold report, status. f_equal.
    - apply map_ext_in. intros ms Hin. destruct (EQ ms Hin) as [p [p' [H1 [H2 H3]]]]. rewrite H1, H2. simpl. congruence.
    - apply existsb_ext_in. intros ms Hin. destruct (EQ ms Hin) as [p [p' [H1 [H2 H3]]]]. rewrite H1, H2. congruence.
  Qed.

  (* ---- blocking errors *)
  Notation blocked := (Model.blocked content_of ign_of blocker).
  Notation run_b := (Model.run_b content_of imports probes analyze sccs_of reach sdo_of thash ign_of blocker).
  Notation warm := (Model.warm content_of imports probes analyze sccs_of reach sdo_of thash ign_of blocker).
  Notation cold := (Model.cold content_of imports probes analyze sccs_of reach sdo_of thash ign_of blocker).
  Notation runs := (Model.runs content_of imports probes analyze sccs_of reach sdo_of thash ign_of blocker).

  Lemma In_lookup : forall (fs : FS) m s, FSOK fs -> In (m, s) fs -> lookup fs m = Some s.
  Proof.
    unfold FSOK. induction fs as [|[k v] t]; simpl; intros; try tauto. inversion H; subst.
    destruct H0 as [H0|H0].
    - inversion H0; subst. rewrite Nat.eqb_refl; auto.
    - destruct (Nat.eqb m k) eqn:E; auto. apply Nat.eqb_eq in E; subst. exfalso. apply H3.
      apply in_map_iff. exists (k, s); auto.
  Qed.

  (* a run is aborted iff some file of the program has a blocking error - whatever the cache *)
  Lemma blocked_spec : forall c o fs, CacheOK c -> FSOK fs ->
    (blocked c o fs = true <-> exists m s, In (m, s) fs /\ blocker m (content_of m s) = true).
  Proof.
    intros c o fs HC HFS. unfold Model.blocked. rewrite existsb_exists. split.
    - intros [[m s] [Hin H]]. simpl in H. exists m, s. split; auto.
      destruct (load_meta c o fs m) as [[e x]|]; try discriminate; auto.
    - intros [m [s [Hin Hb]]]. exists (m, s). split; auto. simpl.
      destruct (load_meta c o fs m) as [[e x]|] eqn:L; auto. exfalso.
      destruct (load_ok _ _ _ _ _ _ HC L) as [s' [d [Hs' [_ [_ [_ [_ [Hh [_ [[[_ G2] _] _]]]]]]]]]].
      rewrite (In_lookup _ _ _ HFS Hin) in Hs'. inversion Hs'; subst s'. congruence.
  Qed.

  Lemma not_blocked_NB : forall c o fs, CacheOK c -> FSOK fs -> blocked c o fs = false -> NB fs.
  Proof.
    intros c o fs HC HFS Hb m s Hs. destruct (blocker m (content_of m s)) eqn:B; auto.
    assert (blocked c o fs = true); [|congruence].
    apply blocked_spec; auto. exists m, s. split; auto. apply lookup_In; auto.
  Qed.

  Lemma blocked_same : forall c c' o fs, CacheOK c -> CacheOK c' -> FSOK fs -> blocked c o fs = blocked c' o fs.
  Proof.
    intros. destruct (blocked c o fs) eqn:B1; destruct (blocked c' o fs) eqn:B2; auto.
    - apply blocked_spec in B1; auto. apply (proj2 (blocked_spec c' o fs H0 H1)) in B1. congruence.
    - apply blocked_spec in B2; auto. apply (proj2 (blocked_spec c o fs H H1)) in B2. congruence.
  Qed.

  Lemma run_preserves_CacheOK : forall c fs o now, CacheOK c -> ProbeFresh c o fs -> FSOK fs ->
    CacheOK (snd (warm c fs o now)).
  Proof.
    intros. unfold Model.warm, Model.run_b. destruct (blocked c o fs) eqn:B; simpl.
    - apply restamp_ok; auto.
    - apply run_sol; auto. eapply not_blocked_NB; eauto.
  Qed.

  Lemma warm_eq_cold : forall c fs o n n', CacheOK c -> ProbeFresh c o fs -> FSOK fs -> Unique fs o ->
    output fs (warm c fs o n) = output fs (cold fs o n').
  Proof.
    intros c fs o n n' HC HP HFS HU. unfold Model.warm, Model.cold, Model.run_b.
    rewrite (blocked_same c empty_store o fs HC CacheOK_empty HFS).
    destruct (blocked empty_store o fs) eqn:B; unfold output; simpl; auto.
    assert (NBfs : NB fs) by (eapply (not_blocked_NB empty_store); eauto; apply CacheOK_empty).
    f_equal. apply runs_agree; auto. apply CacheOK_empty. apply ProbeFresh_empty.
  Qed.

  (* the side condition along a history: at every run the cached dependency lists that are reused are still right *)
  Fixpoint HistOK (c : store) (k : nat) (h : list (FS * opts)) : Prop :=
    match h with
    | [] => True
    | (fs, o) :: t => FSOK fs /\ ProbeFresh c o fs /\ HistOK (snd (warm c fs o k)) (Datatypes.S k) t
    end.

  Lemma HistOK_noprobes : (forall m c o, probes m c o = []) ->
    forall h c k, (forall fs o, In (fs, o) h -> FSOK fs) -> HistOK c k h.
  Proof.
    intros NP. induction h as [|[fs o] t IH]; simpl; intros; auto.
    split; [eauto|]. split; [apply ProbeFresh_noprobes; auto|]. apply IH; eauto.
  Qed.

  Lemma runs_CacheOK : forall h c k, CacheOK c -> HistOK c k h -> CacheOK (runs c k h).
  Proof.
    induction h as [|[fs o] t IH]; simpl; intros c k HC HH; auto.
    destruct HH as [H1 [H2 H3]]. apply IH; auto. apply run_preserves_CacheOK; auto.
  Qed.

  (* all finite histories: whatever sequence of file-system states (and options) mypy was run on before (including runs
     aborted by blocking errors), starting from any valid cache, the next warm run reports what a cold run reports *)
  Lemma history_warm_eq_cold : forall h c k fs o n n',
    CacheOK c -> HistOK c k h -> ProbeFresh (runs c k h) o fs -> FSOK fs -> Unique fs o ->
    output fs (warm (runs c k h) fs o n) = output fs (cold fs o n').
  Proof. intros. apply warm_eq_cold; auto. apply runs_CacheOK; auto. Qed.
End Correct.

(* ------------------------------------------------------------------ packaged contract and final statements *)
From C02 Require Statement.

Section Packaged.
  Variable content_of : modid -> stamp -> content.
  Variable imports : modid -> content -> opts -> list modid.
  Variable probes : modid -> content -> opts -> list modid.
  Variable check : modid -> content -> opts -> (modid -> option ihash) -> result.
  Variable analyze : list modid -> (modid -> content) -> opts -> (modid -> option ihash) -> modid -> result.
  Variable sccs_of : list (modid * list modid) -> list (list modid).
  Variable reach : list (modid * list modid) -> modid -> modid -> bool.
  Variable sdo_of : list modid -> opts -> nat.
  Variable thash : list (modid * list modid) -> modid -> nat.
  Variable ign_of : modid -> stamp -> opts -> bool.
  Variable blocker : modid -> content -> bool.

  (* The analysis contract: "contract, monitored not proved".  No uniqueness assumption in it. *)
  Record AnalysisContract : Prop := {
    ac_reads : forall m c o env env',
      (forall d, In d (imports m c o ++ probes m c o) \/ In d (r_indirect (check m c o env)) -> env d = env' d) ->
      check m c o env = check m c o env';
    ac_indirect_dom : forall m c o env d, In d (r_indirect (check m c o env)) -> env d <> None;
    ac_indirect_noself : forall m c o env, ~ In m (r_indirect (check m c o env));
    ac_iface_nonzero : forall m c o env, r_iface (check m c o env) <> 0;
    ac_analyze_local : forall S src o env m, In m S ->
      analyze S src o env m = check m (src m) o (extend env S (fun x => r_iface (analyze S src o env x))) }.

  (* The graph-algorithm contract (SCCs listed in dependency order; reach only relates a module to modules of
     its own or earlier SCCs).  Checked on every observed SCC list by the harness. *)
  Record GraphContract : Prop := {
    gc_sccs : forall dm, graph_ok dm -> sccs_ok dm (sccs_of dm);
    gc_reach : forall dm L1 S L2 m d,
      sccs_of dm = L1 ++ S :: L2 -> In m S -> reach dm m d = true -> In d (concat L1 ++ S);
    (* hash injectivity behind the fast path of verify_transitive_deps *)
    gc_thash : forall dm dm' m, thash dm m = thash dm' m -> forall d, reach dm m d = reach dm' m d;
    (* mypy's invariant: reported indirect dependencies are reachable through direct imports *)
    gc_indirect_reach : forall dm S src o env m d,
      In S (sccs_of dm) -> In m S -> In d (r_indirect (analyze S src o env m)) -> reach dm m d = true }.

  Notation CacheOK := (CacheOK content_of imports probes check reach thash blocker).
  Notation ProbeFresh := (ProbeFresh content_of probes ign_of).
  Notation HistOK := (HistOK content_of imports probes analyze sccs_of reach sdo_of thash ign_of blocker).
  Notation Unique := (Unique content_of check ign_of).
  Notation warm := (Model.warm content_of imports probes analyze sccs_of reach sdo_of thash ign_of blocker).
  Notation cold := (Model.cold content_of imports probes analyze sccs_of reach sdo_of thash ign_of blocker).
  Notation runs := (Model.runs content_of imports probes analyze sccs_of reach sdo_of thash ign_of blocker).

  Lemma p_run_preserves_CacheOK : AnalysisContract -> GraphContract ->
    forall c fs o now, CacheOK c -> ProbeFresh c o fs -> FSOK fs -> CacheOK (snd (warm c fs o now)).
  Proof. intros [] []. eapply run_preserves_CacheOK; eauto. Qed.

  Lemma p_warm_eq_cold : AnalysisContract -> GraphContract ->
    forall c fs o n n', CacheOK c -> ProbeFresh c o fs -> FSOK fs -> Unique fs o ->
    output fs (warm c fs o n) = output fs (cold fs o n').
  Proof. intros [] []. eapply warm_eq_cold; eauto. Qed.

  (* per final state: any history before it (cyclic or not, aborted runs, option changes) along which the reused
     dependency lists stay right (HistOK); uniqueness needed for the final program only *)
  Lemma p_history_partial : AnalysisContract -> GraphContract ->
    forall (h : list (FS * opts)) (fs : FS) (o : opts) (n n' : nat),
      HistOK empty_store 0 h -> ProbeFresh (runs empty_store 0 h) o fs -> FSOK fs -> Unique fs o ->
      output fs (warm (runs empty_store 0 h) fs o n) = output fs (cold fs o n').
  Proof. intros [] [] h fs o n n' Hh HP Hfs HU. eapply history_warm_eq_cold; eauto. apply CacheOK_empty. Qed.

  (* programs without `from pkg import maybe_a_submodule`: the full statement *)
  Lemma p_history_noprobes : AnalysisContract -> GraphContract -> (forall m c o, probes m c o = []) ->
    (forall fs o, FSOK fs -> Unique fs o) ->
    Statement.warm_equals_cold_for_all_histories content_of imports probes analyze sccs_of reach sdo_of thash ign_of blocker.
  Proof.
    intros AC GC NP HU h fs o n n' Hh Hfs. apply p_history_partial; auto.
    - destruct AC, GC. eapply HistOK_noprobes; eauto.
    - eapply ProbeFresh_noprobes; eauto.
  Qed.

  Lemma p_acyclic_unique : AnalysisContract -> forall fs o rank,
    Acyclic content_of imports probes check fs o rank -> Unique fs o.
  Proof. intros [] fs o rank. eapply acyclic_unique; eauto. Qed.

  Lemma p_level_unique : AnalysisContract -> forall fs o rank,
    LevelUnique content_of check ign_of fs o rank -> Unique fs o.
  Proof. intros [] fs o rank. eapply level_unique_unique; eauto. Qed.

  (* the same, phrased with explicit edits: start from any file system, apply any list of edits, run after each *)
  Lemma remove_mod_notin : forall m fs, ~ In m (map fst (Statement.remove_mod m fs)).
  Proof.
    induction fs as [|[k v] t]; simpl; auto. destruct (Nat.eqb k m) eqn:E; auto.
    simpl. apply Nat.eqb_neq in E. intros [H|H]; auto.
  Qed.
  Lemma remove_mod_sub : forall m fs x, In x (map fst (Statement.remove_mod m fs)) -> In x (map fst fs).
  Proof.
    induction fs as [|[k v] t]; simpl; auto. destruct (Nat.eqb k m); simpl; intros; auto. destruct H; auto.
  Qed.
  Lemma remove_mod_ok : forall m fs, FSOK fs -> FSOK (Statement.remove_mod m fs).
  Proof.
    unfold FSOK. induction fs as [|[k v] t]; simpl; intros; auto. inversion H; subst.
    destruct (Nat.eqb k m); auto. simpl. constructor; auto. intro X. apply H2. eapply remove_mod_sub; eauto.
  Qed.
  Lemma apply_edit_ok : forall fs e, FSOK fs -> FSOK (Statement.apply_edit fs e).
  Proof.
    intros fs [m s|m s|m] H; simpl; try (apply remove_mod_ok; auto);
      (constructor; [apply remove_mod_notin | apply remove_mod_ok; auto]).
  Qed.
  Lemma states_ok : forall es fs, FSOK fs -> forall x, In x (Statement.states fs es) -> FSOK x.
  Proof.
    induction es; simpl; intros; try tauto. destruct H0; subst. apply apply_edit_ok; auto.
    eapply IHes; [|eauto]. apply apply_edit_ok; auto.
  Qed.

  Lemma p_edits : AnalysisContract -> GraphContract -> (forall m c o, probes m c o = []) ->
    forall (fs0 : FS) (es : list Statement.edit) (e : Statement.edit) (o : opts) n n',
      FSOK fs0 ->
      let visited := fs0 :: Statement.states fs0 es in
      let final := Statement.apply_edit (last visited fs0) e in
      Unique final o ->
      output final (warm (runs empty_store 0 (map (fun x => (x, o)) visited)) final o n)
      = output final (cold final o n').
  Proof.
    intros AC GC NP fs0 es e o n n' H0 visited final HU.
    assert (V : forall x, In x visited -> FSOK x).
    { intros x [Hx|Hx]; subst; auto. eapply states_ok; eauto. }
    apply (p_history_partial AC GC); auto.
    - destruct AC, GC. eapply HistOK_noprobes; eauto.
      intros fs' o' Hin. apply in_map_iff in Hin as [x [E Hx]]. inversion E; subst. apply V; auto.
    - eapply ProbeFresh_noprobes; eauto.
    - apply apply_edit_ok. apply V. unfold visited.
      generalize (Statement.states fs0 es). generalize fs0 at 1 3. intros d l. revert d.
      induction l; simpl; intros; auto. destruct l; simpl; auto. right. apply (IHl a).
  Qed.
End Packaged.
