(* C02 — proofs: every run establishes/preserves CacheOK and computes a solution of the per-module
   analysis equations; hence warm = cold, for every finite edit history. *)
From Coq Require Import List Bool Arith Lia.
From C02 Require Import Model.
Import ListNotations.

(* ------------------------------------------------------------------ generic helpers *)
Lemma mem_In : forall d l, mem d l = true <-> In d l.
Proof.
  unfold mem; intros; rewrite existsb_exists; split.
  - intros [x [H E]]. apply Nat.eqb_eq in E; subst; auto.
  - intros H; exists d; split; auto. apply Nat.eqb_refl.
Qed.

Lemma mem_false : forall d l, mem d l = false <-> ~ In d l.
Proof. intros; rewrite <- mem_In. destruct (mem d l); split; intros; congruence. Qed.

Lemma list_eqb_eq : forall a b, list_eqb a b = true -> a = b.
Proof.
  induction a; destruct b; simpl; intros; try discriminate; auto.
  apply andb_true_iff in H as [H1 H2]. apply Nat.eqb_eq in H1. f_equal; auto.
Qed.

Lemma lookup_In : forall A (l : list (modid * A)) m v, lookup l m = Some v -> In (m, v) l.
Proof.
  induction l as [|[k w] t]; simpl; intros; try discriminate.
  destruct (Nat.eqb m k) eqn:E. apply Nat.eqb_eq in E; inversion H; subst; auto. right; auto.
Qed.

Lemma lookup_None : forall A (l : list (modid * A)) m, lookup l m = None <-> ~ In m (map fst l).
Proof.
  induction l as [|[k w] t]; simpl; intros. tauto.
  destruct (Nat.eqb m k) eqn:E.
  - apply Nat.eqb_eq in E; subst. split; intros; try discriminate. exfalso; auto.
  - apply Nat.eqb_neq in E. rewrite IHt. split; intros; intuition.
Qed.

Lemma lookup_Some_dom : forall A (l : list (modid * A)) m v, lookup l m = Some v -> In m (map fst l).
Proof. intros. apply lookup_In in H. apply in_map_iff; exists (m, v); auto. Qed.

Lemma lookup_dom : forall A (l : list (modid * A)) m, In m (map fst l) -> exists v, lookup l m = Some v.
Proof. intros. destruct (lookup l m) eqn:E; eauto. apply lookup_None in E; tauto. Qed.

Lemma lookup_app_l : forall A (l1 l2 : list (modid * A)) m v, lookup l1 m = Some v -> lookup (l1 ++ l2) m = Some v.
Proof.
  induction l1 as [|[k w] t]; simpl; intros; try discriminate.
  destruct (Nat.eqb m k); auto.
Qed.

Lemma lookup_app_r : forall A (l1 l2 : list (modid * A)) m, lookup l1 m = None -> lookup (l1 ++ l2) m = lookup l2 m.
Proof.
  induction l1 as [|[k w] t]; simpl; intros; auto.
  destruct (Nat.eqb m k); try discriminate; auto.
Qed.

Lemma lookup_map_fn : forall A (f : modid -> A) S m, In m S -> lookup (map (fun x => (x, f x)) S) m = Some (f m).
Proof.
  induction S; simpl; intros. tauto.
  destruct (Nat.eqb m a) eqn:E. apply Nat.eqb_eq in E; subst; auto.
  apply Nat.eqb_neq in E. destruct H; [congruence | auto].
Qed.

Lemma lookup_map_fn_None : forall A (f : modid -> A) S m, ~ In m S -> lookup (map (fun x => (x, f x)) S) m = None.
Proof. intros. apply lookup_None. rewrite map_map; simpl. rewrite map_id. auto. Qed.

Lemma inG_In : forall fs d, inG fs d = true <-> In d (map fst fs).
Proof. intros; apply mem_In. Qed.

Lemma inG_lookup : forall (fs : FS) d, inG fs d = true <-> exists s, lookup fs d = Some s.
Proof.
  intros; rewrite inG_In; split. apply lookup_dom. intros [s H]; eapply lookup_Some_dom; eauto.
Qed.

Lemma found_In : forall fs l d, In d (found fs l) <-> In d l /\ inG fs d = true.
Proof. intros; unfold found; apply filter_In. Qed.

Lemma notfound_In : forall fs l d, In d (notfound fs l) <-> In d l /\ inG fs d = false.
Proof. intros; unfold notfound; rewrite filter_In. rewrite negb_true_iff. tauto. Qed.

Lemma found_all : forall fs l, (forall d, In d l -> inG fs d = true) -> found fs l = l.
Proof.
  induction l; simpl; intros; auto. rewrite H by auto. f_equal; auto.
Qed.

Lemma found_length : forall fs l, length (found fs l) <= length l.
Proof. intros; unfold found. induction l; simpl; auto. destruct (inG fs a); simpl; lia. Qed.

(* State.is_fresh's list comparison: equality of the adjusted list with the cached one means that
   every cached dependency (direct and indirect) is still found and no suppressed one has appeared *)
Lemma deps_eq_spec : forall fs D X Sp,
  found fs D ++ found fs X ++ found fs Sp = D ++ X ->
  (forall d, In d (D ++ X) -> inG fs d = true) /\ found fs Sp = [].
Proof.
  intros fs D X Sp H.
  assert (A : forall d, In d (D ++ X) -> inG fs d = true).
  { intros d Hd. rewrite <- H in Hd. rewrite !in_app_iff in Hd. rewrite !found_In in Hd. tauto. }
  split; auto.
  rewrite (found_all fs D) in H by (intros; apply A; apply in_or_app; auto).
  rewrite (found_all fs X) in H by (intros; apply A; apply in_or_app; auto).
  apply app_inv_head in H. rewrite <- (app_nil_r X) in H at 2. apply app_inv_head in H. auto.
Qed.

Lemma combine_map_In : forall (f : modid -> ihash) l d h, In (d, h) (combine l (map f l)) -> h = f d /\ In d l.
Proof.
  induction l; simpl; intros. tauto.
  destruct H. inversion H; subst; auto. apply IHl in H; tauto.
Qed.

Lemma combine_In_ex : forall (l : list modid) (hs : list ihash) d, length hs = length l -> In d l -> exists h, In (d, h) (combine l hs).
Proof.
  induction l; destruct hs; simpl; intros; try discriminate; try tauto.
  destruct H0. subst; eauto. destruct (IHl hs d) as [h Hh]; auto. eauto.
Qed.

Lemma NoDup_app_r' : forall (a b : list modid), NoDup (a ++ b) -> NoDup b.
Proof. induction a; simpl; intros; auto. inversion H; auto. Qed.

Lemma NoDup_app_l' : forall (a b : list modid), NoDup (a ++ b) -> NoDup a.
Proof.
  induction a; simpl; intros. constructor. inversion H; subst. constructor; eauto.
  intro; apply H2; apply in_or_app; auto.
Qed.

Lemma NoDup_app_disj : forall (a b : list modid) x, NoDup (a ++ b) -> In x a -> In x b -> False.
Proof.
  induction a; simpl; intros; try tauto. inversion H; subst. destruct H0; subst; eauto.
  apply H4; apply in_or_app; auto.
Qed.

Lemma list_eqb_refl : forall a, list_eqb a a = true.
Proof. induction a; simpl; auto. rewrite Nat.eqb_refl; auto. Qed.

Lemma group_unique : forall (L : list (list modid)) S1 S2 x,
  NoDup (concat L) -> In S1 L -> In S2 L -> In x S1 -> In x S2 -> S1 = S2.
Proof.
  induction L as [|G L IH]; simpl; intros S1 S2 x ND H1 H2 X1 X2; try tauto.
  destruct H1 as [<-|H1]; destruct H2 as [<-|H2]; auto.
  - exfalso. eapply NoDup_app_disj; eauto. apply in_concat. eauto.
  - exfalso. eapply NoDup_app_disj; eauto. apply in_concat. eauto.
  - eapply IH; eauto. eapply NoDup_app_r'; eauto.
Qed.

(* ------------------------------------------------------------------ the development *)
Section Correct.
  Variable content_of : modid -> stamp -> content.
  Variable view_of : modid -> stamp -> content.
  Variable imports : modid -> content -> opts -> list modid.
  Variable probes : modid -> content -> opts -> list modid.
  Variable implicits : modid -> content -> opts -> list modid.
  Variable analyze : list modid -> (modid -> content) -> opts -> (modid -> option ihash) -> modid -> result.
  Variable sccs_of : list (modid * list modid) -> list (list modid).
  Variable reach : list (modid * list modid) -> modid -> modid -> bool.
  Variable sdo_of : list modid -> opts -> nat.
  Variable thash : list (modid * list modid) -> modid -> nat.
  Variable ign_of : modid -> stamp -> opts -> bool.
  Variable pkg_of : modid -> stamp -> bool.
  Variable parent_of : modid -> option modid.
  Variable blocker : modid -> content -> bool.

  (* ---- the analysis contract (monitored on the implementation, not proved): THE SCC IS THE UNIT.
     What the analysis of SCC S reads outside S: the import candidates and probes of its members and the modules it
     reports as indirect dependencies. *)
  Definition ext_reads (S : list modid) (src : modid -> content) (o : opts) (env : modid -> option ihash)
             (m d : modid) : Prop :=
    ~ In d S /\ (In d (imports m (src m) o ++ probes m (src m) o) \/ In d (implicits m (src m) o) \/
                 In d (r_indirect (analyze S src o env m))).
  (* analyze is a function of the SET of members, their sources, the options and the lower interfaces it reads
     (recorded violation: F10, the member ORDER matters to the real checker) *)
  Hypothesis an_ext : forall S S' src src' o env env',
    (forall x, In x S <-> In x S') -> (forall x, In x S -> src x = src' x) ->
    (forall m d, In m S -> ext_reads S src o env m d -> env d = env' d) ->
    forall m, In m S -> analyze S src o env m = analyze S' src' o env' m.
  Hypothesis an_indirect_dom : forall S src o env m d,
    In m S -> In d (r_indirect (analyze S src o env m)) -> In d S \/ env d <> None.
  Hypothesis an_noself : forall S src o env m, ~ In m (r_indirect (analyze S src o env m)).
  Hypothesis an_nonzero : forall S src o env m, r_iface (analyze S src o env m) <> 0.
  (* an implicit reference that resolves (the module is visible) is reported as an indirect dependency *)
  Hypothesis an_implicit_reported : forall S src o env m d,
    In m S -> In d (implicits m (src m) o) -> ~ In d S -> env d <> None ->
    In d (imports m (src m) o ++ probes m (src m) o) \/ In d (r_indirect (analyze S src o env m)).

  (* ---- the graph-algorithm contract *)
  Definition graph_ok (dm : list (modid * list modid)) : Prop :=
    NoDup (map fst dm) /\ forall m ds d, In (m, ds) dm -> In d ds -> In d (map fst dm).
  Definition sccs_ok (dm : list (modid * list modid)) (L : list (list modid)) : Prop :=
    NoDup (concat L) /\ (forall m, In m (concat L) <-> In m (map fst dm)) /\
    (forall L1 S L2 m ds d, L = L1 ++ S :: L2 -> In m S -> lookup dm m = Some ds -> In d ds -> In d (concat L1 ++ S)).
  Hypothesis sccs_spec : forall dm, graph_ok dm -> sccs_ok dm (sccs_of dm).
  (* the decomposition, as a set of sets, depends only on the edge SETS (true of any SCC algorithm; the harness checks
     that warm and cold runs of the same step see the same groups) *)
  Hypothesis sccs_groups_ext : forall dm dm', map fst dm = map fst dm' ->
    (forall m ds ds' d, lookup dm m = Some ds -> lookup dm' m = Some ds' -> (In d ds <-> In d ds')) ->
    forall S, In S (sccs_of dm) -> exists S', In S' (sccs_of dm') /\ (forall x, In x S <-> In x S').
  Hypothesis reach_before : forall dm L1 S L2 m d,
    sccs_of dm = L1 ++ S :: L2 -> In m S -> reach dm m d = true -> In d (concat L1 ++ S).
  Hypothesis thash_reach : forall dm dm' m, thash dm m = thash dm' m -> forall d, reach dm m d = reach dm' m d.
  Hypothesis indirect_reach : forall dm S src o env m d,
    In S (sccs_of dm) -> In m S -> In d (r_indirect (analyze S src o env m)) -> reach dm m d = true.

  Notation find_cache_meta := Model.find_cache_meta.
  Notation load_meta := (Model.load_meta content_of ign_of).
  Notation validate_meta := (Model.validate_meta content_of ign_of).
  Notation restamp := (Model.restamp content_of ign_of).
  Notation cands := (Model.cands content_of view_of imports probes ign_of pkg_of parent_of).
  Notation direct_deps := (Model.direct_deps content_of view_of imports probes ign_of pkg_of parent_of).
  Notation supp_deps := (Model.supp_deps content_of view_of imports ign_of pkg_of parent_of).
  Notation old_indirect := (Model.old_indirect content_of ign_of).
  Notation new_indirect := (Model.new_indirect content_of view_of imports probes ign_of pkg_of parent_of).
  Notation depmap := (Model.depmap content_of view_of imports probes ign_of pkg_of parent_of).
  Notation is_fresh := (Model.is_fresh content_of sdo_of ign_of).
  Notation dep_hashes_ok := (Model.dep_hashes_ok content_of ign_of).
  Notation trans_ok := (Model.trans_ok content_of reach thash ign_of).
  Notation scc_fresh := (Model.scc_fresh content_of reach sdo_of thash ign_of).
  Notation cached_pm := (Model.cached_pm content_of ign_of).
  Notation fresh_pm := (Model.fresh_pm ign_of).
  Notation src_of := (Model.src_of view_of).
  Notation write_module := (Model.write_module content_of view_of imports probes sdo_of thash ign_of pkg_of parent_of).
  Notation process_scc := (Model.process_scc content_of view_of imports probes analyze reach sdo_of thash ign_of pkg_of parent_of).
  Notation run := (Model.run content_of view_of imports probes analyze sccs_of reach sdo_of thash ign_of pkg_of parent_of).

  Definition eo (e : meta) : opts := {| o_snap := m_snap e; o_version := m_version e; o_plugin := m_plugin e |}.

  (* The analysis calls that produced the entries: (run number, member list) |-> (sources, lower interfaces). *)
  Definition calls := nat -> list modid -> (modid -> content) * (modid -> option ihash).

  (* an entry was produced by the analysis call it names, on exactly the inputs its hashes name *)
  Definition EntryOK (K : calls) (m : modid) (e : meta) (x : meta_ex) : Prop :=
    let S0 := m_scc e in let src0 := fst (K (m_gen e) S0) in let env0 := snd (K (m_gen e) S0) in
    let r := analyze S0 src0 (eo e) env0 m in
    let v := view_of m (m_stamp e) in
    In m S0 /\ src0 m = v /\ m_hash e = content_of m (m_stamp e) /\ blocker m (m_hash e) = false /\
    m_ihash e = r_iface r /\ x_errors x = (if m_ignore_all e then [] else r_errors r) /\
    incl (imports m v (eo e)) (m_deps e ++ m_supp e) /\
    incl (m_deps e ++ m_supp e) (imports m v (eo e) ++ probes m v (eo e)) /\
    incl (r_indirect r) (m_deps e ++ x_deps x) /\
    (forall d h, In (d, h) (combine (m_deps e ++ x_deps x) (m_dep_hashes e ++ x_dep_hashes x)) -> ~ In d S0 -> env0 d = Some h) /\
    length (m_dep_hashes e ++ x_dep_hashes x) = length (m_deps e ++ x_deps x) /\
    (forall d, In d (m_supp e) -> env0 d = None) /\
    (forall d, In d (probes m v (eo e)) -> In d (m_deps e) \/ env0 d = None) /\
    (forall dm d, thash dm m = m_thash e -> In d (r_indirect r) -> reach dm m d = true) /\
    (forall d, In d (implicits m v (eo e)) -> ~ In d S0 -> In d (m_deps e ++ x_deps x) \/ env0 d = None).

  (* provenance: the members of a call are written together, so a co-member's entry is never older, and entries of the
     same run that share a member are entries of the same call *)
  Definition GenOK (c : store) : Prop :=
    (forall m m' e e', s_meta c m = Some e -> s_meta c m' = Some e' -> In m' (m_scc e) -> m_gen e <= m_gen e') /\
    (forall m m' e e', s_meta c m = Some e -> s_meta c m' = Some e' -> m_gen e = m_gen e' -> In m' (m_scc e) ->
                       m_scc e' = m_scc e).

  Definition StoreOK (K : calls) (c : store) : Prop :=
    (forall m e x, s_meta c m = Some e -> s_ex c m = Some x -> EntryOK K m e x) /\
    (forall m e d, s_meta c m = Some e -> s_data c m = Some d -> d_iface d = m_ihash e) /\
    GenOK c.
  Definition CacheOK (c : store) : Prop := exists K, StoreOK K c.
  Definition GenBound (c : store) (n : nat) : Prop := forall m e, s_meta c m = Some e -> m_gen e < n.

  Lemma CacheOK_empty : CacheOK empty_store.
  Proof. exists (fun _ _ => (fun _ => 0, fun _ => None)). repeat split; simpl; intros; discriminate. Qed.
  Lemma GenBound_empty : forall n, GenBound empty_store n.
  Proof. intros n m e H; discriminate. Qed.

  Definition FSOK (fs : FS) : Prop := NoDup (map fst fs).

  (* ---- facts about find / validate / load *)
  Lemma find_spec : forall c o m e x, find_cache_meta c o m = Some (e, x) ->
    s_meta c m = Some e /\ s_ex c m = Some x /\ eo e = o.
  Proof.
    unfold Model.find_cache_meta; intros c o m e x H.
    destruct (s_meta c m) as [e0|]; try discriminate. destruct (s_ex c m) as [x0|]; try discriminate.
    destruct (_ && _) eqn:E; try discriminate. inversion H; subst.
    apply andb_true_iff in E as [E E3]. apply andb_true_iff in E as [E1 E2].
    apply Nat.eqb_eq in E1, E2, E3. repeat split; auto. unfold eo. destruct o; simpl in *; congruence.
  Qed.

  Lemma load_spec : forall c o fs m e x, load_meta c o fs m = Some (e, x) ->
    exists s, lookup fs m = Some s /\ find_cache_meta c o m = Some (e, x) /\ validate_meta c o m s e = true.
  Proof.
    unfold Model.load_meta; intros. destruct (lookup fs m) as [s|]; try discriminate.
    destruct (find_cache_meta c o m) as [[e0 x0]|]; try discriminate.
    destruct (validate_meta c o m s e0) eqn:V; try discriminate. inversion H; subst. eauto.
  Qed.

  Lemma validate_spec : forall c o m s e, validate_meta c o m s e = true ->
    m_hash e = content_of m (m_stamp e) ->
    m_hash e = content_of m s /\ (exists d, s_data c m = Some d) /\ (m_ignore_all e = true -> ign_of m s o = true).
  Proof.
    unfold Model.validate_meta; intros c o m s e H Hh.
    apply andb_true_iff in H as [H H3]. apply andb_true_iff in H as [H1 H2].
    split; [|split].
    - apply orb_true_iff in H3 as [H3|H3]; apply Nat.eqb_eq in H3; congruence.
    - destruct (s_data c m); try discriminate; eauto.
    - intros I. rewrite I in H1. simpl in H1. auto.
  Qed.

  (* everything one needs to know about a module whose cached meta was accepted *)
  Lemma load_ok : forall K c o fs m e x, StoreOK K c -> load_meta c o fs m = Some (e, x) ->
    exists s d, lookup fs m = Some s /\ s_meta c m = Some e /\ s_ex c m = Some x /\ s_data c m = Some d /\
      eo e = o /\ m_hash e = content_of m s /\ d_iface d = m_ihash e /\ EntryOK K m e x /\
      find_cache_meta c o m = Some (e, x) /\ (m_ignore_all e = true -> ign_of m s o = true).
  Proof.
    intros K c o fs m e x [C1 [C2 _]] H. apply load_spec in H as [s [Hs [Hf Hv]]].
    pose proof (find_spec _ _ _ _ _ Hf) as [Hm [Hx Ho]].
    pose proof (C1 _ _ _ Hm Hx) as EOK. pose proof EOK as [_ [_ [Hh _]]].
    destruct (validate_spec _ _ _ _ _ Hv Hh) as [Hsrc [[d Hd] Hig]].
    exists s, d. assert (d_iface d = m_ihash e) by (eapply C2; eauto).
    split; [auto|]. split; [auto|]. split; [auto|]. split; [auto|]. split; [auto|]. split; [auto|].
    split; [auto|]. split; [auto|]. split; auto.
  Qed.

  (* side conditions under which reusing a cached entry is right; mypy checks none of them *)
  (* F6: no probed name that was not a module when the entry was written is a module now *)
  Definition ProbeFresh (c : store) (o : opts) (fs : FS) : Prop :=
    forall m e x s, load_meta c o fs m = Some (e, x) -> lookup fs m = Some s ->
      forall d, In d (probes m (view_of m s) o) -> inG fs d = true -> In d (m_deps e).
  (* F7: the file is seen the same way (text AND kind .py/.pyi) as when the entry was validated last *)
  Definition KindStable (c : store) (o : opts) (fs : FS) : Prop :=
    forall m e x s, load_meta c o fs m = Some (e, x) -> lookup fs m = Some s -> view_of m (m_stamp e) = view_of m s.
  (* F9: an implicit submodule reference naming a module of the build points down the import graph and, for a reused
     entry, is recorded in it *)
  Definition ImplicitStable (c : store) (o : opts) (fs : FS) : Prop :=
    forall m s d, lookup fs m = Some s -> In d (implicits m (view_of m s) o) -> inG fs d = true ->
      (forall S, In S (sccs_of (depmap c o fs)) -> In m S -> In d S \/ reach (depmap c o fs) m d = true) /\
      (forall e x, load_meta c o fs m = Some (e, x) -> In d (m_deps e ++ x_deps x)).
  Definition Reuse (c : store) (o : opts) (fs : FS) : Prop :=
    ProbeFresh c o fs /\ KindStable c o fs /\ ImplicitStable c o fs.

  (* every SCC whose members all have a valid meta is the SCC those entries were written for (mypy does not check this:
     a cycle broken by an edit that changes no interface leaves the other members fresh) *)
  Definition SccFresh (c : store) (o : opts) (fs : FS) : Prop :=
    forall S, In S (sccs_of (depmap c o fs)) -> (forall m, In m S -> load_meta c o fs m <> None) ->
      forall m e x, In m S -> load_meta c o fs m = Some (e, x) -> forall y, In y (m_scc e) <-> In y S.

  Lemma cands_spec : forall K c o fs m s d, StoreOK K c -> Reuse c o fs -> lookup fs m = Some s -> inG fs d = true ->
    (In d (cands c o fs m s) <-> In d (imports m (view_of m s) o ++ probes m (view_of m s) o)).
  Proof.
    intros K c o fs m s d HC [HP [HK _]] Hs HG. unfold Model.cands. destruct (load_meta c o fs m) as [[e x]|] eqn:L; [|tauto].
    destruct (Model.reparse content_of ign_of pkg_of parent_of c o fs m); [tauto|].
    destruct (load_ok _ _ _ _ _ _ _ HC L) as [s' [dd [Hs' [_ [_ [_ [Ho [Hh [_ [EOK _]]]]]]]]]].
    rewrite Hs in Hs'; inversion Hs'; subst s'. destruct EOK as [_ [_ [_ [_ [_ [_ [Hi [Hr _]]]]]]]].
    simpl in Hi, Hr. rewrite (HK _ _ _ _ L Hs), Ho in Hi, Hr. split; intros H.
    - apply Hr; auto.
    - apply in_app_or in H as [H|H]. apply Hi; auto. apply in_or_app; left. eapply HP; eauto.
  Qed.

  Lemma hard_in_cands : forall K c o fs m s, StoreOK K c -> Reuse c o fs -> lookup fs m = Some s ->
    incl (imports m (view_of m s) o) (Model.hard_cands content_of view_of imports ign_of pkg_of parent_of c o fs m s).
  Proof.
    intros K c o fs m s HC [_ [HK _]] Hs. unfold Model.hard_cands. destruct (load_meta c o fs m) as [[e x]|] eqn:L.
    - destruct (Model.reparse content_of ign_of pkg_of parent_of c o fs m); [apply incl_refl|].
      destruct (load_ok _ _ _ _ _ _ _ HC L) as [s' [dd [Hs' [_ [_ [_ [Ho [Hh [_ [EOK _]]]]]]]]]].
      rewrite Hs in Hs'; inversion Hs'; subst s'. destruct EOK as [_ [_ [_ [_ [_ [_ [Hi _]]]]]]].
      simpl in Hi. rewrite (HK _ _ _ _ L Hs), Ho in Hi. exact Hi.
    - apply incl_refl.
  Qed.

  Lemma hard_sub : forall K c o fs m s, StoreOK K c -> Reuse c o fs -> lookup fs m = Some s ->
    incl (Model.hard_cands content_of view_of imports ign_of pkg_of parent_of c o fs m s)
         (imports m (view_of m s) o ++ probes m (view_of m s) o).
  Proof.
    intros K c o fs m s HC [_ [HK _]] Hs. unfold Model.hard_cands. destruct (load_meta c o fs m) as [[e x]|] eqn:L.
    - destruct (Model.reparse content_of ign_of pkg_of parent_of c o fs m); [intros d Hd; apply in_or_app; auto|].
      destruct (load_ok _ _ _ _ _ _ _ HC L) as [s' [dd [Hs' [_ [_ [_ [Ho [Hh [_ [EOK _]]]]]]]]]].
      rewrite Hs in Hs'; inversion Hs'; subst s'. destruct EOK as [_ [_ [_ [_ [_ [_ [_ [Hr _]]]]]]]].
      simpl in Hr. rewrite (HK _ _ _ _ L Hs), Ho in Hr. exact Hr.
    - intros d Hd. apply in_or_app; auto.
  Qed.

  Lemma lookup_depmap : forall c o (fs : FS) m s, lookup fs m = Some s ->
    lookup (depmap c o fs) m = Some (direct_deps c o fs m s).
  Proof.
    intros c o fs m s. unfold Model.depmap. generalize (direct_deps c o fs) as f. intros f.
    induction fs as [|[k v] t]; simpl; intros; try discriminate.
    destruct (Nat.eqb m k) eqn:E. apply Nat.eqb_eq in E; subst. inversion H; subst; auto. auto.
  Qed.

  Lemma depmap_dom : forall c o fs, map fst (depmap c o fs) = map fst fs.
  Proof. intros; unfold Model.depmap. rewrite map_map; simpl. auto. Qed.

  Lemma depmap_ok : forall c o fs, FSOK fs -> graph_ok (depmap c o fs).
  Proof.
    intros c o fs H; split. rewrite depmap_dom; auto.
    intros m ds d Hin Hd. rewrite depmap_dom. unfold Model.depmap in Hin. apply in_map_iff in Hin as [[k v] [E _]].
    simpl in E. inversion E; subst. unfold Model.direct_deps in Hd. apply found_In in Hd as [_ Hd]. apply inG_In; auto.
  Qed.

  Lemma direct_deps_spec : forall K c o fs m s d, StoreOK K c -> Reuse c o fs -> lookup fs m = Some s ->
    (In d (direct_deps c o fs m s) <->
     In d (imports m (view_of m s) o ++ probes m (view_of m s) o) /\ inG fs d = true).
  Proof.
    intros. unfold Model.direct_deps. rewrite found_In. split; intros [A B]; split; auto.
    eapply cands_spec; eauto. eapply cands_spec; eauto.
  Qed.
  (* ---- what the environment of a run contains *)
  Definition pm_is (fs : FS) (o : opts) (m : modid) (p : pm) (r : result) : Prop :=
    exists s, lookup fs m = Some s /\ p_iface p = r_iface r /\
              p_errors p = (if ign_of m s o then [] else r_errors r) /\ p_hash p = p_iface p.
  (* every processed SCC holds the result of analysing it as a unit against the (final) lower interfaces *)
  Definition GoodS (fs : FS) (o : opts) (L : list (list modid)) (env : penv) : Prop :=
    forall S m, In S L -> In m S ->
      exists p, lookup env m = Some p /\ pm_is fs o m p (analyze S (src_of fs) o (ienv env) m).
  Definition DomG (fs : FS) (env : penv) : Prop := forall m, In m (map fst env) -> inG fs m = true.
  Definition rd3 (m : modid) (v : content) (o : opts) : list modid :=
    (imports m v o ++ probes m v o) ++ implicits m v o.
  Definition Closed (fs : FS) (o : opts) (env : penv) : Prop :=
    forall m s d, In m (map fst env) -> lookup fs m = Some s -> In d (rd3 m (view_of m s) o) ->
                  inG fs d = true -> In d (map fst env).

  Lemma src_of_eq : forall (fs : FS) m s, lookup fs m = Some s -> src_of fs m = view_of m s.
  Proof. intros. unfold Model.src_of. rewrite H. auto. Qed.

  Lemma ienv_app_l : forall (env ext : penv) d, In d (map fst env) -> ienv (env ++ ext) d = ienv env d.
  Proof. intros. apply lookup_dom in H as [q Hq]. unfold ienv. rewrite Hq. erewrite lookup_app_l; eauto. Qed.

  Lemma ienv_none : forall fs (env : penv) d, DomG fs env -> inG fs d = false -> ienv env d = None.
  Proof.
    intros. unfold ienv. destruct (lookup env d) eqn:Q; auto. apply lookup_Some_dom in Q. apply H in Q. congruence.
  Qed.

  (* what SCC S reads outside itself is already in the environment and stays as it is when the environment grows *)
  Lemma reads_stable : forall fs o (env ext : penv) S,
    DomG fs env -> DomG fs (env ++ ext) ->
    (forall m1 s1 d, In m1 S -> lookup fs m1 = Some s1 -> In d (rd3 m1 (view_of m1 s1) o) -> inG fs d = true -> ~ In d S ->
       In d (map fst env)) ->
    (forall m1, In m1 S -> inG fs m1 = true) ->
    forall m1 d, In m1 S -> ext_reads S (src_of fs) o (ienv env) m1 d -> ienv env d = ienv (env ++ ext) d.
  Proof.
    intros fs o env ext S D1 D2 Hdir HS m1 d Hm1 [HnS Hrd].
    assert (R3 : In d (rd3 m1 (src_of fs m1) o) -> ienv env d = ienv (env ++ ext) d).
    { intros Hd. destruct (proj1 (inG_lookup fs m1) (HS _ Hm1)) as [s1 Hs1]. rewrite (src_of_eq _ _ _ Hs1) in Hd.
      destruct (inG fs d) eqn:G.
      + symmetry. apply ienv_app_l. eapply Hdir; eauto.
      + rewrite (ienv_none fs env d D1 G). rewrite (ienv_none fs (env ++ ext) d D2 G). auto. }
    destruct Hrd as [Hd|[Hd|Hd]].
    - apply R3. unfold rd3. apply in_or_app; auto.
    - apply R3. unfold rd3. apply in_or_app; auto.
    - destruct (an_indirect_dom _ _ _ _ _ _ Hm1 Hd) as [X|X]; [tauto|].
      symmetry. apply ienv_app_l. unfold ienv in X. destruct (lookup env d) eqn:Q; simpl in X; try congruence.
      eapply lookup_Some_dom; eauto.
  Qed.

  (* ---- facts about the SCC being processed *)
  Lemma step_facts : forall K c o fs L1 S L2 (env : penv),
    StoreOK K c -> Reuse c o fs ->
    FSOK fs -> sccs_of (depmap c o fs) = L1 ++ S :: L2 -> map fst env = concat L1 ->
    (forall m, In m S -> inG fs m = true) /\ (forall m, In m S -> ~ In m (map fst env)) /\ NoDup S /\
    (forall m s d, In m S -> lookup fs m = Some s -> In d (direct_deps c o fs m s) -> In d (map fst env ++ S)) /\
    (forall m1 s1 d, In m1 S -> lookup fs m1 = Some s1 -> In d (rd3 m1 (view_of m1 s1) o) -> inG fs d = true -> ~ In d S ->
       In d (map fst env)).
  Proof.
    intros K c o fs L1 S L2 env HC HP HFS HL Hdom.
    destruct (sccs_spec _ (depmap_ok c o fs HFS)) as [ND [Hcov Htopo]]. rewrite HL in *.
    rewrite concat_app in ND, Hcov. simpl in ND, Hcov.
    assert (T : forall m s d, In m S -> lookup fs m = Some s -> In d (direct_deps c o fs m s) -> In d (map fst env ++ S)).
    { intros m s d Hm Hs Hd. rewrite Hdom. eapply Htopo; eauto. apply lookup_depmap; auto. }
    split; [|split; [|split; [|split]]]; auto.
    - intros m Hm. apply inG_In. rewrite <- (depmap_dom c o fs). apply Hcov. rewrite !in_app_iff; auto.
    - intros m Hm Hin. rewrite Hdom in Hin. eapply NoDup_app_disj; eauto. apply in_or_app; auto.
    - apply NoDup_app_r' in ND. apply NoDup_app_l' in ND. auto.
    - intros m1 s1 d Hm1 Hs1 Hd HG HnS.
      assert (In d (map fst env ++ S)).
      { unfold rd3 in Hd. apply in_app_or in Hd as [Hd|Hd].
        - eapply T; eauto. eapply direct_deps_spec; eauto.
        - destruct HP as [_ [_ HI]]. destruct (HI m1 s1 d Hs1 Hd HG) as [A _].
          assert (InL : In S (sccs_of (depmap c o fs))) by (rewrite HL; apply in_or_app; right; left; auto).
          destruct (A S InL Hm1) as [X|X]. apply in_or_app; auto.
          rewrite Hdom. eapply reach_before; eauto. }
      apply in_app_or in H as [H|H]; tauto.
  Qed.

  Lemma goodS_extend : forall fs o L1 (env ext : penv),
    GoodS fs o L1 env -> map fst env = concat L1 -> DomG fs env -> DomG fs (env ++ ext) -> Closed fs o env ->
    GoodS fs o L1 (env ++ ext).
  Proof.
    intros fs o L1 env ext HG Hdom D1 D2 HCl S m HS Hm.
    destruct (HG S m HS Hm) as [p [Hp [s [Hs H]]]]. exists p. split. erewrite lookup_app_l; eauto.
    exists s; split; auto.
    assert (SD : forall x, In x S -> In x (map fst env)). { intros x Hx. rewrite Hdom. apply in_concat. eauto. }
    replace (analyze S (src_of fs) o (ienv (env ++ ext)) m) with (analyze S (src_of fs) o (ienv env) m); auto.
    apply an_ext; auto; try tauto.
    apply (reads_stable fs o env ext S D1 D2); auto.
    intros m1 s1 d Hm1 Hs1 Hd HGd _. eapply HCl; eauto.
  Qed.

  Lemma env_hash : forall fs o L1 (env : penv) d q, GoodS fs o L1 env -> map fst env = concat L1 ->
    lookup env d = Some q -> p_hash q = p_iface q.
  Proof.
    intros fs o L1 env d q HG Hdom Hq. pose proof (lookup_Some_dom _ _ _ _ Hq) as Hin. rewrite Hdom in Hin.
    apply in_concat in Hin as [S [HS Hd]]. destruct (HG S d HS Hd) as [p [Hp [s [_ [_ [_ H]]]]]]. congruence.
  Qed.
  Lemma fresh_parts : forall c o fs dm env S m, scc_fresh c o fs dm env S = true -> In m S ->
    is_fresh c o fs m = true /\ dep_hashes_ok c o fs env m = true /\ trans_ok c o fs dm S m = true.
  Proof.
    unfold Model.scc_fresh; intros. apply andb_true_iff in H as [H H3]. apply andb_true_iff in H as [H1 H2].
    rewrite forallb_forall in H1, H2, H3. auto.
  Qed.

  Lemma is_fresh_spec : forall c o fs m, is_fresh c o fs m = true ->
    exists e x, load_meta c o fs m = Some (e, x) /\
      (forall d, In d (m_deps e ++ x_deps x) -> inG fs d = true) /\ found fs (m_supp e) = [].
  Proof.
    unfold Model.is_fresh; intros. destruct (load_meta c o fs m) as [[e x]|]; try discriminate.
    apply andb_true_iff in H as [H _]. apply list_eqb_eq in H. apply deps_eq_spec in H. exists e, x; tauto.
  Qed.

  Lemma fresh_no_reparse : forall c o fs m e x, load_meta c o fs m = Some (e, x) ->
    (forall d, In d (m_deps e ++ x_deps x) -> inG fs d = true) -> found fs (m_supp e) = [] ->
    Model.reparse content_of ign_of pkg_of parent_of c o fs m = false.
  Proof.
    intros c o fs m e x L Hall Hsupp. unfold Model.reparse. rewrite L. apply orb_false_iff. split.
    - destruct (existsb (Model.is_pkg_now pkg_of fs) (m_supp e)) eqn:E; auto. apply existsb_exists in E as [d [Hd Hp]].
      unfold Model.is_pkg_now in Hp. destruct (lookup fs d) eqn:Q; try discriminate.
      assert (In d (found fs (m_supp e))). { apply found_In. split; auto. apply inG_lookup; eauto. }
      rewrite Hsupp in H. inversion H.
    - destruct (existsb _ (m_deps e)) eqn:E; auto. apply existsb_exists in E as [d [Hd Hp]].
      rewrite (Hall d) in Hp by (apply in_or_app; auto). discriminate.
  Qed.

  Lemma cached_pm_eq : forall c o fs m e x d s, load_meta c o fs m = Some (e, x) -> s_data c m = Some d ->
    lookup fs m = Some s ->
    cached_pm c o fs m = {| p_hash := m_ihash e; p_iface := d_iface d;
                            p_errors := if ign_of m s o then [] else x_errors x |}.
  Proof. intros. unfold Model.cached_pm. rewrite H, H0, H1. auto. Qed.

  Lemma domG_app : forall fs (env : penv) (f : modid -> pm) S, DomG fs env -> (forall m, In m S -> inG fs m = true) ->
    DomG fs (env ++ map (fun x => (x, f x)) S).
  Proof.
    intros fs env f S D HS m Hm. rewrite map_app, in_app_iff in Hm. destruct Hm as [Hm|Hm]; auto.
    rewrite map_map in Hm; simpl in Hm. rewrite map_id in Hm. auto.
  Qed.

  (* ---- a stale SCC: analysed as a unit against the lower interfaces *)
  Lemma stale_good : forall K c o fs L1 S L2 (env : penv) m,
    StoreOK K c -> Reuse c o fs -> FSOK fs -> sccs_of (depmap c o fs) = L1 ++ S :: L2 -> map fst env = concat L1 ->
    DomG fs env -> In m S ->
    let R := analyze S (src_of fs) o (ienv env) in
    pm_is fs o m (fresh_pm fs o R m)
          (analyze S (src_of fs) o (ienv (env ++ map (fun x => (x, fresh_pm fs o R x)) S)) m).
  Proof.
    intros K c o fs L1 S L2 env m HC HP HFS HL Hdom D1 Hm R.
    destruct (step_facts _ _ _ _ _ _ _ _ HC HP HFS HL Hdom) as [SinG [Sdisj [SND [Stopo Sdir]]]].
    destruct (proj1 (inG_lookup fs m) (SinG _ Hm)) as [s Hs]. exists s. split; auto.
    replace (analyze S (src_of fs) o (ienv (env ++ map (fun x => (x, fresh_pm fs o R x)) S)) m) with (R m).
    { simpl. unfold Model.ign_now. rewrite Hs. auto. }
    unfold R. apply an_ext; auto; try tauto.
    apply (reads_stable fs o env _ S D1); auto. apply domG_app; auto.
  Qed.

  (* ---- a fresh SCC: by provenance all its entries stem from ONE analysis call on this member set, and that call's
          inputs are the current sources and the current lower interfaces *)
  Lemma fresh_good : forall K c o fs L1 S L2 (env : penv) m,
    StoreOK K c -> Reuse c o fs -> SccFresh c o fs -> FSOK fs ->
    sccs_of (depmap c o fs) = L1 ++ S :: L2 -> map fst env = concat L1 ->
    GoodS fs o L1 env -> DomG fs env -> scc_fresh c o fs (depmap c o fs) env S = true -> In m S ->
    pm_is fs o m (cached_pm c o fs m)
          (analyze S (src_of fs) o (ienv (env ++ map (fun x => (x, cached_pm c o fs x)) S)) m).
  Proof.
    intros K c o fs L1 S L2 env m HC HP HSF HFS HL Hdom HG D1 HF Hm.
    destruct (step_facts _ _ _ _ _ _ _ _ HC HP HFS HL Hdom) as [SinG [Sdisj [SND [Stopo Sdir]]]].
    set (env' := env ++ map (fun x0 => (x0, cached_pm c o fs x0)) S).
    assert (D2 : DomG fs env') by (apply domG_app; auto).
    assert (InL : In S (sccs_of (depmap c o fs))) by (rewrite HL; apply in_or_app; right; left; auto).
    assert (ALLV : forall x, In x S -> load_meta c o fs x <> None).
    { intros x Hx. destruct (fresh_parts _ _ _ _ _ _ _ HF Hx) as [F1 _].
      destruct (is_fresh_spec _ _ _ _ F1) as [e0 [x0 [L0 _]]]. congruence. }
    destruct (fresh_parts _ _ _ _ _ _ _ HF Hm) as [F1 _].
    destruct (is_fresh_spec _ _ _ _ F1) as [e [x [L _]]].
    destruct (load_ok _ _ _ _ _ _ _ HC L) as [s [d [Hs [Hme [Hx [Hd [Ho [Hh [Hdi [EOK [_ Hig]]]]]]]]]]].
    pose proof (HSF S InL ALLV m e x Hm L) as EQS.
    (* all members carry the same call *)
    assert (SAME : forall m1 e1 x1, In m1 S -> load_meta c o fs m1 = Some (e1, x1) ->
                     m_gen e1 = m_gen e /\ m_scc e1 = m_scc e).
    { intros m1 e1 x1 Hm1 L1'. destruct (load_ok _ _ _ _ _ _ _ HC L1') as [s1 [d1 [_ [Hme1 _]]]].
      pose proof (HSF S InL ALLV m1 e1 x1 Hm1 L1') as EQ1.
      destruct HC as [_ [_ [G2 G3]]].
      assert (m_gen e <= m_gen e1) by (eapply G2; eauto; apply EQS; auto).
      assert (m_gen e1 <= m_gen e) by (eapply G2; eauto; apply EQ1; auto).
      assert (m_gen e = m_gen e1) by lia. split; auto. eapply G3; eauto. apply EQS; auto. }
    unfold EntryOK in EOK. simpl in EOK.
    destruct EOK as [A1 [A2 [A3 [A4 [A5 [A6 _]]]]]].
    set (S0 := m_scc e) in *. set (src0 := fst (K (m_gen e) S0)) in *. set (env0 := snd (K (m_gen e) S0)) in *.
    rewrite Ho in *.
    assert (CALL : analyze S0 src0 o env0 m = analyze S (src_of fs) o (ienv env') m).
    { apply an_ext; auto.
      - (* sources *)
        intros y Hy. apply EQS in Hy. destruct (fresh_parts _ _ _ _ _ _ _ HF Hy) as [Fy _].
        destruct (is_fresh_spec _ _ _ _ Fy) as [ey [xy [Ly _]]].
        destruct (load_ok _ _ _ _ _ _ _ HC Ly) as [sy [dy [Hsy [_ [_ [_ [_ [Hhy [_ [EOKy _]]]]]]]]]].
        destruct (SAME _ _ _ Hy Ly) as [Gy Sy]. unfold EntryOK in EOKy. simpl in EOKy. rewrite Gy, Sy in EOKy.
        destruct EOKy as [_ [B2 _]]. fold S0 in B2. fold src0 in B2. rewrite (src_of_eq _ _ _ Hsy). rewrite B2.
        destruct HP as [_ [HK _]]. eapply HK; eauto.
      - (* lower interfaces *)
        intros m1 d0 Hm1 [HnS Hrd]. apply EQS in Hm1.
        destruct (fresh_parts _ _ _ _ _ _ _ HF Hm1) as [G1 [G2 G3]].
        destruct (is_fresh_spec _ _ _ _ G1) as [e1 [x1 [L1' [Hall Hsupp]]]].
        destruct (load_ok _ _ _ _ _ _ _ HC L1') as [s1 [d1 [Hs1 [_ [_ [_ [Ho1 [Hh1 [_ [EOK1 _]]]]]]]]]].
        destruct (SAME _ _ _ Hm1 L1') as [Gy Sy]. unfold EntryOK in EOK1. simpl in EOK1. rewrite Gy, Sy, Ho1 in EOK1.
        fold S0 in EOK1. fold src0 in EOK1. fold env0 in EOK1.
        assert (HV1 : view_of m1 (m_stamp e1) = view_of m1 s1). { destruct HP as [_ [HK _]]. eapply HK; eauto. }
        rewrite HV1 in EOK1.
        destruct EOK1 as [_ [B2 [_ [_ [_ [_ [B7 [_ [B9 [B10 [B11 [B12 [B13 [B14 B15]]]]]]]]]]]]]].
        assert (NS : ~ In d0 S) by (intro; apply HnS; apply EQS; auto).
        assert (AGE : In d0 (m_deps e1 ++ x_deps x1) -> In d0 (map fst env) -> env0 d0 = ienv env' d0).
        { intros Hdd InE. destruct (combine_In_ex _ _ d0 B11 Hdd) as [h Hh0]. rewrite (B10 _ _ Hh0 HnS).
          unfold Model.dep_hashes_ok in G2. rewrite L1' in G2. rewrite forallb_forall in G2. specialize (G2 _ Hh0).
          simpl in G2. rewrite (Hall _ Hdd) in G2. simpl in G2. apply Nat.eqb_eq in G2. unfold Model.cur_hash in G2.
          destruct (lookup_dom _ _ _ InE) as [q Hq]. rewrite Hq in G2.
          unfold env'. rewrite (ienv_app_l env _ d0 InE). unfold ienv. rewrite Hq. simpl.
          rewrite <- (env_hash fs o L1 env d0 q HG Hdom Hq). congruence. }
        assert (DIR : In d0 (m_deps e1) -> In d0 (map fst env)).
        { intros A. assert (In d0 (map fst env ++ S)).
          { eapply Stopo; eauto. unfold Model.direct_deps, Model.cands. rewrite L1'.
            rewrite (fresh_no_reparse _ _ _ _ _ _ L1' Hall Hsupp). apply found_In. split.
            apply in_or_app; auto. apply Hall. apply in_or_app; auto. }
          apply in_app_or in H as [H|H]; tauto. }
        assert (IND : In d0 (x_deps x1) -> In d0 (r_indirect (analyze S0 src0 o env0 m1)) -> In d0 (map fst env)).
        { intros Hdd Hri. assert (In d0 (concat L1 ++ S)).
          { unfold Model.trans_ok in G3. rewrite L1' in G3. apply orb_true_iff in G3 as [FT|G3].
            - apply Nat.eqb_eq in FT. eapply reach_before; eauto.
            - rewrite forallb_forall in G3. specialize (G3 _ Hdd).
              apply orb_true_iff in G3 as [G3|G3]. apply mem_In in G3. apply in_or_app; auto.
              eapply reach_before; eauto. }
          rewrite <- Hdom in H. apply in_app_or in H as [H|H]; tauto. }
        assert (NONE : inG fs d0 = false -> ienv env' d0 = None) by (apply (ienv_none fs env' d0 D2)).
        rewrite B2 in Hrd. destruct Hrd as [Hrd|[Himp|Hri]].
        + apply in_app_or in Hrd as [Hi|Hp].
          * apply B7 in Hi. apply in_app_or in Hi as [Hi|Hi].
            -- apply AGE; auto. apply in_or_app; auto.
            -- rewrite (B12 _ Hi). symmetry. apply NONE.
               destruct (inG fs d0) eqn:G; auto. assert (In d0 (found fs (m_supp e1))) by (apply found_In; auto).
               rewrite Hsupp in H. inversion H.
          * destruct (inG fs d0) eqn:G.
            -- assert (In d0 (m_deps e1)). { destruct HP as [HPr _]. eapply HPr; eauto. }
               apply AGE; auto. apply in_or_app; auto.
            -- destruct (B13 _ Hp) as [X|X]. apply AGE; auto. apply in_or_app; auto.
               rewrite X. symmetry. apply NONE; auto.
        + destruct (inG fs d0) eqn:G.
          * destruct HP as [_ [_ HI]]. destruct (HI m1 s1 d0 Hs1 Himp G) as [_ REC].
            apply AGE. eapply REC; eauto. eapply Sdir; eauto. unfold rd3. apply in_or_app; auto.
          * destruct (B15 _ Himp HnS) as [X|X].
            -- exfalso. rewrite (Hall _ X) in G. discriminate.
            -- rewrite X. symmetry. apply NONE; auto.
        + pose proof (B9 _ Hri) as Hdd. apply AGE; auto.
          apply in_app_or in Hdd as [Hdd|Hdd]; auto. }
    exists s. split; auto. rewrite (cached_pm_eq _ _ _ _ _ _ _ _ L Hd Hs). simpl. fold env'. rewrite <- CALL.
    split; [congruence|]. split; [|congruence].
    destruct (ign_of m s o) eqn:IG; auto. rewrite A6.
    destruct (m_ignore_all e) eqn:MI; auto. specialize (Hig eq_refl). discriminate.
  Qed.
  (* ---- the entry written for a re-analysed module *)
  Notation new_meta := (Model.new_meta content_of view_of imports probes sdo_of thash ign_of pkg_of parent_of).
  Notation new_ex := (Model.new_ex content_of view_of imports probes ign_of pkg_of parent_of).

  Definition env0_of (c : store) (o : opts) (fs : FS) (env env' : penv) : modid -> option ihash :=
    fun d => match lookup env d with
             | Some q => Some (p_iface q)
             | None => if inG fs d then Some (cur_hash c o env' d) else None
             end.
  Definition add_call (K : calls) (now : nat) (S : list modid) (v : (modid -> content) * (modid -> option ihash)) : calls :=
    fun g S' => if Nat.eqb g now && list_eqb S' S then v else K g S'.

  Lemma add_call_same : forall K now S v, add_call K now S v now S = v.
  Proof. intros. unfold add_call. rewrite Nat.eqb_refl, list_eqb_refl. auto. Qed.
  Lemma add_call_other : forall K now S v g S', ~ (g = now /\ S' = S) -> add_call K now S v g S' = K g S'.
  Proof.
    intros. unfold add_call. destruct (Nat.eqb g now) eqn:E1; simpl; auto.
    destruct (list_eqb S' S) eqn:E2; auto. exfalso. apply H. apply Nat.eqb_eq in E1. apply list_eqb_eq in E2. auto.
  Qed.

  Lemma new_entry_ok : forall K c o fs L1 S L2 (env : penv) m s now dmt,
    StoreOK K c -> Reuse c o fs -> FSOK fs -> sccs_of (depmap c o fs) = L1 ++ S :: L2 -> map fst env = concat L1 ->
    GoodS fs o L1 env -> DomG fs env -> In m S -> lookup fs m = Some s -> blocker m (content_of m s) = false ->
    let R := analyze S (src_of fs) o (ienv env) in
    let env' := env ++ map (fun x => (x, fresh_pm fs o R x)) S in
    forall Kb, EntryOK (add_call Kb now S (src_of fs, env0_of c o fs env env')) m
            (new_meta c o fs now (depmap c o fs) S env' R m s dmt) (new_ex c o fs env' R m s).
  Proof.
    intros K c o fs L1 S L2 env m s now dmt HC HP HFS HL Hdom HG D1 Hm Hs HNB R env' Kb.
    destruct (step_facts _ _ _ _ _ _ _ _ HC HP HFS HL Hdom) as [SinG [Sdisj [SND [Stopo Sdir]]]].
    assert (InL : In S (sccs_of (depmap c o fs))) by (rewrite HL; apply in_or_app; right; left; auto).
    unfold EntryOK. simpl. rewrite add_call_same. simpl.
    assert (EO : {| o_snap := o_snap o; o_version := o_version o; o_plugin := o_plugin o |} = o) by (destruct o; auto).
    unfold eo; simpl. rewrite EO.
    set (env0 := env0_of c o fs env env').
    assert (CALL : forall y, In y S -> analyze S (src_of fs) o env0 y = R y).
    { intros y Hy. unfold R. symmetry. apply an_ext; auto; try tauto.
      intros m1 d Hm1 [HnS Hrd]; unfold env0, env0_of, ienv.
      assert (R3 : In d (rd3 m1 (src_of fs m1) o) ->
                   option_map p_iface (lookup env d) =
                   match lookup env d with Some q => Some (p_iface q)
                   | None => if inG fs d then Some (cur_hash c o env' d) else None end).
      { intros Hd. destruct (proj1 (inG_lookup fs m1) (SinG _ Hm1)) as [s1 Hs1]. rewrite (src_of_eq _ _ _ Hs1) in Hd.
        destruct (inG fs d) eqn:G.
        + assert (In d (map fst env)) by (eapply Sdir; eauto). apply lookup_dom in H as [q Hq]. rewrite Hq. auto.
        + assert (lookup env d = None). { apply lookup_None. intro X. apply D1 in X. congruence. }
          rewrite H. auto. }
      destruct Hrd as [Hd|[Hd|Hd]].
      - apply R3. unfold rd3. apply in_or_app; auto.
      - apply R3. unfold rd3. apply in_or_app; auto.
      - destruct (an_indirect_dom _ _ _ _ _ _ Hm1 Hd) as [X|X]; [tauto|].
        unfold ienv in X. destruct (lookup env d) eqn:Q; simpl in X; try congruence. auto. }
    rewrite (CALL m Hm).
    set (deps := direct_deps c o fs m s). set (ind := new_indirect c o fs m s (R m)).
    assert (INDIR : forall d, In d (r_indirect (R m)) -> inG fs d = true).
    { intros d Hd. destruct (an_indirect_dom _ _ _ _ _ _ Hm Hd) as [X|X]. auto.
      unfold ienv in X. destruct (lookup env d) eqn:Q; simpl in X; try congruence. apply D1. eapply lookup_Some_dom; eauto. }
    assert (INDG : forall d, In d ind -> inG fs d = true).
    { intros d Hd. unfold ind, Model.new_indirect in Hd. apply in_app_or in Hd as [Hd|Hd].
      - unfold Model.old_indirect in Hd. destruct (load_meta c o fs m) as [[e x]|]; simpl in Hd; try tauto.
        apply found_In in Hd; tauto.
      - apply filter_In in Hd as [Hd _]. auto. }
    assert (DEPG : forall d, In d deps -> inG fs d = true). { intros d Hd. apply found_In in Hd; tauto. }
    assert (NONE : forall d, inG fs d = false -> env0 d = None).
    { intros d Hd. unfold env0, env0_of. rewrite Hd. destruct (lookup env d) eqn:Q; auto.
      apply lookup_Some_dom in Q. apply D1 in Q. congruence. }
    split; [auto|]. split; [apply src_of_eq; auto|]. split; [auto|]. split; [auto|]. split; [auto|]. split; [auto|].
    split.
    { intros d Hd. unfold Model.supp_deps. apply in_or_app. destruct (inG fs d) eqn:G.
      - left. eapply direct_deps_spec; eauto. split; auto. apply in_or_app; auto.
      - right. apply notfound_In; split; auto. eapply hard_in_cands; eauto. }
    split.
    { intros d Hd. apply in_app_or in Hd as [Hd|Hd].
      - eapply direct_deps_spec in Hd; eauto. tauto.
      - unfold Model.supp_deps in Hd. apply notfound_In in Hd as [Hd _]. eapply hard_sub; eauto. }
    split.
    { intros d Hd. apply in_or_app. pose proof (INDIR d Hd) as DG.
      destruct (mem d (cands c o fs m s)) eqn:M1.
      - left. apply found_In. split; auto. apply mem_In; auto.
      - right. unfold ind, Model.new_indirect. apply in_or_app.
        destruct (mem d (old_indirect c o fs m)) eqn:M2. left; apply mem_In; auto.
        right. apply filter_In. split; auto. rewrite M1, M2. simpl.
        destruct (Nat.eqb d m) eqn:E; auto. apply Nat.eqb_eq in E; subst d. exfalso. eapply an_noself; eauto. }
    split.
    { intros d h Hdh HnS. rewrite <- map_app in Hdh. apply combine_map_In in Hdh as [Hh Hd]. subst h.
      unfold env0, env0_of. destruct (lookup env d) eqn:Q.
      - unfold Model.cur_hash. unfold env'. erewrite lookup_app_l by eauto.
        rewrite (env_hash fs o L1 env d p HG Hdom Q). auto.
      - assert (inG fs d = true). { apply in_app_or in Hd as [Hd|Hd]; auto. }
        rewrite H. auto. }
    split. { rewrite <- map_app. apply map_length. }
    split. { intros d Hd. apply notfound_In in Hd as [_ Hd]. apply NONE; auto. }
    split.
    { intros d Hd. destruct (inG fs d) eqn:G; [|right; apply NONE; auto]. left.
      eapply direct_deps_spec; eauto. split; auto. apply in_or_app; auto. }
    split.
    { intros dm' d Heq Hd. simpl in Heq. rewrite (thash_reach dm' (depmap c o fs) m Heq).
      eapply indirect_reach; eauto. }
    { intros d Hd HnS. destruct (inG fs d) eqn:G; [|right; apply NONE; auto]. left.
      assert (InE : In d (map fst env)). { eapply Sdir; eauto. unfold rd3. apply in_or_app; auto. }
      assert (VIS : ienv env d <> None).
      { unfold ienv. destruct (lookup_dom _ _ _ InE) as [q Hq]. rewrite Hq. simpl. congruence. }
      rewrite <- (src_of_eq _ _ _ Hs) in Hd.
      destruct (an_implicit_reported S (src_of fs) o (ienv env) m d Hm Hd HnS VIS) as [X|X].
      - apply in_or_app; left. eapply direct_deps_spec; eauto. rewrite (src_of_eq _ _ _ Hs) in X. auto.
      - fold R in X.
        assert (Y : In d (direct_deps c o fs m s ++ new_indirect c o fs m s (R m))).
        { pose proof (INDIR d X) as DG.
          destruct (mem d (cands c o fs m s)) eqn:M1.
          - apply in_or_app; left. apply found_In. split; auto. apply mem_In; auto.
          - apply in_or_app; right. unfold Model.new_indirect. apply in_or_app.
            destruct (mem d (old_indirect c o fs m)) eqn:M2. left; apply mem_In; auto.
            right. apply filter_In. split; auto. rewrite M1, M2. simpl.
            destruct (Nat.eqb d m) eqn:E; auto. apply Nat.eqb_eq in E; subst d. exfalso. eapply an_noself; eauto. }
        exact Y. }
  Qed.
  Lemma entry_K_irrel : forall K1 K2 m e x, K1 (m_gen e) (m_scc e) = K2 (m_gen e) (m_scc e) ->
    EntryOK K1 m e x -> EntryOK K2 m e x.
  Proof. intros K1 K2 m e x H. unfold EntryOK. rewrite H. auto. Qed.

  (* ---- writing the cache records of one module / of one SCC *)
  Definition same_at (c1 c2 : store) (m : modid) : Prop :=
    s_meta c1 m = s_meta c2 m /\ s_ex c1 m = s_ex c2 m /\ s_data c1 m = s_data c2 m.
  Definition written_at (c : store) (o : opts) (fs : FS) (now : nat) dm (S : list modid) (env' : penv)
             (R : modid -> result) (cf : store) (m : modid) (s : stamp) : Prop :=
    (s_meta cf m = None /\ s_ex cf m = None) \/
    (exists d, s_data cf m = Some d /\ d_iface d = r_iface (R m) /\
               s_meta cf m = Some (new_meta c o fs now dm S env' R m s (d_mtime d)) /\
               s_ex cf m = Some (new_ex c o fs env' R m s)).

  Lemma upd_same : forall A (f : modid -> option A) m v, upd f m v m = v.
  Proof. intros; unfold upd. rewrite Nat.eqb_refl; auto. Qed.
  Lemma upd_other : forall A (f : modid -> option A) m v m', m' <> m -> upd f m v m' = f m'.
  Proof. intros; unfold upd. apply Nat.eqb_neq in H. rewrite H; auto. Qed.

  Lemma write_module_char : forall K c o fs now dm S (env' : penv) (R : modid -> result) c' m s,
    StoreOK K c -> s_data c' m = s_data c m -> lookup fs m = Some s -> r_iface (R m) <> 0 ->
    (forall m', m' <> m -> same_at (write_module c o fs now dm S env' R c' m) c' m') /\
    written_at c o fs now dm S env' R (write_module c o fs now dm S env' R c' m) m s.
  Proof.
    intros K c o fs now dm S env' R c' m s HC Hdata Hs HNZ. unfold Model.write_module. rewrite Hs.
    set (old_h := match find_cache_meta c o m with Some (e, _) => m_ihash e | None => 0 end).
    assert (OLD : old_h = r_iface (R m) -> forall d, s_data c m = Some d -> d_iface d = r_iface (R m)).
    { intros E d Hd. unfold old_h in E. destruct (find_cache_meta c o m) as [[e1 x1]|] eqn:F.
      - apply find_spec in F as [F1 _]. destruct HC as [_ [C2 _]]. rewrite <- E. eapply C2; eauto.
      - exfalso. auto. }
    destruct (Nat.eqb old_h (r_iface (R m))) eqn:E.
    - apply Nat.eqb_eq in E. simpl. destruct (s_data c' m) as [d|] eqn:D.
      + split.
        * intros m' N. unfold same_at; simpl. rewrite !upd_other by auto. auto.
        * right. exists d. simpl. rewrite !upd_same. repeat split; auto; try (apply OLD; auto; congruence).
      + split.
        * intros m' N. unfold same_at; simpl. rewrite !upd_other by auto. auto.
        * left. simpl. rewrite !upd_same. auto.
    - simpl. rewrite upd_same. split.
      + intros m' N. unfold same_at; simpl. rewrite !upd_other by auto. auto.
      + right. exists {| d_iface := r_iface (R m); d_mtime := now |}. simpl. rewrite !upd_same. auto.
  Qed.

  Lemma write_fold_char : forall K c o fs now dm S (env' : penv) (R : modid -> result) S' c',
    StoreOK K c -> NoDup S' -> (forall m, In m S' -> s_data c' m = s_data c m) ->
    (forall m, In m S' -> (exists s, lookup fs m = Some s) /\ r_iface (R m) <> 0) ->
    let cf := fold_left (write_module c o fs now dm S env' R) S' c' in
    (forall m', ~ In m' S' -> same_at cf c' m') /\
    (forall m s, In m S' -> lookup fs m = Some s -> written_at c o fs now dm S env' R cf m s).
  Proof.
    intros K c o fs now dm S env' R S'. induction S' as [|m t IH]; simpl; intros c' HC ND Hd HS.
    - split. intros; unfold same_at; auto. intros; tauto.
    - inversion ND; subst. destruct (HS m (or_introl eq_refl)) as [[s Hs] HNZ].
      destruct (write_module_char K c o fs now dm S env' R c' m s HC (Hd _ (or_introl eq_refl)) Hs HNZ) as [W1 W2].
      destruct (IH (write_module c o fs now dm S env' R c' m)) as [I1 I2]; auto.
      { intros m0 Hm0. assert (m0 <> m) by (intro; subst; auto). destruct (W1 _ H) as [_ [_ W]]. rewrite W. auto. }
      split.
      + intros m' Hm'. assert (m' <> m) by (intro; subst; auto).
        destruct (I1 m') as [A1 [A2 A3]]; auto. destruct (W1 _ H) as [B1 [B2 B3]]. unfold same_at. repeat split; congruence.
      + intros m0 s0 [<-|Hm0] Hs0.
        * rewrite Hs in Hs0; inversion Hs0; subst s0. destruct (I1 m H1) as [A1 [A2 A3]].
          unfold written_at in *. rewrite A1, A2, A3. exact W2.
        * apply I2; auto.
  Qed.
  (* ---- the invariant of the SCC loop *)
  Definition NB (fs : FS) : Prop := forall m s, lookup fs m = Some s -> blocker m (content_of m s) = false.
  Definition RunGen (now : nat) (L1 : list (list modid)) (c' : store) : Prop :=
    forall m0 e0, s_meta c' m0 = Some e0 ->
      m_gen e0 < now \/ (m_gen e0 = now /\ In (m_scc e0) L1 /\ In m0 (m_scc e0)).
  Definition Inv (c : store) (fs : FS) (o : opts) (now : nat) (done : list (list modid)) (st : penv * store) : Prop :=
    map fst (fst st) = concat done /\ GoodS fs o done (fst st) /\ DomG fs (fst st) /\ Closed fs o (fst st) /\
    CacheOK (snd st) /\ (forall m, ~ In m (concat done) -> s_data (snd st) m = s_data c m) /\ RunGen now done (snd st).

  Lemma closed_step : forall fs o (env ext : penv) S,
    Closed fs o env -> map fst ext = S ->
    (forall m1 s1 d, In m1 S -> lookup fs m1 = Some s1 -> In d (rd3 m1 (view_of m1 s1) o) -> inG fs d = true -> ~ In d S ->
       In d (map fst env)) ->
    Closed fs o (env ++ ext).
  Proof.
    intros fs o env ext S HCl Hext Sdir m s d Hm Hs Hd HG. rewrite map_app, Hext in *.
    apply in_app_or in Hm as [Hm|Hm].
    - apply in_or_app; left. eapply HCl; eauto.
    - destruct (in_dec Nat.eq_dec d S) as [X|X]. apply in_or_app; auto. apply in_or_app; left. eapply Sdir; eauto.
  Qed.

  Lemma goodS_snoc : forall fs o L1 S (env : penv) (f : modid -> pm),
    GoodS fs o L1 env -> map fst env = concat L1 -> DomG fs env -> Closed fs o env ->
    (forall m, In m S -> inG fs m = true) -> (forall m, In m S -> ~ In m (map fst env)) ->
    (forall m, In m S -> pm_is fs o m (f m) (analyze S (src_of fs) o (ienv (env ++ map (fun x => (x, f x)) S)) m)) ->
    GoodS fs o (L1 ++ [S]) (env ++ map (fun x => (x, f x)) S).
  Proof.
    intros fs o L1 S env f HG Hdom D1 HCl SinG Sdisj Hnew S1 m HS1 Hm.
    apply in_app_or in HS1 as [HS1|[<-|[]]].
    - eapply goodS_extend; eauto. apply domG_app; auto.
    - exists (f m). split; auto. rewrite lookup_app_r by (apply lookup_None; auto).
      apply (lookup_map_fn _ f S m Hm).
  Qed.

  Lemma process_scc_inv : forall K c o fs now L1 S L2 st,
    StoreOK K c -> Reuse c o fs -> SccFresh c o fs -> FSOK fs -> NB fs ->
    sccs_of (depmap c o fs) = L1 ++ S :: L2 ->
    Inv c fs o now L1 st -> Inv c fs o now (L1 ++ [S]) (process_scc c o fs now (depmap c o fs) st S).
  Proof.
    intros K c o fs now L1 S L2 [env c'] HC HP HSF HFS HNB HL [Hdom [HG [D1 [HCl [[K' HC'] [Hfr HRG]]]]]]. simpl in *.
    destruct (step_facts _ _ _ _ _ _ _ _ HC HP HFS HL Hdom) as [SinG [Sdisj [SND [Stopo Sdir]]]].
    assert (CC : concat (L1 ++ [S]) = concat L1 ++ S) by (rewrite concat_app; simpl; rewrite app_nil_r; auto).
    unfold Model.process_scc. destruct (scc_fresh c o fs (depmap c o fs) env S) eqn:F.
    - unfold Inv; simpl. rewrite CC. split.
      { rewrite map_app, map_map; simpl. rewrite map_id. congruence. }
      split. { apply goodS_snoc; auto. intros m Hm. eapply fresh_good; eauto. }
      split. { apply domG_app; auto. }
      split. { apply (closed_step fs o env _ S); auto. rewrite map_map; simpl. apply map_id. }
      split. { exists K'; auto. }
      split. { intros m Hm. apply Hfr. intro; apply Hm; apply in_or_app; auto. }
      intros m0 e0 H0. destruct (HRG _ _ H0) as [X|[X1 [X2 X3]]]; auto. right. split; auto. split; auto.
      apply in_or_app; auto.
    - set (R := analyze S (src_of fs) o (ienv env)).
      set (env' := env ++ map (fun m => (m, fresh_pm fs o R m)) S).
      set (dm := depmap c o fs).
      set (cf := fold_left (write_module c o fs now dm S env' R) S c').
      destruct (write_fold_char K c o fs now dm S env' R S c' HC SND) as [W1 W2].
      { intros m Hm. apply Hfr. rewrite <- Hdom. auto. }
      { intros m Hm. split. apply inG_lookup; auto. apply an_nonzero. }
      fold cf in W1, W2.
      assert (NEW : forall m e, In m S -> s_meta cf m = Some e ->
                 exists s d, lookup fs m = Some s /\ s_data cf m = Some d /\ d_iface d = r_iface (R m) /\
                             e = new_meta c o fs now dm S env' R m s (d_mtime d) /\
                             s_ex cf m = Some (new_ex c o fs env' R m s)).
      { intros m e Hm He. destruct (proj1 (inG_lookup fs m) (SinG _ Hm)) as [s Hs].
        destruct (W2 m s Hm Hs) as [[A _]|[d [A1 [A2 [A3 A4]]]]]; [congruence|].
        exists s, d. rewrite He in A3. inversion A3. auto. }
      assert (OLDE : forall m e, ~ In m S -> s_meta cf m = Some e -> s_meta c' m = Some e).
      { intros m e Hm He. destruct (W1 m Hm) as [A _]. congruence. }
      assert (NOKEY : forall m e, s_meta c' m = Some e -> ~ In m S -> ~ (m_gen e = now /\ m_scc e = S)).
      { intros m e He Hm [G1 G2]. destruct (HRG _ _ He) as [X|[_ [_ X3]]]; [lia|]. rewrite G2 in X3. tauto. }
      unfold Inv; simpl. fold R. fold env'. fold dm. fold cf. rewrite CC. split.
      { unfold env'. rewrite map_app, map_map; simpl. rewrite map_id. congruence. }
      split. { apply goodS_snoc; auto. intros m Hm. exact (stale_good K c o fs L1 S L2 env m HC HP HFS HL Hdom D1 Hm). }
      split. { apply domG_app; auto. }
      split. { apply (closed_step fs o env _ S); auto. rewrite map_map; simpl. apply map_id. }
      split.
      { exists (add_call K' now S (src_of fs, env0_of c o fs env env')).
        destruct HC' as [C1 [C2 [G2 G3]]]. split; [|split; [|split]].
        - intros m e x He Hx. destruct (in_dec Nat.eq_dec m S) as [Hm|Hm].
          + destruct (NEW m e Hm He) as [s [d [Hs [_ [_ [-> Hx']]]]]]. rewrite Hx in Hx'. inversion Hx'; subst x.
            eapply new_entry_ok; eauto.
          + pose proof (OLDE m e Hm He) as He'. destruct (W1 m Hm) as [_ [A _]]. rewrite A in Hx.
            eapply entry_K_irrel; [|eapply C1; eauto]. symmetry. apply add_call_other. eapply NOKEY; eauto.
        - intros m e d He Hd. destruct (in_dec Nat.eq_dec m S) as [Hm|Hm].
          + destruct (NEW m e Hm He) as [s [d' [Hs [Hd' [Hi [-> _]]]]]]. rewrite Hd in Hd'. inversion Hd'; subst. simpl. auto.
          + pose proof (OLDE m e Hm He) as He'. destruct (W1 m Hm) as [_ [_ A]]. rewrite A in Hd. eauto.
        - intros m m' e e' He He' Hin. destruct (in_dec Nat.eq_dec m S) as [Hm|Hm].
          + destruct (NEW m e Hm He) as [s [d [_ [_ [_ [-> _]]]]]]. simpl in Hin.
            destruct (NEW m' e' Hin He') as [s' [d' [_ [_ [_ [-> _]]]]]]. simpl. lia.
          + pose proof (OLDE m e Hm He) as Ho. destruct (in_dec Nat.eq_dec m' S) as [Hm'|Hm'].
            * destruct (NEW m' e' Hm' He') as [s' [d' [_ [_ [_ [-> _]]]]]]. simpl.
              destruct (HRG _ _ Ho) as [X|[X _]]; lia.
            * eapply G2; eauto.
        - intros m m' e e' He He' Hg Hin. destruct (in_dec Nat.eq_dec m S) as [Hm|Hm].
          + destruct (NEW m e Hm He) as [s [d [_ [_ [_ [-> _]]]]]]. simpl in Hin.
            destruct (NEW m' e' Hin He') as [s' [d' [_ [_ [_ [-> _]]]]]]. simpl. auto.
          + pose proof (OLDE m e Hm He) as Ho. destruct (in_dec Nat.eq_dec m' S) as [Hm'|Hm'].
            * exfalso. destruct (NEW m' e' Hm' He') as [s' [d' [_ [_ [_ [E' _]]]]]]. subst e'. simpl in Hg.
              destruct (HRG _ _ Ho) as [X|[_ [X2 _]]]; [lia|].
              apply (Sdisj m' Hm'). rewrite Hdom. apply in_concat. eauto.
            * eapply G3; eauto. }
      split.
      { intros m Hm. destruct (W1 m) as [_ [_ W]]. intro; apply Hm; apply in_or_app; auto.
        rewrite W. apply Hfr. intro; apply Hm; apply in_or_app; auto. }
      intros m0 e0 H0. destruct (in_dec Nat.eq_dec m0 S) as [Hm|Hm].
      + destruct (NEW m0 e0 Hm H0) as [s [d [_ [_ [_ [-> _]]]]]]. simpl. right. split; auto. split; auto.
        apply in_or_app; right; left; auto.
      + pose proof (OLDE m0 e0 Hm H0) as Ho. destruct (HRG _ _ Ho) as [X|[X1 [X2 X3]]]; auto.
        right. split; auto. split; auto. apply in_or_app; auto.
  Qed.

  Lemma process_all_inv : forall K c o fs now L2 L1 st,
    StoreOK K c -> Reuse c o fs -> SccFresh c o fs -> FSOK fs -> NB fs ->
    sccs_of (depmap c o fs) = L1 ++ L2 -> Inv c fs o now L1 st ->
    Inv c fs o now (L1 ++ L2) (fold_left (process_scc c o fs now (depmap c o fs)) L2 st).
  Proof.
    intros K c o fs now L2. induction L2 as [|S L2 IH]; simpl; intros L1 st HC HP HSF HFS HNB HL HI.
    - rewrite app_nil_r; auto.
    - replace (L1 ++ S :: L2) with ((L1 ++ [S]) ++ L2) in * by (rewrite <- app_assoc; auto).
      apply IH; auto. eapply process_scc_inv; eauto. rewrite <- app_assoc in HL. exact HL.
  Qed.
  (* ---- the mtime-update write of validate_meta keeps the invariant *)
  Lemma restamp_ok : forall K c o fs, StoreOK K c -> KindStable c o fs -> StoreOK K (restamp c o fs).
  Proof.
    intros K c o fs HC HKS. pose proof HC as [C1 [C2 [G2 G3]]].
    assert (RS : forall m e', s_meta (restamp c o fs) m = Some e' ->
              exists e, s_meta c m = Some e /\ m_gen e' = m_gen e /\ m_scc e' = m_scc e /\ m_ihash e' = m_ihash e /\
                        (forall x, s_ex c m = Some x -> EntryOK K m e' x)).
    { intros m e' H1. simpl in H1.
      destruct (load_meta c o fs m) as [[e x0]|] eqn:L; [|exists e'; split; [auto|split; [auto|split; [auto|split; [auto|intros; eapply C1; eauto]]]]].
      destruct (lookup fs m) as [s|] eqn:Hs; [|exists e'; split; [auto|split; [auto|split; [auto|split; [auto|intros; eapply C1; eauto]]]]].
      destruct (Nat.eqb (m_stamp e) s) eqn:E; [exists e'; split; [auto|split; [auto|split; [auto|split; [auto|intros; eapply C1; eauto]]]]|].
      destruct (load_ok _ _ _ _ _ _ _ HC L) as [s' [d [Hs' [Hme [Hx [_ [Ho [Hh [_ [EOK _]]]]]]]]]].
      rewrite Hs in Hs'; inversion Hs'; subst s'. injection H1 as <-. exists e. simpl.
      split; [auto|]. split; [auto|]. split; [auto|]. split; [auto|]. intros x Hx'. rewrite Hx in Hx'; inversion Hx'; subst x0.
      pose proof (HKS _ _ _ _ L Hs) as HV.
      unfold EntryOK in *. simpl. rewrite HV in EOK. subst o. unfold eo in *. simpl in *.
      destruct EOK as [A1 [A2 [A3 R]]]. split; [auto|]. split; [auto|]. split; [exact Hh|exact R]. }
    split; [|split; [|split]].
    - intros m e' x H1 H2. simpl in H2. destruct (RS _ _ H1) as [e [_ [_ [_ [_ X]]]]]. auto.
    - intros m e' d H1 H2. simpl in H2. destruct (RS _ _ H1) as [e [He [_ [_ [Hi _]]]]]. rewrite Hi. eauto.
    - intros m m' e e' H1 H2 Hin. destruct (RS _ _ H1) as [a [Ha [Ga [Sa _]]]]. destruct (RS _ _ H2) as [b [Hb [Gb [Sb _]]]].
      rewrite Ga, Gb. rewrite Sa in Hin. eauto.
    - intros m m' e e' H1 H2 Hg Hin. destruct (RS _ _ H1) as [a [Ha [Ga [Sa _]]]]. destruct (RS _ _ H2) as [b [Hb [Gb [Sb _]]]].
      rewrite Sa, Sb. rewrite Sa in Hin. rewrite Ga, Gb in Hg. eauto.
  Qed.

  Lemma restamp_gen : forall c o fs n, GenBound c n -> GenBound (restamp c o fs) n.
  Proof.
    intros c o fs n HB m e' H1. simpl in H1.
    destruct (load_meta c o fs m) as [[e x0]|] eqn:L; [|eauto].
    destruct (lookup fs m) as [s|] eqn:Hs; [|eauto].
    destruct (Nat.eqb (m_stamp e) s) eqn:E; [eauto|].
    injection H1 as <-. simpl. apply load_spec in L as [s' [_ [F _]]]. apply find_spec in F as [F _]. eauto.
  Qed.

  Lemma run_inv : forall K c fs o now, StoreOK K c -> GenBound c now -> Reuse c o fs -> SccFresh c o fs ->
    FSOK fs -> NB fs -> Inv c fs o now (sccs_of (depmap c o fs)) (run c fs o now).
  Proof.
    intros. unfold Model.run.
    apply (process_all_inv K c o fs now (sccs_of (depmap c o fs)) [] ([], restamp c o fs)); auto.
    unfold Inv; simpl. split; [reflexivity|]. split; [intros S m HS; inversion HS|].
    split; [intros m Hm; inversion Hm|]. split; [intros m s d Hm; inversion Hm|].
    split; [exists K; apply restamp_ok; auto; apply H1|]. split; auto.
    intros m0 e0 H5. left. eapply restamp_gen; eauto.
  Qed.

  (* ---- two runs on the same files and options compute the same results, whatever valid caches they start from *)
  Lemma lookup_depmap_inv : forall c o (fs : FS) m ds, lookup (depmap c o fs) m = Some ds ->
    exists s, lookup fs m = Some s /\ ds = direct_deps c o fs m s.
  Proof.
    intros c o fs m ds. unfold Model.depmap. generalize (direct_deps c o fs) as f. intros f.
    induction fs as [|[k v] t]; simpl; intros; try discriminate.
    destruct (Nat.eqb m k) eqn:E. apply Nat.eqb_eq in E; subst. inversion H; subst. eauto. auto.
  Qed.

  Definition agree (env1 env2 : penv) (d : modid) : Prop :=
    forall p1 p2, lookup env1 d = Some p1 -> lookup env2 d = Some p2 ->
      p_iface p1 = p_iface p2 /\ p_errors p1 = p_errors p2.

  Lemma runs_agree : forall K1 c1 K2 c2 fs o n1 n2,
    StoreOK K1 c1 -> GenBound c1 n1 -> Reuse c1 o fs -> SccFresh c1 o fs ->
    StoreOK K2 c2 -> GenBound c2 n2 -> Reuse c2 o fs -> SccFresh c2 o fs ->
    FSOK fs -> NB fs ->
    let env1 := fst (run c1 fs o n1) in let env2 := fst (run c2 fs o n2) in
    (forall m, inG fs m = true -> (exists p, lookup env1 m = Some p) /\ (exists p, lookup env2 m = Some p)) /\
    (forall m, agree env1 env2 m).
  Proof.
    intros K1 c1 K2 c2 fs o n1 n2 HC1 HB1 HP1 HS1 HC2 HB2 HP2 HS2 HFS HNB env1 env2.
    destruct (run_inv K1 c1 fs o n1 HC1 HB1 HP1 HS1 HFS HNB) as [Hd1 [HG1 [D1 _]]].
    destruct (run_inv K2 c2 fs o n2 HC2 HB2 HP2 HS2 HFS HNB) as [Hd2 [HG2 [D2 _]]].
    fold env1 in Hd1, HG1, D1. fold env2 in Hd2, HG2, D2.
    set (dm1 := depmap c1 o fs) in *. set (dm2 := depmap c2 o fs) in *.
    destruct (sccs_spec _ (depmap_ok c1 o fs HFS)) as [ND1 [Hcov1 Htopo1]].
    destruct (sccs_spec _ (depmap_ok c2 o fs HFS)) as [ND2 [Hcov2 _]].
    fold dm1 in ND1, Hcov1, Htopo1. fold dm2 in ND2, Hcov2.
    assert (DOM : forall m, inG fs m = true -> (exists p, lookup env1 m = Some p) /\ (exists p, lookup env2 m = Some p)).
    { intros m Hm. apply inG_In in Hm. split; apply lookup_dom.
      - rewrite Hd1. apply Hcov1. unfold dm1. rewrite depmap_dom. auto.
      - rewrite Hd2. apply Hcov2. unfold dm2. rewrite depmap_dom. auto. }
    split; auto.
    assert (EXT : forall S, In S (sccs_of dm1) -> exists S', In S' (sccs_of dm2) /\ (forall x, In x S <-> In x S')).
    { apply sccs_groups_ext. unfold dm1, dm2. rewrite !depmap_dom. auto.
      intros m ds ds' d A B. apply lookup_depmap_inv in A as [s [Hs ->]]. apply lookup_depmap_inv in B as [s' [Hs' ->]].
      rewrite Hs in Hs'; inversion Hs'; subst s'.
      rewrite (direct_deps_spec K1 c1 o fs m s d HC1 HP1 Hs). rewrite (direct_deps_spec K2 c2 o fs m s d HC2 HP2 Hs). tauto. }
    assert (MAIN : forall Q P, sccs_of dm1 = P ++ Q -> (forall d, In d (concat P) -> agree env1 env2 d) ->
                     forall d, In d (concat (P ++ Q)) -> agree env1 env2 d).
    { induction Q as [|S Q IH]; intros P HL HP d Hd.
      - rewrite app_nil_r in Hd. auto.
      - replace (P ++ S :: Q) with ((P ++ [S]) ++ Q) in * by (rewrite <- app_assoc; auto).
        revert d Hd. apply (IH (P ++ [S])); auto. intros d Hd. rewrite concat_app in Hd. simpl in Hd. rewrite app_nil_r in Hd.
        apply in_app_or in Hd as [Hd|Hd]; auto.
        rewrite <- app_assoc in HL. simpl in HL.
        assert (InL : In S (sccs_of dm1)) by (rewrite HL; apply in_or_app; right; left; auto).
        destruct (EXT S InL) as [S' [InL' EQ]].
        intros p1 p2 L1 L2.
        destruct (HG1 S d InL Hd) as [q1 [Q1 [s1 [Hs1 [I1 [E1 _]]]]]].
        destruct (HG2 S' d InL' (proj1 (EQ d) Hd)) as [q2 [Q2 [s2 [Hs2 [I2 [E2 _]]]]]].
        rewrite L1 in Q1; inversion Q1; subst q1. rewrite L2 in Q2; inversion Q2; subst q2.
        rewrite Hs1 in Hs2; inversion Hs2; subst s2.
        assert (CALL : analyze S (src_of fs) o (ienv env1) d = analyze S' (src_of fs) o (ienv env2) d).
        { apply an_ext; auto.
          assert (LOW : forall x, In x (concat P ++ S) -> ~ In x S -> ienv env1 x = ienv env2 x).
          { intros x Hx HnS. apply in_app_or in Hx as [Hx|Hx]; [|tauto].
            assert (G : inG fs x = true).
            { apply inG_In. rewrite <- (depmap_dom c1 o fs). apply Hcov1. rewrite HL, concat_app. apply in_or_app; auto. }
            destruct (DOM x G) as [[a Ha] [b Hb]]. unfold ienv. rewrite Ha, Hb. simpl.
            destruct (HP x Hx a b Ha Hb) as [X _]. congruence. }
          intros m1 x Hm1 [HnS Hrd].
          assert (G1 : inG fs m1 = true).
          { apply inG_In. rewrite <- (depmap_dom c1 o fs). apply Hcov1. rewrite HL, concat_app. simpl.
            apply in_or_app; right. apply in_or_app; auto. }
          destruct (proj1 (inG_lookup fs m1) G1) as [sm Hsm]. rewrite (src_of_eq _ _ _ Hsm) in Hrd.
          destruct Hrd as [Hx|[Hx|Hx]].
          - destruct (inG fs x) eqn:G.
            + apply LOW; auto. apply (Htopo1 P S Q m1 (direct_deps c1 o fs m1 sm) x HL Hm1).
              apply lookup_depmap; auto. eapply direct_deps_spec; eauto.
            + rewrite (ienv_none fs env1 x D1 G), (ienv_none fs env2 x D2 G). auto.
          - destruct (inG fs x) eqn:G.
            + apply LOW; auto. destruct HP1 as [_ [_ HI]]. destruct (HI m1 sm x Hsm Hx G) as [A _].
              destruct (A S InL Hm1) as [X|X]. apply in_or_app; auto. eapply reach_before; eauto.
            + rewrite (ienv_none fs env1 x D1 G), (ienv_none fs env2 x D2 G). auto.
          - apply LOW; auto. eapply reach_before; eauto; try (eapply indirect_reach; eauto). }
        rewrite I1, I2, E1, E2, CALL. auto. }
    intros m p1 p2 L1 L2. eapply (MAIN (sccs_of dm1) []); simpl; eauto. intros d []. 
    rewrite <- Hd1. eapply lookup_Some_dom; eauto.
  Qed.
  Lemma existsb_ext_in : forall A (f g : A -> bool) l, (forall a, In a l -> f a = g a) -> existsb f l = existsb g l.
  Proof. induction l; simpl; intros; auto. rewrite H by auto. f_equal; auto. Qed.

  Lemma reports_agree : forall (fs : FS) (env1 env2 : penv),
    (forall m, inG fs m = true -> (exists p, lookup env1 m = Some p) /\ (exists p, lookup env2 m = Some p)) ->
    (forall m, agree env1 env2 m) ->
    (report fs env1, status fs env1) = (report fs env2, status fs env2).
  Proof.
    intros fs env1 env2 DOM AG.
    assert (EQ : forall ms, In ms fs -> exists p p', lookup env1 (fst ms) = Some p /\ lookup env2 (fst ms) = Some p' /\
                                           p_errors p = p_errors p').
    { intros [m s] Hin; simpl. assert (G : inG fs m = true). { apply inG_In. apply in_map_iff. exists (m, s); auto. }
      destruct (DOM m G) as [[p Hp] [p' Hp']]. exists p, p'. repeat split; auto. eapply AG; eauto. }
    unfold report, status. f_equal.
    - apply map_ext_in. intros ms Hin. destruct (EQ ms Hin) as [p [p' [H1 [H2 H3]]]]. rewrite H1, H2. simpl. congruence.
    - apply existsb_ext_in. intros ms Hin. destruct (EQ ms Hin) as [p [p' [H1 [H2 H3]]]]. rewrite H1, H2. congruence.
  Qed.

  (* ---- blocking errors *)
  Notation blocked := (Model.blocked content_of ign_of blocker).
  Notation warm := (Model.warm content_of view_of imports probes analyze sccs_of reach sdo_of thash ign_of pkg_of parent_of blocker).
  Notation cold := (Model.cold content_of view_of imports probes analyze sccs_of reach sdo_of thash ign_of pkg_of parent_of blocker).
  Notation runs := (Model.runs content_of view_of imports probes analyze sccs_of reach sdo_of thash ign_of pkg_of parent_of blocker).

  Lemma In_lookup : forall (fs : FS) m s, FSOK fs -> In (m, s) fs -> lookup fs m = Some s.
  Proof.
    unfold FSOK. induction fs as [|[k v] t]; simpl; intros; try tauto. inversion H; subst.
    destruct H0 as [H0|H0].
    - inversion H0; subst. rewrite Nat.eqb_refl; auto.
    - destruct (Nat.eqb m k) eqn:E; auto. apply Nat.eqb_eq in E; subst. exfalso. apply H3.
      apply in_map_iff. exists (k, s); auto.
  Qed.

  Lemma blocked_spec : forall K c o fs, StoreOK K c -> FSOK fs ->
    (blocked c o fs = true <-> exists m s, In (m, s) fs /\ blocker m (content_of m s) = true).
  Proof.
    intros K c o fs HC HFS. unfold Model.blocked. rewrite existsb_exists. split.
    - intros [[m s] [Hin H]]. simpl in H. exists m, s. split; auto.
      destruct (load_meta c o fs m) as [[e x]|]; try discriminate; auto.
    - intros [m [s [Hin Hb]]]. exists (m, s). split; auto. simpl.
      destruct (load_meta c o fs m) as [[e x]|] eqn:L; auto. exfalso.
      destruct (load_ok _ _ _ _ _ _ _ HC L) as [s' [d [Hs' [_ [_ [_ [_ [Hh [_ [[_ [_ [_ [G2 _]]]] _]]]]]]]]]].
      rewrite (In_lookup _ _ _ HFS Hin) in Hs'. inversion Hs'; subst s'. congruence.
  Qed.

  Lemma not_blocked_NB : forall K c o fs, StoreOK K c -> FSOK fs -> blocked c o fs = false -> NB fs.
  Proof.
    intros K c o fs HC HFS Hb m s Hs. destruct (blocker m (content_of m s)) eqn:B; auto.
    assert (blocked c o fs = true); [|congruence].
    eapply blocked_spec; eauto. exists m, s. split; auto. apply lookup_In; auto.
  Qed.

  Lemma blocked_same : forall K c K' c' o fs, StoreOK K c -> StoreOK K' c' -> FSOK fs -> blocked c o fs = blocked c' o fs.
  Proof.
    intros. destruct (blocked c o fs) eqn:B1; destruct (blocked c' o fs) eqn:B2; auto.
    - apply (proj1 (blocked_spec K c o fs H H1)) in B1. apply (proj2 (blocked_spec K' c' o fs H0 H1)) in B1. congruence.
    - apply (proj1 (blocked_spec K' c' o fs H0 H1)) in B2. apply (proj2 (blocked_spec K c o fs H H1)) in B2. congruence.
  Qed.

  Definition SideOK (c : store) (o : opts) (fs : FS) : Prop := Reuse c o fs /\ SccFresh c o fs.

  (* the program itself has no dangling implicit submodule reference (otherwise even two COLD runs may differ: which
     of them resolves depends on scheduling) *)
  Definition ProgOK (o : opts) (fs : FS) : Prop := ImplicitStable empty_store o fs.

  Lemma SideOK_empty : forall o fs, ProgOK o fs -> SideOK empty_store o fs.
  Proof.
    intros o fs HI. assert (N : forall m, load_meta empty_store o fs m = None).
    { intros m. unfold Model.load_meta, Model.find_cache_meta. simpl. destruct (lookup fs m); auto. }
    split; [split; [|split]|]; auto.
    - intros m e x s L; rewrite N in L; discriminate.
    - intros m e x s L; rewrite N in L; discriminate.
    - intros S _ _ m e x _ L; rewrite N in L; discriminate.
  Qed.

  Lemma run_preserves : forall c fs o now, CacheOK c -> GenBound c now -> SideOK c o fs -> FSOK fs ->
    CacheOK (snd (warm c fs o now)) /\ GenBound (snd (warm c fs o now)) (Datatypes.S now).
  Proof.
    intros c fs o now [K HC] HB [HP HS] HFS. unfold Model.warm, Model.run_b. destruct (blocked c o fs) eqn:B; simpl.
    - split. exists K; apply restamp_ok; auto; apply HP. intros m e H. apply (restamp_gen c o fs now HB) in H. lia.
    - pose proof (not_blocked_NB K c o fs HC HFS B) as HNB.
      destruct (run_inv K c fs o now HC HB HP HS HFS HNB) as [_ [_ [_ [_ [HC' [_ HRG]]]]]]. split; auto.
      intros m e H. destruct (HRG _ _ H) as [X|[X _]]; lia.
  Qed.

  Lemma warm_eq_cold : forall c fs o n n', CacheOK c -> GenBound c n -> SideOK c o fs -> ProgOK o fs -> FSOK fs ->
    output fs (warm c fs o n) = output fs (cold fs o n').
  Proof.
    intros c fs o n n' [K HC] HB [HP HS] HPG HFS. unfold Model.warm, Model.cold, Model.run_b.
    destruct CacheOK_empty as [K0 HC0]. destruct (SideOK_empty o fs HPG) as [HP0 HS0].
    rewrite (blocked_same K c K0 empty_store o fs HC HC0 HFS).
    destruct (blocked empty_store o fs) eqn:B; unfold output; simpl; auto.
    assert (NBfs : NB fs) by (eapply (not_blocked_NB K0 empty_store); eauto).
    f_equal.
    destruct (runs_agree K c K0 empty_store fs o n n' HC HB HP HS HC0 (GenBound_empty n') HP0 HS0 HFS NBfs) as [DOM AG].
    apply reports_agree; auto.
  Qed.

  (* the side conditions along a history: at every run the reused dependency lists and SCC provenance are still right *)
  Fixpoint HistOK (c : store) (k : nat) (h : list (FS * opts)) : Prop :=
    match h with
    | [] => True
    | (fs, o) :: t => FSOK fs /\ SideOK c o fs /\ HistOK (snd (warm c fs o k)) (Datatypes.S k) t
    end.

  Lemma runs_ok : forall h c k, CacheOK c -> GenBound c k -> HistOK c k h ->
    CacheOK (runs c k h) /\ GenBound (runs c k h) (k + length h).
  Proof.
    induction h as [|[fs o] t IH]; simpl; intros c k HC HB HH.
    - rewrite Nat.add_0_r. auto.
    - destruct HH as [H1 [H2 H3]]. destruct (run_preserves c fs o k HC HB H2 H1) as [A B].
      destruct (IH _ _ A B H3) as [C D]. split; auto. replace (k + Datatypes.S (length t)) with (Datatypes.S k + length t) by lia. auto.
  Qed.

  Lemma history_warm_eq_cold : forall h fs o n',
    HistOK empty_store 0 h -> SideOK (runs empty_store 0 h) o fs -> ProgOK o fs -> FSOK fs ->
    output fs (warm (runs empty_store 0 h) fs o (length h)) = output fs (cold fs o n').
  Proof.
    intros h fs o n' HH HS HPG HFS.
    destruct (runs_ok h empty_store 0 CacheOK_empty (GenBound_empty 0) HH) as [A B]. simpl in B.
    apply warm_eq_cold; auto.
  Qed.
  (* ---- cache_is_function_of_inputs: what a run leaves in the cache for the modules of the program is determined by
          the environment it computed (reflection invariant), hence - by runs_agree - by (files, options) alone *)
  Definition Refl (fs : FS) (o : opts) (env : penv) (c' : store) : Prop :=
    forall m p e x s, lookup env m = Some p -> s_meta c' m = Some e -> s_ex c' m = Some x -> lookup fs m = Some s ->
      m_hash e = content_of m s /\ m_ihash e = p_hash p /\ (if ign_of m s o then [] else x_errors x) = p_errors p.
  Definition Inv2 (c : store) (fs : FS) (o : opts) (done : list (list modid)) (st : penv * store) : Prop :=
    Refl fs o (fst st) (snd st) /\
    (forall m, ~ In m (concat done) -> s_meta (snd st) m = s_meta (restamp c o fs) m /\ s_ex (snd st) m = s_ex c m).

  Lemma restamp_fields : forall c o fs m e' e x, s_meta (restamp c o fs) m = Some e' -> load_meta c o fs m = Some (e, x) ->
    m_hash e' = m_hash e /\ m_ihash e' = m_ihash e.
  Proof.
    intros c o fs m e' e x H1 L. simpl in H1. rewrite L in H1.
    pose proof (load_spec _ _ _ _ _ _ L) as [s [Hs [F _]]]. apply find_spec in F as [F _]. rewrite Hs in H1.
    destruct (Nat.eqb (m_stamp e) s); [rewrite F in H1|]; injection H1 as <-; auto.
  Qed.

  Lemma process_scc_inv2 : forall K c o fs now L1 S L2 st,
    StoreOK K c -> Reuse c o fs -> FSOK fs -> sccs_of (depmap c o fs) = L1 ++ S :: L2 ->
    Inv c fs o now L1 st -> Inv2 c fs o L1 st ->
    Inv2 c fs o (L1 ++ [S]) (process_scc c o fs now (depmap c o fs) st S).
  Proof.
    intros K c o fs now L1 S L2 [env c'] HC HP HFS HL [Hdom [_ [_ [_ [_ [Hfr _]]]]]] [HR HF2]. simpl in *.
    destruct (step_facts _ _ _ _ _ _ _ _ HC HP HFS HL Hdom) as [SinG [Sdisj [SND _]]].
    assert (CC : concat (L1 ++ [S]) = concat L1 ++ S) by (rewrite concat_app; simpl; rewrite app_nil_r; auto).
    unfold Model.process_scc. destruct (scc_fresh c o fs (depmap c o fs) env S) eqn:F; unfold Inv2; simpl; rewrite CC.
    - split.
      + intros m p e x s Hp He Hx Hs. destruct (lookup env m) as [q|] eqn:Q.
        * erewrite lookup_app_l in Hp by eauto. inversion Hp; subst q. eapply HR; eauto.
        * rewrite lookup_app_r in Hp by auto.
          assert (Hm : In m S).
          { apply lookup_Some_dom in Hp. rewrite map_map in Hp; simpl in Hp. rewrite map_id in Hp. auto. }
          rewrite (lookup_map_fn _ (cached_pm c o fs) S m Hm) in Hp. inversion Hp; subst p.
          destruct (fresh_parts _ _ _ _ _ _ _ F Hm) as [F1 _]. destruct (is_fresh_spec _ _ _ _ F1) as [e0 [x0 [L0 _]]].
          destruct (load_ok _ _ _ _ _ _ _ HC L0) as [s0 [d0 [Hs0 [_ [Hx0 [Hd0 [_ [Hh0 _]]]]]]]].
          rewrite Hs in Hs0; inversion Hs0; subst s0.
          destruct (HF2 m) as [A B]. { rewrite <- Hdom. auto. }
          rewrite A in He. rewrite B, Hx0 in Hx. inversion Hx; subst x0.
          destruct (restamp_fields _ _ _ _ _ _ _ He L0) as [R1 R2].
          rewrite (cached_pm_eq _ _ _ _ _ _ _ _ L0 Hd0 Hs). simpl. repeat split; congruence.
      + intros m Hm. apply HF2. intro; apply Hm; apply in_or_app; auto.
    - set (R := analyze S (src_of fs) o (ienv env)).
      set (env' := env ++ map (fun m => (m, fresh_pm fs o R m)) S).
      set (dm := depmap c o fs).
      set (cf := fold_left (write_module c o fs now dm S env' R) S c').
      destruct (write_fold_char K c o fs now dm S env' R S c' HC SND) as [W1 W2].
      { intros m Hm. apply Hfr. rewrite <- Hdom. auto. }
      { intros m Hm. split. apply inG_lookup; auto. apply an_nonzero. }
      fold cf in W1, W2. split.
      + intros m p e x s Hp He Hx Hs. destruct (in_dec Nat.eq_dec m S) as [Hm|Hm].
        * assert (lookup env m = None) by (apply lookup_None; auto).
          unfold env' in Hp. rewrite lookup_app_r in Hp by auto.
          rewrite (lookup_map_fn _ (fun m0 => fresh_pm fs o R m0) S m Hm) in Hp. inversion Hp; subst p.
          destruct (W2 m s Hm Hs) as [[A _]|[d [A1 [A2 [A3 A4]]]]]; [congruence|].
          rewrite He in A3. rewrite Hx in A4. inversion A3; inversion A4; subst. simpl.
          unfold Model.ign_now. rewrite Hs. destruct (ign_of m s o); auto.
        * destruct (W1 m Hm) as [B1 [B2 _]]. rewrite B1 in He. rewrite B2 in Hx.
          destruct (lookup env m) as [q|] eqn:Q.
          -- unfold env' in Hp. erewrite lookup_app_l in Hp by eauto. inversion Hp; subst q. eapply HR; eauto.
          -- exfalso. unfold env' in Hp. rewrite lookup_app_r in Hp by auto. apply lookup_Some_dom in Hp.
             rewrite map_map in Hp; simpl in Hp. rewrite map_id in Hp. auto.
      + intros m Hm. destruct (W1 m) as [B1 [B2 _]]. intro; apply Hm; apply in_or_app; auto.
        rewrite B1, B2. apply HF2. intro; apply Hm; apply in_or_app; auto.
  Qed.

  Lemma process_all_inv2 : forall K c o fs now L2 L1 st,
    StoreOK K c -> Reuse c o fs -> SccFresh c o fs -> FSOK fs -> NB fs ->
    sccs_of (depmap c o fs) = L1 ++ L2 -> Inv c fs o now L1 st -> Inv2 c fs o L1 st ->
    Inv2 c fs o (L1 ++ L2) (fold_left (process_scc c o fs now (depmap c o fs)) L2 st).
  Proof.
    intros K c o fs now L2. induction L2 as [|S L2 IH]; simpl; intros L1 st HC HP HSF HFS HNB HL HI HI2.
    - rewrite app_nil_r; auto.
    - replace (L1 ++ S :: L2) with ((L1 ++ [S]) ++ L2) in * by (rewrite <- app_assoc; auto).
      assert (HL' : sccs_of (depmap c o fs) = L1 ++ S :: L2) by (rewrite <- app_assoc in HL; exact HL).
      apply IH; auto. eapply process_scc_inv; eauto. eapply process_scc_inv2; eauto.
  Qed.

  Lemma run_refl : forall K c fs o now, StoreOK K c -> GenBound c now -> Reuse c o fs -> SccFresh c o fs ->
    FSOK fs -> NB fs -> Refl fs o (fst (run c fs o now)) (snd (run c fs o now)).
  Proof.
    intros K c fs o now HC HB HP HS HFS HNB. unfold Model.run.
    apply (process_all_inv2 K c o fs now (sccs_of (depmap c o fs)) [] ([], restamp c o fs)); auto.
    - unfold Inv; simpl. split; [reflexivity|]. split; [intros S m HS'; inversion HS'|].
      split; [intros m Hm; inversion Hm|]. split; [intros m s d Hm; inversion Hm|].
      split; [exists K; apply restamp_ok; auto; apply HP|]. split; auto.
      intros m0 e0 H5. left. eapply restamp_gen; eauto.
    - split. intros m p e x s Hp; discriminate. intros m _. split; auto.
  Qed.

  (* after a run, the source hash, the interface hash and the (effective) error_lines recorded for every module of the
     program do not depend on the cache the run started from: they are a function of (files, options) *)
  Lemma cache_function : forall K1 c1 K2 c2 fs o n1 n2,
    StoreOK K1 c1 -> GenBound c1 n1 -> Reuse c1 o fs -> SccFresh c1 o fs ->
    StoreOK K2 c2 -> GenBound c2 n2 -> Reuse c2 o fs -> SccFresh c2 o fs -> FSOK fs -> NB fs ->
    forall m s e1 x1 e2 x2, lookup fs m = Some s ->
      s_meta (snd (run c1 fs o n1)) m = Some e1 -> s_ex (snd (run c1 fs o n1)) m = Some x1 ->
      s_meta (snd (run c2 fs o n2)) m = Some e2 -> s_ex (snd (run c2 fs o n2)) m = Some x2 ->
      m_hash e1 = m_hash e2 /\ m_ihash e1 = m_ihash e2 /\
      (if ign_of m s o then [] else x_errors x1) = (if ign_of m s o then [] else x_errors x2).
  Proof.
    intros K1 c1 K2 c2 fs o n1 n2 HC1 HB1 HP1 HS1 HC2 HB2 HP2 HS2 HFS HNB m s e1 x1 e2 x2 Hs M1 X1 M2 X2.
    destruct (runs_agree K1 c1 K2 c2 fs o n1 n2 HC1 HB1 HP1 HS1 HC2 HB2 HP2 HS2 HFS HNB) as [DOM AG].
    assert (G : inG fs m = true) by (apply inG_lookup; eauto).
    destruct (DOM m G) as [[p1 Hp1] [p2 Hp2]].
    destruct (run_refl K1 c1 fs o n1 HC1 HB1 HP1 HS1 HFS HNB m p1 e1 x1 s Hp1 M1 X1 Hs) as [A1 [A2 A3]].
    destruct (run_refl K2 c2 fs o n2 HC2 HB2 HP2 HS2 HFS HNB m p2 e2 x2 s Hp2 M2 X2 Hs) as [B1 [B2 B3]].
    destruct (AG m p1 p2 Hp1 Hp2) as [I E].
    destruct (run_inv K1 c1 fs o n1 HC1 HB1 HP1 HS1 HFS HNB) as [Hd1 [HG1 _]].
    destruct (run_inv K2 c2 fs o n2 HC2 HB2 HP2 HS2 HFS HNB) as [Hd2 [HG2 _]].
    pose proof (env_hash fs o _ _ m p1 HG1 Hd1 Hp1) as Q1. pose proof (env_hash fs o _ _ m p2 HG2 Hd2 Hp2) as Q2.
    repeat split; congruence.
  Qed.
  (* ---- two side conditions discharged for sub-classes of programs / file systems *)
  (* no module uses `from pkg import maybe_submodule`: ProbeFresh holds for every cache and file system *)
  Lemma ProbeFresh_noprobes : (forall m v o, probes m v o = []) -> forall c o fs, ProbeFresh c o fs.
  Proof. intros H c o fs m e x s _ _ d Hd. rewrite H in Hd. inversion Hd. Qed.

  (* if what the analysis sees of a file were determined by what is hashed (i.e. if the kind .py/.pyi were part of the
     hash, which is the repair of F7), KindStable would hold for every cache satisfying the invariant *)
  Lemma KindStable_if_hash_determines_view :
    (forall m s s', content_of m s = content_of m s' -> view_of m s = view_of m s') ->
    forall K c o fs, StoreOK K c -> KindStable c o fs.
  Proof.
    intros H K c o fs HC m e x s L Hs.
    destruct (load_ok _ _ _ _ _ _ _ HC L) as [s' [d [Hs' [_ [_ [_ [_ [Hh [_ [EOK _]]]]]]]]]].
    rewrite Hs in Hs'; inversion Hs'; subst s'. destruct EOK as [_ [_ [A3 _]]]. apply H. congruence.
  Qed.
End Correct.

(* ------------------------------------------------------------------ packaged contract and final statements *)
From C02 Require Statement.

Section Packaged.
  Variable content_of : modid -> stamp -> content.
  Variable view_of : modid -> stamp -> content.
  Variable imports : modid -> content -> opts -> list modid.
  Variable probes : modid -> content -> opts -> list modid.
  Variable implicits : modid -> content -> opts -> list modid.
  Variable analyze : list modid -> (modid -> content) -> opts -> (modid -> option ihash) -> modid -> result.
  Variable sccs_of : list (modid * list modid) -> list (list modid).
  Variable reach : list (modid * list modid) -> modid -> modid -> bool.
  Variable sdo_of : list modid -> opts -> nat.
  Variable thash : list (modid * list modid) -> modid -> nat.
  Variable ign_of : modid -> stamp -> opts -> bool.
  Variable pkg_of : modid -> stamp -> bool.
  Variable parent_of : modid -> option modid.
  Variable blocker : modid -> content -> bool.

  (* The analysis contract ("contract, monitored not proved"): the SCC is the unit; no uniqueness assumption. *)
  Record AnalysisContract : Prop := {
    ac_ext : forall S S' src src' o env env',
      (forall x, In x S <-> In x S') -> (forall x, In x S -> src x = src' x) ->
      (forall m d, In m S -> ext_reads imports probes implicits analyze S src o env m d -> env d = env' d) ->
      forall m, In m S -> analyze S src o env m = analyze S' src' o env' m;
    ac_indirect_dom : forall S src o env m d,
      In m S -> In d (r_indirect (analyze S src o env m)) -> In d S \/ env d <> None;
    ac_noself : forall S src o env m, ~ In m (r_indirect (analyze S src o env m));
    ac_nonzero : forall S src o env m, r_iface (analyze S src o env m) <> 0;
    ac_implicit_reported : forall S src o env m d,
      In m S -> In d (implicits m (src m) o) -> ~ In d S -> env d <> None ->
      In d (imports m (src m) o ++ probes m (src m) o) \/ In d (r_indirect (analyze S src o env m)) }.

  (* The graph-algorithm contract: SCCs listed in dependency order; the decomposition as a set of sets depends only on
     the edge sets; reach/thash as used by verify_transitive_deps; reported indirect deps are reachable. *)
  Record GraphContract : Prop := {
    gc_sccs : forall dm, graph_ok dm -> sccs_ok dm (sccs_of dm);
    gc_groups : forall dm dm', map fst dm = map fst dm' ->
      (forall m ds ds' d, lookup dm m = Some ds -> lookup dm' m = Some ds' -> (In d ds <-> In d ds')) ->
      forall S, In S (sccs_of dm) -> exists S', In S' (sccs_of dm') /\ (forall x, In x S <-> In x S');
    gc_reach : forall dm L1 S L2 m d,
      sccs_of dm = L1 ++ S :: L2 -> In m S -> reach dm m d = true -> In d (concat L1 ++ S);
    gc_thash : forall dm dm' m, thash dm m = thash dm' m -> forall d, reach dm m d = reach dm' m d;
    gc_indirect_reach : forall dm S src o env m d,
      In S (sccs_of dm) -> In m S -> In d (r_indirect (analyze S src o env m)) -> reach dm m d = true }.

  Notation CacheOK := (CacheOK content_of view_of imports probes implicits analyze reach thash blocker).
  Notation SideOK := (SideOK content_of view_of imports probes implicits sccs_of reach ign_of pkg_of parent_of).
  Notation ProgOK := (ProgOK content_of view_of imports probes implicits sccs_of reach ign_of pkg_of parent_of).
  Notation HistOK := (HistOK content_of view_of imports probes implicits analyze sccs_of reach sdo_of thash ign_of pkg_of parent_of blocker).
  Notation warm := (Model.warm content_of view_of imports probes analyze sccs_of reach sdo_of thash ign_of pkg_of parent_of blocker).
  Notation cold := (Model.cold content_of view_of imports probes analyze sccs_of reach sdo_of thash ign_of pkg_of parent_of blocker).
  Notation runs := (Model.runs content_of view_of imports probes analyze sccs_of reach sdo_of thash ign_of pkg_of parent_of blocker).

  Lemma p_run_preserves : AnalysisContract -> GraphContract ->
    forall c fs o now, CacheOK c -> GenBound c now -> SideOK c o fs -> FSOK fs ->
    CacheOK (snd (warm c fs o now)) /\ GenBound (snd (warm c fs o now)) (Datatypes.S now).
  Proof. intros [] []. eapply run_preserves; eauto. Qed.

  Lemma p_warm_eq_cold : AnalysisContract -> GraphContract ->
    forall c fs o n n', CacheOK c -> GenBound c n -> SideOK c o fs -> ProgOK o fs -> FSOK fs ->
    output fs (warm c fs o n) = output fs (cold fs o n').
  Proof. intros [] []. eapply warm_eq_cold; eauto. Qed.

  Lemma p_history_partial : AnalysisContract -> GraphContract ->
    forall (h : list (FS * opts)) (fs : FS) (o : opts) (n' : nat),
      HistOK empty_store 0 h -> SideOK (runs empty_store 0 h) o fs -> ProgOK o fs -> FSOK fs ->
      output fs (warm (runs empty_store 0 h) fs o (length h)) = output fs (cold fs o n').
  Proof. intros [] [] h fs o n' Hh HS HPG Hfs. eapply history_warm_eq_cold; eauto. Qed.

  (* cache_is_function_of_inputs *)
  Lemma p_cache_function : AnalysisContract -> GraphContract ->
    forall c1 c2 fs o n1 n2, CacheOK c1 -> GenBound c1 n1 -> SideOK c1 o fs -> CacheOK c2 -> GenBound c2 n2 -> SideOK c2 o fs ->
      FSOK fs -> NB content_of blocker fs ->
      forall m s e1 x1 e2 x2, lookup fs m = Some s ->
        s_meta (snd (Model.run content_of view_of imports probes analyze sccs_of reach sdo_of thash ign_of pkg_of parent_of c1 fs o n1)) m = Some e1 ->
        s_ex (snd (Model.run content_of view_of imports probes analyze sccs_of reach sdo_of thash ign_of pkg_of parent_of c1 fs o n1)) m = Some x1 ->
        s_meta (snd (Model.run content_of view_of imports probes analyze sccs_of reach sdo_of thash ign_of pkg_of parent_of c2 fs o n2)) m = Some e2 ->
        s_ex (snd (Model.run content_of view_of imports probes analyze sccs_of reach sdo_of thash ign_of pkg_of parent_of c2 fs o n2)) m = Some x2 ->
        m_hash e1 = m_hash e2 /\ m_ihash e1 = m_ihash e2 /\
        (if ign_of m s o then [] else x_errors x1) = (if ign_of m s o then [] else x_errors x2).
  Proof.
    intros [] [] c1 c2 fs o n1 n2 [K1 H1] B1 [P1 S1] [K2 H2] B2 [P2 S2] HFS HNB. eapply cache_function; eauto.
  Qed.

  (* the side conditions are decidable: the boolean functions of Model.v imply them *)
  Lemma probe_fresh_sound : forall c o fs,
    Model.probe_fresh content_of view_of probes ign_of c o fs = true -> ProbeFresh content_of view_of probes ign_of c o fs.
  Proof.
    intros c o fs H m e x s L Hs d Hd HG. unfold Model.probe_fresh in H. rewrite forallb_forall in H.
    specialize (H (m, s) (lookup_In _ _ _ _ Hs)). simpl in H. rewrite L in H. rewrite forallb_forall in H.
    specialize (H d Hd). rewrite HG in H. simpl in H. apply mem_In; auto.
  Qed.

  Lemma kind_stable_sound : forall c o fs,
    Model.kind_stable content_of view_of ign_of c o fs = true -> KindStable content_of view_of ign_of c o fs.
  Proof.
    intros c o fs H m e x s L Hs. unfold Model.kind_stable in H. rewrite forallb_forall in H.
    specialize (H (m, s) (lookup_In _ _ _ _ Hs)). simpl in H. rewrite L in H. apply Nat.eqb_eq; auto.
  Qed.

  Lemma group_of_spec : forall (L : list (list modid)) S m, NoDup (concat L) -> In S L -> In m S -> Model.group_of L m = S.
  Proof.
    intros L S m ND HS Hm. unfold Model.group_of. destruct (find (fun G => mem m G) L) as [G|] eqn:F.
    - apply find_some in F as [F1 F2]. apply mem_In in F2. eapply group_unique; eauto.
    - exfalso. pose proof (find_none _ _ F S HS) as X. simpl in X. apply mem_false in X. auto.
  Qed.

  Lemma implicit_stable_sound : forall c o fs, NoDup (concat (sccs_of (Model.depmap content_of view_of imports probes ign_of pkg_of parent_of c o fs))) ->
    Model.implicit_stable content_of view_of imports probes implicits sccs_of reach ign_of pkg_of parent_of c o fs = true ->
    ImplicitStable content_of view_of imports probes implicits sccs_of reach ign_of pkg_of parent_of c o fs.
  Proof.
    intros c o fs ND H m s d Hs Hd HG. unfold Model.implicit_stable in H. rewrite forallb_forall in H.
    specialize (H (m, s) (lookup_In _ _ _ _ Hs)). simpl in H. rewrite forallb_forall in H. specialize (H d Hd).
    rewrite HG in H. simpl in H. apply andb_true_iff in H as [H1 H2]. split.
    - intros S HS Hm. rewrite (group_of_spec _ S m ND HS Hm) in H1. apply orb_true_iff in H1 as [X|X]; auto.
      left. apply mem_In; auto.
    - intros e x L. rewrite L in H2. apply mem_In; auto.
  Qed.

  Lemma scc_stable_sound : forall c o fs,
    Model.scc_stable content_of view_of imports probes sccs_of ign_of pkg_of parent_of c o fs = true ->
    SccFresh content_of view_of imports probes sccs_of ign_of pkg_of parent_of c o fs.
  Proof.
    intros c o fs H S HS ALLV m e x Hm L. unfold Model.scc_stable in H. rewrite forallb_forall in H.
    specialize (H S HS). apply orb_true_iff in H as [H|H].
    - exfalso. apply negb_true_iff in H. rewrite <- not_true_iff_false in H. apply H.
      apply forallb_forall. intros y Hy. specialize (ALLV y Hy).
      destruct (Model.load_meta content_of ign_of c o fs y); auto.
    - rewrite forallb_forall in H. specialize (H m Hm). rewrite L in H. unfold Model.equiv_b in H.
      apply andb_true_iff in H as [H1 H2]. rewrite forallb_forall in H1, H2.
      intros y. split; intros Hy. apply mem_In. auto. apply mem_In. auto.
  Qed.

  (* ---- exact characterisation of two side conditions: the boolean functions DECIDE them (iff), and a failure is exactly a
          concrete witness in the cache *)
  Lemma forallb_false_ex : forall A (f : A -> bool) l, forallb f l = false -> exists a, In a l /\ f a = false.
  Proof.
    induction l as [|a l IH]; simpl; intros H; try discriminate.
    destruct (f a) eqn:E; simpl in H. destruct (IH H) as [b [Hb Fb]]. eauto. eauto.
  Qed.

  Lemma In_lookup' : forall (fs : FS) m s, FSOK fs -> In (m, s) fs -> lookup fs m = Some s.
  Proof.
    unfold FSOK. induction fs as [|[k v] t]; simpl; intros; try tauto. inversion H; subst.
    destruct H0 as [H0|H0].
    - inversion H0; subst. rewrite Nat.eqb_refl; auto.
    - destruct (Nat.eqb m k) eqn:E; auto. apply Nat.eqb_eq in E; subst. exfalso. apply H3.
      apply in_map_iff. exists (k, s); auto.
  Qed.

  Lemma probe_fresh_complete : forall c o fs, FSOK fs ->
    ProbeFresh content_of view_of probes ign_of c o fs -> Model.probe_fresh content_of view_of probes ign_of c o fs = true.
  Proof.
    intros c o fs HFS HP. unfold Model.probe_fresh. apply forallb_forall. intros [m s] Hin. simpl.
    destruct (Model.load_meta content_of ign_of c o fs m) as [[e x]|] eqn:L; auto.
    apply forallb_forall. intros d Hd. destruct (inG fs d) eqn:G; auto. simpl. apply mem_In.
    eapply HP; eauto. apply In_lookup'; auto.
  Qed.

  (* F6 exactly: the side condition fails iff some module with a reused entry probes a name that IS a module of the build now
     and is not among the dependencies recorded in that entry (the probe's result changed since the entry was written) *)
  Lemma F6_exact_lemma : forall c o fs, FSOK fs ->
    (~ ProbeFresh content_of view_of probes ign_of c o fs <->
     exists m s e x d, In (m, s) fs /\ Model.load_meta content_of ign_of c o fs m = Some (e, x) /\
                       In d (probes m (view_of m s) o) /\ inG fs d = true /\ ~ In d (m_deps e)).
  Proof.
    intros c o fs HFS. split.
    - intros HN. destruct (Model.probe_fresh content_of view_of probes ign_of c o fs) eqn:B.
      + exfalso. apply HN. apply probe_fresh_sound; auto.
      + unfold Model.probe_fresh in B. apply forallb_false_ex in B as [[m s] [Hin F]]. simpl in F.
        destruct (Model.load_meta content_of ign_of c o fs m) as [[e x]|] eqn:L; try discriminate.
        apply forallb_false_ex in F as [d [Hd Fd]]. apply orb_false_iff in Fd as [F1 F2].
        apply negb_false_iff in F1. exists m, s, e, x, d. repeat split; auto.
        intro X. apply mem_In in X. congruence.
    - intros [m [s [e [x [d [Hin [L [Hd [HG HN]]]]]]]]] HP. apply HN. eapply HP; eauto. apply In_lookup'; auto.
  Qed.

  Lemma kind_stable_complete : forall c o fs, FSOK fs ->
    KindStable content_of view_of ign_of c o fs -> Model.kind_stable content_of view_of ign_of c o fs = true.
  Proof.
    intros c o fs HFS HK. unfold Model.kind_stable. apply forallb_forall. intros [m s] Hin. simpl.
    destruct (Model.load_meta content_of ign_of c o fs m) as [[e x]|] eqn:L; auto.
    apply Nat.eqb_eq. eapply HK; eauto. apply In_lookup'; auto.
  Qed.

  (* F7 exactly: the side condition fails iff some module with a reused entry is seen differently (text or kind) now than at
     the stamp the entry records *)
  Lemma F7_exact_lemma : forall c o fs, FSOK fs ->
    (~ KindStable content_of view_of ign_of c o fs <->
     exists m s e x, In (m, s) fs /\ Model.load_meta content_of ign_of c o fs m = Some (e, x) /\
                     view_of m (m_stamp e) <> view_of m s).
  Proof.
    intros c o fs HFS. split.
    - intros HN. destruct (Model.kind_stable content_of view_of ign_of c o fs) eqn:B.
      + exfalso. apply HN. apply kind_stable_sound; auto.
      + unfold Model.kind_stable in B. apply forallb_false_ex in B as [[m s] [Hin F]]. simpl in F.
        destruct (Model.load_meta content_of ign_of c o fs m) as [[e x]|] eqn:L; try discriminate.
        exists m, s, e, x. repeat split; auto. apply Nat.eqb_neq; auto.
    - intros [m [s [e [x [Hin [L HN]]]]]] HK. apply HN. eapply HK; eauto. apply In_lookup'; auto.
  Qed.

  Lemma equiv_b_iff : forall a b, Model.equiv_b a b = true <-> (forall y, In y a <-> In y b).
  Proof.
    intros a b. unfold Model.equiv_b. rewrite andb_true_iff, !forallb_forall. split.
    - intros [H1 H2] y. split; intros Hy; apply mem_In; auto.
    - intros H. split; intros y Hy; apply mem_In; apply H; auto.
  Qed.

  Lemma scc_stable_complete : forall c o fs,
    SccFresh content_of view_of imports probes sccs_of ign_of pkg_of parent_of c o fs ->
    Model.scc_stable content_of view_of imports probes sccs_of ign_of pkg_of parent_of c o fs = true.
  Proof.
    intros c o fs HS. unfold Model.scc_stable. apply forallb_forall. intros S HIn.
    destruct (forallb (fun m => match Model.load_meta content_of ign_of c o fs m with Some _ => true | None => false end) S) eqn:V; auto.
    simpl. apply forallb_forall. intros m Hm.
    destruct (Model.load_meta content_of ign_of c o fs m) as [[e x]|] eqn:L; auto.
    apply equiv_b_iff. eapply HS; eauto. intros m' Hm'. rewrite forallb_forall in V. specialize (V m' Hm').
    destruct (Model.load_meta content_of ign_of c o fs m'); congruence.
  Qed.

  (* F11 exactly: the side condition fails iff some SCC of the current graph has a valid meta for every member and one of
     those entries was written for a different member set *)
  Lemma F11_exact_lemma : forall c o fs,
    (~ SccFresh content_of view_of imports probes sccs_of ign_of pkg_of parent_of c o fs <->
     exists S m e x, In S (sccs_of (Model.depmap content_of view_of imports probes ign_of pkg_of parent_of c o fs)) /\
                     (forall m', In m' S -> Model.load_meta content_of ign_of c o fs m' <> None) /\
                     In m S /\ Model.load_meta content_of ign_of c o fs m = Some (e, x) /\
                     ~ (forall y, In y (m_scc e) <-> In y S)).
  Proof.
    intros c o fs. split.
    - intros HN. destruct (Model.scc_stable content_of view_of imports probes sccs_of ign_of pkg_of parent_of c o fs) eqn:B.
      + exfalso. apply HN. apply scc_stable_sound; auto.
      + unfold Model.scc_stable in B. apply forallb_false_ex in B as [S [HIn F]].
        apply orb_false_iff in F as [F1 F2]. apply negb_false_iff in F1. rewrite forallb_forall in F1.
        apply forallb_false_ex in F2 as [m [Hm Fm]].
        destruct (Model.load_meta content_of ign_of c o fs m) as [[e x]|] eqn:L; try discriminate.
        exists S, m, e, x. split; auto. split.
        { intros m' Hm'. specialize (F1 m' Hm'). destruct (Model.load_meta content_of ign_of c o fs m'); congruence. }
        split; auto. split; auto. intro X. apply equiv_b_iff in X. congruence.
    - intros [S [m [e [x [HIn [ALLV [Hm [L HN]]]]]]]] HS. apply HN. eapply HS; eauto.
  Qed.

  Lemma p_KindStable_if_hash_determines_view :
    (forall m s s', content_of m s = content_of m s' -> view_of m s = view_of m s') ->
    forall c o fs, Proofs.CacheOK content_of view_of imports probes implicits analyze reach thash blocker c ->
    KindStable content_of view_of ign_of c o fs.
  Proof. intros H c o fs [K HC]. eapply KindStable_if_hash_determines_view; eauto. Qed.
End Packaged.
