(* C02 — the property at full strength, as a Prop over the model (see Model.v for what is abstract).

   "For any sequence of edits to a set of source files (content changes, files added, deleted or renamed,
    imports and import cycles created or broken, stubs appearing or disappearing), running mypy with the cache
    left by the previous runs reports exactly the same diagnostics and exit status as a run with an empty
    cache on the same final files and options."

   A history is ANY finite list of (file-system state, options) pairs: every kind of edit is a transition
   between two such states (`edit` below names them).  mypy is run after every edit (a run may be aborted by a blocking error: output None); `runs` threads
   the cache through.  The statement is about the protocol; the analysis itself is the abstract
   `check`/`analyze` (contract in Proofs.v), hashes are identities, and a file's content is a function of its
   logical version (path, mtime, size). *)
From Coq Require Import List Arith.
From C02 Require Import Model.
Import ListNotations.

Section Statement.
  Variable content_of : modid -> stamp -> content.
  Variable view_of : modid -> stamp -> content.
  Variable imports : modid -> content -> opts -> list modid.
  Variable probes : modid -> content -> opts -> list modid.
  Variable analyze : list modid -> (modid -> content) -> opts -> (modid -> option ihash) -> modid -> result.
  Variable sccs_of : list (modid * list modid) -> list (list modid).
  Variable reach : list (modid * list modid) -> modid -> modid -> bool.
  Variable sdo_of : list modid -> opts -> nat.
  Variable thash : list (modid * list modid) -> modid -> nat.
  Variable ign_of : modid -> stamp -> opts -> bool.
  Variable pkg_of : modid -> stamp -> bool.
  Variable parent_of : modid -> option modid.
  Variable blocker : modid -> content -> bool.

  Definition FSOK (fs : FS) : Prop := NoDup (map fst fs).

  (* full statement: every history, starting from the empty cache, every final state.  The runs are numbered
     0, 1, ...; the warm run after history h is run number (length h). *)
  Definition warm_equals_cold_for_all_histories : Prop :=
    forall (h : list (FS * opts)) (fs : FS) (o : opts) (n' : nat),
      (forall fs' o', In (fs', o') h -> FSOK fs') -> FSOK fs ->
      output fs (warm content_of view_of imports probes analyze sccs_of reach sdo_of thash ign_of pkg_of parent_of blocker
                      (runs content_of view_of imports probes analyze sccs_of reach sdo_of thash ign_of pkg_of parent_of blocker empty_store 0 h)
                      fs o (length h))
      = output fs (cold content_of view_of imports probes analyze sccs_of reach sdo_of thash ign_of pkg_of parent_of blocker fs o n').
End Statement.

(* the edits of the property text, as transitions between file-system states *)
Inductive edit :=
| Change (m : modid) (s : stamp)     (* content change / touch / a stub taking over: new logical version *)
| Add (m : modid) (s : stamp)        (* file (or stub, or package) added *)
| Delete (m : modid).                (* file deleted; a rename is Delete + Add *)

Fixpoint remove_mod (m : modid) (fs : FS) : FS :=
  match fs with
  | [] => []
  | (k, v) :: t => if Nat.eqb k m then remove_mod m t else (k, v) :: remove_mod m t
  end.

Definition apply_edit (fs : FS) (e : edit) : FS :=
  match e with
  | Change m s | Add m s => (m, s) :: remove_mod m fs
  | Delete m => remove_mod m fs
  end.

(* the file-system states visited by a list of edits (a run after every edit) *)
Fixpoint states (fs : FS) (es : list edit) : list FS :=
  match es with
  | [] => []
  | e :: t => apply_edit fs e :: states (apply_edit fs e) t
  end.
