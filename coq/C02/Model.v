(* C02 — model of mypy's incremental-cache protocol (mypy/build.py).  Definitions only.

   What is modelled (function of build.py it mirrors in brackets):
     store = three records per module: meta [CacheMeta], meta_ex [CacheMetaEx], data [the .data file]
     find_cache_meta, validate_meta (+ its mtime-update write), State.is_fresh, load_graph's
     suppress-missing / re-add-found adjustment of cached dependency lists, find_stale_sccs
     (stale_scc, stale_deps, verify_transitive_deps), process_graph over the SCC list,
     process_stale_scc's two-phase cache write (data only when the interface hash changed),
     replay of cached error_lines for fresh SCCs, patch_indirect_dependencies bookkeeping.
   What is abstract (Section variables, see Proofs.v for the contracts):
     content_of  (logical version -> content: "path+mtime+size equal => content equal")
     imports     (import candidates of a source text)            [all_imported_modules_in_file]
     check / analyze (semantic analysis + type checking of one SCC)
     sccs_of, reach  (SCC decomposition in dependency order, reachability in the SCC DAG)
     sdo_of      (suppressed_deps_opts)
   Hashes are the identity: an interface hash IS the interface, a source hash IS the content.
   The part up to `write_module` (records, store, find/validate) is what C04 builds on. *)
From Coq Require Import List Bool Arith.
Import ListNotations.

Definition modid := nat.
Definition content := nat.   (* source text = its hash *)
Definition stamp := nat.     (* (path, mtime, size) of a source file: a logical version *)
Definition ihash := nat.     (* serialized interface (tree) = its hash; 0 is b"" (no hash) *)
Definition diag := nat.      (* one reported line *)

Record opts := { o_snap : nat;       (* options_snapshot: platform + hash of OPTIONS_AFFECTING_CACHE *)
                 o_version : nat;    (* manager.version_id *)
                 o_plugin : nat }.   (* plugin.report_config_data / plugins snapshot *)
(* The store kind (sqlite / files) and the format (binary / JSON) do not appear: the protocol below is the
   code ABOVE the MetadataStore interface and the codecs, which is the same for all four configurations
   (store semantics = C04, codec faithfulness = C11; the harness runs all four). *)

Record result := { r_iface : ihash; r_errors : list diag; r_indirect : list modid }.

(* ---------------------------------------------------------------- cache records and store *)
Record meta := {
  m_stamp : stamp;            (* path, mtime, size *)
  m_hash : content;           (* hash *)
  m_deps : list modid;        (* dependencies (direct) *)
  m_supp : list modid;        (* suppressed *)
  m_snap : nat;               (* options *)
  m_version : nat;            (* version_id *)
  m_plugin : nat;             (* plugin_data *)
  m_sdo : nat;                (* suppressed_deps_opts *)
  m_ihash : ihash;            (* interface_hash *)
  m_dep_hashes : list ihash;  (* dep_hashes, aligned with m_deps *)
  m_thash : nat;              (* trans_dep_hash: hash of the transitive import structure below the module's SCC *)
  m_ignore_all : bool;        (* ignore_all *)
  m_data_mtime : nat;         (* data_mtime *)
  (* GHOST fields: not in mypy's CacheMeta and never read by the protocol below; they name the analysis call that
     produced the entry (run number, member list of the SCC analysed) and are used only by the invariant and by the
     decidable side condition scc_stable *)
  m_gen : nat;
  m_scc : list modid }.

Record meta_ex := {
  x_deps : list modid;        (* indirect dependencies *)
  x_dep_hashes : list ihash;  (* their interface hashes *)
  x_errors : list diag }.     (* error_lines *)

Record data := { d_iface : ihash; d_mtime : nat }.

Record store := { s_meta : modid -> option meta;
                  s_ex : modid -> option meta_ex;
                  s_data : modid -> option data }.

Definition empty_store : store :=
  {| s_meta := fun _ => None; s_ex := fun _ => None; s_data := fun _ => None |}.

Definition upd {A} (f : modid -> option A) (m : modid) (v : option A) : modid -> option A :=
  fun x => if Nat.eqb x m then v else f x.

Definition put_meta (c : store) m e := {| s_meta := upd (s_meta c) m (Some e); s_ex := s_ex c; s_data := s_data c |}.
Definition put_ex (c : store) m x := {| s_meta := s_meta c; s_ex := upd (s_ex c) m (Some x); s_data := s_data c |}.
Definition del_entry (c : store) m := {| s_meta := upd (s_meta c) m None; s_ex := upd (s_ex c) m None; s_data := s_data c |}.
Definition put_data (c : store) m d := {| s_meta := s_meta c; s_ex := s_ex c; s_data := upd (s_data c) m (Some d) |}.

(* ---------------------------------------------------------------- small list helpers *)
Fixpoint lookup {A} (l : list (modid * A)) (m : modid) : option A :=
  match l with
  | [] => None
  | (k, v) :: t => if Nat.eqb m k then Some v else lookup t m
  end.

Definition mem (d : modid) (l : list modid) : bool := existsb (Nat.eqb d) l.

Fixpoint list_eqb (a b : list nat) : bool :=
  match a, b with
  | [], [] => true
  | x :: a', y :: b' => Nat.eqb x y && list_eqb a' b'
  | _, _ => false
  end.

Definition opt_eqb (a b : option nat) : bool :=
  match a, b with
  | Some x, Some y => Nat.eqb x y
  | None, None => true
  | _, _ => false
  end.

(* A file system state: which modules can be found, each with its logical version. *)
Definition FS := list (modid * stamp).
Definition inG (fs : FS) (d : modid) : bool := mem d (map fst fs).
Definition found (fs : FS) (l : list modid) : list modid := filter (inG fs) l.
Definition notfound (fs : FS) (l : list modid) : list modid := filter (fun d => negb (inG fs d)) l.

(* one processed module: State.interface_hash, the loaded/new tree, its diagnostics *)
Record pm := { p_hash : ihash; p_iface : ihash; p_errors : list diag }.
Definition penv := list (modid * pm).
Definition ienv (env : penv) : modid -> option ihash := fun d => option_map p_iface (lookup env d).
Definition extend (env : modid -> option ihash) (S : list modid) (f : modid -> ihash) : modid -> option ihash :=
  fun d => if mem d S then Some (f d) else env d.

Section Protocol.
  Variable content_of : modid -> stamp -> content.
  (* what the analysis SEES of a file: its text AND its kind (.py / .pyi).  validate_meta compares only the hash of the
     text (content_of), mtime, size and path-as-a-string: finding F7. *)
  Variable view_of : modid -> stamp -> content.
  Variable imports : modid -> content -> opts -> list modid.
  (* `from pkg import name`: pkg.name is only PROBED (BuildManager.is_module): it becomes a dependency if the module
     exists and is otherwise recorded nowhere - neither in dependencies nor in suppressed *)
  Variable probes : modid -> content -> opts -> list modid.
  (* implicit submodule references (`pkg.mod.C` with only `import pkg`): they resolve iff pkg.mod happens to have been
     analysed before, and are recorded (as indirect dependencies) only when they resolve: finding F9 *)
  Variable implicits : modid -> content -> opts -> list modid.
  Variable analyze : list modid -> (modid -> content) -> opts -> (modid -> option ihash) -> modid -> result.
  Variable sccs_of : list (modid * list modid) -> list (list modid).
  Variable reach : list (modid * list modid) -> modid -> modid -> bool.
  Variable sdo_of : list modid -> opts -> nat.
  (* transitive_dep_hash of the SCC of a module in a dependency map (State.trans_dep_hash) *)
  Variable thash : list (modid * list modid) -> modid -> nat.
  (* State.ignore_all: the module is followed silently (follow_imports=silent and not a command-line root, or a
     silent-import path).  It is a function of where the file was found / how it was reached (part of the logical
     version) and of the options. *)
  Variable ign_of : modid -> stamp -> opts -> bool.

  (* ---- find_cache_meta: version, options, plugin data, meta_ex present (no look at source or data) *)
  Definition find_cache_meta (c : store) (o : opts) (m : modid) : option (meta * meta_ex) :=
    match s_meta c m, s_ex c m with
    | Some e, Some x =>
        if Nat.eqb (m_version e) (o_version o) && Nat.eqb (m_snap e) (o_snap o) && Nat.eqb (m_plugin e) (o_plugin o)
        then Some (e, x) else None
    | _, _ => None
    end.

  (* ---- validate_meta: ignore_all, data file mtime, then (mtime,size,path) or else the source hash *)
  Definition validate_meta (c : store) (o : opts) (m : modid) (s : stamp) (e : meta) : bool :=
    (negb (m_ignore_all e) || ign_of m s o)
    && match s_data c m with Some d => Nat.eqb (d_mtime d) (m_data_mtime e) | None => false end
    && (Nat.eqb (m_stamp e) s || Nat.eqb (m_hash e) (content_of m s)).

  Definition load_meta (c : store) (o : opts) (fs : FS) (m : modid) : option (meta * meta_ex) :=
    match lookup fs m with
    | None => None
    | Some s => match find_cache_meta c o m with
                | Some (e, x) => if validate_meta c o m s e then Some (e, x) else None
                | None => None
                end
    end.

  (* validate_meta's optimisation write: the hash matched but mtime/path/size did not -> the meta is rewritten with
     the new mtime, path, size (and the current options snapshot) while the graph is loaded *)
  Definition restamp (c : store) (o : opts) (fs : FS) : store :=
    {| s_meta := fun m =>
         match load_meta c o fs m, lookup fs m with
         | Some (e, _), Some s =>
             if Nat.eqb (m_stamp e) s then s_meta c m
             else Some {| m_stamp := s; m_hash := m_hash e; m_deps := m_deps e; m_supp := m_supp e;
                          m_snap := o_snap o; m_version := m_version e; m_plugin := m_plugin e; m_sdo := m_sdo e;
                          m_ihash := m_ihash e; m_dep_hashes := m_dep_hashes e; m_thash := m_thash e; m_ignore_all := m_ignore_all e;
                          m_data_mtime := m_data_mtime e; m_gen := m_gen e; m_scc := m_scc e |}
         | _, _ => s_meta c m
         end;
       s_ex := s_ex c; s_data := s_data c |}.

  (* ---- State.new_state: two situations force a re-parse of a module whose meta is valid, because the cached lists cannot
     tell what a fresh parse would find:
       exist_added_packages: a suppressed dependency can now be found and is a package (__init__) - `from pkg import mod`
         may now name a submodule;
       exist_removed_submodules: a recorded dependency whose DIRECT parent package is also a recorded dependency can no
         longer be found - `from pkg import mod` no longer names a module (the dependency must be dropped, not suppressed). *)
  Variable pkg_of : modid -> stamp -> bool.              (* the file is a package __init__ *)
  Variable parent_of : modid -> option modid.            (* direct ancestor: rsplit(".", 1) *)
  Definition is_pkg_now (fs : FS) (d : modid) : bool :=
    match lookup fs d with Some s => pkg_of d s | None => false end.
  Definition reparse (c : store) (o : opts) (fs : FS) (m : modid) : bool :=
    match load_meta c o fs m with
    | Some (e, _) =>
        existsb (is_pkg_now fs) (m_supp e)
        || existsb (fun d => negb (inG fs d)
                             && match parent_of d with Some a => mem a (m_deps e) | None => false end) (m_deps e)
    | None => false
    end.

  (* ---- load_graph: cached lists are reused for a valid meta; missing deps are suppressed,
          suppressed deps that can now be found are added back *)
  Definition cands (c : store) (o : opts) (fs : FS) (m : modid) (s : stamp) : list modid :=
    match load_meta c o fs m with
    | Some (e, _) => if reparse c o fs m then imports m (view_of m s) o ++ probes m (view_of m s) o
                     else m_deps e ++ m_supp e
    | None => imports m (view_of m s) o ++ probes m (view_of m s) o
    end.
  Definition hard_cands (c : store) (o : opts) (fs : FS) (m : modid) (s : stamp) : list modid :=
    match load_meta c o fs m with
    | Some (e, _) => if reparse c o fs m then imports m (view_of m s) o else m_deps e ++ m_supp e
    | None => imports m (view_of m s) o
    end.
  Definition direct_deps c o fs m s := found fs (cands c o fs m s).
  Definition supp_deps c o fs m s := notfound fs (hard_cands c o fs m s).   (* a probe that is not found is dropped *)
  Definition old_indirect c o fs m : list modid :=
    match load_meta c o fs m with Some (_, x) => found fs (x_deps x) | None => [] end.

  Definition depmap (c : store) (o : opts) (fs : FS) : list (modid * list modid) :=
    map (fun ms => (fst ms, direct_deps c o fs (fst ms) (snd ms))) fs.

  (* ---- State.is_fresh: meta valid, dependencies == meta.dependencies, suppressed_deps_opts equal *)
  Definition is_fresh (c : store) (o : opts) (fs : FS) (m : modid) : bool :=
    match load_meta c o fs m with
    | Some (e, x) =>
        list_eqb (found fs (m_deps e) ++ found fs (x_deps x) ++ found fs (m_supp e)) (m_deps e ++ x_deps x)
        && Nat.eqb (m_sdo e) (sdo_of (notfound fs (m_deps e ++ m_supp e)) o)
    | None => false
    end.

  (* graph[d].interface_hash at the moment an SCC is judged *)
  Definition cur_hash (c : store) (o : opts) (env : penv) (d : modid) : ihash :=
    match lookup env d with
    | Some p => p_hash p
    | None => match find_cache_meta c o d with Some (e, _) => m_ihash e | None => 0 end
    end.

  (* ---- find_stale_sccs *)
  Definition dep_hashes_ok (c : store) (o : opts) (fs : FS) (env : penv) (m : modid) : bool :=
    match load_meta c o fs m with
    | Some (e, x) =>
        forallb (fun dh => negb (inG fs (fst dh)) || Nat.eqb (cur_hash c o env (fst dh)) (snd dh))
                (combine (m_deps e ++ x_deps x) (m_dep_hashes e ++ x_dep_hashes x))
    | None => true
    end.

  Definition trans_ok (c : store) (o : opts) (fs : FS) (dm : list (modid * list modid)) (S : list modid) (m : modid) : bool :=
    match load_meta c o fs m with
    | Some (e, x) =>
        (* verify_transitive_deps: "Import graph unchanged, skip this module" when the hashes are equal *)
        Nat.eqb (thash dm m) (m_thash e) || forallb (fun d => mem d S || reach dm m d) (x_deps x)
    | None => true
    end.

  Definition scc_fresh c o fs dm env (S : list modid) : bool :=
    forallb (is_fresh c o fs) S && forallb (dep_hashes_ok c o fs env) S && forallb (trans_ok c o fs dm S) S.

  (* ---- a fresh module: tree from the data file, hash from the meta, errors replayed from meta_ex *)
  Definition cached_pm (c : store) (o : opts) (fs : FS) (m : modid) : pm :=
    match load_meta c o fs m, s_data c m with
    | Some (e, x), Some d =>
        {| p_hash := m_ihash e; p_iface := d_iface d;
           p_errors := match lookup fs m with Some s => if ign_of m s o then [] else x_errors x | None => [] end |}
    | _, _ => {| p_hash := 0; p_iface := 0; p_errors := [] |}
    end.

  Definition src_of (fs : FS) (m : modid) : content :=
    match lookup fs m with Some s => view_of m s | None => 0 end.

  Definition ign_now (fs : FS) (o : opts) (m : modid) : bool :=
    match lookup fs m with Some s => ign_of m s o | None => false end.
  Definition fresh_pm (fs : FS) (o : opts) (R : modid -> result) (m : modid) : pm :=
    {| p_hash := r_iface (R m); p_iface := r_iface (R m); p_errors := if ign_now fs o m then [] else r_errors (R m) |}.

  (* ---- process_stale_scc, second half: write_cache (data iff interface hash changed), then meta + meta_ex *)
  Definition new_indirect c o fs (m : modid) (s : stamp) (r : result) : list modid :=
    let old := old_indirect c o fs m in
    old ++ filter (fun d => negb (mem d (cands c o fs m s)) && negb (mem d old) && negb (Nat.eqb d m)) (r_indirect r).

  Definition new_meta (c0 : store) (o : opts) (fs : FS) (now : nat) (dm : list (modid * list modid)) (S : list modid)
             (env' : penv) (R : modid -> result) (m : modid) (s : stamp) (dmt : nat) : meta :=
    let deps := direct_deps c0 o fs m s in
    let supp := supp_deps c0 o fs m s in
    {| m_stamp := s; m_hash := content_of m s; m_deps := deps; m_supp := supp;
       m_snap := o_snap o; m_version := o_version o; m_plugin := o_plugin o;
       m_sdo := sdo_of supp o; m_ihash := r_iface (R m);
       m_dep_hashes := map (cur_hash c0 o env') deps; m_thash := thash dm m;
       m_ignore_all := ign_of m s o; m_data_mtime := dmt; m_gen := now; m_scc := S |}.
  Definition new_ex (c0 : store) (o : opts) (fs : FS) (env' : penv) (R : modid -> result) (m : modid) (s : stamp) : meta_ex :=
    let ind := new_indirect c0 o fs m s (R m) in
    {| x_deps := ind; x_dep_hashes := map (cur_hash c0 o env') ind;
       x_errors := if ign_of m s o then [] else r_errors (R m) |}.

  Definition write_module (c0 : store) (o : opts) (fs : FS) (now : nat) (dm : list (modid * list modid))
             (S : list modid) (env' : penv) (R : modid -> result) (c' : store) (m : modid) : store :=
    match lookup fs m with
    | None => c'
    | Some s =>
        let r := R m in
        let old_h := match find_cache_meta c0 o m with Some (e, _) => m_ihash e | None => 0 end in
        (* write_cache first removes meta and meta_ex (an interrupted update leaves an entry that is ignored) *)
        let cd := del_entry c' m in
        let c1 := if Nat.eqb old_h (r_iface r) then cd else put_data cd m {| d_iface := r_iface r; d_mtime := now |} in
        match s_data c1 m with
        | None => c1            (* getmtime(data_file) failed: no meta is written (the old ones are gone) *)
        | Some d => put_ex (put_meta c1 m (new_meta c0 o fs now dm S env' R m s (d_mtime d))) m (new_ex c0 o fs env' R m s)
        end
    end.

  (* ---- one SCC of process_graph *)
  Definition process_scc (c0 : store) (o : opts) (fs : FS) (now : nat) (dm : list (modid * list modid))
             (st : penv * store) (S : list modid) : penv * store :=
    let (env, c') := st in
    if scc_fresh c0 o fs dm env S then (env ++ map (fun m => (m, cached_pm c0 o fs m)) S, c')
    else
      let R := analyze S (src_of fs) o (ienv env) in
      let env' := env ++ map (fun m => (m, fresh_pm fs o R m)) S in
      (env', fold_left (write_module c0 o fs now dm S env' R) S c').

  (* ---- a whole run: load (with the mtime-update writes), SCCs in dependency order, process each *)
  Definition run (c : store) (fs : FS) (o : opts) (now : nat) : penv * store :=
    let dm := depmap c o fs in
    fold_left (process_scc c o fs now dm) (sccs_of dm) ([], restamp c o fs).

  (* ---- decidable side conditions of the positive theorem (evaluated and counted by the harness) *)
  Definition equiv_b (a b : list modid) : bool := forallb (fun x => mem x b) a && forallb (fun x => mem x a) b.
  (* every SCC whose members all have a valid meta is the SCC those entries were written for *)
  Definition scc_stable (c : store) (o : opts) (fs : FS) : bool :=
    forallb (fun S =>
      negb (forallb (fun m => match load_meta c o fs m with Some _ => true | None => false end) S)
      || forallb (fun m => match load_meta c o fs m with Some (e, _) => equiv_b (m_scc e) S | None => true end) S)
      (sccs_of (depmap c o fs)).
  (* no probed name that was not a module when a reused entry was written is a module now *)
  Definition probe_fresh (c : store) (o : opts) (fs : FS) : bool :=
    forallb (fun ms => match load_meta c o fs (fst ms) with
                       | Some (e, _) => forallb (fun d => negb (inG fs d) || mem d (m_deps e))
                                                (probes (fst ms) (view_of (fst ms) (snd ms)) o)
                       | None => true end) fs.

  (* the file of a reused entry is still seen the same way (same text and same kind) as when it was validated last *)
  Definition kind_stable (c : store) (o : opts) (fs : FS) : bool :=
    forallb (fun ms => match load_meta c o fs (fst ms) with
                       | Some (e, _) => Nat.eqb (view_of (fst ms) (m_stamp e)) (view_of (fst ms) (snd ms))
                       | None => true end) fs.
  (* every implicit submodule reference that names a module of the build points DOWN the import graph (so that it is
     resolved or not independently of scheduling) and, for a reused entry, is recorded in it *)
  Definition group_of (L : list (list modid)) (m : modid) : list modid :=
    match find (fun G => mem m G) L with Some G => G | None => [] end.
  Definition implicit_stable (c : store) (o : opts) (fs : FS) : bool :=
    let dm := depmap c o fs in
    forallb (fun ms =>
      forallb (fun d => negb (inG fs d)
                        || ((reach dm (fst ms) d || mem d (group_of (sccs_of dm) (fst ms)))
                            && match load_meta c o fs (fst ms) with
                               | Some (e, x) => mem d (m_deps e ++ x_deps x)
                               | None => true end))
              (implicits (fst ms) (view_of (fst ms) (snd ms)) o)) fs.

  (* ---- blocking errors (syntax errors ...): they are raised while the graph is loaded, i.e. for the modules that
     have to be parsed because they have no valid meta.  The run aborts with status 2 before any SCC is processed;
     the only writes that happened are the mtime-update writes of validate_meta. *)
  Variable blocker : modid -> content -> bool.
  Definition blocked (c : store) (o : opts) (fs : FS) : bool :=
    existsb (fun ms => match load_meta c o fs (fst ms) with
                       | Some _ => false
                       | None => blocker (fst ms) (content_of (fst ms) (snd ms)) end) fs.
  Definition run_b (c : store) (fs : FS) (o : opts) (now : nat) : option penv * store :=
    if blocked c o fs then (None, restamp c o fs)
    else let r := run c fs o now in (Some (fst r), snd r).

  Definition warm := run_b.
  Definition cold (fs : FS) (o : opts) (now : nat) := run_b empty_store fs o now.

  (* what the user sees: for every file (in a fixed file order) its diagnostics in emission order, and the status;
     None = the run was aborted by a blocking error (exit status 2; which blocker messages are printed is not modelled) *)
  Definition report (fs : FS) (env : penv) : list (modid * option (list diag)) :=
    map (fun ms => (fst ms, option_map p_errors (lookup env (fst ms)))) fs.
  Definition status (fs : FS) (env : penv) : bool :=
    existsb (fun ms => match lookup env (fst ms) with Some p => negb (Nat.eqb (length (p_errors p)) 0) | None => false end) fs.
  Definition output (fs : FS) (rs : option penv * store) :=
    option_map (fun env => (report fs env, status fs env)) (fst rs).

  (* which modules a run re-analysed (manager.rechecked_modules): used by the correspondence harness *)
  Definition rechecked (c : store) (fs : FS) (o : opts) : list modid :=
    let dm := depmap c o fs in
    snd (fold_left (fun (a : (penv * store) * list modid) S =>
                      let st' := process_scc c o fs 0 dm (fst a) S in
                      (st', if scc_fresh c o fs dm (fst (fst a)) S then snd a else snd a ++ S))
                   (sccs_of dm) (([], restamp c o fs), [])).

  (* edit histories: a history is the list of file-system states (and options) mypy is run on, one run after
     every edit; `now` of the k-th run is k+1 *)
  Fixpoint runs (c : store) (k : nat) (h : list (FS * opts)) : store :=
    match h with
    | [] => c
    | (fs, o) :: t => runs (snd (warm c fs o k)) (Datatypes.S k) t
    end.
End Protocol.
