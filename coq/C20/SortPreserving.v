(* C20 -- server/update.py sort_messages_preserving_file_order: the last stage every daemon answer passes through.
   Index arithmetic modelled as written; messages[k] = nth_error, failure = IndexError. *)
From Coq Require Import List Arith Bool Lia.
From C20 Require Import Model Proofs.
Import ListNotations.

(* what the function looks at in a message line *)
Record Line := mkM { m_id : nat;            (* identity, for the tie *)
                    m_pf : nat;            (* extract_possible_fnam_from_message: text before the first ':' (interned) *)
                    m_hasf : bool;         (* extract_fnam_from_message(msg) is not None *)
                    m_mypy : bool }.       (* msg.startswith("mypy: ") *)

Section SP.
  Variable order : list nat.               (* file names of prev_messages in first-appearance order; n = length order *)
  Definition in_order (pf : nat) : bool := existsb (Nat.eqb pf) order.
  Fixpoint index_of (pf : nat) (l : list nat) (k : nat) : nat :=
    match l with [] => k | x :: t => if x =? pf then k else index_of pf t (S k) end.
  Definition rank (pf : nat) : nat := index_of pf order 0.       (* order.get(maybe_fnam, n) *)

  (* while i + 1 < len(messages) and <messages[i+1] is a continuation line>: i += 1; group.append(messages[i]) *)
  Fixpoint collect (fuel : nat) (l : list Line) (i : nat) (group : list Line) : R (nat * list Line) :=
    match fuel with
    | 0 => OutOfFuel
    | S f =>
        if i + 1 <? length l then
          match get l (i + 1) with
          | Ok nx =>
              if negb (in_order (m_pf nx)) && negb (m_hasf nx) && negb (m_mypy nx) then
                match get l (i + 1) with
                | Ok x => collect f l (i + 1) (group ++ [x])
                | _ => IndexError
                end
              else Ok (i, group)
          | _ => IndexError
          end
        else Ok (i, group)
    end.

  Fixpoint sp_groups (fuel : nat) (l : list Line) (i : nat) (groups : list (nat * list Line)) : R (list (nat * list Line)) :=
    match fuel with
    | 0 => OutOfFuel
    | S f =>
        if i <? length l then
          match get l i with                                          (* msg = messages[i] *)
          | Ok msg =>
              match (if in_order (m_pf msg) then collect (length l) l i [msg] else Ok (i, [msg])) with
              | Ok (j, group) => sp_groups f l (j + 1) (groups ++ [(rank (m_pf msg), group)])
              | IndexError => IndexError
              | OutOfFuel => OutOfFuel
              end
          | _ => IndexError
          end
        else Ok groups
    end.

  Definition le_key (a b : nat * list Line) : bool := fst a <=? fst b.
  Definition sort_preserving (l : list Line) : R (list Line) :=
    match sp_groups (S (length l)) l 0 [] with
    | Ok gs => Ok (flat_map snd (sorted le_key gs))
    | IndexError => IndexError
    | OutOfFuel => OutOfFuel
    end.

  Lemma collect_ok : forall fuel l i group, 0 < fuel -> length l <= i + fuel ->
    exists j g, collect fuel l i group = Ok (j, g) /\ i <= j.
  Proof.
    induction fuel as [|f IH]; intros l i group Hpos Hlen; [lia|].
    simpl. destruct (i + 1 <? length l) eqn:E.
    - apply Nat.ltb_lt in E. destruct (get_ok _ l (i + 1)) as [nx Hn]; [lia|]. rewrite Hn.
      destruct (negb (in_order (m_pf nx)) && negb (m_hasf nx) && negb (m_mypy nx)).
      + destruct (IH l (i + 1) (group ++ [nx])) as (j & g & Hj & Hle); [lia|lia|]. exists j, g. split; [exact Hj|lia].
      + exists i, group. split; [reflexivity|lia].
    - exists i, group. split; [reflexivity|lia].
  Qed.

  Lemma sp_groups_ok : forall fuel l i groups, length l - i < fuel -> exists r, sp_groups fuel l i groups = Ok r.
  Proof.
    induction fuel as [|f IH]; intros l i groups H; [lia|].
    simpl. destruct (i <? length l) eqn:E; [|eauto].
    apply Nat.ltb_lt in E. destruct (get_ok _ l i) as [msg Hm]; [lia|]. rewrite Hm.
    destruct (in_order (m_pf msg)).
    - destruct (collect_ok (length l) l i [msg]) as (j & g & Hc & Hle); [lia|lia|]. rewrite Hc. apply IH. lia.
    - apply IH. lia.
  Qed.

  Lemma sort_preserving_total : forall l, exists r, sort_preserving l = Ok r.
  Proof.
    intros l. unfold sort_preserving. destruct (sp_groups_ok (S (length l)) l 0 []) as [gs Hg]; [lia|].
    rewrite Hg. eauto.
  Qed.
End SP.

Lemma sort_preserving_example :
  sort_preserving [2; 1] [mkM 0 1 true false; mkM 1 7 false false; mkM 2 2 true false; mkM 3 9 true false; mkM 4 5 false true]
  = Ok [mkM 2 2 true false; mkM 0 1 true false; mkM 1 7 false false; mkM 3 9 true false; mkM 4 5 false true].
Proof. vm_compute. reflexivity. Qed.
