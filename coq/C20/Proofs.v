(* C20 -- lemmas: termination of the fix-point drivers for any oracle; totality of the message pipeline *)
From Coq Require Import List Arith Bool ZArith Lia.
From Gen Require Import Bounds.
From C20 Require Import Model.
Import ListNotations.

(* ------------------------------------------------------------------ generic loop lemmas *)

(* A loop whose body increments a counter and refuses to continue beyond M needs at most M+1
   evaluations of its header, whatever else the body does. *)
Lemma iterate_counter : forall (A O : Type) (body : A -> A + O) (cnt : A -> nat) (M : nat),
  (forall s s', cnt s <= M -> body s = inl s' -> cnt s' = S (cnt s) /\ cnt s' <= M) ->
  forall fuel s, cnt s <= M -> M < cnt s + fuel ->
  exists o n, iterate body fuel s = Some (o, n) /\ n + cnt s <= S M.
Proof.
  intros A O body cnt M H fuel. induction fuel as [|f IH]; intros s Hle Hlt.
  - lia.
  - simpl. destruct (body s) as [s'|o] eqn:E.
    + destruct (H s s' Hle E) as [H1 H2].
      destruct (IH s' H2) as (o & n & Hit & Hn); [lia|].
      rewrite Hit. exists o, (S n). split; [reflexivity|lia].
    + exists o, 1. split; [reflexivity|lia].
Qed.

(* A loop whose body strictly decreases a measure. *)
Lemma iterate_measure : forall (A O : Type) (body : A -> A + O) (mu : A -> nat),
  (forall s s', body s = inl s' -> mu s' < mu s) ->
  forall fuel s, mu s < fuel -> exists o n, iterate body fuel s = Some (o, n) /\ n <= S (mu s).
Proof.
  intros A O body mu H fuel. induction fuel as [|f IH]; intros s Hlt.
  - lia.
  - simpl. destruct (body s) as [s'|o] eqn:E.
    + pose proof (H s s' E) as Hd.
      destruct (IH s') as (o & n & Hit & Hn); [lia|].
      rewrite Hit. exists o, (S n). split; [reflexivity|lia].
    + exists o, 1. split; [reflexivity|lia].
Qed.

(* Whatever the loop returns was returned by some evaluation of the body. *)
Lemma iterate_outcome : forall (A O : Type) (body : A -> A + O) (P : O -> Prop),
  (forall s o, body s = inr o -> P o) ->
  forall fuel s o n, iterate body fuel s = Some (o, n) -> P o.
Proof.
  intros A O body P H fuel. induction fuel as [|f IH]; intros s o n Hit; simpl in Hit.
  - discriminate.
  - destruct (body s) as [s'|o'] eqn:E.
    + destruct (iterate body f s') as [[o'' n'']|] eqn:E2; [|discriminate].
      inversion Hit; subst. eapply IH; eauto.
    + inversion Hit; subst. eapply H; eauto.
Qed.

Lemma max_iterations_pos : 0 < MAX_ITERATIONS.
Proof. unfold MAX_ITERATIONS; lia. Qed.

Global Opaque MAX_ITERATIONS MAX_ITER.

(* ================================================================== A(i) semanal_main *)
Section Semanal.
  Variable St T : Type.
  Variable analyze : St -> T -> bool -> St * (list T * bool * bool).

  Notation tl_body := (tl_body St T analyze).
  Notation fn_body := (fn_body St T analyze).

  Lemma tl_body_counts : forall s s', tl_iter _ _ s <= MAX_ITERATIONS -> tl_body s = inl s' ->
    tl_iter _ _ s' = S (tl_iter _ _ s) /\ tl_iter _ _ s' <= MAX_ITERATIONS.
  Proof.
    intros s s' _ H. unfold Model.tl_body in H.
    destruct (tl_wl _ _ s); [discriminate|].
    destruct (MAX_ITERATIONS <? S (tl_iter _ _ s)) eqn:E; [discriminate|].
    destruct (drain _ _ _ _ _ _ _ _ _) as [[[st' alld] prog] calls].
    destruct (tl_final _ _ s && nonempty alld); [discriminate|].
    inversion H; subst; simpl. apply Nat.ltb_ge in E. split; [reflexivity|lia].
  Qed.

  Lemma process_top_levels_terminates : forall st wl,
    exists o n, process_top_levels St T analyze (tl_fuel) st wl = Some (o, n) /\ n <= S MAX_ITERATIONS.
  Proof.
    intros st wl. unfold process_top_levels, tl_fuel.
    destruct (iterate_counter _ _ tl_body (tl_iter St T) MAX_ITERATIONS tl_body_counts (S MAX_ITERATIONS) (tl_init St T st wl))
      as (o & n & H1 & H2); simpl; try lia.
    exists o, n. split; [exact H1|]. simpl in H2. lia.
  Qed.

  (* the counter in the state the loop ends in never exceeds MAX_ITERATIONS + 1 *)

  Lemma fn_body_counts : forall target s s', fn_iter _ _ s <= MAX_ITERATIONS - 1 -> fn_body target s = inl s' ->
    fn_iter _ _ s' = S (fn_iter _ _ s) /\ fn_iter _ _ s' <= MAX_ITERATIONS - 1.
  Proof.
    intros target s s' Hle H. unfold Model.fn_body in H.
    destruct (fn_deferred _ _ s); [discriminate|].
    destruct (S (fn_iter _ _ s) =? MAX_ITERATIONS) eqn:E; [discriminate|].
    destruct (analyze _ _ _) as [st' [[d inc] p]].
    destruct (fn_final _ _ s && nonempty d); [discriminate|].
    inversion H; subst; simpl. apply Nat.eqb_neq in E. pose proof max_iterations_pos. split; [reflexivity|lia].
  Qed.

  Lemma process_top_level_function_terminates : forall st module target,
    exists o n, process_top_level_function St T analyze fn_fuel st module target = Some (o, n) /\ n <= MAX_ITERATIONS.
  Proof.
    intros st module target. unfold process_top_level_function, fn_fuel.
    pose proof max_iterations_pos as Hp.
    destruct (iterate_counter _ _ (fn_body target) (fn_iter St T) (MAX_ITERATIONS - 1) (fn_body_counts target)
                MAX_ITERATIONS (fn_init St T st module)) as (o & n & H1 & H2); simpl; try lia.
    exists o, n. split; [exact H1|]. simpl in H2. lia.
  Qed.

  (* ---- the final-iteration assertions *)
  Definition no_defer_when_final : Prop := forall st t, fst (fst (snd (analyze st t true))) = [].

  Lemma drain_final_no_defer : no_defer_when_final -> forall todo st alld prog calls,
    snd (fst (fst (drain St T analyze st todo true alld prog calls))) = alld.
  Proof.
    intros C todo. induction todo as [|t rest IH]; intros st alld prog calls; simpl.
    - reflexivity.
    - pose proof (C st t) as Ct. destruct (analyze st t true) as [st' [[d inc] p]]. simpl in Ct. subst d.
      rewrite IH. apply app_nil_r.
  Qed.

  Lemma tl_body_no_assert : no_defer_when_final -> forall s o, tl_body s = inr o -> fst o <> AssertFail.
  Proof.
    intros C s o H. unfold Model.tl_body in H.
    destruct (tl_wl _ _ s) eqn:W.
    - inversion H; subst; simpl; discriminate.
    - destruct (MAX_ITERATIONS <? S (tl_iter _ _ s)).
      + inversion H; subst; simpl; discriminate.
      + destruct (tl_final _ _ s) eqn:F.
        * pose proof (drain_final_no_defer C (rev (t :: l)) (tl_st _ _ s) [] false (tl_calls _ _ s)) as D.
          destruct (drain _ _ _ _ _ _ _ _ _) as [[[st' alld] prog] calls]. simpl in D. subst alld.
          simpl in H. discriminate.
        * destruct (drain _ _ _ _ _ _ _ _ _) as [[[st' alld] prog] calls]. simpl in H. discriminate.
  Qed.

  Lemma process_top_levels_assert_cannot_fire : no_defer_when_final ->
    forall fuel st wl o n, process_top_levels St T analyze fuel st wl = Some (o, n) -> fst o <> AssertFail.
  Proof.
    intros C fuel st wl o n H. unfold process_top_levels in H.
    eapply (iterate_outcome _ _ tl_body (fun o => fst o <> AssertFail)); eauto using tl_body_no_assert.
  Qed.

  Lemma fn_body_no_assert : no_defer_when_final -> forall target s o, fn_body target s = inr o -> fst o <> AssertFail.
  Proof.
    intros C target s o H. unfold Model.fn_body in H.
    destruct (fn_deferred _ _ s).
    - inversion H; subst; simpl; discriminate.
    - destruct (S (fn_iter _ _ s) =? MAX_ITERATIONS).
      + inversion H; subst; simpl; discriminate.
      + destruct (fn_final _ _ s) eqn:F.
        * pose proof (C (fn_st _ _ s) target) as Ct.
          destruct (analyze _ _ _) as [st' [[d inc] p]]. simpl in Ct. subst d. simpl in H. discriminate.
        * destruct (analyze _ _ _) as [st' [[d inc] p]]. simpl in H. discriminate.
  Qed.

  Lemma process_top_level_function_assert_cannot_fire : no_defer_when_final ->
    forall fuel st module target o n,
      process_top_level_function St T analyze fuel st module target = Some (o, n) -> fst o <> AssertFail.
  Proof.
    intros C fuel st module target o n H. unfold process_top_level_function in H.
    eapply (iterate_outcome _ _ (fn_body target) (fun o => fst o <> AssertFail)); eauto using fn_body_no_assert.
  Qed.

  (* Done means the worklist really is empty: nothing is left deferred *)
  Lemma tl_done_empty : forall fuel st wl o n, process_top_levels St T analyze fuel st wl = Some (o, n) ->
    fst o = Done -> tl_wl _ _ (snd o) = [].
  Proof.
    intros fuel st wl o n H. unfold process_top_levels in H.
    eapply (iterate_outcome _ _ tl_body (fun o => fst o = Done -> tl_wl _ _ (snd o) = [])); [|exact H].
    clear. intros s o H. unfold Model.tl_body in H.
    destruct (tl_wl _ _ s) eqn:W.
    - inversion H; subst; simpl; auto.
    - destruct (MAX_ITERATIONS <? S (tl_iter _ _ s)).
      + inversion H; subst; simpl; discriminate.
      + destruct (drain _ _ _ _ _ _ _ _ _) as [[[st' alld] prog] calls].
        destruct (tl_final _ _ s && nonempty alld); inversion H; subst; simpl; discriminate.
  Qed.
End Semanal.

(* ================================================================== A(ii) checker *)
Section Checker.
  Variable St N : Type.
  Variable N_eqb : N -> N -> bool.
  Variable last_pass : nat.
  Variable check : St -> nat -> N -> St * list N.

  Notation sp_body := (sp_body St N N_eqb check).

  (* the contract established syntactically by T20: every defer_node call is under
     `if self.pass_num < self.last_pass` *)
  Definition no_defer_from_last_pass : Prop := forall st p n, last_pass <= p -> snd (check st p n) = [].

  Lemma run_todo_no_defer : no_defer_from_last_pass -> forall p, last_pass <= p ->
    forall todo st done deferred calls,
      snd (fst (run_todo St N N_eqb check st p todo done deferred calls)) = deferred.
  Proof.
    intros C p Hp todo. induction todo as [|n rest IH]; intros st done deferred calls; simpl.
    - reflexivity.
    - destruct (mem N N_eqb n done).
      + apply IH.
      + pose proof (C st p n Hp) as Cn. destruct (check st p n) as [st' d]. simpl in Cn. subst d.
        rewrite IH. apply app_nil_r.
  Qed.

  Definition ck_mu (s : CK St N) : nat :=
    match ck_deferred _ _ s with [] => 0 | _ => S (last_pass - S (ck_pass _ _ s)) end.

  Lemma sp_body_decreases : no_defer_from_last_pass -> forall s s', sp_body s = inl s' -> ck_mu s' < ck_mu s.
  Proof.
    intros C s s' H. unfold Model.sp_body in H. unfold ck_mu.
    destruct (ck_deferred _ _ s) as [|n0 todo] eqn:D; [discriminate|].
    destruct (le_lt_dec last_pass (S (ck_pass _ _ s))) as [Hge|Hlt].
    - pose proof (run_todo_no_defer C _ Hge (n0 :: todo) (ck_st _ _ s) [] [] (ck_calls _ _ s)) as R.
      destruct (run_todo _ _ _ _ _ _ _ _ _ _) as [[st' d] calls]. simpl in R. subst d.
      inversion H; subst; simpl. lia.
    - destruct (run_todo _ _ _ _ _ _ _ _ _ _) as [[st' d] calls].
      inversion H; subst; simpl. destruct d; lia.
  Qed.

  Lemma check_second_pass_terminates : no_defer_from_last_pass -> forall s,
    exists o n, second_pass_loop St N N_eqb check (sp_fuel last_pass (ck_pass _ _ s)) s = Some (o, n)
                /\ n <= sp_fuel last_pass (ck_pass _ _ s).
  Proof.
    intros C s. unfold second_pass_loop, sp_fuel.
    destruct (iterate_measure _ _ sp_body ck_mu (sp_body_decreases C) (S (S (last_pass - S (ck_pass _ _ s)))) s)
      as (o & n & H1 & H2).
    - unfold ck_mu. destruct (ck_deferred _ _ s); lia.
    - exists o, n. split; [exact H1|]. unfold ck_mu in H2. destruct (ck_deferred _ _ s); lia.
  Qed.

  (* the loop can only end because nothing is deferred any more *)
  Lemma second_pass_loop_done : forall fuel s o n, second_pass_loop St N N_eqb check fuel s = Some (o, n) ->
    fst o = Done /\ ck_deferred _ _ (snd o) = [].
  Proof.
    intros fuel s o n H. unfold second_pass_loop in H.
    eapply (iterate_outcome _ _ sp_body (fun o => fst o = Done /\ ck_deferred _ _ (snd o) = [])); [|exact H].
    clear. intros s o H. unfold Model.sp_body in H.
    destruct (ck_deferred _ _ s) eqn:D.
    - inversion H; subst; simpl; auto.
    - destruct (run_todo _ _ _ _ _ _ _ _ _ _) as [[st' d] calls]. discriminate.
  Qed.
End Checker.

(* ================================================================== A(iii) propagate *)
Section Propagate.
  Variable St Trig : Type.
  Variable reprocess : St -> list Trig -> list Trig -> St * list Trig.
  Notation pr_body := (pr_body St Trig reprocess).

  Lemma pr_body_counts : forall s s', pr_iter _ _ s <= MAX_ITER -> pr_body s = inl s' ->
    pr_iter _ _ s' = S (pr_iter _ _ s) /\ pr_iter _ _ s' <= MAX_ITER.
  Proof.
    intros s s' _ H. unfold Model.pr_body in H.
    destruct (nonempty (pr_triggered _ _ s) || nonempty (pr_errs _ _ s)); [|discriminate].
    destruct (MAX_ITER <? S (pr_iter _ _ s)) eqn:E; [discriminate|].
    destruct (reprocess _ _ _) as [st' trig'].
    inversion H; subst; simpl. apply Nat.ltb_ge in E. split; [reflexivity|lia].
  Qed.

  Lemma propagate_terminates_or_reports : forall st trig errs,
    exists o n, propagate St Trig reprocess pr_fuel st trig errs = Some (o, n) /\ n <= S MAX_ITER /\
      ((fst o = Done /\ pr_triggered _ _ (snd o) = [] /\ pr_errs _ _ (snd o) = []) \/ fst o = RaisedRuntimeError).
  Proof.
    intros st trig errs. unfold propagate, pr_fuel.
    destruct (iterate_counter _ _ pr_body (pr_iter St Trig) MAX_ITER pr_body_counts (S MAX_ITER) (mkPR St Trig st trig errs 0))
      as (o & n & H1 & H2); simpl; try lia.
    exists o, n. split; [exact H1|]. split; [simpl in H2; lia|].
    eapply (iterate_outcome _ _ pr_body (fun o => (fst o = Done /\ pr_triggered _ _ (snd o) = [] /\ pr_errs _ _ (snd o) = []) \/ fst o = RaisedRuntimeError)); [|exact H1].
    clear. intros s o H. unfold Model.pr_body in H.
    destruct (pr_triggered _ _ s) eqn:A; destruct (pr_errs _ _ s) eqn:B; simpl in H.
    - inversion H; subst; simpl. left; auto.
    - destruct (MAX_ITER <? S (pr_iter _ _ s)); [inversion H; subst; simpl; right; reflexivity|].
      destruct (reprocess _ _ _); discriminate.
    - destruct (MAX_ITER <? S (pr_iter _ _ s)); [inversion H; subst; simpl; right; reflexivity|].
      destruct (reprocess _ _ _); discriminate.
    - destruct (MAX_ITER <? S (pr_iter _ _ s)); [inversion H; subst; simpl; right; reflexivity|].
      destruct (reprocess _ _ _); discriminate.
  Qed.
End Propagate.

(* ================================================================== B  message pipeline *)

Lemma get_ok : forall (A : Type) (l : list A) i, i < length l -> exists a, get l i = Ok a.
Proof.
  intros A l i H. unfold get. destruct (nth_error l i) eqn:E; [eauto|].
  apply nth_error_None in E. lia.
Qed.

Section Group.
  Variable same : ErrorInfo -> ErrorInfo -> bool.
  Variable proc : list ErrorInfo -> R (list ErrorInfo).
  Hypothesis proc_total : forall g, exists a, proc g = Ok a.

  Lemma scan_ok : forall fuel l i, 0 < fuel -> length l <= i + fuel ->
    exists j, scan same fuel l i = Ok j /\ i <= j.
  Proof.
    induction fuel as [|f IH]; intros l i Hpos Hlen; [lia|].
    simpl. destruct (i + 1 <? length l) eqn:E.
    - apply Nat.ltb_lt in E.
      destruct (get_ok _ l (i + 1)) as [a Ha]; [lia|]. destruct (get_ok _ l i) as [b Hb]; [lia|].
      rewrite Ha, Hb. destruct (same a b).
      + destruct (IH l (i + 1)) as (j & Hj & Hle); [lia|lia|]. exists j. split; [exact Hj|lia].
      + exists i. split; [reflexivity|lia].
    - exists i. split; [reflexivity|lia].
  Qed.

  Lemma groups_ok : forall fuel l i res, length l - i < fuel -> exists r, groups same proc fuel l i res = Ok r.
  Proof.
    induction fuel as [|f IH]; intros l i res H; [lia|].
    simpl. destruct (i <? length l) eqn:E.
    - apply Nat.ltb_lt in E.
      destruct (scan_ok (length l) l i) as (j & Hj & Hle); [lia|lia|].
      rewrite Hj. destruct (proc_total (firstn (j + 1 - i) (skipn i l))) as [a Ha]. rewrite Ha.
      apply IH. lia.
    - eauto.
  Qed.

  Lemma grouped_total : forall l, exists r, grouped same proc l = Ok r.
  Proof. intros l. unfold grouped. apply groups_ok. lia. Qed.
End Group.

Lemma sort_within_context_total : forall l, exists r, sort_within_context l = Ok r.
Proof. intros l. unfold sort_within_context. apply grouped_total. intros g; eauto. Qed.

Lemma sort_messages_total : forall l, exists r, sort_messages l = Ok r.
Proof. intros l. unfold sort_messages. apply grouped_total. intros g. apply sort_within_context_total. Qed.

Lemma import_notes_ok : forall fuel ctx last i acc,
  (-1 <= i)%Z -> (i < Z.of_nat (length ctx))%Z -> (i + 1 < Z.of_nat fuel)%Z -> exists r, import_notes fuel ctx last i acc = Ok r.
Proof.
  induction fuel as [|f IH]; intros ctx last i acc Hm Hi Hf.
  - simpl in Hf. lia.
  - simpl. destruct (0 <=? i)%Z eqn:E.
    + apply Z.leb_le in E. destruct (get_ok _ ctx (Z.to_nat i)) as [[path line] Ha]; [lia|].
      rewrite Ha. apply IH; lia.
    + eauto.
Qed.

Lemma render_loop_total : forall show errs prev_ctx pf pt res, exists r, render_loop show errs prev_ctx pf pt res = Ok r.
Proof.
  intros show errs. induction errs as [|e t IH]; intros prev_ctx pf pt res; [simpl; eauto|].
  cbn [render_loop]. destruct (negb show); [apply IH|].
  destruct (negb (ctx_eqb (e_import_ctx e) prev_ctx)).
  - destruct (import_notes_ok (S (length (e_import_ctx e))) (e_import_ctx e)
               (Z.of_nat (length (e_import_ctx e)) - 1) (Z.of_nat (length (e_import_ctx e)) - 1) res) as [r Hr]; [lia|lia|lia|].
    rewrite Hr. apply IH.
  - apply IH.
Qed.

Lemma render_messages_total : forall show errs, exists r, render_messages show errs = Ok r.
Proof. intros. apply render_loop_total. Qed.

Lemma file_messages_total : forall show errs, exists r, file_messages show errs = Ok r.
Proof.
  intros show errs. unfold file_messages. destruct (sort_messages_total errs) as [s Hs]. rewrite Hs.
  apply render_messages_total.
Qed.

(* remove_duplicates only ever drops messages *)
Lemma rd_pass1_incl : forall errs seen filtered removed,
  incl (fst (rd_pass1 errs seen filtered removed)) (filtered ++ errs).
Proof.
  induction errs as [|e t IH]; intros seen filtered removed; simpl.
  - rewrite app_nil_r. apply incl_refl.
  - destruct (e_parent e).
    + eapply incl_tran; [apply IH|]. rewrite <- app_assoc. apply incl_refl.
    + destruct (existsb _ seen).
      * eapply incl_tran; [apply IH|]. intros x Hx. apply in_app_or in Hx. apply in_or_app. destruct Hx; [left|right; right]; assumption.
      * eapply incl_tran; [apply IH|]. rewrite <- app_assoc. apply incl_refl.
Qed.

Lemma remove_duplicates_incl : forall errs, incl (remove_duplicates errs) errs.
Proof.
  intros errs. unfold remove_duplicates.
  pose proof (rd_pass1_incl errs [] [] []) as H. destruct (rd_pass1 errs [] [] []) as [filtered removed].
  simpl in H. intros x Hx. apply filter_In in Hx. apply H. tauto.
Qed.

(* --pretty: the subscription source_lines[line - 1] is guarded only from below *)
Lemma pretty_access_guarded : forall is_err src line,
  (line <= Z.of_nat (length src))%Z -> exists x, pretty_access is_err src line = Ok x.
Proof.
  intros is_err src line H. unfold pretty_access.
  destruct (is_err && nonempty src && (0 <? line)%Z) eqn:E; [|eauto].
  apply andb_prop in E. destruct E as [_ E]. apply Z.ltb_lt in E.
  destruct (get_ok _ src (Z.to_nat (line - 1))) as [a Ha]; [lia|]. rewrite Ha. eauto.
Qed.

Lemma format_pretty_guarded : forall tuples src acc,
  Forall (fun t => (snd t <= Z.of_nat (length src))%Z) tuples -> exists r, format_pretty tuples src acc = Ok r.
Proof.
  induction tuples as [|[b line] t IH]; intros src acc H; simpl; [eauto|].
  inversion H; subst. destruct (pretty_access_guarded b src line) as [x Hx]; [assumption|].
  rewrite Hx. apply IH. assumption.
Qed.

Lemma pretty_access_unguarded_above : exists src line,
  (0 < line)%Z /\ src <> [] /\ pretty_access true src line = IndexError.
Proof. exists [0], 2%Z. split; [lia|]. split; [discriminate|reflexivity]. Qed.

(* ================================================================== witnesses (concrete oracles) *)

(* an oracle that obeys the contract: defers until the final iteration *)
Definition o_defer_until_final (st : unit) (t : nat) (final : bool) : unit * (list nat * bool * bool) :=
  (st, (if final then [] else [t], negb final, false)).
(* always defers and always claims progress: legal under the contract only until final, never final *)
Definition o_always_progress (st : unit) (t : nat) (final : bool) : unit * (list nat * bool * bool) :=
  (st, ([t], true, true)).
(* violates the contract: defers although final_iteration is set *)
Definition o_defer_in_final (st : unit) (t : nat) (final : bool) : unit * (list nat * bool * bool) :=
  (st, ([t], true, false)).

Lemma o_defer_until_final_contract : no_defer_when_final unit nat o_defer_until_final.
Proof. intros st t. reflexivity. Qed.

Lemma tl_example_done : exists s n,
  process_top_levels unit nat o_defer_until_final tl_fuel tt [0; 1] = Some ((Done, s), n) /\ n = 3.
Proof. eexists; eexists; split; [vm_compute; reflexivity|reflexivity]. Qed.

Lemma tl_cap_reachable : exists s n,
  process_top_levels unit nat o_always_progress tl_fuel tt [0] = Some ((ReportedHang, s), n) /\ n = S MAX_ITERATIONS.
Proof. eexists; eexists; split; [vm_compute; reflexivity|reflexivity]. Qed.

Lemma tl_assert_reachable_without_contract : exists s n,
  process_top_levels unit nat o_defer_in_final tl_fuel tt [0] = Some ((AssertFail, s), n).
Proof. eexists; eexists; vm_compute; reflexivity. Qed.

Lemma fn_cap_reachable : exists s n,
  process_top_level_function unit nat o_always_progress fn_fuel tt 0 1 = Some ((ReportedHang, s), n) /\ n = MAX_ITERATIONS.
Proof. eexists; eexists; split; [vm_compute; reflexivity|reflexivity]. Qed.

Lemma fn_assert_reachable_without_contract : exists s n,
  process_top_level_function unit nat o_defer_in_final fn_fuel tt 0 1 = Some ((AssertFail, s), n).
Proof. eexists; eexists; vm_compute; reflexivity. Qed.

(* checker: defers exactly while the guard `pass_num < last_pass` allows it *)
Definition c_defer_while_allowed (last : nat) (st : unit) (p : nat) (n : nat) : unit * list nat :=
  (st, if p <? last then [n] else []).
Definition c_always_defer (st : unit) (p : nat) (n : nat) : unit * list nat := (st, [n]).

Lemma c_defer_while_allowed_contract : forall last, no_defer_from_last_pass unit nat last (c_defer_while_allowed last).
Proof.
  intros last st p n H. unfold c_defer_while_allowed. simpl.
  destruct (p <? last) eqn:E; [apply Nat.ltb_lt in E; lia|reflexivity].
Qed.

Lemma ck_example : exists s n,
  second_pass_loop unit nat Nat.eqb (c_defer_while_allowed DEFAULT_LAST_PASS) (sp_fuel DEFAULT_LAST_PASS 0)
    (first_pass unit nat Nat.eqb (c_defer_while_allowed DEFAULT_LAST_PASS) tt [0; 1; 0]) = Some ((Done, s), n)
  /\ n = S DEFAULT_LAST_PASS.
Proof. eexists; eexists; split; [vm_compute; reflexivity|reflexivity]. Qed.

(* without the contract the loop has no bound at all: there is no counter test in the code *)
Lemma ck_diverges_without_contract : forall fuel p calls,
  second_pass_loop unit nat Nat.eqb c_always_defer fuel (mkCK unit nat tt p [0] calls) = None.
Proof.
  induction fuel as [|f IH]; intros p calls; [reflexivity|].
  unfold second_pass_loop in *. simpl. rewrite IH. reflexivity.
Qed.

Definition p_always_trigger (st : unit) (trig errs : list nat) : unit * list nat := (st, [0]).
Definition p_converges (st : unit) (trig errs : list nat) : unit * list nat := (st, tl trig).

Lemma pr_report_reachable : exists s n,
  propagate unit nat p_always_trigger pr_fuel tt [0] [] = Some ((RaisedRuntimeError, s), n) /\ n = S MAX_ITER.
Proof. eexists; eexists; split; [vm_compute; reflexivity|reflexivity]. Qed.

Lemma pr_example_done : exists s n,
  propagate unit nat p_converges pr_fuel tt [0; 1; 2] [7] = Some ((Done, s), n) /\ n = 4.
Proof. eexists; eexists; split; [vm_compute; reflexivity|reflexivity]. Qed.
