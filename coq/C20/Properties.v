(* Property C20 (partial by nature): theorem statements only, each closed by `exact`, each followed by
   Print Assumptions.  The oracles (`analyze`, `check`, `reprocess`) are universally quantified: the
   theorems hold for ANY behaviour of the analysis step.  Contracts are explicit hypotheses. *)
From Coq Require Import List Arith Bool ZArith.
From Gen Require Import Bounds.
From Coq Require Import Permutation.
From C20 Require Import Model Proofs ProofsPerm AcceptLoop SortPreserving.
Import ListNotations.

(* (i) semanal_main.process_top_levels: for every oracle the `while worklist:` header is evaluated at most
   MAX_ITERATIONS+1 times (fuel MAX_ITERATIONS+1 always suffices). *)
Theorem process_top_levels_terminates :
  forall (St T : Type) (analyze : St -> T -> bool -> St * (list T * bool * bool)) st wl,
    exists o n, process_top_levels St T analyze tl_fuel st wl = Some (o, n) /\ n <= S MAX_ITERATIONS.
Proof. exact Proofs.process_top_levels_terminates. Qed.
Print Assumptions process_top_levels_terminates.

(* (i) semanal_main.process_top_level_function: at most MAX_ITERATIONS evaluations of `while deferred:` *)
Theorem process_top_level_function_terminates :
  forall (St T : Type) (analyze : St -> T -> bool -> St * (list T * bool * bool)) st module target,
    exists o n, process_top_level_function St T analyze fn_fuel st module target = Some (o, n) /\ n <= MAX_ITERATIONS.
Proof. exact Proofs.process_top_level_function_terminates. Qed.
Print Assumptions process_top_level_function_terminates.

(* (i) under the contract "no deferral when final_iteration is set" neither
   `assert not all_deferred` nor `assert not deferred` can fire *)
Theorem final_iteration_assert_cannot_fire :
  forall (St T : Type) (analyze : St -> T -> bool -> St * (list T * bool * bool)),
    no_defer_when_final St T analyze ->
    (forall fuel st wl o n, process_top_levels St T analyze fuel st wl = Some (o, n) -> fst o <> AssertFail) /\
    (forall fuel st m t o n, process_top_level_function St T analyze fuel st m t = Some (o, n) -> fst o <> AssertFail).
Proof.
  intros St T analyze C. split;
  [exact (Proofs.process_top_levels_assert_cannot_fire St T analyze C)
  |exact (Proofs.process_top_level_function_assert_cannot_fire St T analyze C)].
Qed.
Print Assumptions final_iteration_assert_cannot_fire.

Example final_iteration_contract_satisfiable : no_defer_when_final unit nat o_defer_until_final.
Proof. exact o_defer_until_final_contract. Qed.
Example process_top_levels_example : exists s n,
  process_top_levels unit nat o_defer_until_final tl_fuel tt [0; 1] = Some ((Done, s), n) /\ n = 3.
Proof. exact tl_example_done. Qed.

(* (i) the contract is necessary, and the cap is reachable: an oracle that keeps deferring while
   claiming progress ends in report_hang ("INTERNAL ERROR: maximum semantic analysis iteration count
   reached") after exactly MAX_ITERATIONS+1 header evaluations.  mypy does reach it: finding
   internal:semanal-max-iterations. *)
Theorem final_iteration_contract_necessary : exists s n,
  process_top_levels unit nat o_defer_in_final tl_fuel tt [0] = Some ((AssertFail, s), n).
Proof. exact tl_assert_reachable_without_contract. Qed.
Print Assumptions final_iteration_contract_necessary.

Theorem semanal_iteration_cap_reachable :
  (exists s n, process_top_levels unit nat o_always_progress tl_fuel tt [0] = Some ((ReportedHang, s), n) /\ n = S MAX_ITERATIONS) /\
  (exists s n, process_top_level_function unit nat o_always_progress fn_fuel tt 0 1 = Some ((ReportedHang, s), n) /\ n = MAX_ITERATIONS).
Proof. split; [exact tl_cap_reachable|exact fn_cap_reachable]. Qed.
Print Assumptions semanal_iteration_cap_reachable.

(* (ii) checker: `while check_second_pass(): pass` has NO counter test; it terminates because deferral is
   only possible while pass_num < last_pass (contract checked syntactically by T20 on every run) *)
Theorem check_second_pass_terminates :
  forall (St N : Type) (N_eqb : N -> N -> bool) (last_pass : nat) (check : St -> nat -> N -> St * list N),
    no_defer_from_last_pass St N last_pass check ->
    forall s, exists o n,
      second_pass_loop St N N_eqb check (sp_fuel last_pass (ck_pass _ _ s)) s = Some (o, n)
      /\ n <= sp_fuel last_pass (ck_pass _ _ s)
      /\ fst o = Done /\ ck_deferred _ _ (snd o) = [].
Proof.
  intros St N N_eqb last_pass check C s.
  destruct (Proofs.check_second_pass_terminates St N N_eqb last_pass check C s) as (o & n & H1 & H2).
  exists o, n. split; [exact H1|]. split; [exact H2|]. exact (Proofs.second_pass_loop_done St N N_eqb check _ _ _ _ H1).
Qed.
Print Assumptions check_second_pass_terminates.

Example check_contract_satisfiable : no_defer_from_last_pass unit nat DEFAULT_LAST_PASS (c_defer_while_allowed DEFAULT_LAST_PASS).
Proof. exact (c_defer_while_allowed_contract DEFAULT_LAST_PASS). Qed.
Example check_second_pass_example : exists s n,
  second_pass_loop unit nat Nat.eqb (c_defer_while_allowed DEFAULT_LAST_PASS) (sp_fuel DEFAULT_LAST_PASS 0)
    (first_pass unit nat Nat.eqb (c_defer_while_allowed DEFAULT_LAST_PASS) tt [0; 1; 0]) = Some ((Done, s), n)
  /\ n = S DEFAULT_LAST_PASS.
Proof. exact ck_example. Qed.

Theorem check_second_pass_contract_necessary : forall fuel p calls,
  second_pass_loop unit nat Nat.eqb c_always_defer fuel (mkCK unit nat tt p [0] calls) = None.
Proof. exact ck_diverges_without_contract. Qed.
Print Assumptions check_second_pass_contract_necessary.

(* (iii) update.propagate_changes_using_dependencies: for every oracle at most MAX_ITER+1 header
   evaluations; it ends with nothing left to propagate or with the RuntimeError report *)
Theorem propagate_terminates_or_reports :
  forall (St Trig : Type) (reprocess : St -> list Trig -> list Trig -> St * list Trig) st trig errs,
    exists o n, propagate St Trig reprocess pr_fuel st trig errs = Some (o, n) /\ n <= S MAX_ITER /\
      ((fst o = Done /\ pr_triggered _ _ (snd o) = [] /\ pr_errs _ _ (snd o) = []) \/ fst o = RaisedRuntimeError).
Proof. exact Proofs.propagate_terminates_or_reports. Qed.
Print Assumptions propagate_terminates_or_reports.

Example propagate_example : exists s n,
  propagate unit nat p_converges pr_fuel tt [0; 1; 2] [7] = Some ((Done, s), n) /\ n = 4.
Proof. exact pr_example_done. Qed.

(* (iii) the report is an uncaught RuntimeError (an internal failure in the sense of C20) and no contract
   in the code excludes it: whether the real reprocess step can trigger for ever is searched only *)
Theorem propagate_report_reachable : exists s n,
  propagate unit nat p_always_trigger pr_fuel tt [0] [] = Some ((RaisedRuntimeError, s), n) /\ n = S MAX_ITER.
Proof. exact pr_report_reachable. Qed.
Print Assumptions propagate_report_reachable.

(* (iv) message pipeline: for ANY ErrorInfo list, no subscription is out of range and the fuels computed
   from the list lengths suffice -- sort_messages, sort_within_context, render_messages, and their
   composition file_messages = render(remove_duplicates(sort_messages(.))) *)
Theorem message_pipeline_total : forall show_ctx errs,
  (exists r, sort_within_context errs = Ok r) /\ (exists r, sort_messages errs = Ok r) /\
  (exists r, render_messages show_ctx errs = Ok r) /\ (exists r, file_messages show_ctx errs = Ok r).
Proof.
  intros show_ctx errs. split; [exact (sort_within_context_total errs)|].
  split; [exact (sort_messages_total errs)|]. split; [exact (render_messages_total show_ctx errs)|exact (file_messages_total show_ctx errs)].
Qed.
Print Assumptions message_pipeline_total.

(* (iv) sorting neither loses nor invents a message *)
Theorem sort_messages_permutation : forall errs r,
  (sort_messages errs = Ok r -> Permutation r errs) /\ (sort_within_context errs = Ok r -> Permutation r errs).
Proof. intros errs r. split; [exact (sort_messages_perm errs r)|exact (sort_within_context_perm errs r)]. Qed.
Print Assumptions sort_messages_permutation.

Theorem remove_duplicates_only_drops : forall errs, incl (remove_duplicates errs) errs.
Proof. exact remove_duplicates_incl. Qed.
Print Assumptions remove_duplicates_only_drops.

(* (iv) format_messages_default with --pretty: source_lines[line - 1] is guarded from below only; it is in
   range iff the reported line exists in the file that is read back (contract, monitored) *)
Theorem format_pretty_guarded : forall tuples src acc,
  Forall (fun t => (snd t <= Z.of_nat (length src))%Z) tuples -> exists r, format_pretty tuples src acc = Ok r.
Proof. exact Proofs.format_pretty_guarded. Qed.
Print Assumptions format_pretty_guarded.

Theorem format_pretty_unguarded_refuted : exists src line,
  (0 < line)%Z /\ src <> [] /\ pretty_access true src line = IndexError.
Proof. exact pretty_access_unguarded_above. Qed.
Print Assumptions format_pretty_unguarded_refuted.

(* (v) checker.accept_loop (loop bodies are re-checked until the binder frame stops changing): for ANY behaviour of
   checking the body the loop ends after at most ACCEPT_LOOP_CAP-1 executions, by `break` or by
   RuntimeError("Too many iterations when checking a loop") *)
Theorem accept_loop_terminates :
  forall (St : Type) (accept : St -> nat -> nat -> St * (nat * bool * nat)) st po wo,
    exists o n, accept_loop St accept al_fuel st po wo = Some (o, n) /\ n <= ACCEPT_LOOP_CAP - 1 /\
                (fst o = Done \/ fst o = RaisedRuntimeError).
Proof. exact AcceptLoop.accept_loop_terminates. Qed.
Print Assumptions accept_loop_terminates.

(* (v) under the contract "after the frame/widening thresholds the number of partial types no longer changes"
   the RuntimeError (an uncaught exception = internal failure) cannot be raised *)
Theorem accept_loop_terminates_under_contract :
  forall (St : Type) (accept : St -> nat -> nat -> St * (nat * bool * nat)),
    partials_stable_late St accept ->
    forall fuel st po wo o n, accept_loop St accept fuel st po wo = Some (o, n) -> fst o <> RaisedRuntimeError.
Proof. exact AcceptLoop.accept_loop_no_raise_under_contract. Qed.
Print Assumptions accept_loop_terminates_under_contract.

Example accept_loop_contract_satisfiable : partials_stable_late unit a_converges.
Proof. exact a_converges_contract. Qed.
Example accept_loop_example : exists s n, accept_loop unit a_converges al_fuel tt 2 0 = Some ((Done, s), n) /\ n = 3.
Proof. exact al_example_done. Qed.

(* (v) the contract is necessary: an oracle whose partial-type count keeps flipping reaches the RuntimeError after
   exactly ACCEPT_LOOP_CAP-1 executions of the body *)
Theorem accept_loop_contract_necessary : exists s n,
  accept_loop unit a_partials_flip al_fuel tt 0 0 = Some ((RaisedRuntimeError, s), n) /\ n = ACCEPT_LOOP_CAP - 1.
Proof. exact al_raise_reachable. Qed.
Print Assumptions accept_loop_contract_necessary.

(* (vi) server/update.py sort_messages_preserving_file_order -- the stage every daemon answer passes through: for ANY list of
   message lines and ANY set of previously seen file names no subscription messages[k] is out of range and both loops end *)
Theorem daemon_message_order_total : forall (order : list nat) (l : list Line), exists r, sort_preserving order l = Ok r.
Proof. exact sort_preserving_total. Qed.
Print Assumptions daemon_message_order_total.

Example daemon_message_order_example :
  sort_preserving [2; 1] [mkM 0 1 true false; mkM 1 7 false false; mkM 2 2 true false; mkM 3 9 true false; mkM 4 5 false true]
  = Ok [mkM 2 2 true false; mkM 0 1 true false; mkM 1 7 false false; mkM 3 9 true false; mkM 4 5 false true].
Proof. exact sort_preserving_example. Qed.
