(* C20 -- sort_messages / sort_within_context neither lose nor invent messages *)
From Coq Require Import List Arith Bool ZArith Lia Permutation.
From C20 Require Import Model.
Import ListNotations.

Lemma ins_perm : forall (A : Type) (le : A -> A -> bool) x l, Permutation (ins le x l) (x :: l).
Proof.
  intros A le x l. induction l as [|y t IH]; simpl.
  - apply Permutation_refl.
  - destruct (le x y).
    + apply Permutation_refl.
    + eapply Permutation_trans; [apply perm_skip; exact IH|apply perm_swap].
Qed.

Lemma sorted_perm : forall (A : Type) (le : A -> A -> bool) l, Permutation (sorted le l) l.
Proof.
  intros A le l. induction l as [|x t IH]; simpl.
  - apply Permutation_refl.
  - eapply Permutation_trans; [apply ins_perm|apply perm_skip; exact IH].
Qed.

Lemma skipn_skipn' : forall (A : Type) (x y : nat) (l : list A), skipn x (skipn y l) = skipn (x + y) l.
Proof.
  intros A x y. induction y as [|y IH]; intros l.
  - rewrite Nat.add_0_r. reflexivity.
  - destruct l as [|a l].
    + rewrite !skipn_nil. reflexivity.
    + rewrite Nat.add_succ_r. simpl. apply IH.
Qed.

Section Group.
  Variable same : ErrorInfo -> ErrorInfo -> bool.
  Variable proc : list ErrorInfo -> R (list ErrorInfo).
  Hypothesis proc_perm : forall g a, proc g = Ok a -> Permutation a g.

  Lemma scan_ge : forall fuel l i j, scan same fuel l i = Ok j -> i <= j.
  Proof.
    induction fuel as [|f IH]; intros l i j H; simpl in H; [discriminate|].
    destruct (i + 1 <? length l).
    - destruct (get l (i + 1)) as [a| |]; destruct (get l i) as [b| |]; try discriminate.
      destruct (same a b).
      + apply IH in H. lia.
      + inversion H; lia.
    - inversion H; lia.
  Qed.

  Lemma groups_perm : forall fuel l i res r, groups same proc fuel l i res = Ok r -> Permutation r (res ++ skipn i l).
  Proof.
    induction fuel as [|f IH]; intros l i res r H; simpl in H; [discriminate|].
    destruct (i <? length l) eqn:E.
    - destruct (scan same (length l) l i) as [j| |] eqn:S; try discriminate.
      apply scan_ge in S.
      destruct (proc (firstn (j + 1 - i) (skipn i l))) as [a| |] eqn:P; try discriminate.
      apply IH in H. apply proc_perm in P.
      eapply Permutation_trans; [exact H|].
      rewrite <- app_assoc. apply Permutation_app_head.
      assert (Hs : skipn i l = firstn (j + 1 - i) (skipn i l) ++ skipn (j + 1) l).
      { rewrite <- (firstn_skipn (j + 1 - i) (skipn i l)) at 1.
        rewrite skipn_skipn'. replace (j + 1 - i + i) with (j + 1) by lia. reflexivity. }
      rewrite Hs. apply Permutation_app_tail. exact P.
    - inversion H; subst. apply Nat.ltb_ge in E. rewrite skipn_all2 by lia. rewrite app_nil_r. apply Permutation_refl.
  Qed.

  Lemma grouped_perm : forall l r, grouped same proc l = Ok r -> Permutation r l.
  Proof. intros l r H. unfold grouped in H. apply groups_perm in H. simpl in H. exact H. Qed.
End Group.

Lemma sort_within_context_perm : forall l r, sort_within_context l = Ok r -> Permutation r l.
Proof.
  intros l r H. unfold sort_within_context in H. eapply grouped_perm; [|exact H].
  intros g a E. inversion E; subst. apply sorted_perm.
Qed.

Lemma sort_messages_perm : forall l r, sort_messages l = Ok r -> Permutation r l.
Proof.
  intros l r H. unfold sort_messages in H. eapply grouped_perm; [|exact H].
  intros g a E. apply sort_within_context_perm in E. eapply Permutation_trans; [exact E|apply sorted_perm].
Qed.
