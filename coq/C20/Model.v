(* C20 -- executable models (definitions only, no proofs).

   Part A: the three fix-point drivers.  The analysis step is a Section variable: an ARBITRARY
   oracle (any function of an abstract analyser state).  Each `while` loop of the source is modelled
   by its loop BODY, written exactly as in the source (counter incremented, compared with the bound
   regenerated from the source text in Gen.Bounds), and run by the generic `iterate`.  The theorems
   (Proofs.v) show that a fuel computed from the real bound always suffices, for every oracle.

   Part B: the message pipeline of mypy/errors.py.  Every list subscription `xs[i]` is modelled by
   `nth_error` and a failed access is the explicit outcome `IndexError`; slices (total in Python)
   are firstn/skipn.  The theorems show `IndexError`/`OutOfFuel` never occur. *)
From Coq Require Import List Arith Bool ZArith Lia.
From Gen Require Import Bounds.
Import ListNotations.

(* ------------------------------------------------------------------ generic loop runner *)

(* One evaluation of `while cond: body`: either the loop ends with an outcome (condition false,
   break, raise, failed assert) or the body ran and produced the next state. *)
Fixpoint iterate {A O : Type} (body : A -> A + O) (fuel : nat) (s : A) : option (O * nat) :=
  match fuel with
  | 0 => None
  | S f => match body s with
           | inr o => Some (o, 1)
           | inl s' => match iterate body f s' with
                       | Some (o, n) => Some (o, S n)
                       | None => None
                       end
           end
  end.

Definition nonempty {A} (l : list A) : bool := match l with [] => false | _ => true end.

Inductive Outcome := Done | ReportedHang | AssertFail | RaisedRuntimeError.

(* ================================================================== A(i) semanal_main.py *)
Section Semanal.
  Variable St : Type.                (* whole analyser state: symbol tables, placeholders, ... *)
  Variable T : Type.                 (* targets (module ids / function targets) *)
  (* semantic_analyze_target(target, ..., final_iteration, ...) -> (deferred, incomplete, progress) *)
  Variable analyze : St -> T -> bool -> St * (list T * bool * bool).

  Record TL := mkTL { tl_st : St; tl_wl : list T; tl_final : bool; tl_iter : nat;
                      tl_calls : list (T * bool) (* trace, most recent first *) }.

  (* inner `while worklist: next_id = worklist.pop(); ...` -- pop() takes from the END *)
  Fixpoint drain (st : St) (todo : list T) (final : bool) (alld : list T) (prog : bool)
           (calls : list (T * bool)) : St * list T * bool * list (T * bool) :=
    match todo with
    | [] => (st, alld, prog, calls)
    | t :: rest =>
        let '(st', (d, _inc, p)) := analyze st t final in
        drain st' rest final (alld ++ d) (prog || p) ((t, final) :: calls)
    end.

  (* body of `while worklist:` in process_top_levels *)
  Definition tl_body (s : TL) : TL + (Outcome * TL) :=
    match tl_wl s with
    | [] => inr (Done, s)
    | _ =>
        let it := S (tl_iter s) in                       (* iteration += 1 *)
        if MAX_ITERATIONS <? it then                      (* if iteration > MAX_ITERATIONS: report_hang; break *)
          inr (ReportedHang, mkTL (tl_st s) (tl_wl s) (tl_final s) it (tl_calls s))
        else
          let '(st', alld, prog, calls) := drain (tl_st s) (rev (tl_wl s)) (tl_final s) [] false (tl_calls s) in
          if tl_final s && nonempty alld then            (* assert not all_deferred *)
            inr (AssertFail, mkTL st' alld (tl_final s) it calls)
          else
            inl (mkTL st' (rev alld) (negb prog) it calls)   (* worklist = reversed(all_deferred); final = not any_progress *)
    end.

  (* worklist = scc.copy() (scc already reversed by the caller) + reversed(core_modules) * CORE_WARMUP *)
  Fixpoint repeat_list {A} (l : list A) (n : nat) : list A :=
    match n with 0 => [] | S k => l ++ repeat_list l k end.
  Definition initial_worklist (scc_rev : list T) (core_rev : list T) (all_core_present : bool) : list T :=
    if all_core_present then scc_rev ++ repeat_list core_rev CORE_WARMUP else scc_rev.

  Definition tl_init (st : St) (wl : list T) : TL := mkTL st wl false 0 [].
  Definition process_top_levels (fuel : nat) (st : St) (wl : list T) := iterate tl_body fuel (tl_init st wl).
  Definition tl_fuel : nat := S MAX_ITERATIONS.

  (* process_top_level_function: `while deferred:` *)
  Record FN := mkFN { fn_st : St; fn_deferred : list T; fn_final : bool; fn_iter : nat;
                      fn_calls : list (T * bool) }.

  Definition fn_body (target : T) (s : FN) : FN + (Outcome * FN) :=
    match fn_deferred s with
    | [] => inr (Done, s)
    | _ =>
        let it := S (fn_iter s) in
        if it =? MAX_ITERATIONS then                      (* if iteration == MAX_ITERATIONS: report_hang; break *)
          inr (ReportedHang, mkFN (fn_st s) (fn_deferred s) (fn_final s) it (fn_calls s))
        else
          let '(st', (d, _inc, p)) := analyze (fn_st s) target (fn_final s) in
          let calls := (target, fn_final s) :: fn_calls s in
          if fn_final s && nonempty d then                (* assert not deferred *)
            inr (AssertFail, mkFN st' d (fn_final s) it calls)
          else
            inl (mkFN st' d (if p then fn_final s else true) it calls)   (* if not progress: final_iteration = True *)
    end.

  Definition fn_init (st : St) (module : T) : FN := mkFN st [module] false 0 [].
  Definition process_top_level_function (fuel : nat) (st : St) (module target : T) :=
    iterate (fn_body target) fuel (fn_init st module).
  Definition fn_fuel : nat := MAX_ITERATIONS.
End Semanal.

(* ================================================================== A(ii) checker.py *)
Section Checker.
  Variable St : Type.
  Variable N : Type.                  (* deferrable nodes (top-level functions / methods) *)
  Variable N_eqb : N -> N -> bool.
  Variable last_pass : nat.
  (* type-check one node during pass `pass_num`; returns the nodes it deferred (via defer_node) *)
  Variable check : St -> nat -> N -> St * list N.

  Record CK := mkCK { ck_st : St; ck_pass : nat; ck_deferred : list N;
                      ck_calls : list (nat * N) (* trace, most recent first *) }.

  Definition mem (x : N) (l : list N) : bool := existsb (N_eqb x) l.

  (* `for node, _ in todo: if node in done: continue; done.add(node); check_partial(node)` *)
  Fixpoint run_todo (st : St) (p : nat) (todo done deferred : list N) (calls : list (nat * N))
    : St * list N * list (nat * N) :=
    match todo with
    | [] => (st, deferred, calls)
    | n :: rest =>
        if mem n done then run_todo st p rest done deferred calls
        else let '(st', d) := check st p n in
             run_todo st' p rest (n :: done) (deferred ++ d) ((p, n) :: calls)
    end.

  (* check_second_pass(todo=None): returns False (inr) when nothing is deferred *)
  Definition sp_body (s : CK) : CK + (Outcome * CK) :=
    match ck_deferred s with
    | [] => inr (Done, s)
    | todo =>
        let p := S (ck_pass s) in                                         (* self.pass_num += 1 *)
        let '(st', d, calls) := run_todo (ck_st s) p todo [] [] (ck_calls s) in
        inl (mkCK st' p d calls)
    end.

  (* check_first_pass: pass_num = 0, every top-level definition is a node to check *)
  Definition first_pass (st : St) (defs : list N) : CK :=
    let '(st', d, calls) := run_todo st 0 defs [] [] [] in mkCK st' 0 d calls.

  (* `while check_second_pass(): pass`  (build.py per module; update.py reprocess_nodes) *)
  Definition second_pass_loop (fuel : nat) (s : CK) := iterate sp_body fuel s.
  Definition sp_fuel (p0 : nat) : nat := S (S (last_pass - S p0)).
End Checker.

(* ================================================================== A(iii) server/update.py *)
Section Propagate.
  Variable St : Type.
  Variable Trig : Type.               (* triggers / targets *)
  (* one round: find_targets_recursive + reprocess_nodes over all stale targets -> newly triggered *)
  Variable reprocess : St -> list Trig -> list Trig -> St * list Trig.

  Record PR := mkPR { pr_st : St; pr_triggered : list Trig; pr_errs : list Trig; pr_iter : nat }.

  Definition pr_body (s : PR) : PR + (Outcome * PR) :=
    if nonempty (pr_triggered s) || nonempty (pr_errs s) then
      let it := S (pr_iter s) in
      if MAX_ITER <? it then inr (RaisedRuntimeError, mkPR (pr_st s) (pr_triggered s) (pr_errs s) it)
      else let '(st', trig') := reprocess (pr_st s) (pr_triggered s) (pr_errs s) in
           inl (mkPR st' trig' [] it)                                       (* targets_with_errors = set() *)
    else inr (Done, s).

  Definition propagate (fuel : nat) (st : St) (trig errs : list Trig) := iterate pr_body fuel (mkPR st trig errs 0).
  Definition pr_fuel : nat := S MAX_ITER.
End Propagate.

(* ================================================================== B  message pipeline *)

Inductive R (A : Type) := Ok (a : A) | IndexError | OutOfFuel.
Arguments Ok {A} _. Arguments IndexError {A}. Arguments OutOfFuel {A}.

Definition is_ok {A} (r : R A) : bool := match r with Ok _ => true | _ => false end.

(* xs[i] for a non-negative index *)
Definition get {A} (l : list A) (i : nat) : R A :=
  match nth_error l i with Some a => Ok a | None => IndexError end.

Record ErrorInfo := mkE {
  e_id : nat;                          (* identity of the object (sets of ErrorInfo hash by identity) *)
  e_import_ctx : list (nat * Z);       (* (path id, line) *)
  e_type : option nat; e_function : option nat;        (* local_ctx *)
  e_line : Z; e_column : Z; e_end_line : Z; e_end_column : Z;
  e_severity : nat; e_message : nat; e_code : option nat; e_priority : Z;
  e_parent : option nat               (* parent_error, by identity *)
}.

Definition ctx_eqb (a b : list (nat * Z)) : bool :=
  (length a =? length b) && forallb (fun p => (fst (fst p) =? fst (snd p)) && Z.eqb (snd (fst p)) (snd (snd p))) (combine a b).
Definition onat_eqb (a b : option nat) : bool :=
  match a, b with Some x, Some y => x =? y | None, None => true | _, _ => false end.

(* stable insertion sort = Python's sorted(..., key=...); `le x y` is  key x <= key y *)
Section Sort.
  Variable A : Type.
  Variable le : A -> A -> bool.
  Fixpoint ins (x : A) (l : list A) : list A :=
    match l with
    | [] => [x]
    | y :: t => if le x y then x :: l else y :: ins x t
    end.
  Definition sorted (l : list A) : list A := fold_right ins [] l.
End Sort.
Arguments ins {A}. Arguments sorted {A}.

(* The shape shared by sort_messages and sort_within_context:
     i = 0
     while i < len(errors):
         i0 = i
         while i + 1 < len(errors) and same(errors[i + 1], errors[i]): i += 1
         i += 1
         result.extend(proc(errors[i0:i]))                                         *)
Section Group.
  Variable same : ErrorInfo -> ErrorInfo -> bool.
  Variable proc : list ErrorInfo -> R (list ErrorInfo).

  Fixpoint scan (fuel : nat) (l : list ErrorInfo) (i : nat) : R nat :=
    match fuel with
    | 0 => OutOfFuel
    | S f =>
        if i + 1 <? length l then
          match get l (i + 1), get l i with
          | Ok a, Ok b => if same a b then scan f l (i + 1) else Ok i
          | OutOfFuel, _ | _, OutOfFuel => OutOfFuel
          | _, _ => IndexError
          end
        else Ok i
    end.

  Fixpoint groups (fuel : nat) (l : list ErrorInfo) (i : nat) (result : list ErrorInfo) : R (list ErrorInfo) :=
    match fuel with
    | 0 => OutOfFuel
    | S f =>
        if i <? length l then
          match scan (length l) l i with
          | Ok j =>
              let i' := j + 1 in
              match proc (firstn (i' - i) (skipn i l)) with       (* errors[i0:i] *)
              | Ok a => groups f l i' (result ++ a)
              | IndexError => IndexError
              | OutOfFuel => OutOfFuel
              end
          | IndexError => IndexError
          | OutOfFuel => OutOfFuel
          end
        else Ok result
    end.

  Definition grouped (l : list ErrorInfo) : R (list ErrorInfo) := groups (S (length l)) l 0 [].
End Group.

Definition same_pos (a b : ErrorInfo) : bool :=
  Z.eqb (e_line a) (e_line b) && Z.eqb (e_column a) (e_column b) && Z.eqb (e_end_line a) (e_end_line b)
  && Z.eqb (e_end_column a) (e_end_column b) && onat_eqb (e_code a) (e_code b).
Definition le_priority (a b : ErrorInfo) : bool := Z.leb (e_priority a) (e_priority b).
Definition le_line_col (a b : ErrorInfo) : bool :=
  Z.ltb (e_line a) (e_line b) || (Z.eqb (e_line a) (e_line b) && Z.leb (e_column a) (e_column b)).
Definition same_ctx (a b : ErrorInfo) : bool := ctx_eqb (e_import_ctx a) (e_import_ctx b).

Definition sort_within_context (l : list ErrorInfo) : R (list ErrorInfo) :=
  grouped same_pos (fun g => Ok (sorted le_priority g)) l.
Definition sort_messages (l : list ErrorInfo) : R (list ErrorInfo) :=
  grouped same_ctx (fun g => sort_within_context (sorted le_line_col g)) l.

(* remove_duplicates: no subscription at all (dict of sets + two passes) *)
Definition key3 := (Z * nat * nat)%type.
Definition key3_eqb (a b : key3) : bool :=
  Z.eqb (fst (fst a)) (fst (fst b)) && (snd (fst a) =? snd (fst b)) && (snd a =? snd b).
Fixpoint rd_pass1 (errs : list ErrorInfo) (seen : list key3) (filtered : list ErrorInfo) (removed : list nat)
  : list ErrorInfo * list nat :=
  match errs with
  | [] => (filtered, removed)
  | e :: t =>
      match e_parent e with
      | Some _ => rd_pass1 t seen (filtered ++ [e]) removed
      | None =>
          let k := (e_line e, e_severity e, e_message e) in
          if existsb (key3_eqb k) seen then rd_pass1 t seen filtered (e_id e :: removed)
          else rd_pass1 t (k :: seen) (filtered ++ [e]) removed
      end
  end.
Definition remove_duplicates (errs : list ErrorInfo) : list ErrorInfo :=
  let '(filtered, removed) := rd_pass1 errs [] [] [] in
  filter (fun e => match e_parent e with None => true | Some p => negb (existsb (Nat.eqb p) removed) end) filtered.

(* render_messages *)
Inductive Item :=
| ImportNote (path : nat) (line : Z) (from_here : bool) (comma : bool)
| CtxNote (type function : option nat)
| Msg (id : nat).

(*  last = len(e.import_ctx) - 1; i = last
    while i >= 0: path, line = e.import_ctx[i]; ...; i -= 1                      *)
Fixpoint import_notes (fuel : nat) (ctx : list (nat * Z)) (last i : Z) (acc : list Item) : R (list Item) :=
  match fuel with
  | 0 => OutOfFuel
  | S f =>
      if (0 <=? i)%Z then
        match get ctx (Z.to_nat i) with
        | Ok (path, line) => import_notes f ctx last (i - 1)%Z (acc ++ [ImportNote path line (i <? last)%Z (0 <? i)%Z])
        | _ => IndexError
        end
      else Ok acc
  end.

Fixpoint render_loop (show_ctx : bool) (errs : list ErrorInfo) (prev_ctx : list (nat * Z)) (prev_f prev_t : option nat)
         (result : list Item) : R (list Item) :=
  match errs with
  | [] => Ok result
  | e :: t =>
      let r1 :=
        if negb show_ctx then Ok result
        else if negb (ctx_eqb (e_import_ctx e) prev_ctx) then
          let last := (Z.of_nat (length (e_import_ctx e)) - 1)%Z in
          import_notes (S (length (e_import_ctx e))) (e_import_ctx e) last last result
        else Ok result in
      match r1 with
      | Ok res1 =>
          let res2 :=
            if negb show_ctx then res1
            else if negb (onat_eqb (e_function e) prev_f) || negb (onat_eqb (e_type e) prev_t)
                 then res1 ++ [CtxNote (e_type e) (e_function e)]
                 else res1 in
          render_loop show_ctx t (e_import_ctx e) (e_function e) (e_type e) (res2 ++ [Msg (e_id e)])
      | IndexError => IndexError
      | OutOfFuel => OutOfFuel
      end
  end.
Definition render_messages (show_ctx : bool) (errs : list ErrorInfo) : R (list Item) :=
  render_loop show_ctx errs [] None None [].

(* file_messages = render(remove_duplicates(sort_messages(not hidden))) *)
Definition file_messages (show_ctx : bool) (errs : list ErrorInfo) : R (list Item) :=
  match sort_messages errs with
  | Ok s => render_messages show_ctx (remove_duplicates s)
  | IndexError => IndexError
  | OutOfFuel => OutOfFuel
  end.

(* format_messages_default, --pretty branch: the only subscription is source_lines[line - 1], under
   `severity == "error" and source_lines and line > 0` (everything else is slicing / formatting). *)
Definition pretty_access (is_error : bool) (source_lines : list nat) (line : Z) : R (option nat) :=
  if is_error && nonempty source_lines && (0 <? line)%Z then
    match get source_lines (Z.to_nat (line - 1)) with
    | Ok s => Ok (Some s)
    | _ => IndexError
    end
  else Ok None.

Fixpoint format_pretty (tuples : list (bool * Z)) (source_lines : list nat) (acc : list (option nat)) : R (list (option nat)) :=
  match tuples with
  | [] => Ok acc
  | (is_err, line) :: t =>
      match pretty_access is_err source_lines line with
      | Ok x => format_pretty t source_lines (acc ++ [x])
      | IndexError => IndexError
      | OutOfFuel => OutOfFuel
      end
  end.
