(* C20 -- TypeChecker.accept_loop ("repeatedly type check a loop body until the frame doesn't change").
   The loop body is modelled as written; checking the statement body is an arbitrary oracle. *)
From Coq Require Import List Arith Bool Lia.
From Gen Require Import Bounds.
From C20 Require Import Model Proofs.
Import ListNotations.

Section AcceptLoop.
  Variable St : Type.
  (* self.accept(body) in iteration `iter`, with `partials_old` partial types before it:
     -> (number of partial types after, binder.last_pop_changed, len(widened_vars) after) *)
  Variable accept : St -> nat -> nat -> St * (nat * bool * nat).

  Record AL := mkAL { al_st : St; al_iter : nat; al_po : nat; al_wo : nat; al_calls : list (nat * nat) (* (iter, partials_old) *) }.

  Definition al_body (s : AL) : AL + (Outcome * AL) :=
    let '(st', (pn, changed, wn)) := accept (al_st s) (al_iter s) (al_po s) in
    let calls := (al_iter s, al_po s) :: al_calls s in
    if (pn =? al_po s) && (negb changed || (ACCEPT_LOOP_FRAME_ITERS <? al_iter s))
       && ((wn =? al_wo s) || (ACCEPT_LOOP_WIDEN_ITERS <? al_iter s))
    then inr (Done, mkAL st' (al_iter s) pn wn calls)                       (* break *)
    else
      let it := S (al_iter s) in                                            (* iter += 1 *)
      if it =? ACCEPT_LOOP_CAP then inr (RaisedRuntimeError, mkAL st' it pn wn calls)   (* raise RuntimeError("Too many iterations ...") *)
      else inl (mkAL st' it pn wn calls).

  Definition al_init (st : St) (po wo : nat) : AL := mkAL st 1 po wo [].
  Definition accept_loop (fuel : nat) (st : St) (po wo : nat) := iterate al_body fuel (al_init st po wo).
  Definition al_fuel : nat := ACCEPT_LOOP_CAP.
End AcceptLoop.

Lemma accept_loop_cap_ge2 : 2 <= ACCEPT_LOOP_CAP.
Proof. unfold ACCEPT_LOOP_CAP; lia. Qed.
Lemma accept_loop_thresholds_below_cap : S ACCEPT_LOOP_FRAME_ITERS < ACCEPT_LOOP_CAP /\ S ACCEPT_LOOP_WIDEN_ITERS < ACCEPT_LOOP_CAP.
Proof. unfold ACCEPT_LOOP_CAP, ACCEPT_LOOP_FRAME_ITERS, ACCEPT_LOOP_WIDEN_ITERS; lia. Qed.

Global Opaque ACCEPT_LOOP_CAP ACCEPT_LOOP_FRAME_ITERS ACCEPT_LOOP_WIDEN_ITERS.

Section Proofs.
  Variable St : Type.
  Variable accept : St -> nat -> nat -> St * (nat * bool * nat).
  Notation al_body := (al_body St accept).

  Lemma al_body_counts : forall s s', al_iter _ s <= ACCEPT_LOOP_CAP - 1 -> al_body s = inl s' ->
    al_iter _ s' = S (al_iter _ s) /\ al_iter _ s' <= ACCEPT_LOOP_CAP - 1.
  Proof.
    intros s s' Hle H. unfold AcceptLoop.al_body in H.
    destruct (accept _ _ _) as [st' [[pn changed] wn]].
    destruct ((pn =? al_po _ s) && _ && _); [discriminate|].
    destruct (S (al_iter _ s) =? ACCEPT_LOOP_CAP) eqn:E; [discriminate|].
    inversion H; subst; simpl. apply Nat.eqb_neq in E. pose proof accept_loop_cap_ge2. split; [reflexivity|lia].
  Qed.

  (* any oracle: the loop ends after at most CAP-1 executions of the body, by `break` or by the RuntimeError *)
  Lemma accept_loop_terminates : forall st po wo,
    exists o n, accept_loop St accept al_fuel st po wo = Some (o, n) /\ n <= ACCEPT_LOOP_CAP - 1 /\
                (fst o = Done \/ fst o = RaisedRuntimeError).
  Proof.
    intros st po wo. unfold accept_loop, al_fuel. pose proof accept_loop_cap_ge2 as H2.
    destruct (iterate_counter _ _ al_body (al_iter St) (ACCEPT_LOOP_CAP - 1) al_body_counts ACCEPT_LOOP_CAP (al_init St st po wo))
      as (o & n & H1 & Hn); simpl; try lia.
    exists o, n. split; [exact H1|]. split; [simpl in Hn; lia|].
    eapply (iterate_outcome _ _ al_body (fun o => fst o = Done \/ fst o = RaisedRuntimeError)); [|exact H1].
    clear. intros s o H. unfold AcceptLoop.al_body in H.
    destruct (accept _ _ _) as [st' [[pn changed] wn]].
    destruct ((pn =? al_po _ s) && _ && _).
    - inversion H; subst; simpl; auto.
    - destruct (S (al_iter _ s) =? ACCEPT_LOOP_CAP); [|discriminate]. inversion H; subst; simpl; auto.
  Qed.

  (* contract: once both iteration thresholds are passed, checking the body no longer changes the NUMBER of partial types *)
  Definition partials_stable_late : Prop :=
    forall st i po, ACCEPT_LOOP_FRAME_ITERS < i -> ACCEPT_LOOP_WIDEN_ITERS < i -> fst (fst (snd (accept st i po))) = po.

  Lemma al_body_no_raise : partials_stable_late -> forall s o, al_body s = inr o -> fst o <> RaisedRuntimeError.
  Proof.
    intros C s o H. unfold AcceptLoop.al_body in H.
    pose proof (C (al_st _ s) (al_iter _ s) (al_po _ s)) as Cs.
    destruct (accept _ _ _) as [st' [[pn changed] wn]]. simpl in Cs.
    destruct ((pn =? al_po _ s) && (negb changed || (ACCEPT_LOOP_FRAME_ITERS <? al_iter _ s))
              && ((wn =? al_wo _ s) || (ACCEPT_LOOP_WIDEN_ITERS <? al_iter _ s))) eqn:Cond.
    - inversion H; subst; simpl; discriminate.
    - destruct (S (al_iter _ s) =? ACCEPT_LOOP_CAP) eqn:E; [|discriminate].
      apply Nat.eqb_eq in E. destruct accept_loop_thresholds_below_cap as [HF HW].
      assert (F : ACCEPT_LOOP_FRAME_ITERS < al_iter _ s) by lia.
      assert (W : ACCEPT_LOOP_WIDEN_ITERS < al_iter _ s) by lia.
      rewrite (Cs F W) in Cond. rewrite Nat.eqb_refl in Cond.
      apply Nat.ltb_lt in F. apply Nat.ltb_lt in W. rewrite F, W in Cond.
      rewrite !orb_true_r in Cond. discriminate.
  Qed.

  Lemma accept_loop_no_raise_under_contract : partials_stable_late ->
    forall fuel st po wo o n, accept_loop St accept fuel st po wo = Some (o, n) -> fst o <> RaisedRuntimeError.
  Proof.
    intros C fuel st po wo o n H. unfold accept_loop in H.
    eapply (iterate_outcome _ _ al_body (fun o => fst o <> RaisedRuntimeError)); eauto using al_body_no_raise.
  Qed.
End Proofs.

(* witnesses *)
Definition a_converges (st : unit) (i po : nat) : unit * (nat * bool * nat) := (st, (po, (i <? 3), 0)).
Definition a_partials_flip (st : unit) (i po : nat) : unit * (nat * bool * nat) := (st, (1 - po, false, 0)).

Lemma a_converges_contract : partials_stable_late unit a_converges.
Proof. intros st i po _ _. reflexivity. Qed.

Lemma al_example_done : exists s n, accept_loop unit a_converges al_fuel tt 2 0 = Some ((Done, s), n) /\ n = 3.
Proof. eexists; eexists; split; [vm_compute; reflexivity|reflexivity]. Qed.

Lemma al_raise_reachable : exists s n,
  accept_loop unit a_partials_flip al_fuel tt 0 0 = Some ((RaisedRuntimeError, s), n) /\ n = ACCEPT_LOOP_CAP - 1.
Proof. eexists; eexists; split; [vm_compute; reflexivity|reflexivity]. Qed.
