(* C20 -- the full-strength statement.  It is NOT proved: its subject is the whole analyser (~150 kLoC).
   What is proved is listed in Properties.v (termination of the three fix-point drivers for every oracle,
   totality of the message pipeline); absence of exceptions in the analyser itself is searched
   (tools/harness/C20.py, stage S), not proved. *)
From Coq Require Import List ZArith String.
Import ListNotations.

Section Full.
  Variable Input : Type.                         (* any finite set of text files, well-formed or not, plus flags *)
  Inductive Behaviour :=
  | Exits (status : Z) (lines : list string) (internal_error traceback : bool)
  | Hangs.
  Variable mypy : Input -> Behaviour.             (* one batch run *)
  Variable well_formed_line : string -> Prop.     (* "<file>:<line>[:<col>]: <severity>: <text>" *)

  Definition diagnostic (b : Behaviour) : Prop :=
    exists st lines, b = Exits st lines false false /\ (st = 0 \/ st = 1 \/ st = 2)%Z /\ Forall well_formed_line lines.

  (* batch mode *)
  Definition never_internal_failure : Prop := forall i, diagnostic (mypy i).

  (* daemon: after ANY history of inputs every request is answered, and answered like a batch run *)
  Variable DState : Type.
  Variable d0 : DState.
  Variable request : DState -> Input -> option (DState * Behaviour).     (* None = "Daemon crashed!" / no answer *)
  Fixpoint feed (d : DState) (h : list Input) : option DState :=
    match h with
    | [] => Some d
    | i :: t => match request d i with Some (d', _) => feed d' t | None => None end
    end.
  Definition daemon_keeps_answering : Prop :=
    forall h i, exists d, feed d0 h = Some d /\
      exists d' b, request d i = Some (d', b) /\ diagnostic b /\ b = mypy i.

  Definition C20_statement : Prop := never_internal_failure /\ daemon_keeps_answering.
End Full.
