(* C11 L0 — model of the primitive binary codec of mypy's fixed-format cache
   (librt.internal WriteBuffer/ReadBuffer; C source mypyc/lib-rt/internal/librt_internal.c).
   Executable definitions only.  Bytes are Z values in 0..255; a Python str is modelled by its
   UTF-8 byte string (CPython's UTF-8 codec is trusted, see notes/C11.md). *)
From Coq Require Import ZArith List Bool.
Import ListNotations.
Open Scope Z_scope.

Definition bytes := list Z.

Definition MIN_ONE_BYTE_INT := -10.
Definition MAX_ONE_BYTE_INT := 117.
Definition MIN_TWO_BYTES_INT := -100.
Definition MAX_TWO_BYTES_INT := 16283.
Definition MIN_FOUR_BYTES_INT := -10000.
Definition MAX_FOUR_BYTES_INT := 536860911.
Definition LONG_INT_TRAILER := 15.

Definition le2 (x : Z) : bytes := [x mod 256; (x / 256) mod 256].
Definition le4 (x : Z) : bytes :=
  [x mod 256; (x / 256) mod 256; (x / 65536) mod 256; (x / 16777216) mod 256].

(* _write_short_int: the caller guarantees MIN_FOUR_BYTES_INT <= v <= MAX_FOUR_BYTES_INT *)
Definition write_short (v : Z) : bytes :=
  if (MIN_ONE_BYTE_INT <=? v) && (v <=? MAX_ONE_BYTE_INT) then [(v - MIN_ONE_BYTE_INT) * 2]
  else if (MIN_TWO_BYTES_INT <=? v) && (v <=? MAX_TWO_BYTES_INT)
       then le2 ((v - MIN_TWO_BYTES_INT) * 4 + 1)
       else le4 ((v - MIN_FOUR_BYTES_INT) * 8 + 3).

(* _read_short_int(data, first): [first] has already been consumed *)
Definition read_short (first : Z) (bs : bytes) : option (Z * bytes) :=
  if first mod 2 =? 0 then Some (first / 2 + MIN_ONE_BYTE_INT, bs)
  else if (first / 2) mod 2 =? 0 then
    match bs with
    | second :: r => Some (second * 64 + first / 4 + MIN_TWO_BYTES_INT, r)
    | _ => None
    end
  else
    match bs with
    | second :: b2 :: b3 :: r =>
        Some ((b2 + b3 * 256) * 8192 + second * 32 + first / 8 + MIN_FOUR_BYTES_INT, r)
    | _ => None
    end.

(* little-endian base-256 digits of a non-negative magnitude (minimal length; [] for 0) *)
Fixpoint le_digits (fuel : nat) (m : Z) : bytes :=
  match fuel with
  | O => []
  | S f => if m =? 0 then [] else (m mod 256) :: le_digits f (m / 256)
  end.

Fixpoint le_val (bs : bytes) : Z :=
  match bs with
  | [] => 0
  | b :: r => b + 256 * le_val r
  end.

Definition magnitude_bytes (m : Z) : bytes := le_digits (S (Z.to_nat (Z.log2 m))) m.

Definition zlen {A} (l : list A) : Z := Z.of_nat (length l).

(* take exactly n items, fail when fewer are available (_CHECK_READ) *)
Definition take {A} (n : Z) (l : list A) : option (list A * list A) :=
  if (0 <=? n) && (n <=? zlen l) then Some (firstn (Z.to_nat n) l, skipn (Z.to_nat n) l) else None.

(* _write_long_int: trailer, short-int encoded (byte length << 1 | negative), magnitude bytes.
   Fails ("int too long to serialize") when the encoded length does not fit the short form. *)
Definition write_long (z : Z) : option bytes :=
  let mag := magnitude_bytes (Z.abs z) in
  let enc := zlen mag * 2 + (if z <? 0 then 1 else 0) in
  if enc <=? MAX_FOUR_BYTES_INT then Some (LONG_INT_TRAILER :: write_short enc ++ mag) else None.

Definition write_int (z : Z) : option bytes :=
  if (MIN_FOUR_BYTES_INT <=? z) && (z <=? MAX_FOUR_BYTES_INT) then Some (write_short z)
  else write_long z.

Definition read_int (bs : bytes) : option (Z * bytes) :=
  match bs with
  | [] => None
  | first :: r =>
      if first =? LONG_INT_TRAILER then
        match r with
        | [] => None
        | f2 :: r2 =>
            match read_short f2 r2 with
            | None => None
            | Some (ss, r3) =>
                if ss <? 0 then None
                else match take (ss / 2) r3 with
                     | None => None
                     | Some (mag, r4) =>
                         Some (if ss mod 2 =? 1 then - le_val mag else le_val mag, r4)
                     end
            end
        end
      else read_short first r
  end.

(* _read_size-like prefix used by str and bytes: the long form is rejected, negative rejected *)
Definition read_size (bs : bytes) : option (Z * bytes) :=
  match bs with
  | [] => None
  | first :: r =>
      if first =? LONG_INT_TRAILER then None
      else match read_short first r with
           | Some (n, r') => if n <? 0 then None else Some (n, r')
           | None => None
           end
  end.

(* write_str_internal / write_bytes_internal: size (short form only) + raw bytes *)
Definition write_blob (s : bytes) : option bytes :=
  if zlen s <=? MAX_FOUR_BYTES_INT then Some (write_short (zlen s) ++ s) else None.

Definition read_blob (bs : bytes) : option (bytes * bytes) :=
  match read_size bs with
  | None => None
  | Some (n, r) => take n r
  end.

Definition write_str := write_blob.   (* argument: the UTF-8 encoding of the str *)
Definition read_str := read_blob.
Definition write_bytes := write_blob.
Definition read_bytes := read_blob.

Definition write_bool (b : bool) : bytes := [if b then 1 else 0].
Definition read_bool (bs : bytes) : option (bool * bytes) :=
  match bs with
  | b :: r => if b =? 0 then Some (false, r) else if b =? 1 then Some (true, r) else None
  | [] => None
  end.

(* tags are u8: write_tag rejects values outside 0..255 (CPyLong_AsUInt8) *)
Definition write_tag (t : Z) : option bytes :=
  if (0 <=? t) && (t <=? 255) then Some [t] else None.
Definition read_tag (bs : bytes) : option (Z * bytes) :=
  match bs with
  | b :: r => Some (b, r)
  | [] => None
  end.

(* floats: the 8 bytes produced by PyFloat_Pack8(le=1); the IEEE packing itself is trusted *)
Definition write_float (f : bytes) : option bytes :=
  if zlen f =? 8 then Some f else None.
Definition read_float (bs : bytes) : option (bytes * bytes) := take 8 bs.
