(* C11 L2 — hand models of the irregular writers/readers and the recursive whole-object codec.
   Executable definitions only.

   * Instance (types.py Instance.write/read): five fast-path tags, INSTANCE_SIMPLE, INSTANCE_GENERIC
   * SymbolTable / SymbolTableNode (nodes.py): expressed in the op language (OptElse for cross_ref-or-node)
   * literal codec (cache.py write_literal / read_literal + the None and complex branches of Var.read)
   * obj_write / obj_read: every class by tag, nesting closed by recursion on fuel *)
From Coq Require Import ZArith List Bool.
From C11 Require Import Prim Schema.
From Gen Require Import Schemas.
Import ListNotations.
Open Scope Z_scope.

(* ------------------------------------------------------------------ literal values (Ext 3) *)
Definition EXT_JSON := 1.
Definition EXT_JSON_VALUE := 2.
Definition EXT_LITERAL := 3.

Definition lit_write (p : list value) : option bytes :=
  match p with
  | [VBool b] => Some (write_bool b)      (* write_bool: the bytes 0/1 are the tags LITERAL_FALSE/LITERAL_TRUE *)
  | [VInt z] => bind (write_int z) (fun x => Some (LITERAL_INT :: x))
  | [VStr s] => bind (write_str s) (fun x => Some (LITERAL_STR :: x))
  | [VFloat f] => bind (write_float f) (fun x => Some (LITERAL_FLOAT :: x))
  | [VFloat a; VFloat b] =>
      bind (write_float a) (fun x => bind (write_float b) (fun y => Some (LITERAL_COMPLEX :: x ++ y)))
  | [VNone] => Some [LITERAL_NONE]
  | [VStr a; VStr b] =>                   (* SentinelValue(fullname, name) *)
      bind (write_str a) (fun x => bind (write_str b) (fun y => Some (LITERAL_SENTINEL :: x ++ y)))
  | _ => None
  end.

Definition lit_read (bs : bytes) : option (list value * bytes) :=
  match bs with
  | [] => None
  | t :: r =>
      if t =? LITERAL_FALSE then Some ([VBool false], r)
      else if t =? LITERAL_TRUE then Some ([VBool true], r)
      else if t =? LITERAL_NONE then Some ([VNone], r)
      else if t =? LITERAL_INT then bind (read_int r) (fun '(z, r') => Some ([VInt z], r'))
      else if t =? LITERAL_STR then bind (read_str r) (fun '(s, r') => Some ([VStr s], r'))
      else if t =? LITERAL_FLOAT then bind (read_float r) (fun '(f, r') => Some ([VFloat f], r'))
      else if t =? LITERAL_COMPLEX then
        bind (read_float r) (fun '(a, r1) => bind (read_float r1) (fun '(b, r2) => Some ([VFloat a; VFloat b], r2)))
      else if t =? LITERAL_SENTINEL then
        bind (read_str r) (fun '(a, r1) => bind (read_str r1) (fun '(b, r2) => Some ([VStr a; VStr b], r2)))
      else None
  end.

(* ------------------------------------------------------------------ names used by the Instance fast paths *)
Definition n_str : bytes := [98; 117; 105; 108; 116; 105; 110; 115; 46; 115; 116; 114].
Definition n_function : bytes := [98; 117; 105; 108; 116; 105; 110; 115; 46; 102; 117; 110; 99; 116; 105; 111; 110].
Definition n_int : bytes := [98; 117; 105; 108; 116; 105; 110; 115; 46; 105; 110; 116].
Definition n_bool : bytes := [98; 117; 105; 108; 116; 105; 110; 115; 46; 98; 111; 111; 108].
Definition n_object : bytes := [98; 117; 105; 108; 116; 105; 110; 115; 46; 111; 98; 106; 101; 99; 116].

(* an Instance is [type_ref; args; last_known_value; extra_attrs] *)
Definition plain_value (ref : bytes) : list value := [VStr ref; VRep []; VNone; VNone].

(* `not self.args and not self.last_known_value and not self.extra_attrs` *)
Definition is_plain (fs : list value) : option bytes :=
  match fs with
  | VStr ref :: VRep [] :: VNone :: VNone :: [] => Some ref
  | _ => None
  end.

Definition fast_tag (ref : bytes) : Z :=
  if zlist_eqb ref n_str then INSTANCE_STR
  else if zlist_eqb ref n_function then INSTANCE_FUNCTION
  else if zlist_eqb ref n_int then INSTANCE_INT
  else if zlist_eqb ref n_bool then INSTANCE_BOOL
  else if zlist_eqb ref n_object then INSTANCE_OBJECT
  else INSTANCE_SIMPLE.

Definition inst_generic_r : op :=
  seq_of [Tag LITERAL_STR; StrBare; Tag LIST_GEN; Rep (seq_of [Nested tbl_read_type]);
          Opt (seq_of [Nested [LITERAL_TYPE]]); Opt (seq_of [Nested [EXTRA_ATTRS]]); Tag END_TAG].
Definition inst_generic_w : op := erase inst_generic_r.

(* SymbolTable.write / read: tag DICT_STR_GEN (the class tag), count, (bare key, SymbolTableNode)* ;
   the value is the list of serialized entries (sorted, without __builtins__ and no_serialize entries) *)
Definition symtab_r : op := seq_of [Rep (seq_of [StrBare; Nested [SYMBOL_TABLE_NODE]])].

(* SymbolTableNode.write / read: kind, four bools, then either a cross reference (str) or, after the
   LITERAL_NONE tag of write_str_opt(None), the node itself; TYPE_INFO is read eagerly, every other symbol
   is cut out by extract_symbol and read later by read_symbol *)
Definition stn_r : op :=
  seq_of [Tag LITERAL_INT; IntBare; Bool; Bool; Bool; Bool;
          OptElse (seq_of [Tag LITERAL_STR; StrBare]) (seq_of [Nested (TYPE_INFO :: tbl_read_symbol)]);
          Tag END_TAG].

Definition hand_classes : list (Z * (op * op)) :=
  [(DICT_STR_GEN, (erase symtab_r, symtab_r)); (SYMBOL_TABLE_NODE, (erase stn_r, stn_r))].

Definition all_classes : list (Z * (op * op)) := hand_classes ++ obj_schemas.

Fixpoint lookup (t : Z) (l : list (Z * (op * op))) : option (op * op) :=
  match l with
  | [] => None
  | (k, e) :: r => if k =? t then Some e else lookup t r
  end.

Definition full (x : option (bytes * list value)) : option bytes :=
  match x with Some (b, []) => Some b | _ => None end.
Definition fits_all (x : option (list value)) : bool :=
  match x with Some [] => true | _ => false end.

Section Whole.
  (* the JSON-value codec (write_json / write_json_value) *)
  Variable jsonw : Z -> list value -> option bytes.
  Variable jsonr : Z -> bytes -> option (list value * bytes).

  Definition extw (k : Z) (p : list value) : option bytes := if k =? EXT_LITERAL then lit_write p else jsonw k p.
  Definition extr (k : Z) (bs : bytes) : option (list value * bytes) := if k =? EXT_LITERAL then lit_read bs else jsonr k bs.

  Section Level.
    Variable objw : Z -> list value -> option bytes.
    Variable objr : Z -> bytes -> option (list value * bytes).
    Variable objf : Z -> list value -> bool.

    Definition instance_write (fs : list value) : option bytes :=
      match is_plain fs with
      | Some ref =>
          let t := fast_tag ref in
          if t =? INSTANCE_SIMPLE then bind (write_str ref) (fun b => Some (t :: b)) else Some [t]
      | None => bind (full (write_op objw extw inst_generic_w fs)) (fun b => Some (INSTANCE_GENERIC :: b))
      end.

    Definition instance_read (bs : bytes) : option (list value * bytes) :=
      match bs with
      | [] => None
      | t :: r =>
          if t =? INSTANCE_STR then Some (plain_value n_str, r)
          else if t =? INSTANCE_FUNCTION then Some (plain_value n_function, r)
          else if t =? INSTANCE_INT then Some (plain_value n_int, r)
          else if t =? INSTANCE_BOOL then Some (plain_value n_bool, r)
          else if t =? INSTANCE_OBJECT then Some (plain_value n_object, r)
          else if t =? INSTANCE_SIMPLE then bind (read_str r) (fun '(s, r') => Some (plain_value s, r'))
          else if t =? INSTANCE_GENERIC then read_op objr extr inst_generic_r r
          else None
      end.

    Definition instance_fits (fs : list value) : bool :=
      match is_plain fs with
      | Some _ => true
      | None => fits_all (fits objf inst_generic_r fs)
      end.

    Definition level_write (t : Z) (fs : list value) : option bytes :=
      if t =? INSTANCE then instance_write fs
      else match lookup t all_classes with
           | Some (w, _) => full (write_op objw extw w fs)
           | None => None
           end.
    Definition level_read (t : Z) (bs : bytes) : option (list value * bytes) :=
      if t =? INSTANCE then instance_read bs
      else match lookup t all_classes with
           | Some (_, r) => read_op objr extr r bs
           | None => None
           end.
    Definition level_fits (t : Z) (fs : list value) : bool :=
      if t =? INSTANCE then instance_fits fs
      else match lookup t all_classes with
           | Some (_, r) => fits_all (fits objf r fs)
           | None => false
           end.
  End Level.

  (* whole-object codec: nesting depth bounded by fuel (every finite value has enough) *)
  Fixpoint obj_write (n : nat) (t : Z) (fs : list value) : option bytes :=
    match n with O => None | S k => level_write (obj_write k) t fs end.
  Fixpoint obj_read (n : nat) (t : Z) (bs : bytes) : option (list value * bytes) :=
    match n with O => None | S k => level_read (obj_read k) t bs end.
  Fixpoint obj_wf (n : nat) (t : Z) (fs : list value) : bool :=
    match n with O => false | S k => level_fits (obj_wf k) t fs end.

  (* x.write(data) for a Type x / read_type(data) *)
  Definition write_type (n : nat) (v : value) : option bytes :=
    match v with
    | VObj t fs => if zmem t tbl_read_type then bind (obj_write n t fs) (fun b => Some (t :: b)) else None
    | _ => None
    end.
  Definition read_type (n : nat) (bs : bytes) : option (value * bytes) :=
    match bs with
    | t :: r => if zmem t tbl_read_type then bind (obj_read n t r) (fun '(fs, r') => Some (VObj t fs, r')) else None
    | [] => None
    end.
  Definition wf_type (n : nat) (v : value) : bool :=
    match v with VObj t fs => zmem t tbl_read_type && obj_wf n t fs | _ => false end.

  (* MypyFile.write(data) / MypyFile.read(data): a whole cache data file *)
  Definition write_file (n : nat) (fs : list value) : option bytes :=
    bind (obj_write n MYPY_FILE fs) (fun b => Some (MYPY_FILE :: b)).
  Definition read_file (n : nat) (bs : bytes) : option (list value * bytes) :=
    match bs with t :: r => if t =? MYPY_FILE then obj_read n MYPY_FILE r else None | [] => None end.
End Whole.
