(* C11 L2 — model of the tagged JSON-value codec of mypy/cache.py (write_json_value / read_json_value,
   write_json / read_json).  Executable definitions only.
   JSON values as [value]: None = VNone, bool = VBool, int = VInt, str = VStr, float = VFloat,
   list = VSome items, tuple = VElse items, dict = VRep [[VStr key; v]; ...] (keys in written = sorted order) *)
From Coq Require Import ZArith List Bool.
From C11 Require Import Prim Schema.
Import ListNotations.
Open Scope Z_scope.

Definition J_NONE := 2.  Definition J_FALSE := 0.  Definition J_TRUE := 1.
Definition J_INT := 3.   Definition J_STR := 4.    Definition J_FLOAT := 6.
Definition J_LIST := 20. Definition J_TUPLE := 24. Definition J_DICT := 30.

Definition wlist (f : value -> option bytes) : list value -> option bytes :=
  fix go l := match l with
              | [] => Some []
              | x :: r => bind (f x) (fun a => bind (go r) (fun b => Some (a ++ b)))
              end.
Definition wrows (f : value -> option bytes) : list (list value) -> option bytes :=
  fix go l := match l with
              | [] => Some []
              | row :: r =>
                  match row with
                  | [VStr k; x] => bind (write_str k) (fun a => bind (f x) (fun a2 => bind (go r) (fun b => Some (a ++ a2 ++ b))))
                  | _ => None
                  end
              end.

Fixpoint jw (v : value) : option bytes :=
  match v with
  | VNone => Some [J_NONE]
  | VBool b => Some (write_bool b)
  | VInt z => bind (write_int z) (fun x => Some (J_INT :: x))
  | VStr s => bind (write_str s) (fun x => Some (J_STR :: x))
  | VFloat f => bind (write_float f) (fun x => Some (J_FLOAT :: x))
  | VSome items => bind (write_int (zlen items)) (fun c => bind (wlist jw items) (fun b => Some (J_LIST :: c ++ b)))
  | VElse items => bind (write_int (zlen items)) (fun c => bind (wlist jw items) (fun b => Some (J_TUPLE :: c ++ b)))
  | VRep rows => bind (write_int (zlen rows)) (fun c => bind (wrows jw rows) (fun b => Some (J_DICT :: c ++ b)))
  | _ => None
  end.

Fixpoint ritems (rd : bytes -> option (value * bytes)) (n : nat) (bs : bytes) : option (list value * bytes) :=
  match n with
  | O => Some ([], bs)
  | S k => bind (rd bs) (fun '(x, r) => bind (ritems rd k r) (fun '(l, r') => Some (x :: l, r')))
  end.
Fixpoint rrows (rd : bytes -> option (value * bytes)) (n : nat) (bs : bytes) : option (list (list value) * bytes) :=
  match n with
  | O => Some ([], bs)
  | S k => bind (read_str bs) (fun '(key, r0) => bind (rd r0) (fun '(x, r) =>
           bind (rrows rd k r) (fun '(l, r') => Some ([VStr key; x] :: l, r'))))
  end.

(* read_json_value: recursion bounded by fuel; [S (length input)] always suffices *)
Fixpoint jr (n : nat) (bs : bytes) : option (value * bytes) :=
  match n with
  | O => None
  | S k =>
      match bs with
      | [] => None
      | t :: r =>
          if t =? J_NONE then Some (VNone, r)
          else if t =? J_FALSE then Some (VBool false, r)
          else if t =? J_TRUE then Some (VBool true, r)
          else if t =? J_INT then bind (read_int r) (fun '(z, r') => Some (VInt z, r'))
          else if t =? J_STR then bind (read_str r) (fun '(s, r') => Some (VStr s, r'))
          else if t =? J_LIST then bind (read_int r) (fun '(c, r1) => bind (ritems (jr k) (Z.to_nat c) r1) (fun '(l, r2) => Some (VSome l, r2)))
          else if t =? J_TUPLE then bind (read_int r) (fun '(c, r1) => bind (ritems (jr k) (Z.to_nat c) r1) (fun '(l, r2) => Some (VElse l, r2)))
          else if t =? J_DICT then bind (read_int r) (fun '(c, r1) => bind (rrows (jr k) (Z.to_nat c) r1) (fun '(l, r2) => Some (VRep l, r2)))
          else if t =? J_FLOAT then bind (read_float r) (fun '(f, r') => Some (VFloat f, r'))
          else None
      end
  end.

(* Ext 2 = write_json_value / read_json_value;  Ext 1 = write_json / read_json (dictionaries only) *)
Definition json_write (k : Z) (p : list value) : option bytes :=
  match p with
  | [v] => if k =? 1 then match v with VRep _ => jw v | _ => None end else jw v
  | _ => None
  end.
Definition json_read (k : Z) (bs : bytes) : option (list value * bytes) :=
  let J := bind (jr (S (length bs)) bs) (fun '(v, r) => Some ([v], r)) in
  if k =? 1 then match bs with t :: _ => if t =? J_DICT then J else None | [] => None end else J.
