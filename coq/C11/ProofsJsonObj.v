(* C11 — the recursive JSON object codec round-trips (all schema classes + Instance, any nesting depth) *)
From Coq Require Import ZArith List Bool Lia ZifyBool.
From C11 Require Import Prim Schema ProofsSchema JsonText JsonSchema ProofsJsonSchema Types ProofsTypes JsonObj.
From Gen Require Import Schemas.
Import ListNotations.
Open Scope Z_scope.

Ltac dbind H :=
  match type of H with
  | bind ?x _ = Some _ => let E := fresh "E" in destruct x eqn:E; [cbn [bind] in H|discriminate H]
  end.

Lemma jtable_json_classes : jtable_ok json_classes = true.
Proof. vm_compute. reflexivity. Qed.

Lemma find_tag_in : forall l t name s, find_tag t l = Some (name, s) -> In (t, (name, s)) l.
Proof.
  induction l as [|[t' e] r IH]; intros t name s H; [discriminate|]. cbn in H.
  destruct (t' =? t) eqn:E; [inversion H; subst; left; f_equal; lia|right; auto].
Qed.

Lemma find_consistent : forall l t name s, jtable_ok l = true -> find_tag t l = Some (name, s) ->
  find_name name l = Some (t, s) /\ zlist_eqb name k_instance = false /\ jschema_ok s = true /\ (t =? INSTANCE) = false.
Proof.
  induction l as [|[t0 [n0 s0]] r IH]; intros t name s OK H; [discriminate|].
  cbn [jtable_ok] in OK. repeat (apply andb_prop in OK as [OK ?]).
  cbn [find_tag] in H. destruct (t0 =? t) eqn:E.
  - inversion H; subst. cbn [find_name]. rewrite zlist_eqb_refl.
    assert (t0 = t) by lia. subst. repeat split; auto; now apply negb_true_iff.
  - destruct (IH _ _ _ H0 H) as (A & B & C & D). cbn [find_name].
    pose proof (find_tag_in _ _ _ _ H) as Hin.
    pose proof (proj1 (forallb_forall _ _) H1 _ Hin) as F. cbn in F. apply andb_prop in F as [_ F].
    apply negb_true_iff in F. rewrite zlist_eqb_sym in F. rewrite F. auto.
Qed.

Section LevelProofs.
  Variable enc : value -> option json.
  Variable dec : json -> option value.
  Hypothesis enc_ok : forall v j, enc v = Some j -> dec j = Some v.
  Hypothesis enc_not_null : forall v, enc v <> Some JNull.

  Lemma list_rt : forall rows l, enc_list enc rows = Some l -> dec_list dec l = Some rows.
  Proof.
    induction rows as [|row rs IH]; intros l E; cbn [enc_list] in E.
    - inversion E; subst. reflexivity.
    - destruct row as [|x [|]]; try discriminate. dbind E. dbind E. inversion E; subst.
      cbn [dec_list]. rewrite (enc_ok _ _ E0). cbn [bind]. rewrite (IH _ eq_refl). reflexivity.
  Qed.

  Lemma opt_rt : forall v j, opt_enc enc v = Some j -> opt_dec dec j = Some v.
  Proof.
    intros v j H. destruct v; try discriminate.
    - inversion H; subst. reflexivity.
    - cbn in H. destruct fields as [|x [|]]; try discriminate.
      assert (j <> JNull) by (intros ->; exact (enc_not_null _ H)).
      unfold opt_dec. destruct j; try congruence; now rewrite (enc_ok _ _ H).
  Qed.

  Lemma inst_rt : forall fs j, inst_jenc enc fs = Some j -> level_jdec dec j = Some (VObj INSTANCE fs).
  Proof.
    intros fs j H. unfold inst_jenc in H. destruct (is_plain fs) as [ref|] eqn:P.
    - inversion H; subst. apply is_plain_spec in P. subst. reflexivity.
    - destruct fs as [|v1 fs]; [discriminate|]. destruct v1; try discriminate.
      destruct fs as [|v2 fs]; [discriminate|]. destruct v2; try discriminate.
      destruct fs as [|lkv fs]; [discriminate|]. destruct fs as [|ex fs]; [discriminate|]. destruct fs; [|discriminate].
      dbind H. dbind H. pose proof (list_rt _ _ E) as RL. pose proof (opt_rt _ _ E0) as RO.
      destruct lkv; try discriminate.
      + inversion H; subst. cbn [level_jdec]. change (zlist_eqb k_class k_class) with true. cbv iota.
        change (zlist_eqb k_instance k_instance) with true. cbv iota.
        unfold inst_jdec. cbn [jlookup].
        change (zlist_eqb k_type_ref k_type_ref) with true. change (zlist_eqb k_type_ref k_args) with false.
        change (zlist_eqb k_args k_args) with true. change (zlist_eqb k_type_ref k_extra) with false.
        change (zlist_eqb k_args k_extra) with false. change (zlist_eqb k_extra k_extra) with true.
        change (zlist_eqb k_type_ref k_lkv) with false. change (zlist_eqb k_args k_lkv) with false.
        change (zlist_eqb k_extra k_lkv) with false. cbv iota.
        rewrite RL. cbn [bind]. rewrite RO. reflexivity.
      + destruct fields as [|x [|]]; try discriminate. dbind H. inversion H; subst.
        cbn [level_jdec]. change (zlist_eqb k_class k_class) with true. cbv iota.
        change (zlist_eqb k_instance k_instance) with true. cbv iota.
        unfold inst_jdec. cbn [jlookup].
        change (zlist_eqb k_lkv k_type_ref) with false. change (zlist_eqb k_lkv k_args) with false.
        change (zlist_eqb k_lkv k_extra) with false. change (zlist_eqb k_lkv k_lkv) with true.
        change (zlist_eqb k_type_ref k_type_ref) with true. change (zlist_eqb k_type_ref k_args) with false.
        change (zlist_eqb k_args k_args) with true. change (zlist_eqb k_type_ref k_extra) with false.
        change (zlist_eqb k_args k_extra) with false. change (zlist_eqb k_extra k_extra) with true. cbv iota.
        rewrite RL. cbn [bind]. rewrite RO. cbn [bind]. rewrite (enc_ok _ _ E1). reflexivity.
  Qed.

  Lemma level_rt : forall v j, level_jenc enc v = Some j -> level_jdec dec j = Some v.
  Proof.
    intros v j H. destruct v; try discriminate. cbn [level_jenc] in H.
    destruct (tag =? INSTANCE) eqn:ET.
    - assert (tag = INSTANCE) by lia. subst. now apply inst_rt.
    - destruct (find_tag tag json_classes) as [[name s]|] eqn:F; [|discriminate].
      destruct (find_consistent _ _ _ _ jtable_json_classes F) as (A & B & C & D).
      dbind H. inversion H; subst. cbn [level_jdec]. change (zlist_eqb k_class k_class) with true. cbv iota.
      rewrite B, A. rewrite (jdeser_ser enc dec enc_ok s fields l E C l); [reflexivity|reflexivity].
  Qed.

  Lemma level_not_null : forall v, level_jenc enc v <> Some JNull.
  Proof.
    intros v H. destruct v; try discriminate. cbn [level_jenc] in H. destruct (tag =? INSTANCE).
    - unfold inst_jenc in H. destruct (is_plain fields); [discriminate|].
      destruct fields as [|v1 fields]; [discriminate|]. destruct v1; try discriminate.
      destruct fields as [|v2 fields]; [discriminate|]. destruct v2; try discriminate.
      destruct fields as [|lkv fields]; [discriminate|]. destruct fields as [|ex fields]; [discriminate|]. destruct fields; [|discriminate]. dbind H. dbind H.
      destruct lkv; try discriminate. destruct fields as [|x [|]]; try discriminate. dbind H. discriminate.
    - destruct (find_tag tag json_classes) as [[name s]|]; [|discriminate]. dbind H. discriminate.
  Qed.
End LevelProofs.

Lemma jo_rt : forall n, (forall v j, jo_enc n v = Some j -> jo_dec n j = Some v) /\ (forall v, jo_enc n v <> Some JNull).
Proof.
  induction n as [|k [IH1 IH2]]; [split; [discriminate|intros v H; discriminate]|].
  split.
  - intros v j H. exact (level_rt (jo_enc k) (jo_dec k) IH1 IH2 v j H).
  - intros v. exact (level_not_null (jo_enc k) v).
Qed.

Lemma jo_codec_ok : forall n v j, jo_enc n v = Some j -> jo_dec n j = Some v.
Proof. intros n. exact (proj1 (jo_rt n)). Qed.
