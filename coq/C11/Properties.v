(* Property C11 — cache serialization is faithful (binary layer).  Statements only. *)
From Coq Require Import ZArith List String Bool.
From C11 Require Import Prim Schema Tables ProofsPrim ProofsSchema Json ProofsJson Types ProofsTypes ProofsMono JsonText ProofsJsonText JsonSchema ProofsJsonSchema JsonObj ProofsJsonObj Fixup ProofsFixup ProofsGen.
From Gen Require Import Schemas.
Import ListNotations.
Open Scope Z_scope.

(* L0: integers — every Z that write_int accepts is read back exactly, whatever follows it *)
Theorem read_write_int : forall z bs rest, write_int z = Some bs -> read_int (bs ++ rest) = Some (z, rest).
Proof. exact read_write_int_opt. Qed.
Print Assumptions read_write_int.

(* write_int only refuses ints of more than ~2^31 bits ("int too long to serialize") *)
Theorem write_int_defined : forall z, Z.log2 (Z.abs z) < 8 * 268430455 - 8 -> exists bs, write_int z = Some bs.
Proof. exact ProofsPrim.write_int_defined. Qed.
Print Assumptions write_int_defined.

Theorem write_int_prefix_free : forall a b ba bb r1 r2,
  write_int a = Some ba -> write_int b = Some bb -> ba ++ r1 = bb ++ r2 -> a = b /\ r1 = r2.
Proof. exact write_int_prefix_free_opt. Qed.
Print Assumptions write_int_prefix_free.

Theorem write_int_emits_bytes : forall z bs, write_int z = Some bs -> Forall (fun b => 0 <= b < 256) bs.
Proof. exact write_int_bytes. Qed.
Print Assumptions write_int_emits_bytes.

(* L0: str (as UTF-8 byte string) and bytes *)
Theorem read_write_str : forall s bs rest, write_str s = Some bs -> read_str (bs ++ rest) = Some (s, rest).
Proof. exact read_write_blob. Qed.
Print Assumptions read_write_str.

Theorem read_write_bytes : forall s bs rest, write_bytes s = Some bs -> read_bytes (bs ++ rest) = Some (s, rest).
Proof. exact read_write_blob. Qed.
Print Assumptions read_write_bytes.

Theorem write_str_prefix_free : forall a b ba bb r1 r2,
  write_str a = Some ba -> write_str b = Some bb -> ba ++ r1 = bb ++ r2 -> a = b /\ r1 = r2.
Proof. exact blob_prefix_free. Qed.
Print Assumptions write_str_prefix_free.

Theorem read_write_bool : forall b rest, read_bool (write_bool b ++ rest) = Some (b, rest).
Proof. exact ProofsPrim.read_write_bool. Qed.
Print Assumptions read_write_bool.

Theorem read_write_tag : forall t bs rest, write_tag t = Some bs -> read_tag (bs ++ rest) = Some (t, rest).
Proof. exact ProofsPrim.read_write_tag. Qed.
Print Assumptions read_write_tag.

Theorem read_write_float : forall f bs rest, write_float f = Some bs -> read_float (bs ++ rest) = Some (f, rest).
Proof. exact ProofsPrim.read_write_float. Qed.
Print Assumptions read_write_float.

Theorem flags_roundtrip : forall l : list bool, unpack (List.length l) (pack l) = l.
Proof. exact unpack_pack. Qed.
Print Assumptions flags_roundtrip.

(* L1: every matched writer/reader schema pair round-trips, for all values, given the same for
   nested objects and external codecs (generic form; closed instances below) *)
Theorem schema_roundtrip :
  forall obj_write obj_read ext_write ext_read obj_fits,
    (forall t fs bs rest, obj_write t fs = Some bs -> obj_fits t fs = true -> obj_read t (bs ++ rest) = Some (fs, rest)) ->
    (forall k p bs rest, ext_write k p = Some bs -> ext_read k (bs ++ rest) = Some (p, rest)) ->
    forall w r, ops_match w r = true ->
    forall vs bs rest,
      write_op obj_write ext_write w vs = Some (bs, []) -> fits obj_fits r vs = Some [] ->
      read_op obj_read ext_read r (bs ++ rest) = Some (vs, rest).
Proof. exact schema_roundtrip_gen. Qed.
Print Assumptions schema_roundtrip.

Theorem schema_injective :
  forall obj_write obj_read ext_write ext_read obj_fits,
    (forall t fs bs rest, obj_write t fs = Some bs -> obj_fits t fs = true -> obj_read t (bs ++ rest) = Some (fs, rest)) ->
    (forall k p bs rest, ext_write k p = Some bs -> ext_read k (bs ++ rest) = Some (p, rest)) ->
    forall w r, ops_match w r = true ->
    forall v1 v2 b1 b2 r1 r2,
      write_op obj_write ext_write w v1 = Some (b1, []) -> fits obj_fits r v1 = Some [] ->
      write_op obj_write ext_write w v2 = Some (b2, []) -> fits obj_fits r v2 = Some [] ->
      b1 ++ r1 = b2 ++ r2 -> v1 = v2 /\ r1 = r2.
Proof. exact schema_injective_gen. Qed.
Print Assumptions schema_injective.

(* the schemas regenerated from the current source all match (ops and field names) *)
Theorem extracted_schemas_match : forallb entry_ok schemas = true.
Proof. exact all_match. Qed.
Print Assumptions extracted_schemas_match.

(* field names: every value is stored into the attribute it was taken from (same name sequence in write and read) *)
Theorem extracted_field_names_match : forallb names_ok names = true.
Proof. exact names_all_match. Qed.
Print Assumptions extracted_field_names_match.

(* JSON and binary store the same attribute set per class (up to the exceptions listed in the table), and
   serialize()/deserialize() use the same key set *)
Theorem formats_agree : forallb format_ok format_fields = true /\ forallb keys_ok json_keys = true.
Proof. exact formats_agree_table. Qed.
Print Assumptions formats_agree.

(* L2: external codecs, proved *)
Theorem literal_roundtrip : forall p bs rest, lit_write p = Some bs -> lit_read (bs ++ rest) = Some (p, rest).
Proof. exact lit_ok. Qed.
Print Assumptions literal_roundtrip.

Theorem json_value_roundtrip : forall k p bs rest,
  json_write k p = Some bs -> json_read k (bs ++ rest) = Some (p, rest).
Proof. exact json_codec_ok. Qed.
Print Assumptions json_value_roundtrip.

(* L2: the hand-modelled classes (Instance generic form, SymbolTable, SymbolTableNode) and every extracted object
   class match *)
Theorem all_object_classes_match : forallb class_ok all_classes = true.
Proof. exact all_classes_match. Qed.
Print Assumptions all_object_classes_match.

(* L2: the recursion is closed -- every object of every class (regular, Instance with all fast paths, SymbolTable,
   SymbolTableNode) at any nesting depth, with the concrete literal and JSON codecs; no hypotheses *)
Theorem object_roundtrip : forall n t fs bs rest,
  OW n t fs = Some bs -> obj_wf n t fs = true -> OR n t (bs ++ rest) = Some (fs, rest).
Proof. exact closed_obj. Qed.
Print Assumptions object_roundtrip.

Theorem type_roundtrip : forall n t bs rest,
  write_type json_write n t = Some bs -> wf_type n t = true -> read_type json_read n (bs ++ rest) = Some (t, rest).
Proof. exact closed_type. Qed.
Print Assumptions type_roundtrip.

(* fuel is only a bound on nesting depth: written with any sufficient n, read back with any m >= n *)
Theorem type_roundtrip_any_fuel : forall n m t bs rest, (n <= m)%nat ->
  write_type json_write n t = Some bs -> wf_type n t = true -> read_type json_read m (bs ++ rest) = Some (t, rest).
Proof. exact type_rt_any_fuel. Qed.
Print Assumptions type_roundtrip_any_fuel.

(* a whole cache data file: MypyFile.read (MypyFile.write tree) = tree *)
Theorem data_file_roundtrip : forall n fs bs rest,
  write_file json_write n fs = Some bs -> obj_wf n MYPY_FILE fs = true -> read_file json_read n (bs ++ rest) = Some (fs, rest).
Proof. exact closed_file. Qed.
Print Assumptions data_file_roundtrip.

Theorem data_file_injective : forall n f1 f2 b,
  write_file json_write n f1 = Some b -> write_file json_write n f2 = Some b ->
  obj_wf n MYPY_FILE f1 = true -> obj_wf n MYPY_FILE f2 = true -> f1 = f2.
Proof. exact closed_file_injective. Qed.
Print Assumptions data_file_injective.

(* every extracted class / helper / record (CacheMeta, CacheMetaEx, FileRawData ...) with the concrete codecs *)
Theorem extracted_class_roundtrip : forall n name w r, In (name, (w, r)) schemas ->
  forall vs bs rest,
    write_op (OW n) EW w vs = Some (bs, []) -> fits (obj_wf n) r vs = Some [] ->
    read_op (OR n) ER r (bs ++ rest) = Some (vs, rest).
Proof. exact closed_extracted. Qed.
Print Assumptions extracted_class_roundtrip.

(* ---- JSON format *)
(* the textual encoding (json.dumps sort_keys, compact separators, ensure_ascii) and its parser: all values, any nesting *)
Theorem json_text_roundtrip : forall v, jvalid v -> json_loads (json_dumps v) = Some v.
Proof. exact json_text_rt. Qed.
Print Assumptions json_text_roundtrip.

(* deserialize (serialize v) = v for every keyed schema with distinct keys, all values *)
Theorem json_roundtrip : forall ne nd, (forall v j, ne v = Some j -> nd j = Some v) ->
  forall s vs j, jschema_ok s = true -> jser ne s vs = Some j -> jdeser nd s j = Some vs.
Proof. exact json_rt. Qed.
Print Assumptions json_roundtrip.

Theorem json_file_roundtrip : forall ne nd, (forall v j, ne v = Some j -> nd j = Some v) ->
  forall s vs j, jschema_ok s = true -> jser ne s vs = Some j -> jvalid j ->
  bind (json_loads (json_dumps j)) (jdeser nd s) = Some vs.
Proof. exact json_file_rt. Qed.
Print Assumptions json_file_roundtrip.

(* formats agree ON VALUES: for every class with an extracted binary schema and a derived JSON schema, the fields
   decoded from the binary encoding equal the fields decoded from the JSON text *)
Theorem formats_agree_on_values_partial :
  forall ow or ew er of ne nd,
    (forall t fs bs rest, ow t fs = Some bs -> of t fs = true -> or t (bs ++ rest) = Some (fs, rest)) ->
    (forall k p bs rest, ew k p = Some bs -> er k (bs ++ rest) = Some (p, rest)) ->
    (forall v j, ne v = Some j -> nd j = Some v) ->
    forall name w r s, In (name, (w, r, s)) json_schemas ->
    forall vs bs j,
      write_op ow ew w vs = Some (bs, []) -> fits of r vs = Some [] -> jser ne s vs = Some j -> jvalid j ->
      bind (read_op or er r bs) (fun x => Some (fst x)) = bind (json_loads (json_dumps j)) (jdeser nd s).
Proof. exact extracted_formats_agree. Qed.
Print Assumptions formats_agree_on_values_partial.

(* the same with the concrete recursive binary codec: every binary-side hypothesis is discharged (nested objects at any
   depth, Instance fast paths, SymbolTable(Node), literal and JSON-value codecs).  What is still assumed, exactly: the round
   trip [nd (ne v) = v] of the JSON encoding of NESTED objects (x.serialize() / deserialize_type / C.deserialize), i.e. a
   recursive JSON object codec; and the JSON op of each field is derived from its binary op, not read off serialize() *)
Theorem formats_agree_on_values :
  forall n ne nd, (forall v j, ne v = Some j -> nd j = Some v) ->
  forall name w r s, In (name, (w, r, s)) json_schemas ->
  forall vs bs j,
    write_op (OW n) EW w vs = Some (bs, []) -> fits (obj_wf n) r vs = Some [] -> jser ne s vs = Some j -> jvalid j ->
    bind (read_op (OR n) ER r bs) (fun x => Some (fst x)) = bind (json_loads (json_dumps j)) (jdeser nd s).
Proof. exact formats_agree_binary_closed. Qed.
Print Assumptions formats_agree_on_values.

(* the recursive JSON object codec (x.serialize() / deserialize_type): every class with a keyed JSON schema and Instance
   (string shortcut, optional last_known_value key), any nesting depth *)
Theorem json_object_roundtrip : forall n v j, jo_enc n v = Some j -> jo_dec n j = Some v.
Proof. exact jo_codec_ok. Qed.
Print Assumptions json_object_roundtrip.

(* formats agree on values, NO hypotheses: concrete recursive codecs on both sides.  Domain: values both encoders accept
   (nested objects of the keyed-schema classes and Instance; a value containing a LiteralType, TypeInfo or SymbolTable is
   outside the JSON model and makes jser fail).  Remaining gap, exactly: the JSON op of a field is derived from its binary
   op, not extracted from serialize()/deserialize() (e.g. ExtraAttrs.attrs is a JSON object in mypy, a pair list here) *)
Theorem formats_agree_on_values_closed :
  forall n m name w r s, In (name, (w, r, s)) json_schemas ->
  forall vs bs j,
    write_op (OW n) EW w vs = Some (bs, []) -> fits (obj_wf n) r vs = Some [] -> jser (jo_enc m) s vs = Some j -> jvalid j ->
    bind (read_op (OR n) ER r bs) (fun x => Some (fst x)) = bind (json_loads (json_dumps j)) (jdeser (jo_dec m) s).
Proof. exact formats_agree_closed. Qed.
Print Assumptions formats_agree_on_values_closed.

Example json_object_codec_satisfiable : exists j, jo_enc 6 t_dict = Some j /\ jo_dec 6 j = Some t_dict.
Proof. exact demo_json_type. Qed.

(* which per-field JSON ops are confirmed by the source: for the classes in json_ops_confirmed (23 of the 31) the shape of
   every expression serialize() stores (plain attribute, x.serialize(), optional, list / pair-list comprehension, get_flags)
   is the one the JSON op assumes; the other classes (json_ops_derived_only, e.g. ExtraAttrs: attrs is a JSON object, not a
   pair list) keep ops derived from the binary schema only *)
Theorem json_ops_extracted_for :
  forallb (class_shapes_ok json_op_shapes) json_ops_confirmed = true /\
  str_set_eqb (json_ops_confirmed ++ json_ops_derived_only) (map fst json_schemas) = true /\
  forallb (fun c => negb (str_mem c json_ops_derived_only)) json_ops_confirmed = true.
Proof. exact json_ops_table. Qed.
Print Assumptions json_ops_extracted_for.

(* ---- fixup *)
Theorem fixup_restores_references : forall resolve g,
  well_scoped resolve g -> fixup resolve (store g) = in_memory g.
Proof. exact fixup_restores. Qed.
Print Assumptions fixup_restores_references.

Theorem lookup_fully_qualified_finds_definition : forall ms m t p e,
  p <> [] -> m <> [] -> find_mod m ms = Some t -> descend t p = Some e ->
  (forall k, (List.length m < k)%nat -> (k < List.length (m ++ p))%nat -> find_mod (firstn k (m ++ p)) ms = None) ->
  lookup_fq ms (m ++ p) = Some e.
Proof. exact lookup_finds_definition. Qed.
Print Assumptions lookup_fully_qualified_finds_definition.

Theorem lookup_of_missing_module_is_none : forall ms path,
  (forall k, (0 < k)%nat -> (k < List.length path)%nat -> find_mod (firstn k path) ms = None) -> lookup_fq ms path = None.
Proof. exact lookup_missing_module. Qed.
Print Assumptions lookup_of_missing_module_is_none.

(* a new responsibility of fixup.py cannot go unnoticed: every attribute it assigns or rebuilds (extracted from the
   source) is in the coverage list of the structural walk *)
Theorem fixup_assigns_covered : str_subset fixup_assigns walk_coverage = true.
Proof. exact fixup_covered. Qed.
Print Assumptions fixup_assigns_covered.

(* for every schema class: each slot that holds a nested type / node, or a reference stored by name, is touched by the
   NodeFixer / TypeFixer method that class's accept() dispatches to (both sides extracted from the source); a class that
   gains a reference-carrying field the fixer does not visit breaks this theorem *)
Theorem fixup_visits_all_ref_slots : forallb ref_row_ok ref_slots = true.
Proof. exact fixup_visits_all. Qed.
Print Assumptions fixup_visits_all_ref_slots.

(* ---- determinism: every serialized attribute declared as a set goes through sorted(...) in both formats *)
Theorem set_fields_written_sorted :
  forallb (fun e : string * string * (bool * bool) => fst (snd e) && snd (snd e)) set_fields = true.
Proof. exact set_fields_sorted. Qed.
Print Assumptions set_fields_written_sorted.

(* hypotheses are satisfiable on non-trivial data *)
Example hypotheses_satisfiable :
  ops_match demo_schema demo_schema = true /\
  (exists bs, write_op no_obj_w no_ext_w demo_schema demo_value = Some (bs, []) /\
              read_op no_obj_r no_ext_r demo_schema (bs ++ [7]) = Some (demo_value, [7])) /\
  fits no_obj_f demo_schema demo_value = Some [].
Proof. exact demo_hyps. Qed.

Example nested_type_roundtrips :
  wf_type 6 t_dict = true /\
  exists bs, write_type json_write 6 t_dict = Some bs /\ read_type json_read 6 (bs ++ [9]) = Some (t_dict, [9]).
Proof. exact demo_type. Qed.

Example write_int_examples :
  write_int (-11) = Some [101; 1] /\ write_int 536860912 = Some [15; 36; 240; 216; 255; 31] /\
  write_int (- 2 ^ 64) = Some [15; 58; 0; 0; 0; 0; 0; 0; 0; 0; 1].
Proof. vm_compute. repeat split. Qed.
