(* Property C11 — cache serialization is faithful (binary layer).  Statements only. *)
From Coq Require Import ZArith List String Bool.
From C11 Require Import Prim Schema ProofsPrim ProofsSchema ProofsGen.
From Gen Require Import Schemas.
Import ListNotations.
Open Scope Z_scope.

(* L0: integers — every Z that write_int accepts is read back exactly, whatever follows it *)
Theorem read_write_int : forall z bs rest, write_int z = Some bs -> read_int (bs ++ rest) = Some (z, rest).
Proof. exact read_write_int_opt. Qed.
Print Assumptions read_write_int.

(* write_int only refuses ints of more than ~2^31 bits ("int too long to serialize") *)
Theorem write_int_defined : forall z, Z.log2 (Z.abs z) < 8 * 268430455 - 8 -> exists bs, write_int z = Some bs.
Proof. exact ProofsPrim.write_int_defined. Qed.
Print Assumptions write_int_defined.

Theorem write_int_prefix_free : forall a b ba bb r1 r2,
  write_int a = Some ba -> write_int b = Some bb -> ba ++ r1 = bb ++ r2 -> a = b /\ r1 = r2.
Proof. exact write_int_prefix_free_opt. Qed.
Print Assumptions write_int_prefix_free.

Theorem write_int_emits_bytes : forall z bs, write_int z = Some bs -> Forall (fun b => 0 <= b < 256) bs.
Proof. exact write_int_bytes. Qed.
Print Assumptions write_int_emits_bytes.

(* L0: str (as UTF-8 byte string) and bytes *)
Theorem read_write_str : forall s bs rest, write_str s = Some bs -> read_str (bs ++ rest) = Some (s, rest).
Proof. exact read_write_blob. Qed.
Print Assumptions read_write_str.

Theorem read_write_bytes : forall s bs rest, write_bytes s = Some bs -> read_bytes (bs ++ rest) = Some (s, rest).
Proof. exact read_write_blob. Qed.
Print Assumptions read_write_bytes.

Theorem write_str_prefix_free : forall a b ba bb r1 r2,
  write_str a = Some ba -> write_str b = Some bb -> ba ++ r1 = bb ++ r2 -> a = b /\ r1 = r2.
Proof. exact blob_prefix_free. Qed.
Print Assumptions write_str_prefix_free.

Theorem read_write_bool : forall b rest, read_bool (write_bool b ++ rest) = Some (b, rest).
Proof. exact ProofsPrim.read_write_bool. Qed.
Print Assumptions read_write_bool.

Theorem read_write_tag : forall t bs rest, write_tag t = Some bs -> read_tag (bs ++ rest) = Some (t, rest).
Proof. exact ProofsPrim.read_write_tag. Qed.
Print Assumptions read_write_tag.

Theorem read_write_float : forall f bs rest, write_float f = Some bs -> read_float (bs ++ rest) = Some (f, rest).
Proof. exact ProofsPrim.read_write_float. Qed.
Print Assumptions read_write_float.

Theorem flags_roundtrip : forall l : list bool, unpack (List.length l) (pack l) = l.
Proof. exact unpack_pack. Qed.
Print Assumptions flags_roundtrip.

(* L1: every matched writer/reader schema pair round-trips, for all values, given the same for
   nested objects and external codecs *)
Theorem schema_roundtrip :
  forall obj_write obj_read ext_write ext_read,
    (forall t fs bs rest, obj_write t fs = Some bs -> obj_read t (bs ++ rest) = Some (fs, rest)) ->
    (forall k p bs rest, ext_write k p = Some bs -> ext_read k (bs ++ rest) = Some (p, rest)) ->
    forall w r, ops_match w r = true ->
    forall vs bs rest,
      write_op obj_write ext_write w vs = Some (bs, []) -> fits r vs = Some [] ->
      read_op obj_read ext_read r (bs ++ rest) = Some (vs, rest).
Proof. exact schema_roundtrip_gen. Qed.
Print Assumptions schema_roundtrip.

Theorem schema_injective :
  forall obj_write obj_read ext_write ext_read,
    (forall t fs bs rest, obj_write t fs = Some bs -> obj_read t (bs ++ rest) = Some (fs, rest)) ->
    (forall k p bs rest, ext_write k p = Some bs -> ext_read k (bs ++ rest) = Some (p, rest)) ->
    forall w r, ops_match w r = true ->
    forall v1 v2 b1 b2 r1 r2,
      write_op obj_write ext_write w v1 = Some (b1, []) -> fits r v1 = Some [] ->
      write_op obj_write ext_write w v2 = Some (b2, []) -> fits r v2 = Some [] ->
      b1 ++ r1 = b2 ++ r2 -> v1 = v2 /\ r1 = r2.
Proof. exact schema_injective_gen. Qed.
Print Assumptions schema_injective.

(* the schemas regenerated from the current source all match *)
Theorem extracted_schemas_match : forallb entry_ok schemas = true.
Proof. exact all_match. Qed.
Print Assumptions extracted_schemas_match.

Theorem extracted_class_roundtrip_partial :
  forall obj_write obj_read ext_write ext_read,
    (forall t fs bs rest, obj_write t fs = Some bs -> obj_read t (bs ++ rest) = Some (fs, rest)) ->
    (forall k p bs rest, ext_write k p = Some bs -> ext_read k (bs ++ rest) = Some (p, rest)) ->
    forall name w r, In (name, (w, r)) schemas ->
    forall vs bs rest,
      write_op obj_write ext_write w vs = Some (bs, []) -> fits r vs = Some [] ->
      read_op obj_read ext_read r (bs ++ rest) = Some (vs, rest).
Proof. exact extracted_roundtrip. Qed.
Print Assumptions extracted_class_roundtrip_partial.

(* hypotheses are satisfiable on non-trivial data *)
Example hypotheses_satisfiable :
  ops_match demo_schema demo_schema = true /\
  (exists bs, write_op no_obj_w no_ext_w demo_schema demo_value = Some (bs, []) /\
              read_op no_obj_r no_ext_r demo_schema (bs ++ [7]) = Some (demo_value, [7])) /\
  fits demo_schema demo_value = Some [].
Proof. exact demo_hyps. Qed.

Example write_int_examples :
  write_int (-11) = Some [101; 1] /\ write_int 536860912 = Some [15; 36; 240; 216; 255; 31] /\
  write_int (- 2 ^ 64) = Some [15; 58; 0; 0; 0; 0; 0; 0; 0; 0; 1].
Proof. vm_compute. repeat split. Qed.
