(* C11 L2 — read_json_value (write_json_value v) = v for every JSON value (unbounded nesting) *)
From Coq Require Import ZArith List Bool Lia ZifyBool.
From C11 Require Import Prim ProofsPrim Schema Json.
Import ListNotations.
Open Scope Z_scope.

Ltac dbind H :=
  match type of H with
  | bind ?x _ = Some _ =>
      let E := fresh "E" in destruct x eqn:E; [cbn [bind] in H|discriminate H]
  end.

Section Inner.
  Variable k : nat.
  Variable rd : bytes -> option (value * bytes).
  Hypothesis Prd : forall v bs rest, jw v = Some bs -> (length bs < k)%nat -> rd (bs ++ rest) = Some (v, rest).

  Lemma items_ok : forall items b rest,
    wlist jw items = Some b -> (length b < k)%nat -> ritems rd (length items) (b ++ rest) = Some (items, rest).
  Proof.
    induction items as [|x r IH]; intros b rest H L; cbn [wlist] in H.
    - inversion H; subst. reflexivity.
    - dbind H. dbind H. inversion H; subst. rewrite app_length in L.
      cbn [length ritems]. rewrite <- app_assoc, (Prd _ _ _ E) by lia. cbn [bind].
      rewrite (IH _ _ eq_refl) by lia. reflexivity.
  Qed.

  Lemma rows_ok : forall rows b rest,
    wrows jw rows = Some b -> (length b < k)%nat -> rrows rd (length rows) (b ++ rest) = Some (rows, rest).
  Proof.
    induction rows as [|row r IH]; intros b rest H L; cbn [wrows] in H.
    - inversion H; subst. reflexivity.
    - destruct row as [|v1 row]; [discriminate|]. destruct v1; try discriminate.
      destruct row as [|x row]; [discriminate|]. destruct row; [|discriminate].
      dbind H. dbind H. dbind H. inversion H; subst. rewrite !app_length in L.
      cbn [length rrows]. unfold read_str. rewrite <- !app_assoc, (read_write_blob _ _ _ E). cbn [bind].
      rewrite (Prd _ _ _ E0) by lia. cbn [bind]. rewrite (IH _ _ eq_refl) by lia. reflexivity.
  Qed.
End Inner.

Lemma jr_jw : forall n v bs rest, jw v = Some bs -> (length bs < n)%nat -> jr n (bs ++ rest) = Some (v, rest).
Proof.
  induction n as [|k IH]; intros v bs rest H L; [lia|].
  destruct v; try discriminate; cbn [jw] in H.
  - (* int *) dbind H. inversion H; subst. cbn. now rewrite (read_write_int_opt _ _ _ E).
  - (* str *) dbind H. inversion H; subst. cbn. unfold read_str. now rewrite (read_write_blob _ _ _ E).
  - (* float *) dbind H. inversion H; subst. cbn. now rewrite (read_write_float _ _ _ E).
  - (* bool *) inversion H; subst. destruct b; reflexivity.
  - (* None *) inversion H; subst. reflexivity.
  - (* list *) dbind H. dbind H. inversion H; subst. cbn [length] in L. rewrite app_length in L.
    cbn [app jr]. unfold J_LIST, J_NONE, J_FALSE, J_TRUE, J_INT, J_STR. cbn [Z.eqb Pos.eqb].
    rewrite <- app_assoc, (read_write_int_opt _ _ _ E). cbn [bind]. unfold zlen. rewrite Nat2Z.id.
    rewrite (items_ok k (jr k) (IH) _ _ _ E0) by lia. reflexivity.
  - (* tuple *) dbind H. dbind H. inversion H; subst. cbn [length] in L. rewrite app_length in L.
    cbn [app jr]. unfold J_TUPLE, J_LIST, J_NONE, J_FALSE, J_TRUE, J_INT, J_STR. cbn [Z.eqb Pos.eqb].
    rewrite <- app_assoc, (read_write_int_opt _ _ _ E). cbn [bind]. unfold zlen. rewrite Nat2Z.id.
    rewrite (items_ok k (jr k) (IH) _ _ _ E0) by lia. reflexivity.
  - (* dict *) dbind H. dbind H. inversion H; subst. cbn [length] in L. rewrite app_length in L.
    cbn [app jr]. unfold J_DICT, J_TUPLE, J_LIST, J_NONE, J_FALSE, J_TRUE, J_INT, J_STR. cbn [Z.eqb Pos.eqb].
    rewrite <- app_assoc, (read_write_int_opt _ _ _ E). cbn [bind]. unfold zlen. rewrite Nat2Z.id.
    rewrite (rows_ok k (jr k) (IH) _ _ _ E0) by lia. reflexivity.
Qed.

Lemma json_codec_ok : forall k p bs rest, json_write k p = Some bs -> json_read k (bs ++ rest) = Some (p, rest).
Proof.
  intros k p bs rest H. unfold json_write in H. destruct p as [|v [|]]; try discriminate.
  assert (G : forall b, jw v = Some b -> bind (jr (S (length (b ++ rest))) (b ++ rest)) (fun '(v, r) => Some ([v], r)) = Some ([v], rest)).
  { intros b Hb. rewrite (jr_jw _ _ _ rest Hb); [reflexivity|]. rewrite app_length. lia. }
  unfold json_read. destruct (k =? 1).
  - destruct v; try discriminate. pose proof (G _ H) as G'. cbn [jw] in H. dbind H. dbind H. inversion H; subst.
    cbn [app]. unfold J_DICT at 1. rewrite Z.eqb_refl. exact G'.
  - exact (G _ H).
Qed.
