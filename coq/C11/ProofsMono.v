(* C11 L2 — the fuel of the recursive codec is only a bound on nesting depth: more fuel never changes a result *)
From Coq Require Import ZArith List Bool Lia.
From C11 Require Import Prim Schema ProofsSchema Json ProofsJson Types ProofsTypes.
From Gen Require Import Schemas.
Import ListNotations.
Open Scope Z_scope.

Section Mono.
  Variable ew : Z -> list value -> option bytes.
  Variables ow ow' : Z -> list value -> option bytes.
  Hypothesis Hw : forall t fs b, ow t fs = Some b -> ow' t fs = Some b.

  Lemma write_obj_mono : forall v b, write_obj ow v = Some b -> write_obj ow' v = Some b.
  Proof.
    intros v b H. destruct v; try discriminate. cbn in *. destruct (write_tag tag); [cbn in *|discriminate].
    destruct (ow tag fields) eqn:E; [|discriminate]. now rewrite (Hw _ _ _ E).
  Qed.

  Lemma write_op_mono : forall o vs r, write_op ow ew o vs = Some r -> write_op ow' ew o vs = Some r.
  Proof.
    induction o; intros vs r H; cbn [write_op] in *; try exact H.
    - destruct (write_op ow ew o1 vs) as [[x vs1]|] eqn:E1; [|discriminate]. rewrite (IHo1 _ _ E1). cbn [bind] in *.
      destruct (write_op ow ew o2 vs1) as [[y vs2]|] eqn:E2; [|discriminate]. now rewrite (IHo2 _ _ E2).
    - destruct vs as [|[] r0]; try discriminate; try exact H.
      destruct (write_op ow ew o fields) as [[x l]|] eqn:E; [|discriminate]. now rewrite (IHo _ _ E).
    - destruct vs as [|[] r0]; try discriminate.
      + destruct (write_op ow ew o1 fields) as [[x l]|] eqn:E; [|discriminate]. now rewrite (IHo1 _ _ E).
      + destruct (write_op ow ew o2 fields) as [[x l]|] eqn:E; [|discriminate]. now rewrite (IHo2 _ _ E).
    - destruct vs as [|[] r0]; try discriminate.
      destruct (write_int (zlen rows)); [cbn [bind] in *|discriminate].
      match type of H with bind ?g _ = _ => destruct g as [x|] eqn:G; [|discriminate] end.
      assert (G' : (fix go (rows : list (list value)) : option bytes :=
                      match rows with
                      | [] => Some []
                      | row :: rs => match write_op ow' ew o row with
                                     | Some (x, []) => bind (go rs) (fun y => Some (x ++ y))
                                     | _ => None
                                     end
                      end) rows = Some x).
      { clear H. revert x G. induction rows as [|row rs IHr]; intros x G; [exact G|].
        destruct (write_op ow ew o row) as [[a l]|] eqn:E; [|discriminate]. rewrite (IHo _ _ E).
        destruct l; [|discriminate].
        match type of G with bind ?g _ = _ => destruct g as [y|] eqn:G2; [|discriminate] end.
        now rewrite (IHr _ eq_refl). }
      now rewrite G'.
    - destruct vs as [|v r0]; [discriminate|]. destruct (write_obj ow v) eqn:E; [|discriminate]. now rewrite (write_obj_mono _ _ E).
    - destruct vs as [|v r0]; [discriminate|]. destruct (write_obj ow v) eqn:E; [|discriminate]. now rewrite (write_obj_mono _ _ E).
  Qed.
End Mono.

Section MonoFits.
  Variables f f' : Z -> list value -> bool.
  Hypothesis Hf : forall t fs, f t fs = true -> f' t fs = true.

  Lemma fits_mono : forall o vs r, fits f o vs = Some r -> fits f' o vs = Some r.
  Proof.
    induction o; intros vs r H; cbn [fits] in *; try exact H.
    - destruct (fits f o1 vs) eqn:E1; [|discriminate]. rewrite (IHo1 _ _ E1). cbn [bind] in *. now apply IHo2.
    - destruct vs as [|[] r0]; try discriminate; try exact H.
      destruct (fits f o fields) eqn:E; [|discriminate]. now rewrite (IHo _ _ E).
    - destruct vs as [|[] r0]; try discriminate.
      + destruct (fits f o1 fields) eqn:E; [|discriminate]. now rewrite (IHo1 _ _ E).
      + destruct (fits f o2 fields) eqn:E; [|discriminate]. now rewrite (IHo2 _ _ E).
    - destruct vs as [|[] r0]; try discriminate.
      match type of H with (if ?g then _ else _) = _ => destruct g eqn:G; [|discriminate] end.
      assert (G' : (fix go (rows : list (list value)) : bool :=
                      match rows with
                      | [] => true
                      | row :: rs => match fits f' o row with Some _ => go rs | None => false end
                      end) rows = true).
      { clear H. induction rows as [|row rs IHr]; [reflexivity|].
        destruct (fits f o row) eqn:E; [|discriminate]. rewrite (IHo _ _ E). now apply IHr. }
      now rewrite G'.
    - destruct vs as [|[] r0]; try discriminate.
      destruct (zmem tag tags); [|discriminate]. cbn [andb] in *.
      destruct (f tag fields) eqn:E; [|discriminate]. now rewrite (Hf _ _ E).
  Qed.
End MonoFits.

Lemma obj_write_mono : forall jw n t fs b, obj_write jw n t fs = Some b -> obj_write jw (S n) t fs = Some b.
Proof.
  induction n as [|k IH]; intros t fs b H; [discriminate|].
  cbn [obj_write] in *. unfold level_write in *. destruct (t =? INSTANCE).
  - unfold instance_write in *. destruct (is_plain fs); [exact H|].
    unfold full in *.
    destruct (write_op (obj_write jw k) (extw jw) inst_generic_w fs) as [[x l]|] eqn:E; [|discriminate].
    now rewrite (write_op_mono _ _ _ IH _ _ _ E).
  - destruct (lookup t all_classes) as [[w r]|]; [|discriminate]. unfold full in *.
    destruct (write_op (obj_write jw k) (extw jw) w fs) as [[x l]|] eqn:E; [|discriminate].
    now rewrite (write_op_mono _ _ _ IH _ _ _ E).
Qed.

Lemma obj_wf_mono : forall n t fs, obj_wf n t fs = true -> obj_wf (S n) t fs = true.
Proof.
  induction n as [|k IH]; intros t fs H; [discriminate|].
  cbn [obj_wf] in *. unfold level_fits in *. destruct (t =? INSTANCE).
  - unfold instance_fits in *. destruct (is_plain fs); [exact H|]. unfold fits_all in *.
    destruct (fits (obj_wf k) inst_generic_r fs) eqn:E; [|discriminate]. now rewrite (fits_mono _ _ IH _ _ _ E).
  - destruct (lookup t all_classes) as [[w r]|]; [|discriminate]. unfold fits_all in *.
    destruct (fits (obj_wf k) r fs) eqn:E; [|discriminate]. now rewrite (fits_mono _ _ IH _ _ _ E).
Qed.

Lemma obj_write_mono_le : forall jw n m t fs b, (n <= m)%nat -> obj_write jw n t fs = Some b -> obj_write jw m t fs = Some b.
Proof. intros jw n m t fs b L. induction L; intros H; [exact H|]. apply obj_write_mono. auto. Qed.
Lemma obj_wf_mono_le : forall n m t fs, (n <= m)%nat -> obj_wf n t fs = true -> obj_wf m t fs = true.
Proof. intros n m t fs L. induction L; intros H; [exact H|]. apply obj_wf_mono. auto. Qed.

(* written with any sufficient fuel, read back with any larger fuel *)
Lemma type_rt_any_fuel : forall n m v bs rest, (n <= m)%nat ->
  write_type json_write n v = Some bs -> wf_type n v = true -> read_type json_read m (bs ++ rest) = Some (v, rest).
Proof.
  intros n m v bs rest L HW HF. apply (type_rt json_write json_read json_codec_ok m).
  - destruct v; try discriminate. cbn [write_type] in *. destruct (zmem tag tbl_read_type); [|discriminate].
    destruct (obj_write json_write n tag fields) eqn:E; [|discriminate]. now rewrite (obj_write_mono_le _ _ _ _ _ _ L E).
  - destruct v; try discriminate. cbn [wf_type] in *. destruct (zmem tag tbl_read_type); [|discriminate]. cbn [andb] in *.
    now apply (obj_wf_mono_le n m).
Qed.
