(* C11 L1 — the generic schema round-trip theorem: for every schema, every value *)
From Coq Require Import ZArith List Bool Lia ZifyBool.
From C11 Require Import Prim ProofsPrim Schema.
Import ListNotations.
Open Scope Z_scope.

Lemma zlist_eqb_eq : forall a b, zlist_eqb a b = true -> a = b.
Proof.
  induction a; destruct b; cbn; try discriminate; auto.
  intros H. apply andb_prop in H as [H1 H2]. f_equal; [lia|auto].
Qed.

Lemma op_eqb_eq : forall a b, op_eqb a b = true -> a = b.
Proof.
  induction a; destruct b; cbn; try discriminate; auto; intros H;
    try (apply andb_prop in H as [H1 H2]; f_equal; auto; fail);
    try (f_equal; auto; fail);
    try (f_equal; lia);
    try (f_equal; now apply Nat.eqb_eq);
    try (f_equal; now apply zlist_eqb_eq).
Qed.

Lemma unpack_pack : forall l, unpack (length l) (pack l) = l.
Proof.
  unfold unpack. induction l as [|b r IH]; [reflexivity|].
  cbn [length seq map pack]. f_equal.
  - apply Z.testbit_0_r.
  - rewrite <- seq_shift, map_map. rewrite <- IH at 2. apply map_ext. intros i.
    rewrite Nat2Z.inj_succ. apply Z.testbit_succ_r. lia.
Qed.

Ltac dbind H :=
  match type of H with
  | bind ?x _ = Some _ =>
      let E := fresh "E" in destruct x eqn:E; [cbn [bind] in H|discriminate H]
  end.

Section Proofs.
  Variable obj_write : Z -> list value -> option bytes.
  Variable obj_read : Z -> bytes -> option (list value * bytes).
  Variable ext_write : Z -> list value -> option bytes.
  Variable ext_read : Z -> bytes -> option (list value * bytes).
  Variable obj_fits : Z -> list value -> bool.
  Hypothesis obj_ok : forall t fs bs rest,
    obj_write t fs = Some bs -> obj_fits t fs = true -> obj_read t (bs ++ rest) = Some (fs, rest).
  Hypothesis ext_ok : forall k p bs rest,
    ext_write k p = Some bs -> ext_read k (bs ++ rest) = Some (p, rest).

  Notation write_op := (write_op obj_write ext_write).
  Notation read_op := (read_op obj_read ext_read).
  Notation fits := (fits obj_fits).

  Lemma write_erase : forall r vs, write_op (erase r) vs = write_op r vs.
  Proof.
    induction r; intros vs; cbn [erase Schema.write_op]; try reflexivity.
    - rewrite IHr1. destruct (write_op r1 vs) as [[x vs1]|]; cbn [bind]; [|reflexivity].
      now rewrite IHr2.
    - destruct vs as [|[] r0]; try reflexivity. now rewrite IHr.
    - destruct vs as [|[] r0]; try reflexivity; [now rewrite IHr1|now rewrite IHr2].
    - destruct vs as [|[] r0]; try reflexivity.
      destruct (write_int (zlen rows)); cbn [bind]; [|reflexivity].
      f_equal. induction rows as [|row rs IHrows]; [reflexivity|].
      rewrite IHr. destruct (write_op r row) as [[x []]|]; try reflexivity. now rewrite IHrows.
  Qed.

  (* what [leads] promises *)
  Lemma leads_ok : forall o vs bs vs' vr,
    leads o = true -> write_op o vs = Some (bs, vs') -> fits o vs = Some vr ->
    exists b r, bs = b :: r /\ b <> LITERAL_NONE.
  Proof.
    induction o; intros vs bs vs' vr HL HW HF; cbn [leads] in HL; try discriminate.
    - cbn [Schema.write_op] in HW. dbind HW. destruct p as [x vs1]. dbind HW. destruct p as [y vs2].
      inversion HW; subst. cbn [Schema.fits] in HF. destruct (fits o1 vs) eqn:F1; [|discriminate].
      destruct (IHo1 _ _ _ _ HL E F1) as (b & r & -> & Hb). exists b, (r ++ y). split; [reflexivity|exact Hb].
    - cbn [Schema.write_op] in HW. unfold write_tag in HW.
      destruct ((0 <=? t) && (t <=? 255)); [|discriminate]. cbn [bind] in HW. inversion HW; subst.
      exists t, []. split; [reflexivity|]. lia.
    - cbn [Schema.write_op] in HW. destruct vs as [|[] r0]; try discriminate.
      inversion HW; subst. destruct b; eexists; eexists; (split; [reflexivity|]); unfold LITERAL_NONE; lia.
    - cbn [Schema.write_op] in HW. destruct vs as [|[] r0]; try discriminate.
      destruct (_ && _); [|discriminate]. dbind HW. inversion HW; subst.
      eexists; eexists; split; [reflexivity|]. unfold LITERAL_INT, LITERAL_NONE. lia.
    - cbn [Schema.write_op Schema.fits] in *. destruct vs as [|[] r0]; try discriminate.
      destruct (zmem tag tags) eqn:M; [|discriminate].
      dbind HW. inversion HW; subst. unfold write_obj in E. dbind E. dbind E. inversion E; subst.
      unfold write_tag in E0. destruct (_ && _); [|discriminate]. inversion E0; subst.
      exists tag, (b0 ++ []). split; [now rewrite app_nil_r|].
      intros ->. rewrite M in HL. discriminate.
  Qed.

  Lemma roundtrip_op : forall o vs bs vs' vr,
    wf o = true -> write_op o vs = Some (bs, vs') -> fits o vs = Some vr ->
    exists used, vs = used ++ vs' /\ vr = vs' /\ forall rest, read_op o (bs ++ rest) = Some (used, rest).
  Proof.
    induction o; intros vs bs vs' vr HWF HW HF; cbn [Schema.write_op Schema.fits wf] in *.
    - (* Skip *) inversion HW; inversion HF; subst. exists []. repeat split; auto.
    - (* Seq *) apply andb_prop in HWF as [W1 W2].
      dbind HW. destruct p as [x vs1]. dbind HW. destruct p as [y vs2]. inversion HW; subst.
      destruct (fits o1 vs) eqn:F1; [cbn [bind] in HF|discriminate].
      destruct (IHo1 _ _ _ _ W1 E F1) as (u1 & -> & -> & R1).
      destruct (IHo2 _ _ _ _ W2 E0 HF) as (u2 & -> & -> & R2).
      exists (u1 ++ u2). split; [now rewrite app_assoc|]. split; [reflexivity|].
      intros rest. cbn [Schema.read_op]. rewrite <- app_assoc, R1. cbn [bind]. rewrite R2. reflexivity.
    - (* Tag *) dbind HW. inversion HW; inversion HF; subst. exists []. repeat split; auto.
      intros rest. cbn [Schema.read_op]. rewrite (read_write_tag _ _ _ E). cbn [bind]. now rewrite Z.eqb_refl.
    - (* IntBare *) destruct vs as [|[] r0]; try discriminate. dbind HW. inversion HW; inversion HF; subst.
      exists [VInt z]. repeat split; auto. intros rest. cbn [Schema.read_op].
      now rewrite (read_write_int_opt _ _ _ E).
    - (* StrBare *) destruct vs as [|[] r0]; try discriminate. dbind HW. inversion HW; inversion HF; subst.
      exists [VStr s]. repeat split; auto. intros rest. cbn [Schema.read_op]. unfold read_str.
      now rewrite (read_write_blob _ _ _ E).
    - (* BytesBare *) destruct vs as [|[] r0]; try discriminate. dbind HW. inversion HW; inversion HF; subst.
      exists [VBytes s]. repeat split; auto. intros rest. cbn [Schema.read_op]. unfold read_bytes.
      now rewrite (read_write_blob _ _ _ E).
    - (* FloatBare *) destruct vs as [|[] r0]; try discriminate. dbind HW. inversion HW; inversion HF; subst.
      exists [VFloat f]. repeat split; auto. intros rest. cbn [Schema.read_op].
      now rewrite (read_write_float _ _ _ E).
    - (* Bool *) destruct vs as [|[] r0]; try discriminate. inversion HW; inversion HF; subst.
      exists [VBool b]. repeat split; auto. intros rest. cbn [Schema.read_op].
      now rewrite read_write_bool.
    - (* Flags *) destruct vs as [|[] r0]; try discriminate.
      destruct ((length l =? n)%nat && (n <=? 26)%nat) eqn:G; [|discriminate].
      dbind HW. inversion HW; inversion HF; subst.
      exists [VFlags l]. repeat split; auto. intros rest. cbn [Schema.read_op app read_tag bind].
      rewrite Z.eqb_refl, (read_write_int_opt _ _ _ E). cbn [bind].
      apply andb_prop in G as [G _]. apply Nat.eqb_eq in G. subst n. now rewrite unpack_pack.
    - (* Opt *) apply andb_prop in HWF as [W1 W2].
      destruct vs as [|[] r0]; try discriminate.
      + inversion HW; inversion HF; subst. exists [VNone]. repeat split; auto.
      + destruct (write_op o fields) as [[x [|]]|] eqn:E; try discriminate. inversion HW; subst.
        destruct (fits o fields) eqn:F; [|discriminate]. inversion HF; subst.
        destruct (IHo _ _ _ _ W1 E F) as (u & Hu & -> & R). rewrite app_nil_r in Hu. subst u.
        destruct (leads_ok _ _ _ _ _ W2 E F) as (b & r & -> & Hb).
        exists [VSome fields]. repeat split; auto. intros rest. cbn [Schema.read_op app].
        replace (b =? LITERAL_NONE) with false by lia.
        change (b :: r ++ rest) with ((b :: r) ++ rest). now rewrite R.
    - (* OptElse *) apply andb_prop in HWF as [W12 W3]. apply andb_prop in W12 as [W1 W2].
      destruct vs as [|[] r0]; try discriminate.
      + destruct (write_op o1 fields) as [[x [|]]|] eqn:E; try discriminate. inversion HW; subst.
        destruct (fits o1 fields) eqn:F; [|discriminate]. inversion HF; subst.
        destruct (IHo1 _ _ _ _ W1 E F) as (u & Hu & -> & R). rewrite app_nil_r in Hu. subst u.
        destruct (leads_ok _ _ _ _ _ W2 E F) as (b & r & -> & Hb).
        exists [VSome fields]. repeat split; auto. intros rest. cbn [Schema.read_op app].
        replace (b =? LITERAL_NONE) with false by lia.
        change (b :: r ++ rest) with ((b :: r) ++ rest). now rewrite R.
      + destruct (write_op o2 fields) as [[y [|]]|] eqn:E; try discriminate. inversion HW; subst.
        destruct (fits o2 fields) eqn:F; [|discriminate]. inversion HF; subst.
        destruct (IHo2 _ _ _ _ W3 E F) as (u & Hu & -> & R). rewrite app_nil_r in Hu. subst u.
        exists [VElse fields]. repeat split; auto. intros rest. cbn [Schema.read_op app].
        rewrite Z.eqb_refl. now rewrite R.
    - (* Rep *) destruct vs as [|[] r0]; try discriminate.
      dbind HW. dbind HW. inversion HW; subst. clear HW.
      match type of HF with (if ?c then _ else _) = _ => destruct c eqn:F; [|discriminate] end.
      inversion HF; subst. exists [VRep rows]. repeat split; auto. intros rest.
      cbn [Schema.read_op]. rewrite <- app_assoc, (read_write_int_opt _ _ _ E). cbn [bind].
      unfold zlen. rewrite Nat2Z.id.
      assert (R : read_rows (read_op o) (length rows) (b0 ++ rest) = Some (rows, rest)).
      { clear E. revert b0 E0 F. induction rows as [|row rs IHrows]; intros b0 E0 F.
        - inversion E0; subst. reflexivity.
        - destruct (write_op o row) as [[x [|]]|] eqn:Ew; try discriminate.
          match type of E0 with bind ?x _ = Some _ => destruct x eqn:Ego; [cbn [bind] in E0|discriminate E0] end.
          inversion E0; subst.
          destruct (fits o row) eqn:Fr; [|discriminate].
          destruct (IHo _ _ _ _ HWF Ew Fr) as (u & Hu & -> & R). rewrite app_nil_r in Hu. subst u.
          cbn [length read_rows]. rewrite <- app_assoc, R. cbn [bind].
          rewrite (IHrows _ eq_refl F). reflexivity. }
      now rewrite R.
    - (* Dyn *) discriminate.
    - (* Nested *) destruct vs as [|v r0]; try discriminate. destruct v; try discriminate.
      destruct (zmem tag tags) eqn:M; [|discriminate]. destruct (obj_fits tag fields) eqn:OF; [|discriminate].
      cbn [andb] in HF.
      dbind HW. inversion HW; inversion HF; subst. unfold write_obj in E. dbind E. dbind E. inversion E; subst.
      exists [VObj tag fields]. repeat split; auto. intros rest. cbn [Schema.read_op].
      rewrite <- app_assoc, (read_write_tag _ _ _ E0). cbn [bind]. rewrite M.
      now rewrite (obj_ok _ _ _ _ E1 OF).
    - (* Ext *) destruct vs as [|[] r0]; try discriminate.
      destruct (k0 =? k) eqn:K; [|discriminate]. dbind HW. inversion HW; inversion HF; subst.
      assert (k0 = k) by lia. subst k0.
      exists [VExt k payload]. repeat split; auto. intros rest. cbn [Schema.read_op].
      now rewrite (ext_ok _ _ _ _ E).
  Qed.

  Theorem schema_roundtrip_gen : forall w r,
    ops_match w r = true ->
    forall vs bs rest,
      write_op w vs = Some (bs, []) -> fits r vs = Some [] ->
      read_op r (bs ++ rest) = Some (vs, rest).
  Proof.
    intros w r HM vs bs rest HW HF. unfold ops_match in HM. apply andb_prop in HM as [HE HWF].
    apply op_eqb_eq in HE. subst w. rewrite write_erase in HW.
    destruct (roundtrip_op _ _ _ _ _ HWF HW HF) as (u & Hu & _ & R).
    rewrite app_nil_r in Hu. subst u. apply R.
  Qed.

  (* prefix-freeness of every matched schema: distinct values never share an encoding prefix *)
  Theorem schema_injective_gen : forall w r,
    ops_match w r = true ->
    forall v1 v2 b1 b2 r1 r2,
      write_op w v1 = Some (b1, []) -> fits r v1 = Some [] ->
      write_op w v2 = Some (b2, []) -> fits r v2 = Some [] ->
      b1 ++ r1 = b2 ++ r2 -> v1 = v2 /\ r1 = r2.
  Proof.
    intros w r HM v1 v2 b1 b2 r1 r2 W1 F1 W2 F2 H.
    pose proof (schema_roundtrip_gen w r HM v1 b1 r1 W1 F1) as P1.
    pose proof (schema_roundtrip_gen w r HM v2 b2 r2 W2 F2) as P2.
    rewrite H in P1. rewrite P1 in P2. now inversion P2.
  Qed.
End Proofs.
