(* C11 — the JSON cache format of a class as a keyed schema over abstract JSON values: serialize() builds an object
   {".class": name, key_1: enc_1(field_1), ...}, deserialize() looks every key up.  Executable definitions only.
   Field values are the same [value]s the binary schema layer uses, so both formats can be compared on values. *)
From Coq Require Import ZArith List Bool.
From C11 Require Import Prim Schema JsonText.
Import ListNotations.
Open Scope Z_scope.

Inductive jop :=
| JI                      (* int field:   data[k] *)
| JS                      (* str field (code points) *)
| JB                      (* bool field *)
| JOpt (body : jop)       (* None -> null, else body *)
| JList (body : jop)      (* [enc(x) for x in field] *)
| JPairs (body : jop)     (* [[key, enc(v)] for key, v in field.items()]  (TypedDict items) *)
| JFlagsNames (names : list (list Z))   (* get_flags(self, FLAGS): the names of the set flags *)
| JNested.                (* x.serialize() / deserialize_type(data[k]): by parameter *)

Definition enc_list (f : value -> option json) : list (list value) -> option (list json) :=
  fix go rows := match rows with
                 | [] => Some []
                 | [x] :: rs => bind (f x) (fun a => bind (go rs) (fun b => Some (a :: b)))
                 | _ => None
                 end.
Definition enc_pairs (f : value -> option json) : list (list value) -> option (list json) :=
  fix go rows := match rows with
                 | [] => Some []
                 | [VStr k; x] :: rs => bind (f x) (fun a => bind (go rs) (fun b => Some (JArr [JStr k; a] :: b)))
                 | _ => None
                 end.
Definition dec_list (g : json -> option value) : list json -> option (list (list value)) :=
  fix go l := match l with
              | [] => Some []
              | a :: r => bind (g a) (fun x => bind (go r) (fun b => Some ([x] :: b)))
              end.
Definition dec_pairs (g : json -> option value) : list json -> option (list (list value)) :=
  fix go l := match l with
              | [] => Some []
              | JArr [JStr k; a] :: r => bind (g a) (fun x => bind (go r) (fun b => Some ([VStr k; x] :: b)))
              | _ => None
              end.

Section JCodec.
  Variable nested_enc : value -> option json.
  Variable nested_dec : json -> option value.

  Fixpoint flags_enc (names : list (list Z)) (l : list bool) : option (list json) :=
    match names, l with
    | [], [] => Some []
    | n :: ns, b :: bs => bind (flags_enc ns bs) (fun r => Some (if b then JStr n :: r else r))
    | _, _ => None
    end.
  Fixpoint jstr_mem (n : list Z) (l : list json) : bool :=
    match l with
    | [] => false
    | JStr s :: r => zlist_eqb s n || jstr_mem n r
    | _ :: r => jstr_mem n r
    end.

  Fixpoint jenc (o : jop) (v : value) {struct o} : option json :=
    match o, v with
    | JI, VInt z => Some (JInt z)
    | JS, VStr s => Some (JStr s)
    | JB, VBool b => Some (JBool b)
    | JOpt _, VNone => Some JNull
    | JOpt body, VSome [x] => match jenc body x with Some JNull => None | r => r end
    | JList body, VRep rows => bind (enc_list (jenc body) rows) (fun l => Some (JArr l))
    | JPairs body, VRep rows => bind (enc_pairs (jenc body) rows) (fun l => Some (JArr l))
    | JFlagsNames names, VFlags l => bind (flags_enc names l) (fun r => Some (JArr r))
    | JNested, _ => nested_enc v
    | _, _ => None
    end.

  Fixpoint jdec (o : jop) (j : json) {struct o} : option value :=
    match o, j with
    | JI, JInt z => Some (VInt z)
    | JS, JStr s => Some (VStr s)
    | JB, JBool b => Some (VBool b)
    | JOpt _, JNull => Some VNone
    | JOpt body, _ => bind (jdec body j) (fun x => Some (VSome [x]))
    | JList body, JArr l => bind (dec_list (jdec body) l) (fun rows => Some (VRep rows))
    | JPairs body, JArr l => bind (dec_pairs (jdec body) l) (fun rows => Some (VRep rows))
    | JFlagsNames names, JArr l => Some (VFlags (map (fun n => jstr_mem n l) names))
    | JNested, _ => nested_dec j
    | _, _ => None
    end.

  (* a class: ordered (key, op) list; the value is the field list in the same order *)
  Definition jschema := list (list Z * jop).

  Fixpoint jser_fields (s : jschema) (vs : list value) : option (list (list Z * json)) :=
    match s, vs with
    | [], [] => Some []
    | (k, o) :: s', v :: vs' => bind (jenc o v) (fun j => bind (jser_fields s' vs') (fun r => Some ((k, j) :: r)))
    | _, _ => None
    end.
  Definition jser (s : jschema) (vs : list value) : option json := bind (jser_fields s vs) (fun m => Some (JObj m)).

  Fixpoint jlookup (k : list Z) (m : list (list Z * json)) : option json :=
    match m with
    | [] => None
    | (k', j) :: r => if zlist_eqb k' k then Some j else jlookup k r
    end.
  Fixpoint jdeser_fields (s : jschema) (m : list (list Z * json)) : option (list value) :=
    match s with
    | [] => Some []
    | (k, o) :: s' => bind (jlookup k m) (fun j => bind (jdec o j) (fun v => bind (jdeser_fields s' m) (fun r => Some (v :: r))))
    end.
  Definition jdeser (s : jschema) (j : json) : option (list value) :=
    match j with JObj m => jdeser_fields s m | _ => None end.
End JCodec.

(* keys pairwise distinct (keys_match on the reader side: the same key list is used by construction) *)
Fixpoint key_mem (k : list Z) (l : list (list Z)) : bool :=
  match l with [] => false | x :: r => zlist_eqb x k || key_mem k r end.
Fixpoint keys_distinct (l : list (list Z)) : bool :=
  match l with [] => true | x :: r => negb (key_mem x r) && keys_distinct r end.
Fixpoint names_distinct_op (o : jop) : bool :=
  match o with
  | JFlagsNames names => keys_distinct names
  | JOpt b | JList b | JPairs b => names_distinct_op b
  | _ => true
  end.
Definition jschema_ok (s : list (list Z * jop)) : bool :=
  keys_distinct (map fst s) && forallb (fun e => names_distinct_op (snd e)) s.
