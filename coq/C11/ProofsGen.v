(* C11 — the schemas extracted from the current /repo text all match (closed by computation),
   hence every extracted class / helper pair round-trips for all values. *)
From Coq Require Import ZArith List String Bool.
From C11 Require Import Prim Schema ProofsPrim ProofsSchema.
From Gen Require Import Schemas.
Import ListNotations.
Open Scope Z_scope.

Definition entry_ok (e : string * (op * op)) : bool := ops_match (fst (snd e)) (snd (snd e)).

Lemma all_match : forallb entry_ok schemas = true.
Proof. vm_compute. reflexivity. Qed.

Lemma extracted_roundtrip :
  forall obj_write obj_read ext_write ext_read,
    (forall t fs bs rest, obj_write t fs = Some bs -> obj_read t (bs ++ rest) = Some (fs, rest)) ->
    (forall k p bs rest, ext_write k p = Some bs -> ext_read k (bs ++ rest) = Some (p, rest)) ->
    forall name w r, In (name, (w, r)) schemas ->
    forall vs bs rest,
      write_op obj_write ext_write w vs = Some (bs, []) -> fits r vs = Some [] ->
      read_op obj_read ext_read r (bs ++ rest) = Some (vs, rest).
Proof.
  intros ow or ew er Ho He name w r Hin.
  pose proof (proj1 (forallb_forall _ _) all_match _ Hin) as HM. cbn in HM.
  exact (schema_roundtrip_gen ow or ew er Ho He w r HM).
Qed.

(* a non-trivial instance: CacheMetaEx-like record with an optional str and a huge int *)
Definition demo_schema : op :=
  seq_of [Tag 22; Rep (seq_of [StrBare]); Opt (seq_of [Tag 4; StrBare]); Tag 3; IntBare; Flags 3%nat; Bool].
Definition demo_value : list value :=
  [VRep [[VStr [97; 98]]; [VStr []]]; VSome [VStr [195; 169]]; VInt (-(2 ^ 70)); VFlags [true; false; true]; VBool true].
Definition no_obj_w (t : Z) (fs : list value) : option bytes := None.
Definition no_obj_r (t : Z) (bs : bytes) : option (list value * bytes) := None.
Definition no_ext_w (k : Z) (p : list Z) : option bytes := None.
Definition no_ext_r (k : Z) (bs : bytes) : option (list Z * bytes) := None.

Lemma demo_hyps :
  ops_match demo_schema demo_schema = true /\
  (exists bs, write_op no_obj_w no_ext_w demo_schema demo_value = Some (bs, []) /\
              read_op no_obj_r no_ext_r demo_schema (bs ++ [7]) = Some (demo_value, [7])) /\
  fits demo_schema demo_value = Some [].
Proof. split; [vm_compute; reflexivity|]. split; [eexists; split; vm_compute; reflexivity|vm_compute; reflexivity]. Qed.
