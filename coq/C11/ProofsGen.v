(* C11 — the schemas extracted from the current /repo text all match (closed by computation),
   hence every extracted class / helper pair round-trips for all values. *)
From Coq Require Import ZArith List String Bool Lia.
From C11 Require Import Prim Schema Tables ProofsPrim ProofsSchema Json ProofsJson Types ProofsTypes JsonText ProofsJsonText JsonSchema ProofsJsonSchema JsonObj ProofsJsonObj Fixup ProofsFixup.
From Gen Require Import Schemas.
Import ListNotations.
Open Scope Z_scope.

Definition entry_ok (e : string * (op * op)) : bool := ops_match (fst (snd e)) (snd (snd e)).

Lemma all_match : forallb entry_ok schemas = true.
Proof. vm_compute. reflexivity. Qed.

Lemma extracted_roundtrip :
  forall obj_write obj_read ext_write ext_read obj_fits,
    (forall t fs bs rest, obj_write t fs = Some bs -> obj_fits t fs = true -> obj_read t (bs ++ rest) = Some (fs, rest)) ->
    (forall k p bs rest, ext_write k p = Some bs -> ext_read k (bs ++ rest) = Some (p, rest)) ->
    forall name w r, In (name, (w, r)) schemas ->
    forall vs bs rest,
      write_op obj_write ext_write w vs = Some (bs, []) -> fits obj_fits r vs = Some [] ->
      read_op obj_read ext_read r (bs ++ rest) = Some (vs, rest).
Proof.
  intros ow or ew er of Ho He name w r Hin.
  pose proof (proj1 (forallb_forall _ _) all_match _ Hin) as HM. cbn in HM.
  exact (schema_roundtrip_gen ow or ew er of Ho He w r HM).
Qed.

(* ---- tables: field names of writer and reader agree position by position; the two formats store the same
   attributes; serialize() and deserialize() use the same JSON keys *)
Definition names_ok (e : string * (list string * list string)) : bool := names_match (fst (snd e)) (snd (snd e)).
Definition format_ok (e : string * (list string * list string * list string)) : bool :=
  fields_agree (fst (fst (snd e))) (snd (fst (snd e))) (snd (snd e)).
Definition keys_ok (e : string * (list string * list string)) : bool := str_set_eqb (fst (snd e)) (snd (snd e)).

Lemma names_all_match : forallb names_ok names = true.
Proof. vm_compute. reflexivity. Qed.

Lemma formats_agree_table : forallb format_ok format_fields = true /\ forallb keys_ok json_keys = true.
Proof. split; vm_compute; reflexivity. Qed.

Lemma set_fields_sorted : forallb (fun e : string * string * (bool * bool) => fst (snd e) && snd (snd e)) set_fields = true.
Proof. vm_compute. reflexivity. Qed.

(* every attribute fixup.py assigns / rebuilds is compared by the structural walk of stage S *)
Lemma fixup_covered : str_subset fixup_assigns walk_coverage = true.
Proof. vm_compute. reflexivity. Qed.

(* the fixup visitor of every class touches every slot of that class that can hold a TypeInfo / alias reference *)
Definition ref_row_ok (e : string * (list string * list string * list string)) : bool :=
  str_subset (fst (fst (snd e))) (snd (fst (snd e)) ++ snd (snd e)).
Lemma fixup_visits_all : forallb ref_row_ok ref_slots = true.
Proof. vm_compute. reflexivity. Qed.

(* for the classes listed in json_ops_confirmed every key's JSON op agrees with the shape extracted from serialize();
   the remaining classes of json_schemas are listed in json_ops_derived_only *)
Lemma json_ops_table :
  forallb (class_shapes_ok json_op_shapes) json_ops_confirmed = true /\
  str_set_eqb (json_ops_confirmed ++ json_ops_derived_only) (map fst json_schemas) = true /\
  forallb (fun c => negb (str_mem c json_ops_derived_only)) json_ops_confirmed = true.
Proof. repeat split; vm_compute; reflexivity. Qed.

Definition jentry_ok (e : string * (op * op * list (list Z * jop))) : bool :=
  ops_match (fst (fst (snd e))) (snd (fst (snd e))) && jschema_ok (snd (snd e)).
Lemma json_schemas_ok : forallb jentry_ok json_schemas = true.
Proof. vm_compute. reflexivity. Qed.

(* for every class with an extracted binary schema and a derived JSON schema: both formats decode to the same fields *)
Lemma extracted_formats_agree :
  forall ow or ew er of ne nd,
    (forall t fs bs rest, ow t fs = Some bs -> of t fs = true -> or t (bs ++ rest) = Some (fs, rest)) ->
    (forall k p bs rest, ew k p = Some bs -> er k (bs ++ rest) = Some (p, rest)) ->
    (forall v j, ne v = Some j -> nd j = Some v) ->
    forall name w r s, In (name, (w, r, s)) json_schemas ->
    forall vs bs j,
      write_op ow ew w vs = Some (bs, []) -> fits of r vs = Some [] -> jser ne s vs = Some j -> jvalid j ->
      bind (read_op or er r bs) (fun x => Some (fst x)) = bind (json_loads (json_dumps j)) (jdeser nd s).
Proof.
  intros ow or ew er of ne nd Ho He Hn name w r s Hin.
  pose proof (proj1 (forallb_forall _ _) json_schemas_ok _ Hin) as HM. unfold jentry_ok in HM. cbn in HM.
  apply andb_prop in HM as [H1 H2].
  exact (formats_agree_on_values ow or ew er of ne nd Ho He Hn w r s H1 H2).
Qed.

(* ---- the closed development: concrete recursive codec, no hypotheses left *)
Definition OW := obj_write json_write.
Definition OR := obj_read json_read.
Definition EW := extw json_write.
Definition ER := extr json_read.

Lemma closed_obj : forall n t fs bs rest,
  OW n t fs = Some bs -> obj_wf n t fs = true -> OR n t (bs ++ rest) = Some (fs, rest).
Proof. exact (obj_ok json_write json_read json_codec_ok). Qed.

Lemma closed_type : forall n v bs rest,
  write_type json_write n v = Some bs -> wf_type n v = true -> read_type json_read n (bs ++ rest) = Some (v, rest).
Proof. exact (type_rt json_write json_read json_codec_ok). Qed.

Lemma closed_file : forall n fs bs rest,
  write_file json_write n fs = Some bs -> obj_wf n MYPY_FILE fs = true -> read_file json_read n (bs ++ rest) = Some (fs, rest).
Proof. exact (file_rt json_write json_read json_codec_ok). Qed.

Lemma closed_extracted : forall n name w r, In (name, (w, r)) schemas ->
  forall vs bs rest,
    write_op (OW n) EW w vs = Some (bs, []) -> fits (obj_wf n) r vs = Some [] ->
    read_op (OR n) ER r (bs ++ rest) = Some (vs, rest).
Proof. exact (extracted_rt_closed json_write json_read json_codec_ok). Qed.

(* formats agree on values with the CONCRETE recursive binary codec (all nested objects, Instance fast paths, literal
   and JSON-value codecs discharged): the only remaining hypothesis is the round trip of the JSON encoding of nested
   objects (x.serialize() / deserialize_type) *)
Lemma formats_agree_binary_closed :
  forall n ne nd, (forall v j, ne v = Some j -> nd j = Some v) ->
  forall name w r s, In (name, (w, r, s)) json_schemas ->
  forall vs bs j,
    write_op (OW n) EW w vs = Some (bs, []) -> fits (obj_wf n) r vs = Some [] -> jser ne s vs = Some j -> jvalid j ->
    bind (read_op (OR n) ER r bs) (fun x => Some (fst x)) = bind (json_loads (json_dumps j)) (jdeser nd s).
Proof.
  intros n ne nd Hn. apply (extracted_formats_agree (OW n) (OR n) EW ER (obj_wf n) ne nd); [|exact (ext_ok json_write json_read json_codec_ok)|exact Hn].
  exact (closed_obj n).
Qed.

(* ... and with the concrete recursive JSON object codec (all keyed schema classes + Instance): no hypotheses left *)
Lemma formats_agree_closed :
  forall n m name w r s, In (name, (w, r, s)) json_schemas ->
  forall vs bs j,
    write_op (OW n) EW w vs = Some (bs, []) -> fits (obj_wf n) r vs = Some [] -> jser (jo_enc m) s vs = Some j -> jvalid j ->
    bind (read_op (OR n) ER r bs) (fun x => Some (fst x)) = bind (json_loads (json_dumps j)) (jdeser (jo_dec m) s).
Proof. intros n m. exact (formats_agree_binary_closed n (jo_enc m) (jo_dec m) (jo_codec_ok m)). Qed.

(* injectivity of the whole data-file encoding: equal bytes => equal (abstract) trees *)
Lemma closed_file_injective : forall n f1 f2 b,
  write_file json_write n f1 = Some b -> write_file json_write n f2 = Some b ->
  obj_wf n MYPY_FILE f1 = true -> obj_wf n MYPY_FILE f2 = true -> f1 = f2.
Proof.
  intros n f1 f2 b W1 W2 F1 F2.
  pose proof (closed_file n f1 b [] W1 F1) as P1. pose proof (closed_file n f2 b [] W2 F2) as P2.
  rewrite P1 in P2. now inversion P2.
Qed.

(* a nested type: dict[str, list[int] | None] as Instance values, written and read back *)
Definition t_int : value := VObj INSTANCE (plain_value n_int).
Definition t_str : value := VObj INSTANCE (plain_value n_str).
Definition t_none : value := VObj NONE_TYPE [].
Definition t_list_int : value := VObj INSTANCE [VStr [108; 105; 115; 116]; VRep [[t_int]]; VNone; VNone].
Definition t_union : value := VObj UNION_TYPE [VRep [[t_list_int]; [t_none]]; VBool true].
Definition t_dict : value := VObj INSTANCE [VStr [100; 105; 99; 116]; VRep [[t_str]; [t_union]]; VNone; VNone].

Lemma demo_type :
  wf_type 6 t_dict = true /\
  exists bs, write_type json_write 6 t_dict = Some bs /\ read_type json_read 6 (bs ++ [9]) = Some (t_dict, [9]).
Proof. split; [vm_compute; reflexivity|]. eexists; split; [vm_compute; reflexivity|vm_compute; reflexivity]. Qed.

(* a nested type through the JSON object codec and the JSON text *)
Lemma demo_json_type : exists j, jo_enc 6 t_dict = Some j /\ jo_dec 6 j = Some t_dict.
Proof. eexists. split; [vm_compute; reflexivity|vm_compute; reflexivity]. Qed.



(* a non-trivial instance: CacheMetaEx-like record with an optional str and a huge int *)
Definition demo_schema : op :=
  seq_of [Tag 22; Rep (seq_of [StrBare]); Opt (seq_of [Tag 4; StrBare]); Tag 3; IntBare; Flags 3%nat; Bool].
Definition demo_value : list value :=
  [VRep [[VStr [97; 98]]; [VStr []]]; VSome [VStr [195; 169]]; VInt (-(2 ^ 70)); VFlags [true; false; true]; VBool true].
Definition no_obj_f (t : Z) (fs : list value) : bool := false.
Definition no_obj_w (t : Z) (fs : list value) : option bytes := None.
Definition no_obj_r (t : Z) (bs : bytes) : option (list value * bytes) := None.
Definition no_ext_w (k : Z) (p : list value) : option bytes := None.
Definition no_ext_r (k : Z) (bs : bytes) : option (list value * bytes) := None.

Lemma demo_hyps :
  ops_match demo_schema demo_schema = true /\
  (exists bs, write_op no_obj_w no_ext_w demo_schema demo_value = Some (bs, []) /\
              read_op no_obj_r no_ext_r demo_schema (bs ++ [7]) = Some (demo_value, [7])) /\
  fits no_obj_f demo_schema demo_value = Some [].
Proof. split; [vm_compute; reflexivity|]. split; [eexists; split; vm_compute; reflexivity|vm_compute; reflexivity]. Qed.
