(* C11 L0 — round-trip and prefix-freeness of the primitive codec, for every Z / byte string *)
From Coq Require Import ZArith List Bool Lia ZifyBool.
From C11 Require Import Prim.
Import ListNotations.
Open Scope Z_scope.
Ltac Zify.zify_post_hook ::= Z.to_euclidean_division_equations.

Lemma read_short_write_short : forall v rest,
  MIN_FOUR_BYTES_INT <= v <= MAX_FOUR_BYTES_INT ->
  exists f r, write_short v ++ rest = f :: r /\ f <> LONG_INT_TRAILER /\ read_short f r = Some (v, rest).
Proof.
  intros v rest H. unfold write_short, MIN_FOUR_BYTES_INT, MAX_FOUR_BYTES_INT,
    MIN_ONE_BYTE_INT, MAX_ONE_BYTE_INT, MIN_TWO_BYTES_INT, MAX_TWO_BYTES_INT, LONG_INT_TRAILER in *.
  destruct ((-10 <=? v) && (v <=? 117)) eqn:E1.
  - eexists; eexists; split; [reflexivity|]. split; [lia|].
    unfold read_short, MIN_ONE_BYTE_INT.
    replace (((v - -10) * 2) mod 2 =? 0) with true by lia.
    f_equal. f_equal. lia.
  - destruct ((-100 <=? v) && (v <=? 16283)) eqn:E2.
    + unfold le2. eexists; eexists; split; [reflexivity|]. split; [lia|].
      unfold read_short, MIN_TWO_BYTES_INT.
      set (x := (v - -100) * 4 + 1).
      assert (Hx : 0 <= x < 65536) by (unfold x; lia).
      replace ((x mod 256) mod 2 =? 0) with false by (unfold x; lia).
      replace (((x mod 256) / 2) mod 2 =? 0) with true by (unfold x; lia).
      cbn [app]. f_equal. f_equal. unfold x. lia.
    + unfold le4. eexists; eexists; split; [reflexivity|]. split; [lia|].
      unfold read_short, MIN_FOUR_BYTES_INT.
      set (x := (v - -10000) * 8 + 3).
      assert (Hx : 0 <= x < 4294967296) by (unfold x; lia).
      replace ((x mod 256) mod 2 =? 0) with false by (unfold x; lia).
      replace (((x mod 256) / 2) mod 2 =? 0) with false by (unfold x; lia).
      cbn [app]. f_equal. f_equal.
      assert (x = x mod 256 + 256 * ((x / 256) mod 256) + 65536 * ((x / 65536) mod 256)
                  + 16777216 * ((x / 16777216) mod 256)) by lia.
      assert (v = x / 8 - 10000) by (unfold x; lia).
      lia.
Qed.

Lemma le_val_digits : forall fuel m, 0 <= m < 2 ^ Z.of_nat fuel -> le_val (le_digits fuel m) = m.
Proof.
  induction fuel as [|f IH]; intros m Hm.
  - cbn in Hm. cbn. lia.
  - cbn [le_digits]. destruct (m =? 0) eqn:E.
    + cbn. lia.
    + cbn [le_val]. rewrite IH.
      * lia.
      * rewrite Nat2Z.inj_succ, Z.pow_succ_r in Hm by lia.
        split; [lia|]. assert (m / 256 <= m / 2) by lia. lia.
Qed.

Lemma magnitude_ok : forall m, 0 <= m -> le_val (magnitude_bytes m) = m.
Proof.
  intros m Hm. unfold magnitude_bytes. apply le_val_digits.
  destruct (Z.eq_dec m 0) as [->|Hn].
  - cbn. lia.
  - rewrite Nat2Z.inj_succ, Z2Nat.id by apply Z.log2_nonneg.
    split; [lia|]. apply Z.log2_spec. lia.
Qed.

Lemma take_app : forall {A} (l rest : list A), take (zlen l) (l ++ rest) = Some (l, rest).
Proof.
  intros A l rest. unfold take, zlen. rewrite app_length, Nat2Z.inj_add.
  replace ((0 <=? Z.of_nat (length l)) && (Z.of_nat (length l) <=? Z.of_nat (length l) + Z.of_nat (length rest)))
    with true by lia.
  rewrite Nat2Z.id. rewrite firstn_app, skipn_app, Nat.sub_diag, firstn_all, skipn_all.
  cbn. now rewrite app_nil_r.
Qed.

Lemma read_write_int_opt : forall z bs rest,
  write_int z = Some bs -> read_int (bs ++ rest) = Some (z, rest).
Proof.
  intros z bs rest. unfold write_int.
  destruct ((MIN_FOUR_BYTES_INT <=? z) && (z <=? MAX_FOUR_BYTES_INT)) eqn:E.
  - intros [= <-].
    destruct (read_short_write_short z rest) as (f & r & H1 & H2 & H3); [lia|].
    rewrite H1. unfold read_int. replace (f =? LONG_INT_TRAILER) with false by lia. exact H3.
  - unfold write_long.
    set (mag := magnitude_bytes (Z.abs z)).
    set (enc := zlen mag * 2 + (if z <? 0 then 1 else 0)).
    destruct (enc <=? MAX_FOUR_BYTES_INT) eqn:E2; [|discriminate].
    intros [= <-].
    assert (Hl : 0 <= zlen mag) by (unfold zlen; lia).
    assert (Henc : 0 <= enc) by (unfold enc; destruct (z <? 0); lia).
    destruct (read_short_write_short enc (mag ++ rest)) as (f & r & H1 & H2 & H3).
    { unfold MIN_FOUR_BYTES_INT; lia. }
    cbn [app read_int]. rewrite Z.eqb_refl. rewrite <- app_assoc, H1, H3.
    replace (enc <? 0) with false by lia.
    replace (enc / 2) with (zlen mag) by (unfold enc; destruct (z <? 0); lia).
    rewrite take_app.
    assert (Hm : le_val mag = Z.abs z) by (apply magnitude_ok; lia).
    rewrite Hm. unfold enc. destruct (z <? 0) eqn:Ez.
    + replace ((zlen mag * 2 + 1) mod 2 =? 1) with true by lia. f_equal. f_equal. lia.
    + replace ((zlen mag * 2 + 0) mod 2 =? 1) with false by lia. f_equal. f_equal. lia.
Qed.

(* write_int succeeds for every int whose magnitude has at most 268430455 bytes *)
Lemma write_int_defined : forall z,
  Z.log2 (Z.abs z) < 8 * 268430455 - 8 -> exists bs, write_int z = Some bs.
Proof.
  intros z H. unfold write_int.
  destruct ((MIN_FOUR_BYTES_INT <=? z) && (z <=? MAX_FOUR_BYTES_INT)); [eauto|].
  unfold write_long.
  set (mag := magnitude_bytes (Z.abs z)).
  assert (Hlen : forall fuel m, 0 <= m -> 8 * zlen (le_digits fuel m) <= Z.log2 m + 8).
  { induction fuel as [|f IH]; intros m Hm; cbn [le_digits].
    - unfold zlen; cbn. pose proof (Z.log2_nonneg m). lia.
    - destruct (m =? 0) eqn:E.
      + unfold zlen; cbn. pose proof (Z.log2_nonneg m). lia.
      + unfold zlen in *. cbn [length]. rewrite Nat2Z.inj_succ.
        assert (0 <= m / 256) by lia. specialize (IH (m / 256) H0).
        destruct (Z.eq_dec (m / 256) 0) as [Hz|Hz].
        * rewrite Hz in IH. destruct f; cbn [le_digits length] in *; [|rewrite Hz in *; cbn in *];
            pose proof (Z.log2_nonneg m); lia.
        * assert (Z.log2 (m / 256) + 8 <= Z.log2 m).
          { replace 256 with (2 ^ 8) by reflexivity. rewrite <- Z.shiftr_div_pow2 by lia.
            rewrite Z.log2_shiftr by lia. assert (8 <= Z.log2 m); [|lia].
            apply Z.log2_le_pow2; [lia|]. cbn. lia. }
          lia. }
  specialize (Hlen (S (Z.to_nat (Z.log2 (Z.abs z)))) (Z.abs z) (Z.abs_nonneg z)).
  fold (magnitude_bytes (Z.abs z)) in Hlen. fold mag in Hlen.
  replace (zlen mag * 2 + (if z <? 0 then 1 else 0) <=? MAX_FOUR_BYTES_INT) with true; [eauto|].
  unfold MAX_FOUR_BYTES_INT. destruct (z <? 0); lia.
Qed.

Lemma write_int_prefix_free_opt : forall a b ba bb r1 r2,
  write_int a = Some ba -> write_int b = Some bb -> ba ++ r1 = bb ++ r2 -> a = b /\ r1 = r2.
Proof.
  intros a b ba bb r1 r2 Ha Hb H.
  pose proof (read_write_int_opt a ba r1 Ha) as Pa.
  pose proof (read_write_int_opt b bb r2 Hb) as Pb.
  rewrite H in Pa. rewrite Pa in Pb. now inversion Pb.
Qed.

Lemma read_write_blob : forall s bs rest, write_blob s = Some bs -> read_blob (bs ++ rest) = Some (s, rest).
Proof.
  intros s bs rest. unfold write_blob. destruct (zlen s <=? MAX_FOUR_BYTES_INT) eqn:E; [|discriminate].
  intros [= <-]. assert (0 <= zlen s) by (unfold zlen; lia).
  destruct (read_short_write_short (zlen s) (s ++ rest)) as (f & r & H1 & H2 & H3).
  { unfold MIN_FOUR_BYTES_INT; lia. }
  unfold read_blob, read_size. rewrite <- app_assoc, H1.
  replace (f =? LONG_INT_TRAILER) with false by lia. rewrite H3.
  replace (zlen s <? 0) with false by lia. apply take_app.
Qed.

Lemma blob_prefix_free : forall a b ba bb r1 r2,
  write_blob a = Some ba -> write_blob b = Some bb -> ba ++ r1 = bb ++ r2 -> a = b /\ r1 = r2.
Proof.
  intros a b ba bb r1 r2 Ha Hb H.
  pose proof (read_write_blob a ba r1 Ha) as Pa. pose proof (read_write_blob b bb r2 Hb) as Pb.
  rewrite H in Pa. rewrite Pa in Pb. now inversion Pb.
Qed.

Lemma read_write_bool : forall b rest, read_bool (write_bool b ++ rest) = Some (b, rest).
Proof. now destruct b. Qed.

Lemma read_write_tag : forall t bs rest, write_tag t = Some bs -> read_tag (bs ++ rest) = Some (t, rest).
Proof. intros t bs rest. unfold write_tag. destruct (_ && _); intros H; [|discriminate H]. now inversion H. Qed.

Lemma read_write_float : forall f bs rest, write_float f = Some bs -> read_float (bs ++ rest) = Some (f, rest).
Proof.
  intros f bs rest. unfold write_float. destruct (zlen f =? 8) eqn:E; [|discriminate].
  intros [= <-]. unfold read_float. replace 8 with (zlen f) by lia. apply take_app.
Qed.

(* every byte the writers emit is a byte *)
Definition all_bytes (bs : bytes) : Prop := Forall (fun b => 0 <= b < 256) bs.

Lemma write_short_bytes : forall v, MIN_FOUR_BYTES_INT <= v <= MAX_FOUR_BYTES_INT -> all_bytes (write_short v).
Proof.
  intros v H. unfold write_short, all_bytes, le2, le4, MIN_FOUR_BYTES_INT, MAX_FOUR_BYTES_INT,
    MIN_ONE_BYTE_INT, MAX_ONE_BYTE_INT, MIN_TWO_BYTES_INT, MAX_TWO_BYTES_INT in *.
  destruct ((-10 <=? v) && (v <=? 117)) eqn:E1; [repeat constructor; lia|].
  destruct ((-100 <=? v) && (v <=? 16283)) eqn:E2; repeat constructor; lia.
Qed.

Lemma le_digits_bytes : forall fuel m, all_bytes (le_digits fuel m).
Proof.
  induction fuel; intros m; cbn [le_digits]; [constructor|].
  destruct (m =? 0); constructor; [lia|apply IHfuel].
Qed.

Lemma write_int_bytes : forall z bs, write_int z = Some bs -> all_bytes bs.
Proof.
  intros z bs. unfold write_int.
  destruct ((MIN_FOUR_BYTES_INT <=? z) && (z <=? MAX_FOUR_BYTES_INT)) eqn:E.
  - intros [= <-]. apply write_short_bytes. lia.
  - unfold write_long. set (mag := magnitude_bytes (Z.abs z)).
    destruct (zlen mag * 2 + (if z <? 0 then 1 else 0) <=? MAX_FOUR_BYTES_INT) eqn:E2; intros H0; [|discriminate H0]. inversion H0; subst bs; clear H0.
    constructor; [unfold LONG_INT_TRAILER; lia|]. apply Forall_app. split.
    + apply write_short_bytes. unfold MIN_FOUR_BYTES_INT, zlen in *. destruct (z <? 0); lia.
    + apply le_digits_bytes.
Qed.
