(* C11 L2 — round trip of the hand-modelled irregular codecs and of the whole recursive object codec *)
From Coq Require Import ZArith List Bool Lia ZifyBool.
From C11 Require Import Prim ProofsPrim Schema ProofsSchema Types.
From Gen Require Import Schemas.
Import ListNotations.
Open Scope Z_scope.

Ltac dbind H :=
  match type of H with
  | bind ?x _ = Some _ =>
      let E := fresh "E" in destruct x eqn:E; [cbn [bind] in H|discriminate H]
  end.

Lemma lit_ok : forall p bs rest, lit_write p = Some bs -> lit_read (bs ++ rest) = Some (p, rest).
Proof.
  intros p bs rest H.
  destruct p as [|v [|w [|x p]]]; try discriminate.
  - destruct v; try discriminate; cbn [lit_write] in H.
    + dbind H. inversion H; subst. cbn. now rewrite (read_write_int_opt _ _ _ E).
    + dbind H. inversion H; subst. cbn. unfold read_str. now rewrite (read_write_blob _ _ _ E).
    + dbind H. inversion H; subst. cbn. now rewrite (read_write_float _ _ _ E).
    + inversion H; subst. now destruct b.
    + inversion H; subst. reflexivity.
  - destruct v; try discriminate; destruct w; try discriminate; cbn [lit_write] in H.
    + dbind H. dbind H. inversion H; subst. cbn. unfold read_str.
      rewrite <- app_assoc, (read_write_blob _ _ _ E). cbn. now rewrite (read_write_blob _ _ _ E0).
    + dbind H. dbind H. inversion H; subst. cbn.
      rewrite <- app_assoc, (read_write_float _ _ _ E). cbn. now rewrite (read_write_float _ _ _ E0).
  - destruct v; try discriminate; destruct w; discriminate.
Qed.

Lemma is_plain_spec : forall fs ref, is_plain fs = Some ref -> fs = plain_value ref.
Proof.
  intros fs ref H. unfold is_plain in H.
  destruct fs as [|v1 fs]; [discriminate|]. destruct v1; try discriminate.
  destruct fs as [|v2 fs]; [discriminate|]. destruct v2; try discriminate.
  destruct rows; [|discriminate].
  destruct fs as [|v3 fs]; [discriminate|]. destruct v3; try discriminate.
  destruct fs as [|v4 fs]; [discriminate|]. destruct v4; try discriminate.
  destruct fs; [|discriminate]. now inversion H.
Qed.

Lemma inst_generic_match : ops_match inst_generic_w inst_generic_r = true.
Proof. vm_compute. reflexivity. Qed.

Definition class_ok (e : Z * (op * op)) : bool := ops_match (fst (snd e)) (snd (snd e)).

Lemma all_classes_match : forallb class_ok all_classes = true.
Proof. vm_compute. reflexivity. Qed.

Lemma lookup_in : forall t l e, lookup t l = Some e -> In (t, e) l.
Proof.
  induction l as [|[k x] r IH]; intros e H; [discriminate|]. cbn in H.
  destruct (k =? t) eqn:K.
  - inversion H; subst. left. f_equal. lia.
  - right. auto.
Qed.

Section WholeProofs.
  Variable jsonw : Z -> list value -> option bytes.
  Variable jsonr : Z -> bytes -> option (list value * bytes).
  Hypothesis json_ok : forall k p bs rest, jsonw k p = Some bs -> jsonr k (bs ++ rest) = Some (p, rest).

  Lemma ext_ok : forall k p bs rest, extw jsonw k p = Some bs -> extr jsonr k (bs ++ rest) = Some (p, rest).
  Proof.
    intros k p bs rest. unfold extw, extr. destruct (k =? EXT_LITERAL); [apply lit_ok|apply json_ok].
  Qed.

  Section LevelProofs.
    Variable objw : Z -> list value -> option bytes.
    Variable objr : Z -> bytes -> option (list value * bytes).
    Variable objf : Z -> list value -> bool.
    Hypothesis lower_ok : forall t fs bs rest,
      objw t fs = Some bs -> objf t fs = true -> objr t (bs ++ rest) = Some (fs, rest).

    Lemma schema_ok : forall w r fs bs rest,
      ops_match w r = true -> full (write_op objw (extw jsonw) w fs) = Some bs ->
      fits_all (fits objf r fs) = true -> read_op objr (extr jsonr) r (bs ++ rest) = Some (fs, rest).
    Proof.
      intros w r fs bs rest HM HW HF.
      apply (schema_roundtrip_gen objw objr (extw jsonw) (extr jsonr) objf lower_ok ext_ok w r HM).
      - unfold full in HW. destruct (write_op _ _ w fs) as [[b [|]]|]; try discriminate. now inversion HW.
      - unfold fits_all in HF. destruct (fits objf r fs) as [[|]|]; try discriminate. reflexivity.
    Qed.

    Lemma instance_ok : forall fs bs rest,
      instance_write jsonw objw fs = Some bs -> instance_fits objf fs = true ->
      instance_read jsonr objr (bs ++ rest) = Some (fs, rest).
    Proof.
      intros fs bs rest HW HF. unfold instance_write, instance_fits in *.
      destruct (is_plain fs) as [ref|] eqn:P.
      - apply is_plain_spec in P. subst fs. unfold fast_tag in HW.
        destruct (zlist_eqb ref n_str) eqn:E1.
        { apply zlist_eqb_eq in E1. subst. inversion HW; subst. reflexivity. }
        destruct (zlist_eqb ref n_function) eqn:E2.
        { apply zlist_eqb_eq in E2. subst. inversion HW; subst. reflexivity. }
        destruct (zlist_eqb ref n_int) eqn:E3.
        { apply zlist_eqb_eq in E3. subst. inversion HW; subst. reflexivity. }
        destruct (zlist_eqb ref n_bool) eqn:E4.
        { apply zlist_eqb_eq in E4. subst. inversion HW; subst. reflexivity. }
        destruct (zlist_eqb ref n_object) eqn:E5.
        { apply zlist_eqb_eq in E5. subst. inversion HW; subst. reflexivity. }
        cbn in HW. dbind HW. inversion HW; subst. cbn. unfold read_str.
        now rewrite (read_write_blob _ _ _ E).
      - dbind HW. inversion HW; subst. cbn [app instance_read].
        change (INSTANCE_GENERIC =? INSTANCE_STR) with false. cbn [Z.eqb].
        change (INSTANCE_GENERIC =? INSTANCE_FUNCTION) with false.
        change (INSTANCE_GENERIC =? INSTANCE_INT) with false.
        change (INSTANCE_GENERIC =? INSTANCE_BOOL) with false.
        change (INSTANCE_GENERIC =? INSTANCE_OBJECT) with false.
        change (INSTANCE_GENERIC =? INSTANCE_SIMPLE) with false.
        change (INSTANCE_GENERIC =? INSTANCE_GENERIC) with true. cbv iota.
        exact (schema_ok _ _ _ _ _ inst_generic_match E HF).
    Qed.

    Lemma level_ok : forall t fs bs rest,
      level_write jsonw objw t fs = Some bs -> level_fits objf t fs = true ->
      level_read jsonr objr t (bs ++ rest) = Some (fs, rest).
    Proof.
      intros t fs bs rest HW HF. unfold level_write, level_read, level_fits in *.
      destruct (t =? INSTANCE).
      - now apply instance_ok.
      - destruct (lookup t all_classes) as [[w r]|] eqn:L; [|discriminate].
        apply lookup_in in L.
        pose proof (proj1 (forallb_forall _ _) all_classes_match _ L) as HM. cbn in HM.
        exact (schema_ok _ _ _ _ _ HM HW HF).
    Qed.
  End LevelProofs.

  Lemma obj_ok : forall n t fs bs rest,
    obj_write jsonw n t fs = Some bs -> obj_wf n t fs = true ->
    obj_read jsonr n t (bs ++ rest) = Some (fs, rest).
  Proof.
    induction n as [|k IH]; intros t fs bs rest HW HF; [discriminate|].
    cbn [obj_write obj_read obj_wf] in *.
    exact (level_ok (obj_write jsonw k) (obj_read jsonr k) (obj_wf k) IH t fs bs rest HW HF).
  Qed.

  Lemma type_rt : forall n v bs rest,
    write_type jsonw n v = Some bs -> wf_type n v = true -> read_type jsonr n (bs ++ rest) = Some (v, rest).
  Proof.
    intros n v bs rest HW HF. destruct v; try discriminate. cbn [write_type wf_type] in *.
    destruct (zmem tag tbl_read_type) eqn:M; [|discriminate]. cbn [andb] in HF.
    dbind HW. inversion HW; subst. cbn [app read_type]. rewrite M.
    now rewrite (obj_ok _ _ _ _ rest E HF).
  Qed.

  Lemma file_rt : forall n fs bs rest,
    write_file jsonw n fs = Some bs -> obj_wf n MYPY_FILE fs = true ->
    read_file jsonr n (bs ++ rest) = Some (fs, rest).
  Proof.
    intros n fs bs rest HW HF. unfold write_file in HW. dbind HW. inversion HW; subst.
    cbn [app read_file]. rewrite Z.eqb_refl. exact (obj_ok _ _ _ _ rest E HF).
  Qed.

  (* every extracted class / helper schema round-trips with the concrete recursive codec: the nested-object
     and literal hypotheses of extracted_class_roundtrip_partial are discharged *)
  Lemma extracted_rt_closed : forall n name w r, In (name, (w, r)) schemas ->
    forall vs bs rest,
      write_op (obj_write jsonw n) (extw jsonw) w vs = Some (bs, []) ->
      fits (obj_wf n) r vs = Some [] ->
      read_op (obj_read jsonr n) (extr jsonr) r (bs ++ rest) = Some (vs, rest).
  Proof.
    intros n name w r Hin vs bs rest HW HF.
    assert (HM : ops_match w r = true).
    { assert (A : forallb (fun e : String.string * (op * op) => ops_match (fst (snd e)) (snd (snd e))) schemas = true)
        by (vm_compute; reflexivity).
      exact (proj1 (forallb_forall _ _) A _ Hin). }
    exact (schema_roundtrip_gen _ _ _ _ _ (obj_ok n) ext_ok w r HM vs bs rest HW HF).
  Qed.
End WholeProofs.
