(* C11 — executable model: primitive codec (L0), schema interpreter (L1), JSON-value / literal codecs, Instance fast
   paths, SymbolTable(Node) and the recursive whole-object codec (L2), table checks.  No proofs here. *)
From C11 Require Export Prim Schema Tables Json Types.
