(* C11 — executable model: primitive codec (L0) and schema interpreter (L1).  No proofs here. *)
From C11 Require Export Prim Schema.
