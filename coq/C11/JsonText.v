(* C11 — model of the textual JSON encoding used for the JSON cache format: mypy.util.json_dumps without orjson
   = json.dumps(obj, sort_keys=True, separators=(",", ":")) (ensure_ascii), and a parser for it (json.loads on such text).
   Executable definitions only.  Text = list of ASCII codes; a str = list of code points.  Floats are not modelled.
   Object members are printed in the given order: sorting by key is part of the abstraction (sort_keys=True). *)
From Coq Require Import ZArith List Bool.
Import ListNotations.
Open Scope Z_scope.

Inductive json :=
| JNull | JBool (b : bool) | JInt (z : Z) | JStr (s : list Z)
| JArr (l : list json) | JObj (l : list (list Z * json)).

(* ---- integers *)
Fixpoint digits_le (fuel : nat) (m : Z) : list Z :=
  match fuel with
  | O => []
  | S f => if m =? 0 then [] else (48 + m mod 10) :: digits_le f (m / 10)
  end.
Definition print_nat (m : Z) : list Z :=
  if m =? 0 then [48] else rev (digits_le (S (Z.to_nat (Z.log2 m))) m).
Definition print_int (z : Z) : list Z := if z <? 0 then 45 :: print_nat (- z) else print_nat z.

Definition is_digit (c : Z) : bool := (48 <=? c) && (c <=? 57).
Fixpoint parse_digits (acc : Z) (bs : list Z) : Z * list Z :=
  match bs with
  | c :: r => if is_digit c then parse_digits (acc * 10 + (c - 48)) r else (acc, bs)
  | [] => (acc, [])
  end.
Definition parse_int (bs : list Z) : option (Z * list Z) :=
  match bs with
  | c :: r =>
      if c =? 45 then
        match r with
        | d :: _ => if is_digit d then let '(n, r') := parse_digits 0 r in Some (- n, r') else None
        | [] => None
        end
      else if is_digit c then Some (parse_digits 0 bs) else None
  | [] => None
  end.

(* ---- strings: json.encoder.ESCAPE_ASCII *)
Definition hexd (d : Z) : Z := if d <? 10 then 48 + d else 87 + d.
Definition hex4 (u : Z) : list Z := [hexd (u / 4096); hexd ((u / 256) mod 16); hexd ((u / 16) mod 16); hexd (u mod 16)].
Definition unhex (c : Z) : option Z :=
  if (48 <=? c) && (c <=? 57) then Some (c - 48)
  else if (97 <=? c) && (c <=? 102) then Some (c - 87)
  else if (65 <=? c) && (c <=? 70) then Some (c - 55)
  else None.
Definition parse_hex4 (bs : list Z) : option (Z * list Z) :=
  match bs with
  | a :: b :: c :: d :: r =>
      match unhex a, unhex b, unhex c, unhex d with
      | Some x, Some y, Some z, Some w => Some (((x * 16 + y) * 16 + z) * 16 + w, r)
      | _, _, _, _ => None
      end
  | _ => None
  end.

Definition esc (c : Z) : list Z :=
  if c =? 34 then [92; 34] else if c =? 92 then [92; 92]
  else if c =? 10 then [92; 110] else if c =? 13 then [92; 114] else if c =? 9 then [92; 116]
  else if c =? 8 then [92; 98] else if c =? 12 then [92; 102]
  else if (32 <=? c) && (c <=? 126) then [c]
  else if c <? 65536 then 92 :: 117 :: hex4 c
  else 92 :: 117 :: hex4 (55296 + (c - 65536) / 1024) ++ 92 :: 117 :: hex4 (56320 + (c - 65536) mod 1024).
Definition print_str (s : list Z) : list Z := 34 :: concat (map esc s) ++ [34].

Definition unesc (e : Z) : option Z :=
  if e =? 34 then Some 34 else if e =? 92 then Some 92 else if e =? 47 then Some 47
  else if e =? 98 then Some 8 else if e =? 102 then Some 12 else if e =? 110 then Some 10
  else if e =? 114 then Some 13 else if e =? 116 then Some 9 else None.

Definition bindo {A B} (x : option A) (f : A -> option B) : option B := match x with Some a => f a | None => None end.

(* the text after the opening quote; json.decoder.py_scanstring incl. surrogate-pair joining *)
Fixpoint parse_str_body (fuel : nat) (bs : list Z) : option (list Z * list Z) :=
  match fuel with
  | O => None
  | S f =>
      let more (x : Z) (r : list Z) := bindo (parse_str_body f r) (fun '(s, r') => Some (x :: s, r')) in
      match bs with
      | [] => None
      | c :: r =>
          if c =? 34 then Some ([], r)
          else if c =? 92 then
            match r with
            | [] => None
            | e :: r2 =>
                if e =? 117 then
                  match parse_hex4 r2 with
                  | None => None
                  | Some (u, r3) =>
                      if (55296 <=? u) && (u <=? 56319) then
                        match r3 with
                        | b1 :: b2 :: r4 =>
                            if (b1 =? 92) && (b2 =? 117) then
                              match parse_hex4 r4 with
                              | Some (lo, r5) =>
                                  if (56320 <=? lo) && (lo <=? 57343)
                                  then more (65536 + (u - 55296) * 1024 + (lo - 56320)) r5
                                  else more u r3
                              | None => more u r3
                              end
                            else more u r3
                        | _ => more u r3
                        end
                      else more u r3
                  end
                else match unesc e with Some x => more x r2 | None => None end
            end
          else more c r
      end
  end.

(* ---- values *)
Definition print_list (f : json -> list Z) : list json -> list Z :=
  fix go l := match l with
              | [] => []
              | x :: r => match r with [] => f x | _ => f x ++ 44 :: go r end
              end.
Definition print_members (f : json -> list Z) : list (list Z * json) -> list Z :=
  fix go l := match l with
              | [] => []
              | (k, x) :: r => match r with [] => print_str k ++ 58 :: f x | _ => print_str k ++ 58 :: f x ++ 44 :: go r end
              end.

Fixpoint jprint (v : json) : list Z :=
  match v with
  | JNull => [110; 117; 108; 108]
  | JBool true => [116; 114; 117; 101]
  | JBool false => [102; 97; 108; 115; 101]
  | JInt z => print_int z
  | JStr s => print_str s
  | JArr l => 91 :: print_list jprint l ++ [93]
  | JObj l => 123 :: print_members jprint l ++ [125]
  end.

Fixpoint expect (w bs : list Z) : option (list Z) :=
  match w with
  | [] => Some bs
  | c :: w' => match bs with b :: r => if b =? c then expect w' r else None | [] => None end
  end.

Fixpoint parse_elems (rd : list Z -> option (json * list Z)) (fuel : nat) (bs : list Z) : option (list json * list Z) :=
  match fuel with
  | O => None
  | S f =>
      bindo (rd bs) (fun '(x, r) =>
      match r with
      | c :: r' =>
          if c =? 44 then bindo (parse_elems rd f r') (fun '(l, r'') => Some (x :: l, r''))
          else if c =? 93 then Some ([x], r') else None
      | [] => None
      end)
  end.

Fixpoint parse_members (rd : list Z -> option (json * list Z)) (fuel : nat) (bs : list Z)
  : option (list (list Z * json) * list Z) :=
  match fuel with
  | O => None
  | S f =>
      match bs with
      | q :: r0 =>
          if q =? 34 then
            bindo (parse_str_body (S (length r0)) r0) (fun '(k, r1) =>
            match r1 with
            | c :: r2 =>
                if c =? 58 then
                  bindo (rd r2) (fun '(x, r) =>
                  match r with
                  | d :: r' =>
                      if d =? 44 then bindo (parse_members rd f r') (fun '(l, r'') => Some ((k, x) :: l, r''))
                      else if d =? 125 then Some ([(k, x)], r') else None
                  | [] => None
                  end)
                else None
            | [] => None
            end)
          else None
      | [] => None
      end
  end.

Fixpoint jparse (n : nat) (bs : list Z) : option (json * list Z) :=
  match n with
  | O => None
  | S k =>
      match bs with
      | [] => None
      | c :: r =>
          if c =? 110 then bindo (expect [117; 108; 108] r) (fun r' => Some (JNull, r'))
          else if c =? 116 then bindo (expect [114; 117; 101] r) (fun r' => Some (JBool true, r'))
          else if c =? 102 then bindo (expect [97; 108; 115; 101] r) (fun r' => Some (JBool false, r'))
          else if c =? 34 then bindo (parse_str_body (S (length r)) r) (fun '(s, r') => Some (JStr s, r'))
          else if c =? 91 then
            match r with
            | d :: r' => if d =? 93 then Some (JArr [], r')
                         else bindo (parse_elems (jparse k) (length r) r) (fun '(l, r'') => Some (JArr l, r''))
            | [] => None
            end
          else if c =? 123 then
            match r with
            | d :: r' => if d =? 125 then Some (JObj [], r')
                         else bindo (parse_members (jparse k) (length r) r) (fun '(l, r'') => Some (JObj l, r''))
            | [] => None
            end
          else bindo (parse_int bs) (fun '(z, r') => Some (JInt z, r'))
      end
  end.

(* json_loads (json_dumps v): the whole text must be consumed *)
Definition json_dumps (v : json) : list Z := jprint v.
Definition json_loads (bs : list Z) : option json :=
  match jparse (S (length bs)) bs with Some (v, []) => Some v | _ => None end.
