(* C11 — full-strength statement of the property, over an abstract implementation.

   interface   : what importing code can observe of a module (names, kinds, types, flags, class structure)
   enc_bin/json: the serializers (MypyFile.write / MypyFile.serialize + json dump)
   dec_bin/json: the loaders followed by fixup (MypyFile.read / deserialize + fix_cross_refs)           *)
From Coq Require Import List.
Section Full.
  Variable tree : Type.              (* analysed module (MypyFile after semantic analysis) *)
  Variable iface : Type.             (* canonical structural dump of its symbol table *)
  Variable bytes : Type.
  Variable observe : tree -> iface.
  Variable enc_bin enc_json : tree -> bytes.
  Variable dec_bin dec_json : bytes -> option tree.
  Variable producible : tree -> Prop.   (* "every module interface mypy can produce" *)

  Definition cache_faithful : Prop :=
    forall t, producible t ->
      (exists t', dec_bin (enc_bin t) = Some t' /\ observe t' = observe t) /\
      (exists t', dec_json (enc_json t) = Some t' /\ observe t' = observe t).

  Definition formats_agree : Prop :=
    forall t tb tj, producible t -> dec_bin (enc_bin t) = Some tb -> dec_json (enc_json t) = Some tj ->
      observe tb = observe tj.

  Definition serialization_deterministic : Prop :=
    forall t1 t2, producible t1 -> producible t2 -> observe t1 = observe t2 ->
      enc_bin t1 = enc_bin t2 /\ enc_json t1 = enc_json t2.

  Definition C11_full : Prop := cache_faithful /\ formats_agree /\ serialization_deterministic.
End Full.

(* What is PROVED (Properties.v): the binary layer decode (encode v) = v for the primitive codec (all Z, all
   byte strings) and for every schema the translator extracts from the current source, for all values, given
   the same for the nested irregular classes (Instance, SymbolTable, SymbolTableNode) and the external
   codecs (JSON value, literal value); these and the whole-tree statement C11_full (including fixup, the JSON
   format and determinism) are SEARCHED on the implementation by the structural round trip (harness stage S),
   not proved: C11_full is therefore established only as `..._partial`. *)
