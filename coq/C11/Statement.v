(* C11 — full-strength statement of the property, over an abstract implementation.

   interface   : what importing code can observe of a module (names, kinds, types, flags, class structure)
   enc_bin/json: the serializers (MypyFile.write / MypyFile.serialize + json dump)
   dec_bin/json: the loaders followed by fixup (MypyFile.read / deserialize + fix_cross_refs)           *)
From Coq Require Import List.
Section Full.
  Variable tree : Type.              (* analysed module (MypyFile after semantic analysis) *)
  Variable iface : Type.             (* canonical structural dump of its symbol table *)
  Variable bytes : Type.
  Variable observe : tree -> iface.
  Variable enc_bin enc_json : tree -> bytes.
  Variable dec_bin dec_json : bytes -> option tree.
  Variable producible : tree -> Prop.   (* "every module interface mypy can produce" *)

  Definition cache_faithful : Prop :=
    forall t, producible t ->
      (exists t', dec_bin (enc_bin t) = Some t' /\ observe t' = observe t) /\
      (exists t', dec_json (enc_json t) = Some t' /\ observe t' = observe t).

  Definition formats_agree : Prop :=
    forall t tb tj, producible t -> dec_bin (enc_bin t) = Some tb -> dec_json (enc_json t) = Some tj ->
      observe tb = observe tj.

  Definition serialization_deterministic : Prop :=
    forall t1 t2, producible t1 -> producible t2 -> observe t1 = observe t2 ->
      enc_bin t1 = enc_bin t2 /\ enc_json t1 = enc_json t2.

  Definition C11_full : Prop := cache_faithful /\ formats_agree /\ serialization_deterministic.
End Full.

(* What is PROVED (Properties.v), for the BINARY format: dec_bin (enc_bin t) = Some t on the modelled data-file
   layer for trees of any size and nesting (`data_file_roundtrip`, `type_roundtrip`, `object_roundtrip`,
   `data_file_injective`): primitive codec for all Z / byte strings, every class schema regenerated from the
   current source (ops AND field names), hand models of Instance / SymbolTable / SymbolTableNode / literal / JSON
   value, recursion closed, no hypotheses.  `formats_agree` is proved as a TABLE theorem (same attribute set in
   serialize() and write(), same JSON keys in serialize() and deserialize()).
   Still only SEARCHED on the implementation (harness stage S), hence C11_full remains partial:
     - abstraction of a live tree into field values (SymbolTable filtering / sorting, cross_ref choice) and fixup
       (re-linking of names, MRO) -- `observe t' = observe t`;
     - the JSON format's own decode . encode (json.dumps / deserialize classmethods);
     - extract_symbol (C) cutting exactly one object;
     - determinism of the live-tree -> bytes function (hash seed independence). *)
