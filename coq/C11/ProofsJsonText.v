(* C11 — json_loads (json_dumps v) = v for the textual JSON encoding (all values, unbounded nesting;
   strings of non-surrogate code points) *)
From Coq Require Import ZArith List Bool Lia ZifyBool.
From C11 Require Import JsonText.
Import ListNotations.
Open Scope Z_scope.
Ltac Zify.zify_post_hook ::= Z.to_euclidean_division_equations.

Definition no_digit_head (rest : list Z) : Prop :=
  match rest with [] => True | c :: _ => is_digit c = false end.
Definition all_digits (ds : list Z) : Prop := Forall (fun c => is_digit c = true) ds.
Definition dval (a c : Z) : Z := a * 10 + (c - 48).

Lemma parse_digits_app : forall ds acc rest, all_digits ds ->
  parse_digits acc (ds ++ rest) = parse_digits (fold_left dval ds acc) rest.
Proof.
  induction ds as [|d ds IH]; intros acc rest H; [reflexivity|].
  inversion H; subst. cbn [app parse_digits fold_left]. rewrite H2. now apply IH.
Qed.

Lemma parse_digits_stop : forall acc rest, no_digit_head rest -> parse_digits acc rest = (acc, rest).
Proof. intros acc [|c r] H; [reflexivity|]. cbn in *. now rewrite H. Qed.

Lemma digits_le_digits : forall fuel m, all_digits (digits_le fuel m).
Proof.
  induction fuel; intros m; cbn [digits_le]; [constructor|].
  destruct (m =? 0); constructor; [unfold is_digit; lia|apply IHfuel].
Qed.

Lemma digits_le_value : forall fuel m, 0 <= m < 2 ^ Z.of_nat fuel ->
  fold_right (fun c a => dval a c) 0 (digits_le fuel m) = m.
Proof.
  induction fuel as [|f IH]; intros m Hm.
  - cbn in *. lia.
  - cbn [digits_le]. destruct (m =? 0) eqn:E; [cbn; lia|].
    cbn [fold_right]. rewrite IH.
    + unfold dval. lia.
    + rewrite Nat2Z.inj_succ, Z.pow_succ_r in Hm by lia. split; [lia|]. assert (m / 10 <= m / 2) by lia. lia.
Qed.

Lemma print_nat_spec : forall m, 0 <= m ->
  all_digits (print_nat m) /\ fold_left dval (print_nat m) 0 = m /\ print_nat m <> [].
Proof.
  intros m Hm. unfold print_nat. destruct (m =? 0) eqn:E.
  - repeat split; [repeat constructor|cbn; lia|discriminate].
  - set (f := S (Z.to_nat (Z.log2 m))). repeat split.
    + apply Forall_rev. apply digits_le_digits.
    + rewrite <- (rev_involutive (digits_le f m)) at 1. rewrite rev_involutive.
      rewrite <- fold_left_rev_right. rewrite rev_involutive. apply digits_le_value.
      unfold f. rewrite Nat2Z.inj_succ, Z2Nat.id by apply Z.log2_nonneg. split; [lia|]. apply Z.log2_spec. lia.
    + unfold f. cbn [digits_le]. rewrite E. intros H. apply (f_equal (@length Z)) in H. rewrite rev_length in H. cbn in H. lia.
Qed.

Lemma print_nat_ok : forall m rest, 0 <= m -> no_digit_head rest ->
  parse_digits 0 (print_nat m ++ rest) = (m, rest).
Proof.
  intros m rest Hm Hr. destruct (print_nat_spec m Hm) as (A & V & _).
  rewrite parse_digits_app by exact A. rewrite V. now apply parse_digits_stop.
Qed.

Lemma print_nat_head : forall m, 0 <= m -> exists d t, print_nat m = d :: t /\ is_digit d = true.
Proof.
  intros m Hm. destruct (print_nat_spec m Hm) as (A & _ & N).
  destruct (print_nat m) as [|d t]; [contradiction|]. inversion A; subst. eauto.
Qed.

Lemma parse_int_ok : forall z rest, no_digit_head rest -> parse_int (print_int z ++ rest) = Some (z, rest).
Proof.
  intros z rest Hr. unfold print_int. destruct (z <? 0) eqn:E.
  - destruct (print_nat_head (- z)) as (d & t & P & D); [lia|].
    assert (PO := print_nat_ok (- z) rest ltac:(lia) Hr). rewrite P in PO.
    cbn [app parse_int]. rewrite Z.eqb_refl. rewrite P. cbn [app]. rewrite D.
    change (d :: t ++ rest) with ((d :: t) ++ rest). rewrite PO. f_equal. f_equal. lia.
  - destruct (print_nat_head z) as (d & t & P & D); [lia|].
    assert (PO := print_nat_ok z rest ltac:(lia) Hr). rewrite P in PO.
    unfold parse_int. rewrite P. cbn [app].
    replace (d =? 45) with false by (unfold is_digit in D; lia). rewrite D.
    change (d :: t ++ rest) with ((d :: t) ++ rest). now rewrite PO.
Qed.

Lemma unhex_hexd : forall d, 0 <= d < 16 -> unhex (hexd d) = Some d.
Proof.
  intros d H. unfold hexd, unhex. destruct (d <? 10) eqn:E.
  - replace ((48 <=? 48 + d) && (48 + d <=? 57)) with true by lia. f_equal. lia.
  - replace ((48 <=? 87 + d) && (87 + d <=? 57)) with false by lia.
    replace ((97 <=? 87 + d) && (87 + d <=? 102)) with true by lia. f_equal. lia.
Qed.

Lemma parse_hex4_ok : forall u r, 0 <= u < 65536 -> parse_hex4 (hex4 u ++ r) = Some (u, r).
Proof.
  intros u r H. unfold hex4. cbn [app parse_hex4].
  rewrite !unhex_hexd by lia. f_equal. f_equal. lia.
Qed.

Definition valid_cp (c : Z) : Prop := (0 <= c < 55296) \/ (57344 <= c <= 1114111).

Lemma parse_str_ok : forall s rest fuel, Forall valid_cp s -> (length s < fuel)%nat ->
  parse_str_body fuel (concat (map esc s) ++ 34 :: rest) = Some (s, rest).
Proof.
  induction s as [|c s IH]; intros rest fuel HV HL.
  - destruct fuel; [lia|]. reflexivity.
  - inversion HV as [|? ? Hc HV']; subst. destruct fuel as [|f]; [cbn in HL; lia|].
    assert (IH' : parse_str_body f (concat (map esc s) ++ 34 :: rest) = Some (s, rest))
      by (apply IH; [exact HV'|cbn in HL; lia]).
    cbn [map concat]. rewrite <- app_assoc. set (tl := concat (map esc s) ++ 34 :: rest) in *. unfold esc.
    destruct (c =? 34) eqn:E1; [assert (c = 34) by lia; subst; cbn [app parse_str_body unesc Z.eqb Pos.eqb]; rewrite IH'; reflexivity|].
    destruct (c =? 92) eqn:E2; [assert (c = 92) by lia; subst; cbn [app parse_str_body unesc Z.eqb Pos.eqb]; rewrite IH'; reflexivity|].
    destruct (c =? 10) eqn:E3; [assert (c = 10) by lia; subst; cbn [app parse_str_body unesc Z.eqb Pos.eqb]; rewrite IH'; reflexivity|].
    destruct (c =? 13) eqn:E4; [assert (c = 13) by lia; subst; cbn [app parse_str_body unesc Z.eqb Pos.eqb]; rewrite IH'; reflexivity|].
    destruct (c =? 9) eqn:E5; [assert (c = 9) by lia; subst; cbn [app parse_str_body unesc Z.eqb Pos.eqb]; rewrite IH'; reflexivity|].
    destruct (c =? 8) eqn:E6; [assert (c = 8) by lia; subst; cbn [app parse_str_body unesc Z.eqb Pos.eqb]; rewrite IH'; reflexivity|].
    destruct (c =? 12) eqn:E7; [assert (c = 12) by lia; subst; cbn [app parse_str_body unesc Z.eqb Pos.eqb]; rewrite IH'; reflexivity|].
    destruct ((32 <=? c) && (c <=? 126)) eqn:E8.
    { cbn [app parse_str_body]. rewrite E1, E2. rewrite IH'. reflexivity. }
    destruct (c <? 65536) eqn:E9.
    { cbn [app parse_str_body]. change (92 =? 34) with false. change (92 =? 92) with true. cbv iota.
      change (117 =? 117) with true. cbv iota.
      rewrite parse_hex4_ok by (unfold valid_cp in Hc; lia).
      replace ((55296 <=? c) && (c <=? 56319)) with false by (unfold valid_cp in Hc; lia).
      rewrite IH'. reflexivity. }
    { set (c' := c - 65536). assert (0 <= c' < 1048576) by (unfold valid_cp in Hc; unfold c'; lia).
      cbn [app parse_str_body]. change (92 =? 34) with false. change (92 =? 92) with true. cbv iota.
      change (117 =? 117) with true. cbv iota.
      rewrite <- app_assoc. rewrite parse_hex4_ok by lia.
      replace ((55296 <=? 55296 + c' / 1024) && (55296 + c' / 1024 <=? 56319)) with true by lia.
      cbn [app]. change ((92 =? 92) && (117 =? 117)) with true. cbv iota.
      rewrite parse_hex4_ok by lia.
      replace ((56320 <=? 56320 + c' mod 1024) && (56320 + c' mod 1024 <=? 57343)) with true by lia.
      rewrite IH'. cbn [bindo]. f_equal. f_equal. f_equal. unfold c'. lia. }
Qed.

Lemma print_str_ok : forall s rest, Forall valid_cp s ->
  exists r, print_str s ++ rest = 34 :: r /\ parse_str_body (S (length r)) r = Some (s, rest).
Proof.
  intros s rest HV. unfold print_str. eexists. split; [cbn [app]; reflexivity|].
  rewrite <- app_assoc. cbn [app]. apply parse_str_ok; [exact HV|].
  rewrite app_length. rewrite <- (map_length esc s) at 1.
  assert (forall l : list (list Z), (forall x, In x l -> x <> []) -> (length l <= length (concat l))%nat).
  { induction l as [|x l IHl]; intros Hx; [cbn; lia|]. cbn [concat length]. rewrite app_length.
    assert (x <> []) by (apply Hx; now left). destruct x; [contradiction|].
    assert (length l <= length (concat l))%nat by (apply IHl; intros; apply Hx; now right). cbn. lia. }
  assert (length (map esc s) <= length (concat (map esc s)))%nat.
  { apply H. intros x Hx. apply in_map_iff in Hx as (c & <- & _). unfold esc.
    repeat match goal with |- (if ?b then _ else _) <> [] => destruct b end; discriminate. }
  cbn [length]. lia.
Qed.

(* ---- values *)
Fixpoint jvalid (v : json) : Prop :=
  match v with
  | JStr s => Forall valid_cp s
  | JArr l => (fix go l := match l with [] => True | x :: r => jvalid x /\ go r end) l
  | JObj l => (fix go l := match l with [] => True | (k, x) :: r => Forall valid_cp k /\ jvalid x /\ go r end) l
  | _ => True
  end.

Definition vhead (c : Z) : Prop :=
  c = 110 \/ c = 116 \/ c = 102 \/ c = 34 \/ c = 91 \/ c = 123 \/ c = 45 \/ is_digit c = true.

Lemma jprint_head : forall v, exists c t, jprint v = c :: t /\ vhead c.
Proof.
  intros v. unfold vhead. destruct v; cbn [jprint].
  - eexists; eexists; split; [reflexivity|]; auto.
  - destruct b; eexists; eexists; (split; [reflexivity|]); auto.
  - unfold print_int. destruct (z <? 0) eqn:E.
    + eexists; eexists; split; [reflexivity|]; auto 10.
    + destruct (print_nat_head z) as (d & t & P & D); [lia|]. rewrite P. eexists; eexists; split; [reflexivity|]; auto 10.
  - unfold print_str. eexists; eexists; split; [reflexivity|]; auto 10.
  - eexists; eexists; split; [reflexivity|]; auto 10.
  - eexists; eexists; split; [reflexivity|]; auto 10.
Qed.

Lemma no_digit_44 : forall r, no_digit_head (44 :: r). Proof. reflexivity. Qed.
Lemma no_digit_93 : forall r, no_digit_head (93 :: r). Proof. reflexivity. Qed.
Lemma no_digit_125 : forall r, no_digit_head (125 :: r). Proof. reflexivity. Qed.

Section Lists.
  Variable k : nat.
  Hypothesis Pk : forall v rest, jvalid v -> no_digit_head rest -> (length (jprint v) < k)%nat ->
    jparse k (jprint v ++ rest) = Some (v, rest).

  Lemma elems_ok : forall l rest fuel, l <> [] ->
    (fix go l := match l with [] => True | x :: r => jvalid x /\ go r end) l ->
    (length (print_list jprint l) < k)%nat -> (length l <= fuel)%nat ->
    parse_elems (jparse k) fuel (print_list jprint l ++ 93 :: rest) = Some (l, rest).
  Proof.
    induction l as [|x r IH]; intros rest fuel Hne HV HL HF; [contradiction|].
    destruct HV as [Vx Vr]. destruct fuel as [|f]; [cbn in HF; lia|].
    cbn [print_list] in *. destruct r as [|y r'].
    - cbn [parse_elems]. rewrite Pk; [|exact Vx|cbn; reflexivity|lia]. cbn [bindo]. reflexivity.
    - rewrite app_length in HL. cbn [length] in HL.
      cbn [parse_elems]. rewrite <- app_assoc. rewrite Pk; [|exact Vx|cbn; reflexivity|lia].
      cbn [bindo app]. change (44 =? 44) with true. cbv iota.
      rewrite IH; [reflexivity|discriminate|exact Vr|lia|cbn in HF; cbn; lia].
  Qed.

  Lemma members_ok : forall l rest fuel, l <> [] ->
    (fix go l := match l with [] => True | (key, x) :: r => Forall valid_cp key /\ jvalid x /\ go r end) l ->
    (length (print_members jprint l) < k)%nat -> (length l <= fuel)%nat ->
    parse_members (jparse k) fuel (print_members jprint l ++ 125 :: rest) = Some (l, rest).
  Proof.
    induction l as [|[key x] r IH]; intros rest fuel Hne HV HL HF; [contradiction|].
    destruct HV as (Vk & Vx & Vr). destruct fuel as [|f]; [cbn in HF; lia|].
    cbn [print_members] in *. destruct r as [|y r'].
    - rewrite <- app_assoc. destruct (print_str_ok key ((58 :: jprint x) ++ 125 :: rest) Vk) as (q & Hq & Pq).
      rewrite Hq. cbn [parse_members]. change (34 =? 34) with true. cbv iota. rewrite Pq. cbn [bindo app].
      change (58 =? 58) with true. cbv iota.
      rewrite app_length in HL. cbn [length] in HL.
      rewrite Pk; [|exact Vx|cbn; reflexivity|lia]. cbn [bindo]. reflexivity.
    - rewrite <- app_assoc. destruct (print_str_ok key ((58 :: jprint x ++ 44 :: print_members jprint (y :: r')) ++ 125 :: rest) Vk) as (q & Hq & Pq).
      rewrite Hq. cbn [parse_members]. change (34 =? 34) with true. cbv iota. rewrite Pq. cbn [bindo app].
      change (58 =? 58) with true. cbv iota.
      rewrite !app_length in HL. cbn [length] in HL. rewrite app_length in HL. cbn [length] in HL.
      rewrite <- app_assoc. rewrite Pk; [|exact Vx|cbn; reflexivity|lia]. cbn [bindo app].
      change (44 =? 44) with true. cbv iota.
      rewrite IH; [reflexivity|discriminate|exact Vr|lia|cbn in HF; cbn; lia].
  Qed.
End Lists.

Lemma jparse_jprint : forall n v rest, jvalid v -> no_digit_head rest -> (length (jprint v) < n)%nat ->
  jparse n (jprint v ++ rest) = Some (v, rest).
Proof.
  induction n as [|k IH]; intros v rest HV HR HL; [lia|].
  destruct v.
  - reflexivity.
  - destruct b; reflexivity.
  - cbn [jprint] in *. destruct (jprint_head (JInt z)) as (c & t & P & H). cbn [jprint] in P.
    assert (PI := parse_int_ok z rest HR). rewrite P in *. cbn [app jparse].
    assert (Hc : c = 45 \/ is_digit c = true).
    { unfold print_int in P. destruct (z <? 0) eqn:Ez; [inversion P; auto|].
      destruct (print_nat_head z) as (d & t' & P' & D); [lia|]. rewrite P' in P. inversion P; subst. auto. }
    replace (c =? 110) with false by (unfold is_digit in Hc; lia).
    replace (c =? 116) with false by (unfold is_digit in Hc; lia).
    replace (c =? 102) with false by (unfold is_digit in Hc; lia).
    replace (c =? 34) with false by (unfold is_digit in Hc; lia).
    replace (c =? 91) with false by (unfold is_digit in Hc; lia).
    replace (c =? 123) with false by (unfold is_digit in Hc; lia).
    change (c :: t ++ rest) with ((c :: t) ++ rest). rewrite PI. reflexivity.
  - cbn [jprint jvalid] in *. destruct (print_str_ok s rest HV) as (q & Hq & Pq). rewrite Hq.
    cbn [jparse]. change (34 =? 110) with false. change (34 =? 116) with false. change (34 =? 102) with false.
    change (34 =? 34) with true. cbv iota. rewrite Pq. reflexivity.
  - cbn [jprint] in *. cbn [app jparse]. change (91 =? 110) with false. change (91 =? 116) with false.
    change (91 =? 102) with false. change (91 =? 34) with false. change (91 =? 91) with true. cbv iota.
    destruct l as [|x r].
    + reflexivity.
    + rewrite <- app_assoc. cbn [app]. cbn [length] in HL. rewrite app_length in HL. cbn [length] in HL.
      destruct (jprint_head x) as (c & t & P & H).
      assert (PL : exists t', print_list jprint (x :: r) = c :: t').
      { cbn [print_list]. destruct r; rewrite P; eexists; reflexivity. }
      destruct PL as (t' & PL). rewrite PL at 1. cbn [app].
      replace (c =? 93) with false by (unfold vhead, is_digit in H; lia).
      rewrite (elems_ok k IH); [reflexivity|discriminate|exact HV|lia|].
      rewrite app_length. cbn [length].
      assert (HLen : (length (x :: r) <= length (print_list jprint (x :: r)))%nat).
      { clear. generalize (x :: r). induction l as [|a l IHl]; [cbn; lia|].
        cbn [print_list]. destruct (jprint_head a) as (c & t & P & _). destruct l.
        - rewrite P. cbn. lia.
        - rewrite app_length, P. cbn [length] in *. lia. }
      change (length (x :: r)) with (S (length r)) in HLen. lia.
  - cbn [jprint] in *. cbn [app jparse]. change (123 =? 110) with false. change (123 =? 116) with false.
    change (123 =? 102) with false. change (123 =? 34) with false. change (123 =? 91) with false.
    change (123 =? 123) with true. cbv iota.
    destruct l as [|[key x] r].
    + reflexivity.
    + rewrite <- app_assoc. cbn [app]. cbn [length] in HL. rewrite app_length in HL. cbn [length] in HL.
      assert (PL : exists t', print_members jprint ((key, x) :: r) = 34 :: t').
      { cbn [print_members]. destruct r; unfold print_str; eexists; reflexivity. }
      destruct PL as (t' & PL). rewrite PL at 1. cbn [app]. change (34 =? 125) with false. cbv iota.
      rewrite (members_ok k IH); [reflexivity|discriminate|exact HV|lia|].
      rewrite app_length. cbn [length].
      assert (HLen : (length ((key, x) :: r) <= length (print_members jprint ((key, x) :: r)))%nat).
      { clear. generalize ((key, x) :: r). induction l as [|[a b] l IHl]; [cbn; lia|].
        cbn [print_members]. destruct l.
        - unfold print_str. cbn. lia.
        - unfold print_str. cbn [app length] in *. rewrite !app_length. cbn [length]. rewrite !app_length. cbn [length] in *. lia. }
      change (length ((key, x) :: r)) with (S (length r)) in HLen. lia.
Qed.

Theorem json_text_rt : forall v, jvalid v -> json_loads (json_dumps v) = Some v.
Proof.
  intros v HV. unfold json_loads, json_dumps.
  rewrite <- (app_nil_r (jprint v)) at 2.
  rewrite jparse_jprint; [reflexivity|exact HV|exact I|lia].
Qed.
