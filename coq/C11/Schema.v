(* C11 L1 — field-op language for the fixed-format (binary) cache layer of mypy/cache.py,
   nodes.py, types.py.  Executable definitions only.

   A schema is an [op] tree.  The writer of a class consumes a list of field values in order,
   the reader produces that list.  Nested objects (obj.write(data) / C.read(data) after tag
   dispatch) and externally specified codecs (JSON values, literal values) are parameters. *)
From Coq Require Import ZArith List Bool.
From C11 Require Import Prim.
Import ListNotations.
Open Scope Z_scope.

Definition LITERAL_NONE := 2.
Definition LITERAL_INT := 3.

Inductive op :=
| Skip
| Seq (a b : op)
| Tag (t : Z)                 (* write_tag(data, T)            / assert read_tag(data) == T *)
| IntBare                     (* write_int_bare(data, v)       / read_int_bare(data) *)
| StrBare | BytesBare | FloatBare
| Bool                        (* write_bool / read_bool *)
| Flags (n : nat)             (* write_flags(data, [n flags])  / read_flags(data, num_flags=n) *)
| Opt (body : op)             (* LITERAL_NONE tag for None, else body *)
| OptElse (body els : op)     (* body, or LITERAL_NONE tag followed by els (SymbolTableNode: cross_ref or node) *)
| Rep (body : op)             (* bare count, then count x body *)
| Dyn                         (* writer only: obj.write(data), class chosen by the object *)
| Nested (tags : list Z)      (* reader: tag = read_tag(data), dispatch to C.read for tag in tags *)
| Ext (k : Z).                (* externally specified codec k (JSON value, literal value) *)

Inductive value :=
| VInt (z : Z) | VStr (s : bytes) | VBytes (s : bytes) | VFloat (f : bytes) | VBool (b : bool)
| VFlags (l : list bool)
| VNone | VSome (fields : list value) | VElse (fields : list value)
| VRep (rows : list (list value))
| VObj (tag : Z) (fields : list value)
| VExt (k : Z) (payload : list value).

Fixpoint pack (l : list bool) : Z :=
  match l with
  | [] => 0
  | b :: r => 2 * pack r + Z.b2z b
  end.
Definition unpack (n : nat) (p : Z) : list bool :=
  map (fun i => Z.testbit p (Z.of_nat i)) (seq 0 n).

Definition bind {A B} (x : option A) (f : A -> option B) : option B :=
  match x with Some a => f a | None => None end.

Fixpoint zmem (t : Z) (l : list Z) : bool :=
  match l with [] => false | x :: r => (x =? t) || zmem t r end.

Section Codec.
  Variable obj_write : Z -> list value -> option bytes.          (* body of class [tag], after its tag *)
  Variable obj_read : Z -> bytes -> option (list value * bytes).
  Variable ext_write : Z -> list value -> option bytes.
  Variable ext_read : Z -> bytes -> option (list value * bytes).
  Variable obj_fits : Z -> list value -> bool.                     (* deep well-formedness of a nested object *)

  Definition write_obj (v : value) : option bytes :=
    match v with
    | VObj t fs => bind (write_tag t) (fun a => bind (obj_write t fs) (fun b => Some (a ++ b)))
    | _ => None
    end.

  (* write_op o vs = Some (bytes, remaining values) *)
  Fixpoint write_op (o : op) (vs : list value) {struct o} : option (bytes * list value) :=
    match o with
    | Skip => Some ([], vs)
    | Seq a b =>
        bind (write_op a vs) (fun '(x, vs1) =>
        bind (write_op b vs1) (fun '(y, vs2) => Some (x ++ y, vs2)))
    | Tag t => bind (write_tag t) (fun x => Some (x, vs))
    | IntBare => match vs with VInt z :: r => bind (write_int z) (fun x => Some (x, r)) | _ => None end
    | StrBare => match vs with VStr s :: r => bind (write_str s) (fun x => Some (x, r)) | _ => None end
    | BytesBare => match vs with VBytes s :: r => bind (write_bytes s) (fun x => Some (x, r)) | _ => None end
    | FloatBare => match vs with VFloat f :: r => bind (write_float f) (fun x => Some (x, r)) | _ => None end
    | Bool => match vs with VBool b :: r => Some (write_bool b, r) | _ => None end
    | Flags n =>
        match vs with
        | VFlags l :: r =>
            if (Nat.eqb (length l) n) && (Nat.leb n 26)
            then bind (write_int (pack l)) (fun x => Some (LITERAL_INT :: x, r)) else None
        | _ => None
        end
    | Opt body =>
        match vs with
        | VNone :: r => Some ([LITERAL_NONE], r)
        | VSome fs :: r =>
            match write_op body fs with Some (x, []) => Some (x, r) | _ => None end
        | _ => None
        end
    | OptElse body els =>
        match vs with
        | VSome fs :: r =>
            match write_op body fs with Some (x, []) => Some (x, r) | _ => None end
        | VElse fs :: r =>
            match write_op els fs with Some (y, []) => Some (LITERAL_NONE :: y, r) | _ => None end
        | _ => None
        end
    | Rep body =>
        match vs with
        | VRep rows :: r =>
            bind (write_int (zlen rows)) (fun c =>
            bind ((fix go (rows : list (list value)) : option bytes :=
                     match rows with
                     | [] => Some []
                     | row :: rs =>
                         match write_op body row with
                         | Some (x, []) => bind (go rs) (fun y => Some (x ++ y))
                         | _ => None
                         end
                     end) rows) (fun x => Some (c ++ x, r)))
        | _ => None
        end
    | Dyn | Nested _ => match vs with v :: r => bind (write_obj v) (fun x => Some (x, r)) | _ => None end
    | Ext k => match vs with VExt k' p :: r => if k' =? k then bind (ext_write k p) (fun x => Some (x, r)) else None | _ => None end
    end.

  Fixpoint read_rows (rd : bytes -> option (list value * bytes)) (n : nat) (bs : bytes)
    : option (list (list value) * bytes) :=
    match n with
    | O => Some ([], bs)
    | S k => bind (rd bs) (fun '(row, r) => bind (read_rows rd k r) (fun '(rows, r') => Some (row :: rows, r')))
    end.

  Fixpoint read_op (o : op) (bs : bytes) {struct o} : option (list value * bytes) :=
    match o with
    | Skip => Some ([], bs)
    | Seq a b =>
        bind (read_op a bs) (fun '(x, r1) =>
        bind (read_op b r1) (fun '(y, r2) => Some (x ++ y, r2)))
    | Tag t => bind (read_tag bs) (fun '(b, r) => if b =? t then Some ([], r) else None)
    | IntBare => bind (read_int bs) (fun '(z, r) => Some ([VInt z], r))
    | StrBare => bind (read_str bs) (fun '(s, r) => Some ([VStr s], r))
    | BytesBare => bind (read_bytes bs) (fun '(s, r) => Some ([VBytes s], r))
    | FloatBare => bind (read_float bs) (fun '(f, r) => Some ([VFloat f], r))
    | Bool => bind (read_bool bs) (fun '(b, r) => Some ([VBool b], r))
    | Flags n =>
        bind (read_tag bs) (fun '(b, r) =>
        if b =? LITERAL_INT then bind (read_int r) (fun '(p, r') => Some ([VFlags (unpack n p)], r')) else None)
    | Opt body =>
        match bs with
        | b :: r => if b =? LITERAL_NONE then Some ([VNone], r)
                    else bind (read_op body bs) (fun '(fs, r') => Some ([VSome fs], r'))
        | [] => None
        end
    | OptElse body els =>
        match bs with
        | b :: r => if b =? LITERAL_NONE then bind (read_op els r) (fun '(fs, r') => Some ([VElse fs], r'))
                    else bind (read_op body bs) (fun '(fs, r') => Some ([VSome fs], r'))
        | [] => None
        end
    | Rep body =>
        bind (read_int bs) (fun '(n, r) =>
        bind (read_rows (read_op body) (Z.to_nat n) r) (fun '(rows, r') => Some ([VRep rows], r')))
    | Dyn => None
    | Nested tags =>
        bind (read_tag bs) (fun '(t, r) =>
        if zmem t tags then bind (obj_read t r) (fun '(fs, r') => Some ([VObj t fs], r')) else None)
    | Ext k => bind (ext_read k bs) (fun '(p, r) => Some ([VExt k p], r))
    end.

  (* the values fit the reader: every nested object has a class the reader dispatches on *)
  Fixpoint fits (o : op) (vs : list value) {struct o} : option (list value) :=
    match o with
    | Skip | Tag _ => Some vs
    | Seq a b => bind (fits a vs) (fits b)
    | Opt body =>
        match vs with
        | VNone :: r => Some r
        | VSome fs :: r => match fits body fs with Some _ => Some r | None => None end
        | _ => None
        end
    | OptElse body els =>
        match vs with
        | VSome fs :: r => match fits body fs with Some _ => Some r | None => None end
        | VElse fs :: r => match fits els fs with Some _ => Some r | None => None end
        | _ => None
        end
    | Rep body =>
        match vs with
        | VRep rows :: r =>
            if (fix go (rows : list (list value)) : bool :=
                  match rows with
                  | [] => true
                  | row :: rs => match fits body row with Some _ => go rs | None => false end
                  end) rows then Some r else None
        | _ => None
        end
    | Nested tags => match vs with VObj t fs :: r => if zmem t tags && obj_fits t fs then Some r else None | _ => None end
    | Dyn => None
    | _ => match vs with _ :: r => Some r | [] => None end
    end.
End Codec.

(* does every byte string written by [o] start with a byte different from LITERAL_NONE? *)
Fixpoint leads (o : op) : bool :=
  match o with
  | Tag t => negb (t =? LITERAL_NONE)
  | Seq a _ => leads a
  | Nested tags => negb (zmem LITERAL_NONE tags)
  | Flags _ | Bool => true
  | _ => false
  end.

Fixpoint wf (o : op) : bool :=
  match o with
  | Seq a b => wf a && wf b
  | Opt body => wf body && leads body
  | OptElse body els => wf body && leads body && wf els
  | Rep body => wf body
  | Dyn => false
  | _ => true
  end.

(* the writer's view of a reader schema: tag dispatch tables are not visible in the writer *)
Fixpoint erase (o : op) : op :=
  match o with
  | Seq a b => Seq (erase a) (erase b)
  | Opt body => Opt (erase body)
  | OptElse body els => OptElse (erase body) (erase els)
  | Rep body => Rep (erase body)
  | Nested _ => Dyn
  | _ => o
  end.

Fixpoint zlist_eqb (a b : list Z) : bool :=
  match a, b with
  | [], [] => true
  | x :: a', y :: b' => (x =? y) && zlist_eqb a' b'
  | _, _ => false
  end.

Fixpoint op_eqb (a b : op) : bool :=
  match a, b with
  | Skip, Skip | IntBare, IntBare | StrBare, StrBare | BytesBare, BytesBare
  | FloatBare, FloatBare | Bool, Bool | Dyn, Dyn => true
  | Seq a1 a2, Seq b1 b2 | OptElse a1 a2, OptElse b1 b2 => op_eqb a1 b1 && op_eqb a2 b2
  | Tag s, Tag t => s =? t
  | Flags m, Flags n => Nat.eqb m n
  | Opt x, Opt y | Rep x, Rep y => op_eqb x y
  | Nested s, Nested t => zlist_eqb s t
  | Ext j, Ext k => j =? k
  | _, _ => false
  end.

(* writer schema w and reader schema r describe the same layout *)
Definition ops_match (w r : op) : bool := op_eqb w (erase r) && wf r.

Definition seq_of (l : list op) : op := fold_right Seq Skip l.
