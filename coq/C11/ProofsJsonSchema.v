(* C11 — json_roundtrip: deserialize (serialize v) = v for every keyed JSON schema with distinct keys, all values;
   composed with the text layer and compared with the binary format on values *)
From Coq Require Import ZArith List Bool Lia ZifyBool.
From C11 Require Import Prim Schema ProofsSchema JsonText ProofsJsonText JsonSchema.
Import ListNotations.
Open Scope Z_scope.

Ltac dbind H :=
  match type of H with
  | bind ?x _ = Some _ => let E := fresh "E" in destruct x eqn:E; [cbn [bind] in H|discriminate H]
  end.

Lemma zlist_eqb_refl : forall a, zlist_eqb a a = true.
Proof. induction a; cbn; [reflexivity|]. rewrite Z.eqb_refl. exact IHa. Qed.

Lemma zlist_eqb_sym : forall a b, zlist_eqb a b = zlist_eqb b a.
Proof.
  induction a; destruct b; cbn; try reflexivity. rewrite (Z.eqb_sym a z). now rewrite IHa.
Qed.

Section JProofs.
  Variable nested_enc : value -> option json.
  Variable nested_dec : json -> option value.
  Hypothesis nested_ok : forall v j, nested_enc v = Some j -> nested_dec j = Some v.

  Notation jenc := (jenc nested_enc).
  Notation jdec := (jdec nested_dec).

  Lemma flags_not_mem : forall names l r n,
    flags_enc names l = Some r -> key_mem n names = false -> jstr_mem n r = false.
  Proof.
    induction names as [|m ns IH]; intros l r n H K; destruct l as [|b bs]; try discriminate.
    - inversion H; subst. reflexivity.
    - cbn [flags_enc] in H. dbind H. inversion H; subst. cbn [key_mem] in K.
      apply orb_false_iff in K as [K1 K2]. destruct b; cbn [jstr_mem]; [rewrite K1; cbn|]; now apply (IH bs).
  Qed.

  Lemma flags_rt : forall names l r, flags_enc names l = Some r -> keys_distinct names = true ->
    map (fun n => jstr_mem n r) names = l.
  Proof.
    induction names as [|m ns IH]; intros l r H D; destruct l as [|b bs]; try discriminate.
    - reflexivity.
    - cbn [flags_enc] in H. dbind H. inversion H; subst. cbn [keys_distinct] in D.
      apply andb_prop in D as [D1 D2]. apply negb_true_iff in D1.
      cbn [map]. f_equal.
      + destruct b; cbn [jstr_mem]; [now rewrite zlist_eqb_refl|now apply (flags_not_mem ns bs)].
      + destruct b.
        * rewrite <- (IH bs _ E D2). apply map_ext_in. intros n Hn. cbn [jstr_mem].
          assert (zlist_eqb m n = false).
          { clear - D1 Hn. induction ns as [|x ns IHn]; [contradiction|]. cbn [key_mem] in D1.
            apply orb_false_iff in D1 as [A B]. destruct Hn as [<-|Hn]; [now rewrite zlist_eqb_sym|auto]. }
          now rewrite H0.
        * now apply IH.
  Qed.

  Lemma jop_rt : forall o v j, names_distinct_op o = true -> jenc o v = Some j -> jdec o j = Some v.
  Proof.
    induction o; intros v j D H; cbn [names_distinct_op] in D.
    - destruct v; try discriminate. inversion H; subst. reflexivity.
    - destruct v; try discriminate. inversion H; subst. reflexivity.
    - destruct v; try discriminate. inversion H; subst. reflexivity.
    - destruct v; try discriminate.
      + inversion H; subst. reflexivity.
      + cbn [JsonSchema.jenc] in H. destruct fields as [|x [|]]; try discriminate.
        destruct (jenc o x) as [j0|] eqn:E; [|discriminate].
        assert (j0 = j /\ j <> JNull) as [-> Hn] by (destruct j0; inversion H; subst; split; congruence).
        pose proof (IHo _ _ D E) as R. destruct j; try congruence; cbn [JsonSchema.jdec]; now rewrite R.
    - destruct v; try discriminate. cbn [JsonSchema.jenc] in H. dbind H. inversion H; subst. cbn [JsonSchema.jdec].
      assert (G : dec_list (jdec o) l = Some rows).
      { clear H. revert l E. induction rows as [|row rs IHr]; intros l E; cbn [enc_list] in E.
        - inversion E; subst. reflexivity.
        - destruct row as [|x [|]]; try discriminate. dbind E. dbind E.
          inversion E; subst. cbn [dec_list]. rewrite (IHo _ _ D E0). cbn [bind]. rewrite (IHr _ eq_refl). reflexivity. }
      now rewrite G.
    - destruct v; try discriminate. cbn [JsonSchema.jenc] in H. dbind H. inversion H; subst. cbn [JsonSchema.jdec].
      assert (G : dec_pairs (jdec o) l = Some rows).
      { clear H. revert l E. induction rows as [|row rs IHr]; intros l E; cbn [enc_pairs] in E.
        - inversion E; subst. reflexivity.
        - destruct row as [|k0 [|x [|]]]; try discriminate; destruct k0; try discriminate. dbind E. dbind E.
          inversion E; subst. cbn [dec_pairs]. rewrite (IHo _ _ D E0). cbn [bind]. rewrite (IHr _ eq_refl). reflexivity. }
      now rewrite G.
    - destruct v; try discriminate. cbn [JsonSchema.jenc] in H. dbind H. inversion H; subst. cbn [JsonSchema.jdec].
      now rewrite (flags_rt _ _ _ E D).
    - cbn [JsonSchema.jenc] in H. cbn [JsonSchema.jdec]. destruct v; now apply nested_ok.
  Qed.

  Lemma jdeser_ser : forall s vs m, jser_fields nested_enc s vs = Some m -> jschema_ok s = true ->
    forall m0, (forall k, key_mem k (map fst s) = true -> jlookup k m0 = jlookup k m) ->
    jdeser_fields nested_dec s m0 = Some vs.
  Proof.
    induction s as [|[k o] s IH]; intros vs m H OK m0 HL; destruct vs as [|v vs]; try discriminate.
    - reflexivity.
    - cbn [jser_fields] in H. dbind H. dbind H. inversion H; subst.
      unfold jschema_ok in OK. cbn [map fst snd keys_distinct forallb] in OK.
      apply andb_prop in OK as [OK1 OK2]. apply andb_prop in OK1 as [D1 D2]. apply andb_prop in OK2 as [N1 N2].
      apply negb_true_iff in D1.
      cbn [jdeser_fields]. rewrite HL by (cbn [map fst key_mem]; now rewrite zlist_eqb_refl).
      cbn [jlookup]. rewrite zlist_eqb_refl. cbn [bind]. rewrite (jop_rt _ _ _ N1 E). cbn [bind].
      rewrite (IH vs l E0); [reflexivity|unfold jschema_ok; now rewrite D2, N2|].
      intros k' Hk'. rewrite HL by (cbn [map fst key_mem]; rewrite Hk'; now rewrite orb_true_r).
      cbn [jlookup]. destruct (zlist_eqb k k') eqn:Ek; [|reflexivity].
      apply ProofsSchema.zlist_eqb_eq in Ek. subst k'. congruence.
  Qed.

  Theorem json_rt : forall s vs j, jschema_ok s = true -> jser nested_enc s vs = Some j -> jdeser nested_dec s j = Some vs.
  Proof.
    intros s vs j OK H. unfold jser in H. dbind H. inversion H; subst. cbn [jdeser].
    now apply (jdeser_ser s vs l E OK).
  Qed.
End JProofs.

(* the JSON cache file: text of the serialized object, loaded and deserialized *)
Theorem json_file_rt : forall ne nd, (forall v j, ne v = Some j -> nd j = Some v) ->
  forall s vs j, jschema_ok s = true -> jser ne s vs = Some j -> jvalid j ->
  bind (json_loads (json_dumps j)) (jdeser nd s) = Some vs.
Proof.
  intros ne nd Hn s vs j OK H V. rewrite (json_text_rt j V). cbn [bind]. exact (json_rt ne nd Hn s vs j OK H).
Qed.

(* formats agree on VALUES: whatever field list both encoders accept is decoded identically by both formats *)
Theorem formats_agree_on_values :
  forall ow or ew er of ne nd,
    (forall t fs bs rest, ow t fs = Some bs -> of t fs = true -> or t (bs ++ rest) = Some (fs, rest)) ->
    (forall k p bs rest, ew k p = Some bs -> er k (bs ++ rest) = Some (p, rest)) ->
    (forall v j, ne v = Some j -> nd j = Some v) ->
    forall w r s, ops_match w r = true -> jschema_ok s = true ->
    forall vs bs j,
      write_op ow ew w vs = Some (bs, []) -> fits of r vs = Some [] -> jser ne s vs = Some j -> jvalid j ->
      bind (read_op or er r bs) (fun x => Some (fst x)) = bind (json_loads (json_dumps j)) (jdeser nd s).
Proof.
  intros ow or ew er of ne nd Ho He Hn w r s HM OK vs bs j HW HF HJ V.
  rewrite (json_file_rt ne nd Hn s vs j OK HJ V).
  pose proof (schema_roundtrip_gen ow or ew er of Ho He w r HM vs bs [] HW HF) as R. rewrite app_nil_r in R.
  now rewrite R.
Qed.
