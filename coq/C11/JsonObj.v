(* C11 — recursive JSON object codec: x.serialize() / deserialize_type(data) for every class with a keyed JSON schema,
   plus the hand model of Instance.serialize / Instance.deserialize (string shortcut, optional last_known_value key).
   Executable definitions only. *)
From Coq Require Import ZArith List Bool.
From C11 Require Import Prim Schema JsonText JsonSchema Types.
From Gen Require Import Schemas.
Import ListNotations.
Open Scope Z_scope.

Definition k_class : list Z := [46; 99; 108; 97; 115; 115].                         (* ".class" *)
Definition k_instance : list Z := [73; 110; 115; 116; 97; 110; 99; 101].            (* "Instance" *)
Definition k_type_ref : list Z := [116; 121; 112; 101; 95; 114; 101; 102].
Definition k_args : list Z := [97; 114; 103; 115].
Definition k_lkv : list Z := [108; 97; 115; 116; 95; 107; 110; 111; 119; 110; 95; 118; 97; 108; 117; 101].
Definition k_extra : list Z := [101; 120; 116; 114; 97; 95; 97; 116; 116; 114; 115].

Fixpoint find_tag (t : Z) (l : list (Z * (list Z * jschema))) : option (list Z * jschema) :=
  match l with [] => None | (t', e) :: r => if t' =? t then Some e else find_tag t r end.
Fixpoint find_name (n : list Z) (l : list (Z * (list Z * jschema))) : option (Z * jschema) :=
  match l with [] => None | (t, (n', s)) :: r => if zlist_eqb n' n then Some (t, s) else find_name n r end.

Section Level.
  Variable enc : value -> option json.
  Variable dec : json -> option value.

  Definition opt_enc (v : value) : option json :=
    match v with VNone => Some JNull | VSome [x] => enc x | _ => None end.
  Definition opt_dec (j : json) : option value :=
    match j with JNull => Some VNone | _ => bind (dec j) (fun x => Some (VSome [x])) end.

  (* Instance.serialize *)
  Definition inst_jenc (fs : list value) : option json :=
    match is_plain fs with
    | Some ref => Some (JStr ref)
    | None =>
        match fs with
        | [VStr ref; VRep rows; lkv; ex] =>
            bind (enc_list enc rows) (fun args => bind (opt_enc ex) (fun je =>
            let base := [(k_type_ref, JStr ref); (k_args, JArr args); (k_extra, je)] in
            match lkv with
            | VNone => Some (JObj ((k_class, JStr k_instance) :: base))
            | VSome [x] => bind (enc x) (fun jl => Some (JObj ((k_class, JStr k_instance) :: (k_lkv, jl) :: base)))
            | _ => None
            end))
        | _ => None
        end
    end.
  (* Instance.deserialize on the members after ".class" *)
  Definition inst_jdec (m : list (list Z * json)) : option (list value) :=
    match jlookup k_type_ref m, jlookup k_args m, jlookup k_extra m with
    | Some (JStr ref), Some (JArr args), Some je =>
        bind (dec_list dec args) (fun rows => bind (opt_dec je) (fun ex =>
        match jlookup k_lkv m with
        | None => Some [VStr ref; VRep rows; VNone; ex]
        | Some jl => bind (dec jl) (fun x => Some [VStr ref; VRep rows; VSome [x]; ex])
        end))
    | _, _, _ => None
    end.

  Definition level_jenc (v : value) : option json :=
    match v with
    | VObj t fs =>
        if t =? INSTANCE then inst_jenc fs
        else match find_tag t json_classes with
             | Some (name, s) => bind (jser_fields enc s fs) (fun m => Some (JObj ((k_class, JStr name) :: m)))
             | None => None
             end
    | _ => None
    end.
  Definition level_jdec (j : json) : option value :=
    match j with
    | JStr ref => Some (VObj INSTANCE (plain_value ref))
    | JObj ((key, JStr name) :: m) =>
        if zlist_eqb key k_class then
          if zlist_eqb name k_instance then bind (inst_jdec m) (fun fs => Some (VObj INSTANCE fs))
          else match find_name name json_classes with
               | Some (t, s) => bind (jdeser_fields dec s m) (fun fs => Some (VObj t fs))
               | None => None
               end
        else None
    | _ => None
    end.
End Level.

Fixpoint jo_enc (n : nat) (v : value) : option json :=
  match n with O => None | S k => level_jenc (jo_enc k) v end.
Fixpoint jo_dec (n : nat) (j : json) : option value :=
  match n with O => None | S k => level_jdec (jo_dec k) j end.

(* the class table is consistent: tags and names identify classes, no class is called "Instance", schemas are keyed *)
Fixpoint jtable_ok (l : list (Z * (list Z * jschema))) : bool :=
  match l with
  | [] => true
  | (t, (n, s)) :: r =>
      negb (t =? INSTANCE) && negb (zlist_eqb n k_instance) && jschema_ok s
      && forallb (fun e => negb (fst e =? t) && negb (zlist_eqb (fst (snd e)) n)) r && jtable_ok r
  end.
