(* C11 — model of cross-reference storage and re-linking (mypy/fixup.py, mypy/lookup.py).
   Executable definitions only.
   In memory a TypeInfo / alias reference is a pointer; the cache stores the target's fully qualified name
   (type_ref, cross_ref, _mro_refs); fixup resolves the name with lookup_fully_qualified. *)
From Coq Require Import List Bool String Arith.
Import ListNotations.
Local Open Scope string_scope.

(* ---- lookup.lookup_fully_qualified over nested symbol tables; names are lists of dot-separated components *)
Inductive entry :=
| Sym (id : nat)                                   (* any non-class symbol *)
| Cls (id : nat) (members : list (string * entry)). (* TypeInfo with its names *)
Definition symtab := list (string * entry).

Fixpoint find (k : string) (t : symtab) : option entry :=
  match t with
  | [] => None
  | (k', e) :: r => if String.eqb k' k then Some e else find k r
  end.

(* step 3: walk the remaining components; every intermediate node must be a TypeInfo *)
Fixpoint descend (t : symtab) (path : list string) : option entry :=
  match path with
  | [] => None
  | k :: rest =>
      match find k t with
      | None => None
      | Some e =>
          match rest with
          | [] => Some e
          | _ => match e with Cls _ m => descend m rest | Sym _ => None end
          end
      end
  end.

Fixpoint path_eqb (a b : list string) : bool :=
  match a, b with
  | [], [] => true
  | x :: a', y :: b' => String.eqb x y && path_eqb a' b'
  | _, _ => false
  end.

Definition modules := list (list string * symtab).
Fixpoint find_mod (h : list string) (ms : modules) : option symtab :=
  match ms with
  | [] => None
  | (m, t) :: r => if path_eqb m h then Some t else find_mod h r
  end.

(* step 2: strip components from the right until the head is a module: prefixes of length k, k-1, ..., 1 *)
Fixpoint lookup_from (k : nat) (ms : modules) (path : list string) : option entry :=
  match k with
  | O => None
  | S k' =>
      match find_mod (firstn k path) ms with
      | Some t => descend t (skipn k path)
      | None => lookup_from k' ms path
      end
  end.
Definition lookup_fq (ms : modules) (path : list string) : option entry :=
  lookup_from (List.length path - 1) ms path.

Definition entry_id (e : entry) : nat := match e with Sym i | Cls i _ => i end.

(* ---- the reference graph: node i refers to other nodes (bases, mro, alias targets, imported names ...) *)
Record node := { fullname : list string; refs : list nat }.
Record stored := { s_fullname : list string; s_refs : list (list string) }.

Definition store (g : list node) : list stored :=
  map (fun n => {| s_fullname := fullname n;
                   s_refs := map (fun i => match nth_error g i with Some t => fullname t | None => [] end) (refs n) |}) g.

(* after loading, every stored name is resolved; an unresolvable name becomes the placeholder None
   (fixup: stale / missing TypeInfo -> the "missing" placeholder info when allow_missing) *)
Definition fixup (resolve : list string -> option nat) (sg : list stored) : list (list string * list (option nat)) :=
  map (fun s => (s_fullname s, map resolve (s_refs s))) sg.

Definition in_memory (g : list node) : list (list string * list (option nat)) :=
  map (fun n => (fullname n, map Some (refs n))) g.

Definition well_scoped (resolve : list string -> option nat) (g : list node) : Prop :=
  (forall i n, nth_error g i = Some n -> resolve (fullname n) = Some i) /\
  (forall n, In n g -> forall i, In i (refs n) -> i < List.length g).
