(* C11 — fixup restores every stored cross reference; lookup_fully_qualified finds the definition *)
From Coq Require Import List Bool String Arith Lia.
From C11 Require Import Fixup.
Import ListNotations.

Lemma path_eqb_refl : forall a, path_eqb a a = true.
Proof. induction a; cbn; [reflexivity|]. now rewrite String.eqb_refl. Qed.

Lemma path_eqb_eq : forall a b, path_eqb a b = true -> a = b.
Proof.
  induction a; destruct b; cbn; try discriminate; auto. intros H.
  apply andb_prop in H as [H1 H2]. apply String.eqb_eq in H1. f_equal; auto.
Qed.

Lemma firstn_skipn_app : forall (m p : list string), firstn (List.length m) (m ++ p) = m /\ skipn (List.length m) (m ++ p) = p.
Proof. intros. split; [now rewrite firstn_app, Nat.sub_diag, firstn_all, firstn_O, app_nil_r|now rewrite skipn_app, Nat.sub_diag, skipn_all].  Qed.

(* the symbol m.p1...pn defined in module m is found, provided no longer prefix of its name is itself a module
   (the ambiguity acknowledged by the TODO in lookup.py) *)
Lemma lookup_finds_definition : forall ms m t p e,
  p <> [] -> m <> [] ->
  find_mod m ms = Some t -> descend t p = Some e ->
  (forall k, List.length m < k -> k < List.length (m ++ p) -> find_mod (firstn k (m ++ p)) ms = None) ->
  lookup_fq ms (m ++ p) = Some e.
Proof.
  intros ms m t p e Hp Hm Hf Hd Hno. unfold lookup_fq.
  assert (G : forall k, List.length m <= k -> k < List.length (m ++ p) -> lookup_from k ms (m ++ p) = Some e).
  { induction k as [|k IH]; intros L1 L2.
    - destruct m; [contradiction|cbn in L1; lia].
    - cbn [lookup_from]. destruct (Nat.eq_dec (S k) (List.length m)) as [E|E].
      + rewrite E. destruct (firstn_skipn_app m p) as [F S]. rewrite F, Hf, S. exact Hd.
      + rewrite (Hno (S k)) by lia. apply IH; lia. }
  apply G; rewrite app_length; (destruct p; [contradiction|cbn; lia]).
Qed.

Lemma lookup_missing_module : forall ms path,
  (forall k, 0 < k -> k < List.length path -> find_mod (firstn k path) ms = None) -> lookup_fq ms path = None.
Proof.
  intros ms path H. unfold lookup_fq.
  assert (G : forall k, k < List.length path -> lookup_from k ms path = None).
  { induction k as [|k IH]; intros L; [reflexivity|]. cbn [lookup_from]. rewrite H by lia. apply IH. lia. }
  destruct path; [reflexivity|]. apply G. cbn. lia.
Qed.

Lemma fixup_restores : forall resolve g,
  well_scoped resolve g -> fixup resolve (store g) = in_memory g.
Proof.
  intros resolve g [Hres Hin]. unfold fixup, store, in_memory. rewrite map_map.
  apply map_ext_in. intros n Hn. cbn. f_equal. rewrite map_map. apply map_ext_in. intros i Hi.
  pose proof (Hin n Hn i Hi) as L. destruct (nth_error g i) as [t|] eqn:E.
  - now apply Hres.
  - apply nth_error_None in E. lia.
Qed.

(* a stored name that no longer resolves (module deleted, symbol removed) yields the placeholder, never a wrong node *)
Lemma fixup_stale_is_placeholder : forall resolve s nm,
  In nm (s_refs s) -> resolve nm = None -> In None (snd (hd (nil, nil) (fixup resolve [s]))).
Proof. intros resolve s nm Hin Hr. cbn. apply in_map_iff. exists nm. auto. Qed.
