(* C11 — decidable checks over the generated string tables (field names, field sets, JSON keys).
   Executable definitions only. *)
From Coq Require Import List Bool String.
Import ListNotations.

(* ---- tables over field names (strings): name sequences of writer and reader, field sets of the two formats *)
Definition str_mem (x : string) (l : list string) : bool := existsb (String.eqb x) l.
Definition str_subset (a b : list string) : bool := forallb (fun x => str_mem x b) a.
Definition str_set_eqb (a b : list string) : bool := str_subset a b && str_subset b a.
Fixpoint names_match (a b : list string) : bool :=
  match a, b with
  | [], [] => true
  | x :: a', y :: b' => ((x =? "?")%string || (y =? "?")%string || (x =? y)%string) && names_match a' b'
  | _, _ => false
  end.
(* both formats store the same attributes, up to the listed exceptions *)
Definition fields_agree (json bin exc : list string) : bool :=
  str_subset json (bin ++ exc) && str_subset bin (json ++ exc).
