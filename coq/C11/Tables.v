(* C11 — decidable checks over the generated string tables (field names, field sets, JSON keys).
   Executable definitions only. *)
From Coq Require Import List Bool String.
Import ListNotations.

(* ---- tables over field names (strings): name sequences of writer and reader, field sets of the two formats *)
Definition str_mem (x : string) (l : list string) : bool := existsb (String.eqb x) l.
Definition str_subset (a b : list string) : bool := forallb (fun x => str_mem x b) a.
Definition str_set_eqb (a b : list string) : bool := str_subset a b && str_subset b a.
Fixpoint names_match (a b : list string) : bool :=
  match a, b with
  | [], [] => true
  | x :: a', y :: b' => ((x =? "?")%string || (y =? "?")%string || (x =? y)%string) && names_match a' b'
  | _, _ => false
  end.
(* both formats store the same attributes, up to the listed exceptions *)
Definition fields_agree (json bin exc : list string) : bool :=
  str_subset json (bin ++ exc) && str_subset bin (json ++ exc).

(* is the shape of the expression serialize() stores under a key the one the derived JSON op assumes? *)
Definition shape_ok (derived extracted : string) : bool :=
  let plain := (extracted =? "plain")%string in
  let plist := plain || (extracted =? "list-plain")%string in
  if (derived =? "JI")%string || (derived =? "JS")%string || (derived =? "JB")%string
     || (derived =? "JOpt JS")%string || (derived =? "JOpt JI")%string then plain
  else if (derived =? "JList JS")%string || (derived =? "JList JI")%string then plist
  else if (derived =? "JNested")%string then (extracted =? "nested")%string
  else if (derived =? "JOpt JNested")%string then (extracted =? "opt-nested")%string
  else if (derived =? "JList JNested")%string then (extracted =? "list-nested")%string
  else if (derived =? "JPairs JNested")%string then (extracted =? "pairs-nested")%string
  else if (derived =? "JFlagsNames")%string then (extracted =? "flags")%string
  else false.
Fixpoint str_assoc {A} (k : string) (l : list (string * A)) : option A :=
  match l with [] => None | (k', v) :: r => if (k' =? k)%string then Some v else str_assoc k r end.
Definition class_shapes_ok (tbl : list (string * list (string * (string * string)))) (c : string) : bool :=
  match str_assoc c tbl with
  | Some rows => forallb (fun row => shape_ok (fst (snd row)) (snd (snd row))) rows
  | None => false
  end.
