(* C16 (b): a concrete instance of the serve model for the correspondence run.  The harness replaces
   each request payload by a byte string of the SAME LENGTH whose first byte says how the real
   daemon's receive()/dispatch classifies the real payload (the harness generated it, so it knows);
   framing offsets therefore coincide with the real byte stream.  Definitions only. *)
From Coq Require Import ZArith List Bool.
From C16 Require Import Bytes Shape Model Serve.
From Gen Require Import Frame.
Import ListNotations.
Open Scope Z_scope.

(* a well-formed stand-in payload is its tag followed by zeros only; anything else (e.g. a payload cut
   out of the stream at the wrong place, which then contains header bytes) is "not JSON" *)
Definition idecode_tag (b : bytes) : payload Z :=
  match b with
  | 1%N :: _ => PBadUtf8 | 2%N :: _ => PNotJson | 3%N :: _ => PNotDict | 4%N :: _ => PNoCommand
  | 5%N :: _ => PCommandNotStr | 6%N :: _ => PUnknown | 7%N :: _ => PBadArgs false | 8%N :: _ => PBadArgs true
  | 9%N :: _ => PCmd 9 | 10%N :: _ => PStop | 11%N :: _ => PCmd 11 | 12%N :: _ => PCmd 12
  | _ => PNotJson
  end.

(* command 11 is a request whose argument has the wrong type: the command body raises *)
(* tag, zeros, closing 125 ("}"): a payload cut out of the stream at the wrong place does not have this form *)
Definition idecode (b : bytes) : payload Z :=
  match b with
  | t :: rest => match rev rest with
                 | 125%N :: mid => if forallb (N.eqb 0) mid then idecode_tag b else PNotJson
                 | _ => PNotJson
                 end
  | [] => PNotJson
  end.

Definition irun (k : Z) (log : list Z) : list Z * bool := (log ++ [k], k =? 11).

(* command 12 is a check on a daemon started with -v: the build logs to sys.stderr while it runs *)
Definition italks (k : Z) (_ : list Z) : bool := k =? 12.

Definition code (r : reply Z) : Z :=
  match r with
  | NoReply => 0 | ErrNoCommand => 1 | ErrNotStr => 2 | ErrUnknown => 3 | ErrBadArgs => 4
  | Done _ => 5 | Stopped => 6 | CrashReport => 7
  end.

Definition pad (tag : N) (n : nat) : bytes :=
  match n with O => [] | S O => [tag] | S (S k) => tag :: repeat 0%N k ++ [125%N] end.
Definition fr (tag : N) (n : nat) : bytes := encode_frame (pad tag n).

(* replies (coded), process still there (serving or blocked in recv)?, status file present?, blocked?, commands executed *)
Definition esession (sh : shape) (idle : bool) (evs : list event) : list Z * (bool * bool) * bool * list Z :=
  let '(e, rs) := steps Z (list Z) irun idecode italks sh idle (estart (list Z) []) evs in
  (map code rs, (match ph (core e) with Serving => true | Exited => false end, status_file (core e)), blocked e, app (core e)).
