(* C16 (a): proofs about the generated frame_from_buffer and the read_bytes loop. *)
From Coq Require Import ZArith List Bool Lia Arith.
From C16 Require Import Bytes Model.
From Gen Require Import Frame.
Import ListNotations.
Open Scope Z_scope.
Ltac Zify.zify_post_hook ::= Z.to_euclidean_division_equations.
Arguments encode_frame : simpl never.
Arguments frame_from_buffer : simpl never.
Arguments pack_be32 : simpl never.

(* ---------------------------------------------------------------- lists *)
Lemma firstn_app_len {A} (a b : list A) k : length a = k -> firstn k (a ++ b) = a.
Proof. intros <-. rewrite firstn_app, Nat.sub_diag, firstn_all. simpl. apply app_nil_r. Qed.

Lemma skipn_app_len {A} (a b : list A) k : length a = k -> skipn k (a ++ b) = b.
Proof. intros <-. rewrite skipn_app, Nat.sub_diag, skipn_all. reflexivity. Qed.

Lemma firstn_app_short {A} (a b : list A) k : (k <= length a)%nat -> firstn k (a ++ b) = firstn k a.
Proof.
  intros H. rewrite firstn_app. replace (k - length a)%nat with 0%nat by lia. simpl. apply app_nil_r.
Qed.

Lemma app_split {A} (a b c d : list A) :
  a ++ b = c ++ d -> (length c <= length a)%nat -> exists e, a = c ++ e /\ d = e ++ b.
Proof.
  revert c. induction a as [|x a IH]; intros c H L.
  - destruct c; simpl in *; [|lia]. exists []. split; auto.
  - destruct c as [|y c]; simpl in *.
    + exists (x :: a). split; auto.
    + injection H as -> H. destruct (IH c H ltac:(lia)) as (e & -> & ->). exists e. split; auto.
Qed.

(* ---------------------------------------------------------------- header codec *)
Lemma header_is_4 : HEADER_SIZE = 4.
Proof. reflexivity. Qed.

Lemma pack_length n : length (pack_be32 n) = 4%nat.
Proof. reflexivity. Qed.

Lemma unpack_pack n : 0 <= n < two32 -> unpack_be (pack_be32 n) = n.
Proof.
  intros H. unfold two32 in H. unfold unpack_be, pack_be32. cbn [fold_left].
  rewrite !Z2N.id by (apply Z.mod_pos_bound; lia). lia.
Qed.

Lemma unpack4_pack n : 0 <= n < two32 -> unpack_be4 (pack_be32 n) = Some n.
Proof. intros H. unfold unpack_be4. rewrite pack_length. simpl. f_equal. apply unpack_pack, H. Qed.

Lemma py_len_nonneg b : 0 <= py_len b.
Proof. unfold py_len. lia. Qed.

Lemma frame_length m : length (encode_frame m) = (4 + length m)%nat.
Proof. unfold encode_frame. rewrite app_length, pack_length. reflexivity. Qed.

(* ---------------------------------------------------------------- slices with in-range bounds *)
Lemma norm_index_id len i : 0 <= i <= len -> norm_index len i = i.
Proof. intros H. unfold norm_index. destruct (i <? 0) eqn:E; lia. Qed.

Lemma slice_to b hi : 0 <= hi <= py_len b -> py_slice b None (Some hi) = firstn (Z.to_nat hi) b.
Proof. intros H. unfold py_slice. rewrite norm_index_id by lia. reflexivity. Qed.

Lemma slice_from b lo : 0 <= lo <= py_len b -> py_slice b (Some lo) None = skipn (Z.to_nat lo) b.
Proof.
  intros H. unfold py_slice. rewrite norm_index_id by lia. unfold py_len. rewrite Nat2Z.id, firstn_all. reflexivity.
Qed.

Lemma slice_mid b lo hi : 0 <= lo -> lo <= hi -> hi <= py_len b ->
  py_slice b (Some lo) (Some hi) = skipn (Z.to_nat lo) (firstn (Z.to_nat hi) b).
Proof. intros. unfold py_slice. rewrite !norm_index_id by lia. reflexivity. Qed.

(* ---------------------------------------------------------------- frame_from_buffer *)
(* invariant: message_size, when set, caches the header at the front of the buffer *)
Definition wf (s : ipc_state) : Prop :=
  match msize s with
  | None => True
  | Some v => (4 <= length (buffer s))%nat /\ unpack_be4 (firstn 4 (buffer s)) = Some v
  end.

Lemma wf_init : wf ipc_init.
Proof. exact I. Qed.

Lemma wf_extend buf ms more : wf (mk_ipc buf ms) -> wf (mk_ipc (buf ++ more) ms).
Proof.
  unfold wf; cbn [msize buffer]. destruct ms; auto. intros [L U]. split.
  - rewrite app_length. lia.
  - rewrite firstn_app_short by lia. exact U.
Qed.

Lemma ffb_complete buf ms m r :
  wf (mk_ipc buf ms) -> py_len m < two32 -> buf = encode_frame m ++ r ->
  frame_from_buffer buf ms = Ret (Some m) r None.
Proof.
  intros W B ->. pose proof (py_len_nonneg m) as Hm.
  assert (Hlen : py_len (encode_frame m ++ r) = 4 + py_len m + py_len r).
  { unfold py_len. rewrite app_length, frame_length. lia. }
  pose proof (py_len_nonneg r) as Hr.
  assert (Hhead : firstn 4 (encode_frame m ++ r) = pack_be32 (py_len m)).
  { unfold encode_frame. rewrite <- app_assoc. apply firstn_app_len, pack_length. }
  unfold frame_from_buffer. rewrite header_is_4.
  destruct (py_len (encode_frame m ++ r) <? 4) eqn:E1; [lia|].
  assert (Hv : match ms with
               | Some v => v = py_len m
               | None => unpack_be4 (py_slice (encode_frame m ++ r) None (Some 4)) = Some (py_len m) end).
  { destruct ms as [v|].
    - destruct W as [_ U]. cbn [buffer] in U. rewrite Hhead, unpack4_pack in U by lia. congruence.
    - rewrite slice_to by lia. change (Z.to_nat 4) with 4%nat. rewrite Hhead. apply unpack4_pack. lia. }
  assert (K : (if py_len (encode_frame m ++ r) <? Z.add (py_len m) 4
               then Ret None (encode_frame m ++ r) (Some (py_len m))
               else Ret (Some (py_slice (encode_frame m ++ r) (Some 4) (Some (Z.add 4 (py_len m)))))
                        (py_slice (encode_frame m ++ r) (Some (Z.add 4 (py_len m))) None) None)
              = Ret (Some m) r None).
  { destruct (py_len (encode_frame m ++ r) <? Z.add (py_len m) 4) eqn:E2; [lia|].
    rewrite slice_mid by lia. rewrite slice_from by lia.
    assert (L : length (encode_frame m) = Z.to_nat (4 + py_len m)).
    { rewrite frame_length. unfold py_len. lia. }
    rewrite (firstn_app_len _ _ _ L), (skipn_app_len _ _ _ L).
    unfold encode_frame. change (Z.to_nat 4) with 4%nat. rewrite (skipn_app_len _ _ 4%nat (pack_length _)).
    reflexivity. }
  destruct ms as [v|].
  - subst v. exact K.
  - rewrite Hv. exact K.
Qed.

Lemma ffb_partial buf ms m x r :
  wf (mk_ipc buf ms) -> py_len m < two32 -> buf ++ x = encode_frame m ++ r ->
  (length buf < length (encode_frame m))%nat ->
  exists ms', frame_from_buffer buf ms = Ret None buf ms' /\ wf (mk_ipc buf ms').
Proof.
  intros W B E L. pose proof (py_len_nonneg m) as Hm. rewrite frame_length in L.
  unfold frame_from_buffer. rewrite header_is_4.
  destruct (py_len buf <? 4) eqn:E1.
  - exists ms. split; auto.
  - assert (L4 : (4 <= length buf)%nat) by (unfold py_len in E1; lia).
    assert (Hhead : firstn 4 buf = pack_be32 (py_len m)).
    { rewrite <- (firstn_app_short buf x) by lia. rewrite E. unfold encode_frame. rewrite <- app_assoc.
      apply firstn_app_len, pack_length. }
    assert (Hv : match ms with
                 | Some v => v = py_len m
                 | None => unpack_be4 (py_slice buf None (Some 4)) = Some (py_len m) end).
    { destruct ms as [v|].
      - destruct W as [_ U]. cbn [buffer] in U. rewrite Hhead, unpack4_pack in U by lia. congruence.
      - rewrite slice_to by lia. change (Z.to_nat 4) with 4%nat. rewrite Hhead. apply unpack4_pack. lia. }
    exists (Some (py_len m)).
    assert (K : (if py_len buf <? Z.add (py_len m) 4
                 then Ret None buf (Some (py_len m))
                 else Ret (Some (py_slice buf (Some 4) (Some (Z.add 4 (py_len m)))))
                          (py_slice buf (Some (Z.add 4 (py_len m))) None) None)
                = Ret None buf (Some (py_len m))).
    { destruct (py_len buf <? Z.add (py_len m) 4) eqn:E2; [reflexivity|]. unfold py_len in *. lia. }
    split.
    + destruct ms as [v|]; [subst v; exact K | rewrite Hv; exact K].
    + split; cbn [buffer msize]; [exact L4|]. rewrite Hhead. apply unpack4_pack. lia.
Qed.

(* ---------------------------------------------------------------- read_bytes *)
Definition nonempty (c : bytes) : Prop := c <> [].

Lemma is_empty_false c : nonempty c -> is_empty c = false.
Proof. destruct c; [intros H; elim H; reflexivity | reflexivity]. Qed.

(* the unread stream starts with a complete frame: read_bytes returns exactly its payload and
   leaves exactly the rest of the stream unread *)
Lemma read_bytes_complete : forall sock s m r,
  wf s -> py_len m < two32 -> Forall nonempty sock ->
  buffer s ++ concat sock = encode_frame m ++ r ->
  exists s' sock', read_bytes s sock = Read m s' sock' /\ msize s' = None /\
                   buffer s' ++ concat sock' = r /\ Forall nonempty sock'.
Proof.
  induction sock as [|c cs IH]; intros [buf ms] m r W B NE E; cbn [concat buffer] in E.
  - rewrite app_nil_r in E. subst buf.
    cbn [read_bytes buffer msize]. rewrite (ffb_complete _ ms m r W B eq_refl).
    exists (mk_ipc r None), []. simpl. rewrite app_nil_r. auto.
  - destruct (le_lt_dec (length (encode_frame m)) (length buf)) as [Hge|Hlt].
    + destruct (app_split _ _ _ _ E Hge) as (e & -> & ->).
      cbn [read_bytes buffer msize]. rewrite (ffb_complete _ ms m e W B eq_refl).
      exists (mk_ipc e None), (c :: cs). simpl. auto.
    + destruct (ffb_partial buf ms m _ r W B E Hlt) as (ms' & F & W').
      inversion NE as [|? ? Hc Hcs]; subst.
      cbn [read_bytes buffer msize]. rewrite F. rewrite (is_empty_false c Hc).
      apply IH; auto.
      * apply wf_extend. exact W'.
      * simpl. rewrite <- app_assoc. exact E.
Qed.

(* the peer closed in the middle of a frame: read_bytes returns b"" *)
Lemma read_bytes_partial : forall sock s m x,
  wf s -> py_len m < two32 -> Forall nonempty sock ->
  (buffer s ++ concat sock) ++ x = encode_frame m -> x <> [] ->
  exists s', read_bytes s sock = Read [] s' [].
Proof.
  induction sock as [|c cs IH]; intros [buf ms] m x W B NE E X; cbn [concat buffer] in E.
  - rewrite app_nil_r in E.
    assert (L : (length buf < length (encode_frame m))%nat).
    { rewrite <- E, app_length. destruct x; [congruence | simpl; lia]. }
    destruct (ffb_partial buf ms m x [] W B ltac:(rewrite app_nil_r; exact E) L) as (ms' & F & _).
    cbn [read_bytes buffer msize]. rewrite F. eauto.
  - assert (L : (length buf < length (encode_frame m))%nat).
    { rewrite <- E, !app_length. destruct x; [congruence | simpl; lia]. }
    destruct (ffb_partial buf ms m ((c ++ concat cs) ++ x) [] W B
                ltac:(rewrite app_nil_r, app_assoc; exact E) L) as (ms' & F & W').
    inversion NE as [|? ? Hc Hcs]; subst.
    cbn [read_bytes buffer msize]. rewrite F, (is_empty_false c Hc).
    apply (IH _ m x); auto.
    + apply wf_extend. exact W'.
    + cbn [buffer]. rewrite <- E, !app_assoc. reflexivity.
Qed.

(* ---------------------------------------------------------------- readers *)
Definition sized (m : bytes) : Prop := py_len m < two32.
Definition strict_prefix (p whole : bytes) : Prop := exists x, x <> [] /\ p ++ x = whole.

Lemma wire_cons m ms : wire (m :: ms) = encode_frame m ++ wire ms.
Proof. reflexivity. Qed.

Lemma read_n_spec : forall msgs s sock r,
  wf s -> Forall nonempty sock -> Forall sized msgs ->
  buffer s ++ concat sock = wire msgs ++ r ->
  read_n (length msgs) s sock = Some msgs.
Proof.
  induction msgs as [|m ms IH]; intros s sock r W NE SZ E; [reflexivity|].
  inversion SZ as [|? ? Hm Hms]; subst.
  rewrite wire_cons, <- app_assoc in E.
  destruct (read_bytes_complete sock s m _ W Hm NE E) as (s' & sock' & R & MS & E' & NE').
  simpl. rewrite R. rewrite (IH s' sock' r); auto.
  unfold wf. rewrite MS. exact I.
Qed.

Lemma read_until_eof_spec : forall msgs fuel s sock p mlast,
  wf s -> Forall nonempty sock -> Forall (fun m => nonempty m /\ sized m) msgs ->
  sized mlast -> strict_prefix p (encode_frame mlast) ->
  buffer s ++ concat sock = wire msgs ++ p ->
  (length (buffer s ++ concat sock) < fuel)%nat ->
  read_until_eof fuel s sock = Some msgs.
Proof.
  induction msgs as [|m ms IH]; intros fuel s sock p mlast W NE OK SZ (x & X & P) E F.
  - destruct fuel; [lia|]. simpl in E.
    destruct (read_bytes_partial sock s mlast x W SZ NE ltac:(rewrite E; exact P) X) as (s' & R).
    simpl. rewrite R. reflexivity.
  - destruct fuel; [lia|].
    inversion OK as [|? ? [Hne Hm] Hms]; subst.
    rewrite wire_cons, <- app_assoc in E.
    destruct (read_bytes_complete sock s m _ W Hm NE E) as (s' & sock' & R & MS & E' & NE').
    simpl. rewrite R, (is_empty_false m Hne).
    rewrite (IH fuel s' sock' p mlast); auto.
    + unfold wf. rewrite MS. exact I.
    + exists x. auto.
    + rewrite E'. rewrite E in F. rewrite app_length, frame_length in F. lia.
Qed.

(* ---------------------------------------------------------------- feed *)
Lemma feed_concat chunks : concat (feed chunks) = concat chunks.
Proof.
  induction chunks as [|c cs IH]; [reflexivity|]. simpl. destruct c; simpl; [exact IH|]. rewrite IH. reflexivity.
Qed.

Lemma feed_nonempty chunks : Forall nonempty (feed chunks).
Proof.
  induction chunks as [|c cs IH]; [constructor|]. simpl. destruct c; simpl; [exact IH|].
  constructor; [discriminate | exact IH].
Qed.

Lemma nil_strict_prefix_frame m : strict_prefix [] (encode_frame m).
Proof. exists (encode_frame m). split; [|reflexivity]. unfold encode_frame, pack_be32. discriminate. Qed.

Lemma sized_nil : sized [].
Proof. unfold sized, py_len, two32. simpl. lia. Qed.

(* ---------------------------------------------------------------- main statements *)
Lemma partial_frame_never_delivered_l : forall msgs mlast p chunks,
  Forall (fun m => nonempty m /\ sized m) msgs -> sized mlast -> strict_prefix p (encode_frame mlast) ->
  concat chunks = wire msgs ++ p ->
  read_all (feed chunks) = Some msgs.
Proof.
  intros msgs mlast p chunks OK SZ SP E. unfold read_all.
  apply (read_until_eof_spec msgs _ ipc_init (feed chunks) p mlast wf_init (feed_nonempty _) OK SZ SP).
  - simpl. rewrite feed_concat. exact E.
  - simpl. lia.
Qed.

Lemma framing_correct_l : forall msgs chunks,
  Forall (fun m => nonempty m /\ sized m) msgs ->
  concat chunks = wire msgs ->
  read_all (feed chunks) = Some msgs.
Proof.
  intros msgs chunks OK E.
  apply (partial_frame_never_delivered_l msgs [] [] chunks OK sized_nil (nil_strict_prefix_frame [])).
  rewrite app_nil_r. exact E.
Qed.

Lemma framing_correct_counted_l : forall msgs chunks rest,
  Forall sized msgs ->
  concat chunks = wire msgs ++ rest ->
  read_n (length msgs) ipc_init (feed chunks) = Some msgs.
Proof.
  intros msgs chunks rest SZ E.
  apply (read_n_spec msgs ipc_init (feed chunks) rest wf_init (feed_nonempty _) SZ).
  simpl. rewrite feed_concat. exact E.
Qed.

(* every prefix of a wire stream is some complete frames followed by a strict prefix of a frame *)
Lemma wire_prefix_split : forall msgs a b,
  Forall sized msgs -> a ++ b = wire msgs ->
  exists k p mlast, a = wire (firstn k msgs) ++ p /\ sized mlast /\ strict_prefix p (encode_frame mlast).
Proof.
  induction msgs as [|m ms IH]; intros a b SZ E.
  - destruct a; [|discriminate]. exists 0%nat, [], []. simpl. split; auto. split; [apply sized_nil | apply nil_strict_prefix_frame].
  - inversion SZ as [|? ? Hm Hms]; subst. rewrite wire_cons in E.
    destruct (le_lt_dec (length (encode_frame m)) (length a)) as [Hge|Hlt].
    + destruct (app_split _ _ _ _ E Hge) as (e & -> & E2). symmetry in E2.
      destruct (IH e b Hms E2) as (k & p & mlast & -> & S1 & S2).
      exists (S k), p, mlast. simpl firstn. rewrite wire_cons, <- app_assoc. auto.
    + symmetry in E. destruct (app_split _ _ _ _ E ltac:(lia)) as (e & E1 & _).
      exists 0%nat, a, m. simpl. split; auto. split; auto.
      exists e. split; auto. intros ->. rewrite app_nil_r in E1. subst a. lia.
Qed.

(* at any moment (after any prefix of the socket reads) what has been delivered is an initial
   segment of what was sent: nothing reordered, nothing invented, nothing delivered incomplete *)
Lemma order_preserved_l : forall msgs chunks1 chunks2,
  Forall (fun m => nonempty m /\ sized m) msgs ->
  concat (chunks1 ++ chunks2) = wire msgs ->
  exists k, read_all (feed chunks1) = Some (firstn k msgs).
Proof.
  intros msgs c1 c2 OK E. rewrite concat_app in E.
  assert (SZ : Forall sized msgs) by (eapply Forall_impl; [|exact OK]; simpl; tauto).
  destruct (wire_prefix_split msgs _ _ SZ E) as (k & p & mlast & E1 & S1 & S2).
  exists k. apply (partial_frame_never_delivered_l (firstn k msgs) mlast p c1); auto.
  clear - OK. revert k. induction OK; intros [|k]; simpl; constructor; auto.
Qed.

(* a zero-length message is delivered as b"", which every caller reads as "peer closed" *)
Lemma empty_message_reads_as_eof : forall chunks rest,
  concat chunks = encode_frame [] ++ rest ->
  exists s sock, read_bytes ipc_init (feed chunks) = Read [] s sock.
Proof.
  intros chunks rest E.
  destruct (read_bytes_complete (feed chunks) ipc_init [] rest wf_init sized_nil (feed_nonempty _)) as (s & sock & R & _).
  - simpl. rewrite feed_concat. exact E.
  - eauto.
Qed.

(* ---------------------------------------------------------------- reply direction: server writes, client reads until final *)
Lemma read_until_final_spec (final : bytes -> bool) : forall pre fuel s sock last rest,
  wf s -> Forall nonempty sock ->
  Forall (fun m => nonempty m /\ sized m /\ final m = false) pre ->
  nonempty last -> sized last -> final last = true ->
  buffer s ++ concat sock = wire (pre ++ [last]) ++ rest ->
  (length pre < fuel)%nat ->
  read_until_final final fuel s sock = Some (pre ++ [last]).
Proof.
  induction pre as [|m ms IH]; intros fuel s sock last rest W NE OK NL SL FL E F.
  - destruct fuel; [lia|]. cbn [app] in E. rewrite wire_cons in E. cbn [wire map concat] in E. rewrite <- app_assoc in E.
    destruct (read_bytes_complete sock s last _ W SL NE E) as (s' & sock' & R & _).
    cbn [read_until_final app]. rewrite R, (is_empty_false last NL), FL. reflexivity.
  - destruct fuel; [lia|].
    inversion OK as [|? ? (Hne & Hm & Hf) Hms]; subst.
    cbn [app] in E. rewrite wire_cons, <- app_assoc in E.
    destruct (read_bytes_complete sock s m _ W Hm NE E) as (s' & sock' & R & MS & E' & NE').
    cbn [read_until_final app]. rewrite R, (is_empty_false m Hne), Hf.
    rewrite (IH fuel s' sock' last rest); auto.
    + unfold wf. rewrite MS. exact I.
    + cbn [length] in F. lia.
Qed.

Lemma reply_stream_delivered_l (final : bytes -> bool) : forall pre last chunks rest,
  Forall (fun m => nonempty m /\ sized m /\ final m = false) pre ->
  nonempty last -> sized last -> final last = true ->
  concat chunks = wire (pre ++ [last]) ++ rest ->
  read_until_final final (S (length pre)) ipc_init (feed chunks) = Some (pre ++ [last]).
Proof.
  intros pre last chunks rest OK NL SL FL E.
  apply (read_until_final_spec final pre _ ipc_init (feed chunks) last rest wf_init (feed_nonempty _) OK NL SL FL).
  - simpl. rewrite feed_concat. exact E.
  - lia.
Qed.

Lemma request_delivered_l : forall req chunks rest, sized req ->
  concat chunks = encode_frame req ++ rest ->
  read_n 1 ipc_init (feed chunks) = Some [req].
Proof.
  intros req chunks rest S E.
  apply (framing_correct_counted_l [req] chunks rest).
  - constructor; [exact S | constructor].
  - cbn [wire map concat]. rewrite app_nil_r. exact E.
Qed.

(* ---------------------------------------------------------------- the client loop, fuel-free *)
Lemma wire_length_ge ms : (length ms <= length (wire ms))%nat.
Proof.
  induction ms as [|m ms IH]; [simpl; lia|]. rewrite wire_cons, app_length, frame_length. simpl. lia.
Qed.

Lemma client_request_delivered (final : bytes -> bool) : forall pre last chunks rest,
  Forall (fun m => nonempty m /\ sized m /\ final m = false) pre ->
  nonempty last -> sized last -> final last = true ->
  concat chunks = wire (pre ++ [last]) ++ rest ->
  client_request final (feed chunks) = Some (pre ++ [last]).
Proof.
  intros pre last chunks rest OK NL SL FL E. unfold client_request.
  apply (read_until_final_spec final pre _ ipc_init (feed chunks) last rest wf_init (feed_nonempty _) OK NL SL FL).
  - simpl. rewrite feed_concat. exact E.
  - rewrite feed_concat, E, app_length. pose proof (wire_length_ge (pre ++ [last])) as H.
    rewrite app_length in H. simpl in H. lia.
Qed.

Lemma client_any_fragmentation_l (final : bytes -> bool) : forall pre last chunks1 chunks2 rest,
  Forall (fun m => nonempty m /\ sized m /\ final m = false) pre ->
  nonempty last -> sized last -> final last = true ->
  concat chunks1 = wire (pre ++ [last]) ++ rest -> concat chunks2 = concat chunks1 ->
  client_request final (feed chunks1) = client_request final (feed chunks2) /\
  client_request final (feed chunks1) = Some (pre ++ [last]).
Proof.
  intros pre last c1 c2 rest OK NL SL FL E1 E2.
  rewrite (client_request_delivered final pre last c1 rest OK NL SL FL E1).
  rewrite (client_request_delivered final pre last c2 rest OK NL SL FL (eq_trans E2 E1)). auto.
Qed.

(* the peer goes away inside a frame (after any number of complete non-final frames): an error, whatever the
   segmentation -- never a response made of what has arrived *)
Lemma read_until_final_truncated (final : bytes -> bool) : forall pre fuel s sock p mlast,
  wf s -> Forall nonempty sock ->
  Forall (fun m => nonempty m /\ sized m /\ final m = false) pre ->
  sized mlast -> strict_prefix p (encode_frame mlast) ->
  buffer s ++ concat sock = wire pre ++ p ->
  read_until_final final fuel s sock = None.
Proof.
  induction pre as [|m ms IH]; intros fuel s sock p mlast W NE OK SZ (x & X & P) E; (destruct fuel; [reflexivity|]).
  - simpl in E.
    destruct (read_bytes_partial sock s mlast x W SZ NE ltac:(rewrite E; exact P) X) as (s' & R).
    cbn [read_until_final]. rewrite R. reflexivity.
  - inversion OK as [|? ? (Hne & Hm & Hf) Hms]; subst.
    rewrite wire_cons, <- app_assoc in E.
    destruct (read_bytes_complete sock s m _ W Hm NE E) as (s' & sock' & R & MS & E' & NE').
    cbn [read_until_final]. rewrite R, (is_empty_false m Hne), Hf.
    rewrite (IH fuel s' sock' p mlast); auto.
    + unfold wf. rewrite MS. exact I.
    + exists x. auto.
Qed.

Lemma client_rejects_truncated_l (final : bytes -> bool) : forall pre mlast p chunks,
  Forall (fun m => nonempty m /\ sized m /\ final m = false) pre ->
  sized mlast -> strict_prefix p (encode_frame mlast) ->
  concat chunks = wire pre ++ p ->
  client_request final (feed chunks) = None.
Proof.
  intros pre mlast p chunks OK SZ SP E. unfold client_request.
  apply (read_until_final_truncated final pre _ ipc_init (feed chunks) p mlast wf_init (feed_nonempty _) OK SZ SP).
  simpl. rewrite feed_concat. exact E.
Qed.
