(* C16 (b): the loop of mypy/dmypy_server.py Server.serve as a state machine over client connections,
   mirroring the real try/except structure; which handlers exist is the [shape] read from the source
   (gen/ServeShape.v).  Executable definitions only.

     command = None; server = IPCServer(...)
     try:
         write status file
         while True:
             with server:                      # __enter__: accept (+ reset buffer iff reset_on_accept); __exit__: close
                 data = receive(server)        # read() -> UnicodeDecodeError; OSError: no data / not JSON / not a dict
                                               #   (inside try ... except <...>: continue   iff recv_catch_os, recv_catch_unicode)
                 if "command" not in data: resp = error
                 else:
                     command = data["command"]
                     if not isinstance(command, str): resp = error
                     else:
                         command = data.pop("command")
                         try: resp = self.run_command(command, data)
                         [except BadRequest: resp = error; command = None      iff args_validated]
                         except Exception: send(crash report); raise
                 try: send(server, resp)       # iff send_guarded
                 except OSError: pass
                 if command == "stop": sys.exit(0)
     finally:
         if command != "stop": os.unlink(self.status_file)

   NOTE the IPCServer object (and with it IPCBase.buffer / message_size) lives across connections. *)
From Coq Require Import ZArith List Bool.
From C16 Require Import Bytes Shape Model.
From Gen Require Import Frame.
Import ListNotations.
Open Scope Z_scope.

(* what receive() + the dispatch code see in a delivered frame *)
Inductive payload (cmd : Type) :=
| PBadUtf8                    (* bytes are not UTF-8: IPCBase.read raises UnicodeDecodeError *)
| PNotJson | PNotDict         (* dmypy_util.receive raises OSError *)
| PNoCommand | PCommandNotStr (* error response *)
| PUnknown                    (* run_command: "Unrecognized command" *)
| PBadArgs (is_stop : bool)   (* known command, missing / unexpected argument names (e.g. no "is_tty") *)
| PCmd (c : cmd)              (* well-formed request of a command other than stop *)
| PStop.                      (* well-formed stop *)
Arguments PBadUtf8 {cmd}. Arguments PNotJson {cmd}. Arguments PNotDict {cmd}. Arguments PNoCommand {cmd}.
Arguments PCommandNotStr {cmd}. Arguments PUnknown {cmd}. Arguments PBadArgs {cmd}. Arguments PCmd {cmd}. Arguments PStop {cmd}.

(* what the client gets back on that connection *)
Inductive reply (cmd : Type) :=
| NoReply                                  (* connection closed without a response (or client not listening) *)
| ErrNoCommand | ErrNotStr | ErrUnknown | ErrBadArgs
| Done (c : cmd) | Stopped | CrashReport.
Arguments NoReply {cmd}. Arguments ErrNoCommand {cmd}. Arguments ErrNotStr {cmd}. Arguments ErrUnknown {cmd}.
Arguments ErrBadArgs {cmd}. Arguments Done {cmd}. Arguments Stopped {cmd}. Arguments CrashReport {cmd}.

(* one client connection: the byte strings it writes (as the server's recv will see them), then it
   either waits for the reply or closes *)
Record conn := mk_conn { sent : list bytes; stays : bool }.

Inductive phase := Serving | Exited.

Record daemon (astate : Type) := mk_daemon {
  ipc : ipc_state;        (* server.buffer, server.message_size *)
  app : astate;           (* everything the commands read and write (fine-grained manager, options, ...) *)
  status_file : bool;     (* the status file naming this daemon exists *)
  ph : phase }.
Arguments mk_daemon {astate}. Arguments ipc {astate}. Arguments app {astate}.
Arguments status_file {astate}. Arguments ph {astate}.

Inductive received (cmd : Type) := RaiseOS | RaiseUnicode | RaiseStruct | Got (p : payload cmd).
Arguments RaiseOS {cmd}. Arguments RaiseUnicode {cmd}. Arguments RaiseStruct {cmd}. Arguments Got {cmd}.

Section Serve.
Variables cmd astate : Type.
Variable run : cmd -> astate -> astate * bool.   (* body of a command: new state, true = it raised *)
Variable decode : bytes -> payload cmd.          (* UTF-8 + JSON decoding, command lookup, argument-name check *)
Variable talks : cmd -> astate -> bool.          (* the command prints to sys.stdout / sys.stderr (= WriteToConn -> send on the
                                                    client's connection) while it runs, e.g. manager.log under -v *)
Variable sh : shape.

Definition classify (b : bytes) : received cmd :=
  if is_empty b then RaiseOS                      (* "No data received" *)
  else match decode b with
       | PBadUtf8 => RaiseUnicode
       | PNotJson | PNotDict => RaiseOS
       | p => Got p
       end.

(* leaving the loop through `finally` with command != "stop" *)
Definition die (d : daemon astate) : daemon astate := mk_daemon (ipc d) (app d) false Exited.

Definition respond (d : daemon astate) (c : conn) (r : reply cmd) : daemon astate * reply cmd :=
  if stays c then (d, r)
  else if send_guarded sh then (d, NoReply) else (die d, NoReply).

(* except Exception: report, re-raise; finally unlinks unless command == "stop" *)
Definition crash (d : daemon astate) (c : conn) (is_stop : bool) : daemon astate * reply cmd :=
  (mk_daemon (ipc d) (app d) (if is_stop then status_file d else false) Exited,
   if stays c then CrashReport else NoReply).

Definition dispatch (d : daemon astate) (c : conn) (p : payload cmd) : daemon astate * reply cmd :=
  match p with
  | PNoCommand => respond d c ErrNoCommand
  | PCommandNotStr => respond d c ErrNotStr
  | PUnknown => respond d c ErrUnknown
  | PBadArgs is_stop => if args_validated sh then respond d c ErrBadArgs else crash d c is_stop
  | PCmd k =>
      if talks k (app d) && negb (stays c) && negb (stdout_guarded sh)
      then (* WriteToConn.write -> send raises BrokenPipeError inside the command; `except Exception` tries to send
              the crash report on the same dead connection, which raises again; `finally` unlinks *)
           crash d c false
      else
              let '(a', raised) := run k (app d) in
              let d' := mk_daemon (ipc d) a' (status_file d) (ph d) in
              if raised then crash d' c false else respond d' c (Done k)
  | PStop => (* cmd_stop unlinks the status file, the reply is sent (or not), sys.exit(0) *)
             (mk_daemon (ipc d) (app d) false Exited, if stays c then Stopped else NoReply)
  | _ => (d, NoReply)   (* not reachable from classify *)
  end.

Definition serve_conn (d : daemon astate) (c : conn) : daemon astate * reply cmd :=
  match ph d with
  | Exited => (d, NoReply)     (* nobody listens *)
  | Serving =>
      let i0 := if reset_on_accept sh then ipc_init else ipc d in
      match read_bytes i0 (feed (sent c)) with
      | RaisedStructError => (die (mk_daemon i0 (app d) (status_file d) Serving), NoReply)
      | Read b i1 _ =>
          let d1 := mk_daemon i1 (app d) (status_file d) Serving in
          match classify b with
          | RaiseOS => if recv_catch_os sh then (d1, NoReply) else (die d1, NoReply)
          | RaiseUnicode => if recv_catch_unicode sh then (d1, NoReply) else (die d1, NoReply)
          | RaiseStruct => (die d1, NoReply)
          | Got p => dispatch d1 c p
          end
      end
  end.

Fixpoint serve (d : daemon astate) (cs : list conn) : daemon astate * list (reply cmd) :=
  match cs with
  | [] => (d, [])
  | c :: cs' => let '(d1, r) := serve_conn d c in
                let '(d2, rs) := serve d1 cs' in (d2, r :: rs)
  end.

Definition start (a : astate) : daemon astate := mk_daemon ipc_init a true Serving.

(* ------------------------------------------------------------------ clients that neither send nor close; idle exit *)
(* [Stalled chunks]: a client connects, writes the chunks and then does nothing (keeps the connection open).
   [IdleTimeout]: nobody connects for longer than the daemon's --timeout (only when one is configured: the
   listening socket has that timeout, accept raises TimeoutError -> IPCException, which nothing in serve catches).
   The ACCEPTED connection is a fresh blocking socket: it has a receive timeout only iff [conn_timeout]. *)
Inductive event := Conn (c : conn) | Stalled (chunks : list bytes) | IdleTimeout.

(* [blocked]: the single-threaded loop sits in recv on a stalled connection: it neither accepts nor times out *)
Record edaemon := mk_e { core : daemon astate; blocked : bool }.

Definition step (idle : bool) (e : edaemon) (ev : event) : edaemon * reply cmd :=
  if blocked e then (e, NoReply)
  else
  let d := core e in
  match ev with
  | Conn c => let '(d', r) := serve_conn d c in (mk_e d' false, r)
  | IdleTimeout =>
      match ph d with
      | Serving => if idle then (mk_e (die d) false, NoReply) else (e, NoReply)
      | Exited => (e, NoReply)
      end
  | Stalled chunks =>
      match ph d with
      | Exited => (e, NoReply)
      | Serving =>
          let i0 := if reset_on_accept sh then ipc_init else ipc d in
          match read_bytes_open i0 (feed chunks) with
          | OStructError => (mk_e (die (mk_daemon i0 (app d) (status_file d) Serving)) false, NoReply)
          | OFrame _ _ _ => (* a complete request arrived before the client stalled: served like any waiting client *)
              let '(d', r) := serve_conn d (mk_conn chunks true) in (mk_e d' false, r)
          | OWaiting i1 =>
              let d1 := mk_daemon i1 (app d) (status_file d) Serving in
              if conn_timeout sh
              then (* recv raises TimeoutError, an OSError, from receive() *)
                   if recv_catch_os sh then (mk_e d1 false, NoReply) else (mk_e (die d1) false, NoReply)
              else (mk_e d1 true, NoReply)
          end
      end
  end.

Fixpoint steps (idle : bool) (e : edaemon) (evs : list event) : edaemon * list (reply cmd) :=
  match evs with
  | [] => (e, [])
  | ev :: evs' => let '(e1, r) := step idle e ev in
                  let '(e2, rs) := steps idle e1 evs' in (e2, r :: rs)
  end.

Definition estart (a : astate) : edaemon := mk_e (start a) false.


(* what a connection asks for, seen in isolation (fresh reassembly state) *)
Definition conn_request (c : conn) : option (received cmd) :=
  match read_bytes ipc_init (feed (sent c)) with
  | RaisedStructError => None
  | Read b _ _ => Some (classify b)
  end.

Definition is_stop_request (c : conn) : bool :=
  match conn_request c with Some (Got PStop) => true | _ => false end.

(* a faulty connection: anything that does not carry a well-formed command or stop *)
Definition is_fault (c : conn) : bool :=
  match conn_request c with Some (Got (PCmd _)) | Some (Got PStop) => false | _ => true end.

(* the request an event carries, seen in isolation; a stalled client that never completes a frame carries none *)
Definition event_is_stop (ev : event) : bool :=
  match ev with
  | Conn c => match conn_request c with Some (Got PStop) => true | _ => false end
  | Stalled chunks => match read_bytes_open ipc_init (feed chunks) with
                      | OFrame _ _ _ => match conn_request (mk_conn chunks true) with Some (Got PStop) => true | _ => false end
                      | _ => false
                      end
  | IdleTimeout => false
  end.
Definition event_is_idle (ev : event) : bool := match ev with IdleTimeout => true | _ => false end.

End Serve.
Arguments mk_e {astate}. Arguments core {astate}. Arguments blocked {astate}.

Definition serve_repaired (sh : shape) : bool :=
  recv_catch_os sh && recv_catch_unicode sh && reset_on_accept sh && args_validated sh && send_guarded sh.
