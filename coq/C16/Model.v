(* C16 (a): the reassembly loop of mypy/ipc.py IPCBase.read_bytes (POSIX branch) over the generated
   [frame_from_buffer].  Executable definitions only.

     while True:
         bdata = self.frame_from_buffer()
         if bdata is not None: break
         more = self.connection.recv(size)
         if not more: break                 # connection closed
         self.buffer.extend(more)
     if not bdata: return b""
     return bdata

   The socket is the list of byte strings the successive recv calls will return (every possible
   segmentation of the stream is such a list); when it is exhausted recv returns b"" (peer closed). *)
From Coq Require Import ZArith List Bool.
From C16 Require Import Bytes.
From Gen Require Import Frame.
Import ListNotations.
Open Scope Z_scope.

(* self.buffer, self.message_size *)
Record ipc_state := mk_ipc { buffer : bytes; msize : option Z }.
Definition ipc_init : ipc_state := mk_ipc [] None.       (* IPCBase.__init__ *)

Inductive read_result :=
| RaisedStructError
| Read (data : bytes) (s : ipc_state) (rest : list bytes).   (* returned bytes, new state, recv results not yet consumed *)

Fixpoint read_bytes (s : ipc_state) (sock : list bytes) {struct sock} : read_result :=
  match frame_from_buffer (buffer s) (msize s) with
  | StructError => RaisedStructError
  | Ret (Some b) buf ms => Read b (mk_ipc buf ms) sock               (* `if not bdata: return b""` returns the same value *)
  | Ret None buf ms =>
      match sock with
      | [] => Read [] (mk_ipc buf ms) []                             (* recv -> b"": closed *)
      | more :: sock' =>
          if is_empty more then Read [] (mk_ipc buf ms) sock'        (* recv -> b"" *)
          else read_bytes (mk_ipc (buf ++ more) ms) sock'
      end
  end.

(* The same loop when the peer has NOT closed after its last write (a stalled client): once the bytes
   written so far are consumed, recv blocks. *)
Inductive open_result :=
| OStructError
| OFrame (data : bytes) (s : ipc_state) (rest : list bytes)
| OWaiting (s : ipc_state).                                   (* blocked in recv *)

Fixpoint read_bytes_open (s : ipc_state) (sock : list bytes) {struct sock} : open_result :=
  match frame_from_buffer (buffer s) (msize s) with
  | StructError => OStructError
  | Ret (Some b) buf ms => OFrame b (mk_ipc buf ms) sock
  | Ret None buf ms =>
      match sock with
      | [] => OWaiting (mk_ipc buf ms)
      | more :: sock' =>
          if is_empty more then read_bytes_open (mk_ipc buf ms) sock'    (* cannot happen after feed *)
          else read_bytes_open (mk_ipc (buf ++ more) ms) sock'
      end
  end.

(* What the peer's successive writes look like to recv on a stream socket: a zero-length write
   produces no read event. *)
Definition feed (chunks : list bytes) : list bytes := filter (fun c => negb (is_empty c)) chunks.

(* a reader that calls read_bytes exactly n times (the protocol tells it how many messages to expect) *)
Fixpoint read_n (n : nat) (s : ipc_state) (sock : list bytes) : option (list bytes) :=
  match n with
  | O => Some []
  | S n' => match read_bytes s sock with
            | RaisedStructError => None
            | Read b s' sock' => option_map (cons b) (read_n n' s' sock')
            end
  end.

(* a reader that calls read_bytes until it returns b"" (how every caller detects that the peer has
   gone: dmypy_util.receive / ipc.receive raise OSError("No data received") on b"").  The fuel only
   makes the definition structurally recursive; [read_all] supplies enough. *)
Fixpoint read_until_eof (fuel : nat) (s : ipc_state) (sock : list bytes) : option (list bytes) :=
  match fuel with
  | O => None
  | S f => match read_bytes s sock with
           | RaisedStructError => None
           | Read b s' sock' => if is_empty b then Some [] else option_map (cons b) (read_until_eof f s' sock')
           end
  end.

Definition read_all (sock : list bytes) : option (list bytes) :=
  read_until_eof (S (length (concat sock))) ipc_init sock.

(* the loop of mypy/dmypy/client.py request(): receive frames until one is marked final
     final = False
     while not final:
         response = receive(client)          # OSError("No data received") on b""
         final = bool(response.pop("final", False))
   [final] abstracts "the decoded JSON dict has a true `final`"; the frames before the final one are
   the stdout/stderr frames WriteToConn sends while a command runs.  None = an exception escaped. *)
Fixpoint read_until_final (final : bytes -> bool) (fuel : nat) (s : ipc_state) (sock : list bytes)
  : option (list bytes) :=
  match fuel with
  | O => None
  | S f => match read_bytes s sock with
           | RaisedStructError => None
           | Read b s' sock' =>
               if is_empty b then None
               else if final b then Some [b]
               else option_map (cons b) (read_until_final final f s' sock')
           end
  end.

(* request() as a function of what the socket delivers: the frames up to and including the final one, or
   None when an exception escapes the loop (OSError "No data received" -> request() returns {"error": ...}).
   Every delivered frame has at least its 4 header bytes, so the number of loop iterations is bounded by the
   number of bytes: that bound is the fuel. *)
Definition client_request (final : bytes -> bool) (sock : list bytes) : option (list bytes) :=
  read_until_final final (S (length (concat sock))) ipc_init sock.

(* sender side: successive write_bytes calls put this on the wire *)
Definition wire (msgs : list bytes) : bytes := concat (map encode_frame msgs).

Definition two32 : Z := 4294967296.
