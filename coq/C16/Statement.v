(* Full-strength statements of property C16 over the model, always visible. *)
From Coq Require Import ZArith List Bool.
From C16 Require Import Bytes Shape Model.
From Gen Require Import Frame.
Import ListNotations.
Open Scope Z_scope.

(* (a) Messages arrive complete and in order however the byte stream is fragmented: for every list of
   messages a sender may write (struct.pack accepts lengths < 2^32) and EVERY segmentation of the
   resulting stream into socket reads, a reader that reads until the peer closes gets exactly the
   messages.  (A zero-length message is returned as b"", which is also how "peer closed" is
   reported; the until-closed reader therefore needs non-empty messages, the counted reader does
   not: [framing_counted].) *)
Definition framing_correct : Prop :=
  forall msgs chunks,
    Forall (fun m => m <> [] /\ py_len m < two32) msgs ->
    concat chunks = wire msgs ->
    read_all (feed chunks) = Some msgs.

Definition framing_counted : Prop :=
  forall msgs chunks rest,
    Forall (fun m => py_len m < two32) msgs ->
    concat chunks = wire msgs ++ rest ->
    read_n (length msgs) ipc_init (feed chunks) = Some msgs.

(* a frame whose sender went away part-way is never delivered (neither truncated nor padded) *)
Definition partial_frame_never_delivered : Prop :=
  forall msgs mlast p chunks,
    Forall (fun m => m <> [] /\ py_len m < two32) msgs ->
    py_len mlast < two32 -> (exists x, x <> [] /\ p ++ x = encode_frame mlast) ->
    concat chunks = wire msgs ++ p ->
    read_all (feed chunks) = Some msgs.

Definition order_preserved : Prop :=
  forall msgs chunks1 chunks2,
    Forall (fun m => m <> [] /\ py_len m < two32) msgs ->
    concat (chunks1 ++ chunks2) = wire msgs ->
    exists k, read_all (feed chunks1) = Some (firstn k msgs).

(* both directions of one dmypy exchange.  Request: the client writes one frame, the server's single
   read_bytes gets exactly it, whatever follows on the wire.  Reply: the server writes zero or more
   non-final frames (WriteToConn stdout/stderr) and the final response, each through write_bytes; the
   client loop of dmypy/client.py request() gets exactly those frames, for every segmentation. *)
Definition request_delivered : Prop :=
  forall req chunks rest, py_len req < two32 ->
    concat chunks = encode_frame req ++ rest ->
    read_n 1 ipc_init (feed chunks) = Some [req].

Definition reply_stream_delivered : Prop :=
  forall (final : bytes -> bool) pre last chunks rest,
    Forall (fun m => m <> [] /\ py_len m < two32 /\ final m = false) pre ->
    last <> [] -> py_len last < two32 -> final last = true ->
    concat chunks = wire (pre ++ [last]) ++ rest ->
    read_until_final final (S (length pre)) ipc_init (feed chunks) = Some (pre ++ [last]).

(* the client side of the protocol (mypy/dmypy/client.py request()): whatever way the reply stream is split
   into recv results, the client obtains the same frames, namely exactly those the server wrote up to the final
   one (so the response dict and the echoed stdout/stderr do not depend on fragmentation) *)
Definition client_reassembles_any_fragmentation : Prop :=
  forall (final : bytes -> bool) pre last chunks1 chunks2 rest,
    Forall (fun m => m <> [] /\ py_len m < two32 /\ final m = false) pre ->
    last <> [] -> py_len last < two32 -> final last = true ->
    concat chunks1 = wire (pre ++ [last]) ++ rest -> concat chunks2 = concat chunks1 ->
    client_request final (feed chunks1) = client_request final (feed chunks2) /\
    client_request final (feed chunks1) = Some (pre ++ [last]).

(* EOF inside a frame, after any number of complete non-final frames: an error (request() returns
   {"error": ...}), never a response assembled from a partial frame *)
Definition client_rejects_truncated : Prop :=
  forall (final : bytes -> bool) pre mlast p chunks,
    Forall (fun m => m <> [] /\ py_len m < two32 /\ final m = false) pre ->
    py_len mlast < two32 -> (exists x, x <> [] /\ p ++ x = encode_frame mlast) ->
    concat chunks = wire pre ++ p ->
    client_request final (feed chunks) = None.

(* ------------------------------------------------------------------------------------------ (b) *)
From C16 Require Import Serve.

Section ServeStatements.
Variables cmd astate : Type.
Variable run : cmd -> astate -> astate * bool.
Variable decode : bytes -> payload cmd.
Variable talks : cmd -> astate -> bool.
Variable sh : shape.

(* contract on un-modelled code (monitored, not proved): a well-formed command does not raise *)
Definition no_internal_crash : Prop := forall k a, snd (run k a) = false.

(* Whatever clients do on their connections (any bytes, any segmentation, closing at any point,
   waiting for the reply or not), as long as nobody sends a well-formed stop the daemon is still
   serving and its status file is still there. *)
(* either WriteToConn tolerates a client that has gone, or (contract, monitored: true at default verbosity)
   no command prints while it runs *)
Definition output_tolerated : Prop := stdout_guarded sh = true \/ forall k a, talks k a = false.

Definition daemon_survives : Prop :=
  no_internal_crash -> output_tolerated -> forall a conns,
    (forall c, In c conns -> is_stop_request cmd decode c = false) ->
    let d := fst (serve cmd astate run decode talks sh (start astate a) conns) in
    ph d = Serving /\ status_file d = true.

Definition daemon_survives_refuted : Prop :=
  exists conns, (forall c, In c conns -> is_stop_request cmd decode c = false) /\
    forall a, let d := fst (serve cmd astate run decode talks sh (start astate a) conns) in
              ph d = Exited /\ status_file d = false.

Definition same_daemon (d d' : daemon astate) : Prop :=
  app d = app d' /\ status_file d = status_file d' /\ ph d = ph d'.

(* a faulty connection (anything but a well-formed command) leaves the daemon's state untouched *)
Definition failed_request_preserves_state : Prop :=
  forall d c, is_fault cmd decode c = true ->
    same_daemon (fst (serve_conn cmd astate run decode talks sh d c)) d.

(* ... and every later connection gets the reply it would have got without the faulty one *)
Definition later_requests_unaffected : Prop :=
  forall d f later, is_fault cmd decode f = true ->
    let d1 := fst (serve_conn cmd astate run decode talks sh d f) in
    snd (serve cmd astate run decode talks sh d1 later) = snd (serve cmd astate run decode talks sh d later) /\
    same_daemon (fst (serve cmd astate run decode talks sh d1 later)) (fst (serve cmd astate run decode talks sh d later)).

(* once the daemon has exited no status file naming it remains *)
Definition status_file_removed_on_exit : Prop :=
  forall a conns, let d := fst (serve cmd astate run decode talks sh (start astate a) conns) in
    ph d = Exited -> status_file d = false.

(* ---- stalled clients, idle exit, output to a client that has gone *)
Definition no_stop_no_idle (evs : list event) : Prop :=
  forall ev, In ev evs -> event_is_stop cmd decode ev = false /\ event_is_idle ev = false.

(* with a receive timeout on accepted connections a client that connects and then neither sends nor closes
   (after any number of bytes) cannot block the loop: whatever clients do, incl. stalling, the daemon is
   never blocked, still serving, status file present *)
Definition stalled_client_does_not_block_forever : Prop :=
  no_internal_crash -> output_tolerated -> forall idle a evs, no_stop_no_idle evs ->
    let e := fst (steps cmd astate run decode talks sh idle (estart astate a) evs) in
    blocked e = false /\ ph (core e) = Serving /\ status_file (core e) = true.

(* without it: one client that connects and sends nothing wedges the daemon: every later client, whatever it
   sends, gets no reply, and not even the idle timeout fires *)
Definition stalled_client_blocks_refuted : Prop :=
  forall idle a later,
    let r := steps cmd astate run decode talks sh idle (estart astate a) (Stalled [] :: later) in
    blocked (fst r) = true /\ ph (core (fst r)) = Serving /\ snd r = repeat NoReply (S (length later)).

(* the daemon that leaves on its idle timeout leaves no status file (any shape) *)
Definition idle_exit_removes_status_file : Prop :=
  forall e, blocked e = false -> ph (core e) = Serving ->
    let e' := fst (step cmd astate run decode talks sh true e IdleTimeout) in
    ph (core e') = Exited /\ status_file (core e') = false.

Definition status_file_removed_on_exit_events : Prop :=
  forall idle a evs, let e := fst (steps cmd astate run decode talks sh idle (estart astate a) evs) in
    ph (core e) = Exited -> status_file (core e) = false.

(* a client that sends a command which prints while it runs, and hangs up: the write to the dead connection
   raises inside the command, the crash report cannot be sent either, the daemon exits *)
Definition hangup_during_output_refuted : Prop :=
  forall b k a, b <> [] -> py_len b < two32 -> decode b = PCmd k -> talks k a = true ->
    let d := fst (serve cmd astate run decode talks sh (start astate a) [mk_conn [encode_frame b] false]) in
    ph d = Exited.
End ServeStatements.

(* the full-strength statement for a given source shape *)
Definition serve_correct (sh : shape) : Prop :=
  forall cmd astate run decode talks,
    daemon_survives cmd astate run decode talks sh /\
    failed_request_preserves_state cmd astate run decode talks sh /\
    later_requests_unaffected cmd astate run decode talks sh /\
    status_file_removed_on_exit cmd astate run decode talks sh.

Definition serve_refuted (sh : shape) : Prop :=
  forall cmd astate run decode talks, daemon_survives_refuted cmd astate run decode talks sh.

(* what is decided about the loop found in the source: the repaired loop is correct; a loop whose
   receive() is not guarded dies on a client fault (finding F3).  A partially repaired loop is
   covered by neither (the check then reports a broken obligation and searches). *)
Definition serve_verdict (sh : shape) : Prop :=
  if serve_repaired sh then serve_correct sh
  else if negb (recv_catch_os sh) then serve_refuted sh
  else True.

(* stalled clients: decided by whether accepted connections get a receive timeout *)
Definition stall_verdict (sh : shape) : Prop :=
  forall cmd astate run decode talks,
    if conn_timeout sh
    then serve_repaired sh = true -> stalled_client_does_not_block_forever cmd astate run decode talks sh
    else stalled_client_blocks_refuted cmd astate run decode talks sh.

(* output to a client that has gone: decided by whether WriteToConn.write tolerates OSError *)
Definition output_verdict (sh : shape) : Prop :=
  forall cmd astate run decode talks,
    if stdout_guarded sh then True   (* covered by daemon_survives through [output_tolerated] *)
    else hangup_during_output_refuted cmd astate run decode talks sh.
