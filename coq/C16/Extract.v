From Coq Require Import ZArith List Bool Extraction ExtrOcamlBasic.
From C16 Require Import Bytes Model.
From Gen Require Import Frame.
Extraction "c16.ml" read_bytes read_until_final client_request feed ipc_init frame_from_buffer encode_frame.
