(* C16 (b): proofs about the serve-loop model. *)
From Coq Require Import ZArith List Bool Lia Arith.
From C16 Require Import Bytes Shape Model ProofsFrame Serve Statement.
From Gen Require Import Frame.
Import ListNotations.
Open Scope Z_scope.
Arguments encode_frame : simpl never.
Arguments frame_from_buffer : simpl never.

(* ---------------------------------------------------------------- struct.error never escapes *)
Lemma ffb_total buf ms :
  wf (mk_ipc buf ms) -> exists r b' ms', frame_from_buffer buf ms = Ret r b' ms' /\ wf (mk_ipc b' ms').
Proof.
  intros W. unfold frame_from_buffer. rewrite header_is_4.
  destruct (py_len buf <? 4) eqn:E1.
  - eauto.
  - assert (L4 : (4 <= length buf)%nat) by (unfold py_len in E1; lia).
    assert (K : forall v, unpack_be4 (firstn 4 buf) = Some v ->
      exists r b' ms',
        (if py_len buf <? Z.add v 4 then Ret None buf (Some v)
         else Ret (Some (py_slice buf (Some 4) (Some (Z.add 4 v)))) (py_slice buf (Some (Z.add 4 v)) None) None)
        = Ret r b' ms' /\ wf (mk_ipc b' ms')).
    { intros v U. destruct (py_len buf <? Z.add v 4).
      - do 3 eexists. split; [reflexivity|]. split; assumption.
      - do 3 eexists. split; [reflexivity|]. exact I. }
    destruct ms as [v|].
    + destruct W as [_ U]. apply K, U.
    + rewrite slice_to by (unfold py_len; lia). change (Z.to_nat 4) with 4%nat.
      assert (L : length (firstn 4 buf) = 4%nat) by (rewrite firstn_length; lia).
      unfold unpack_be4 at 1. rewrite L. cbn [Nat.eqb].
      apply K. unfold unpack_be4. rewrite L. reflexivity.
Qed.

Lemma read_bytes_total : forall sock s, wf s -> read_bytes s sock <> RaisedStructError.
Proof.
  induction sock as [|c cs IH]; intros [buf ms] W; destruct (ffb_total buf ms W) as (r & b' & ms' & F & W');
    cbn [read_bytes buffer msize]; rewrite F; destruct r; try discriminate.
  destruct (is_empty c); [discriminate|]. apply IH, wf_extend, W'.
Qed.

Lemma read_bytes_one_chunk b r :
  sized b -> read_bytes ipc_init [encode_frame b ++ r] = Read b (mk_ipc r None) [].
Proof.
  intros S. cbn [read_bytes ipc_init buffer msize].
  assert (F0 : frame_from_buffer [] None = Ret None [] None) by reflexivity.
  rewrite F0.
  assert (NE : is_empty (encode_frame b ++ r) = false) by (unfold encode_frame, pack_be32; reflexivity).
  rewrite NE. cbn [read_bytes buffer msize]. rewrite app_nil_l.
  rewrite (ffb_complete (encode_frame b ++ r) None b r I S eq_refl). reflexivity.
Qed.

Section ServeProofs.
Variables cmd astate : Type.
Variable run : cmd -> astate -> astate * bool.
Variable decode : bytes -> payload cmd.

Notation serve_conn := (serve_conn cmd astate run decode).
Notation serve := (serve cmd astate run decode).
Notation classify := (classify cmd decode).
Notation same_daemon := (same_daemon astate).

Lemma classify_not_struct b : classify b <> RaiseStruct.
Proof. unfold Serve.classify. destruct (is_empty b); [discriminate|]. destruct (decode b); discriminate. Qed.

Lemma classify_got b p : classify b = Got p ->
  match p with PBadUtf8 | PNotJson | PNotDict => False | _ => True end.
Proof.
  unfold Serve.classify. destruct (is_empty b); [discriminate|].
  destruct (decode b); intros H; inversion H; exact I.
Qed.

Lemma repaired_flags sh : serve_repaired sh = true ->
  recv_catch_os sh = true /\ recv_catch_unicode sh = true /\ reset_on_accept sh = true /\
  args_validated sh = true /\ send_guarded sh = true.
Proof. unfold serve_repaired. rewrite !andb_true_iff. tauto. Qed.

(* in the repaired loop the effect of a connection depends on the daemon only through
   (app, status_file, ph) and is computed from a fresh reassembly state *)
Definition outcome (sh : shape) (d : daemon astate) (c : conn) : daemon astate * reply cmd :=
  match ph d with
  | Exited => (d, NoReply)
  | Serving =>
      match read_bytes ipc_init (feed (sent c)) with
      | RaisedStructError => (d, NoReply)
      | Read b i1 _ =>
          let d1 := mk_daemon i1 (app d) (status_file d) Serving in
          match classify b with
          | Got (PCmd k) => let '(a', raised) := run k (app d) in
                            let d' := mk_daemon i1 a' (status_file d) Serving in
                            if raised then crash cmd astate d' c false else (d', if stays c then Done k else NoReply)
          | Got PStop => (mk_daemon i1 (app d) false Exited, if stays c then Stopped else NoReply)
          | Got PNoCommand => (d1, if stays c then ErrNoCommand else NoReply)
          | Got PCommandNotStr => (d1, if stays c then ErrNotStr else NoReply)
          | Got PUnknown => (d1, if stays c then ErrUnknown else NoReply)
          | Got (PBadArgs _) => (d1, if stays c then ErrBadArgs else NoReply)
          | _ => (d1, NoReply)
          end
      end
  end.

Lemma serve_conn_repaired sh d c : serve_repaired sh = true -> serve_conn sh d c = outcome sh d c.
Proof.
  intros R. destruct (repaired_flags sh R) as (F1 & F2 & F3 & F4 & F5).
  unfold Serve.serve_conn, outcome. destruct (ph d); [|reflexivity]. rewrite F3.
  destruct (read_bytes ipc_init (feed (sent c))) as [|b i1 rest] eqn:RB.
  - exfalso. exact (read_bytes_total _ _ wf_init RB).
  - pose proof (classify_not_struct b) as NS. pose proof (classify_got b) as CG.
    destruct (classify b) as [| | |p] eqn:C; rewrite ?F1, ?F2; try reflexivity; [congruence|].
    specialize (CG p eq_refl).
    destruct p; try (exfalso; exact CG); unfold dispatch, respond; rewrite ?F4, ?F5; cbn [stays];
      try (destruct (stays c); reflexivity).
Qed.

(* ---------------------------------------------------------------- survival *)
Lemma survives_step sh d c :
  serve_repaired sh = true -> no_internal_crash cmd astate run ->
  is_stop_request cmd decode c = false ->
  ph d = Serving /\ status_file d = true ->
  ph (fst (serve_conn sh d c)) = Serving /\ status_file (fst (serve_conn sh d c)) = true.
Proof.
  intros R NC NS [P S]. rewrite (serve_conn_repaired sh d c R). unfold outcome. rewrite P.
  unfold is_stop_request, conn_request in NS.
  destruct (read_bytes ipc_init (feed (sent c))) as [|b i1 rest]; [auto|].
  destruct (classify b) as [| | |p]; cbn [fst ph status_file]; auto.
  destruct p; cbn [fst ph status_file]; auto; [|discriminate].
  pose proof (NC c0 (app d)) as H. destruct (run c0 (app d)) as [a' raised]. simpl in H. subst raised.
  cbn [fst ph status_file]. auto.
Qed.

Lemma daemon_survives_repaired sh : serve_repaired sh = true -> daemon_survives cmd astate run decode sh.
Proof.
  intros R NC a conns. unfold start.
  assert (G : forall conns d, (forall c, In c conns -> is_stop_request cmd decode c = false) ->
              ph d = Serving /\ status_file d = true ->
              ph (fst (serve sh d conns)) = Serving /\ status_file (fst (serve sh d conns)) = true).
  { induction conns0 as [|c cs IH]; intros d NS I0; [exact I0|].
    cbn [Serve.serve].
    pose proof (survives_step sh d c R NC (NS c (or_introl eq_refl)) I0) as I1.
    destruct (serve_conn sh d c) as [d1 r]. cbn [fst] in I1.
    specialize (IH d1 (fun c' H => NS c' (or_intror H)) I1).
    destruct (serve sh d1 cs) as [d2 rs]. exact IH. }
  intros NS. apply G; [exact NS | split; reflexivity].
Qed.

(* ---------------------------------------------------------------- faults leave no trace *)
Lemma outcome_same sh d d' c :
  same_daemon d d' ->
  same_daemon (fst (outcome sh d c)) (fst (outcome sh d' c)) /\ snd (outcome sh d c) = snd (outcome sh d' c).
Proof.
  intros (A & S & P). unfold outcome. rewrite P, A, S. destruct (ph d') eqn:P'.
  - destruct (read_bytes ipc_init (feed (sent c))) as [|b i1 rest].
    + cbn [fst snd]. unfold Statement.same_daemon. rewrite P, P'. auto.
    + destruct (classify b) as [| | |p]; try (split; [split; [|split]|]; reflexivity).
  - cbn [fst snd]. unfold Statement.same_daemon. rewrite P, P'. auto.
Qed.

Lemma fault_outcome sh d c : is_fault cmd decode c = true -> same_daemon (fst (outcome sh d c)) d.
Proof.
  unfold is_fault, conn_request, outcome. intros F.
  destruct (ph d) eqn:P; [|split; [|split]; reflexivity].
  destruct (read_bytes ipc_init (feed (sent c))) as [|b i1 rest]; [split; [|split]; reflexivity|].
  destruct (classify b) as [| | |p]; try (split; [|split]; cbn [fst app status_file ph]; congruence).
  destruct p; try discriminate; split; try split; cbn [fst app status_file ph]; congruence.
Qed.

Lemma failed_request_preserves_state_repaired sh :
  serve_repaired sh = true -> failed_request_preserves_state cmd astate run decode sh.
Proof. intros R d c F. rewrite (serve_conn_repaired sh d c R). apply fault_outcome, F. Qed.

Lemma serve_same sh : serve_repaired sh = true -> forall cs d d',
  same_daemon d d' ->
  snd (serve sh d cs) = snd (serve sh d' cs) /\ same_daemon (fst (serve sh d cs)) (fst (serve sh d' cs)).
Proof.
  intros R. induction cs as [|c cs IH]; intros d d' E; [split; [reflexivity | exact E]|].
  cbn [Serve.serve]. rewrite !(serve_conn_repaired sh _ c R).
  destruct (outcome_same sh d d' c E) as [E1 E2].
  destruct (outcome sh d c) as [d1 r1]. destruct (outcome sh d' c) as [d1' r1']. cbn [fst snd] in E1, E2. subst r1'.
  destruct (IH d1 d1' E1) as [E3 E4].
  destruct (serve sh d1 cs) as [d2 rs]. destruct (serve sh d1' cs) as [d2' rs']. cbn [fst snd] in *.
  split; [congruence | exact E4].
Qed.

Lemma later_requests_unaffected_repaired sh :
  serve_repaired sh = true -> later_requests_unaffected cmd astate run decode sh.
Proof.
  intros R d f later F. cbv zeta. apply (serve_same sh R).
  apply (failed_request_preserves_state_repaired sh R d f F).
Qed.

(* ---------------------------------------------------------------- status file *)
Lemma status_step sh d c : serve_repaired sh = true ->
  (ph d = Exited -> status_file d = false) ->
  ph (fst (serve_conn sh d c)) = Exited -> status_file (fst (serve_conn sh d c)) = false.
Proof.
  intros R J. rewrite (serve_conn_repaired sh d c R). unfold outcome.
  destruct (ph d) eqn:P; [|cbn [fst]; intros _; apply J; reflexivity].
  destruct (read_bytes ipc_init (feed (sent c))) as [|b i1 rest]; cbn [fst]; [rewrite P; discriminate|].
  destruct (classify b) as [| | |p]; cbn [fst ph status_file]; try discriminate.
  destruct p; cbn [fst ph status_file]; try discriminate; auto.
  destruct (run c0 (app d)) as [a' raised]. destruct raised; cbn [fst ph status_file crash]; [auto | discriminate].
Qed.

Lemma status_file_removed_repaired sh :
  serve_repaired sh = true -> status_file_removed_on_exit cmd astate run decode sh.
Proof.
  intros R a conns. cbv zeta.
  assert (G : forall conns d, (ph d = Exited -> status_file d = false) ->
              ph (fst (serve sh d conns)) = Exited -> status_file (fst (serve sh d conns)) = false).
  { induction conns0 as [|c cs IH]; intros d J; [exact J|].
    cbn [Serve.serve]. pose proof (status_step sh d c R J) as J1.
    destruct (serve_conn sh d c) as [d1 r]. cbn [fst] in J1.
    specialize (IH d1 J1). destruct (serve sh d1 cs) as [d2 rs]. exact IH. }
  apply G. unfold start. cbn [ph]. discriminate.
Qed.

(* ---------------------------------------------------------------- the unguarded loop dies (F3) *)
Definition connect_and_close : conn := mk_conn [] false.

Lemma daemon_survives_refuted_unguarded sh :
  recv_catch_os sh = false -> daemon_survives_refuted cmd astate run decode sh.
Proof.
  intros U. exists [connect_and_close]. split.
  - intros c [<-|[]]. reflexivity.
  - intros a. cbn [Serve.serve]. unfold Serve.serve_conn, start. cbn [ph ipc].
    assert (RB : read_bytes ipc_init (feed (sent connect_and_close)) = Read [] (mk_ipc [] None) []) by reflexivity.
    destruct (reset_on_accept sh); rewrite RB; unfold Serve.classify; cbn [is_empty]; rewrite U; split; reflexivity.
Qed.

(* the unvalidated loop leaves a stale status file after a malformed stop *)
Lemma stale_status_unvalidated sh b :
  args_validated sh = false -> b <> [] -> sized b -> decode b = PBadArgs true ->
  forall a, let d := fst (serve sh (start astate a) [mk_conn [encode_frame b] true]) in
            ph d = Exited /\ status_file d = true.
Proof.
  intros U NE S D a. cbv zeta. cbn [Serve.serve]. unfold Serve.serve_conn, start. cbn [ph ipc].
  assert (RB : read_bytes ipc_init (feed (sent (mk_conn [encode_frame b] true))) = Read b (mk_ipc [] None) []).
  { cbn [sent feed filter]. assert (N : negb (is_empty (encode_frame b)) = true) by (unfold encode_frame, pack_be32; reflexivity).
    rewrite N. rewrite <- (app_nil_r (encode_frame b)). apply read_bytes_one_chunk, S. }
  assert (C : classify b = Got (PBadArgs true)).
  { unfold Serve.classify. rewrite (is_empty_false b NE), D. reflexivity. }
  destruct (reset_on_accept sh); rewrite RB, C; unfold dispatch; rewrite U; split; reflexivity.
Qed.

(* without the per-connection reset, bytes left over by one client are taken for the next client's request *)
Lemma leftover_leaks_without_reset sh b1 b2 b3 :
  reset_on_accept sh = false ->
  b1 <> [] -> b2 <> [] -> b3 <> [] -> sized b1 -> sized b2 -> sized b3 ->
  decode b1 = PUnknown -> decode b2 = PNoCommand -> decode b3 = PCommandNotStr ->
  forall a,
    snd (serve sh (start astate a) [mk_conn [encode_frame b1 ++ encode_frame b2] true; mk_conn [encode_frame b3] true])
      = [ErrUnknown; ErrNoCommand] /\
    snd (serve sh (start astate a) [mk_conn [encode_frame b3] true]) = [ErrNotStr].
Proof.
  intros U N1 N2 N3 S1 S2 S3 D1 D2 D3 a.
  assert (NEf : forall b r, negb (is_empty (encode_frame b ++ r)) = true) by (intros; unfold encode_frame, pack_be32; reflexivity).
  assert (C1 : classify b1 = Got PUnknown) by (unfold Serve.classify; rewrite (is_empty_false b1 N1), D1; reflexivity).
  assert (C2 : classify b2 = Got PNoCommand) by (unfold Serve.classify; rewrite (is_empty_false b2 N2), D2; reflexivity).
  assert (C3 : classify b3 = Got PCommandNotStr) by (unfold Serve.classify; rewrite (is_empty_false b3 N3), D3; reflexivity).
  split.
  - cbn [Serve.serve]. unfold Serve.serve_conn at 1, start. cbn [ph ipc]. rewrite U.
    cbn [sent feed filter]. rewrite NEf, read_bytes_one_chunk by exact S1. rewrite C1.
    unfold dispatch, respond. cbn [stays fst snd].
    unfold Serve.serve_conn. cbn [ph ipc sent feed filter]. rewrite U.
    pose proof (NEf b3 []) as N. rewrite app_nil_r in N. rewrite N.
    assert (RB : read_bytes (mk_ipc (encode_frame b2) None) [encode_frame b3] = Read b2 (mk_ipc [] None) [encode_frame b3]).
    { cbn [read_bytes buffer msize].
      rewrite (ffb_complete (encode_frame b2) None b2 [] I S2 ltac:(rewrite app_nil_r; reflexivity)). reflexivity. }
    rewrite RB, C2. unfold dispatch, respond. cbn [stays]. reflexivity.
  - cbn [Serve.serve]. unfold Serve.serve_conn, start. cbn [ph ipc sent feed filter]. rewrite U. cbn [ipc].
    pose proof (NEf b3 []) as N. rewrite app_nil_r in N. rewrite N.
    pose proof (read_bytes_one_chunk b3 [] S3) as RB. rewrite app_nil_r in RB. unfold bytes in *. rewrite RB, C3.
    unfold dispatch, respond. cbn [stays]. reflexivity.
Qed.

End ServeProofs.

(* ---------------------------------------------------------------- verdict for any source shape *)
Lemma serve_verdict_all : forall sh, serve_verdict sh.
Proof.
  intros sh. unfold serve_verdict. destruct (serve_repaired sh) eqn:R.
  - intros cmd astate run decode. split; [|split; [|split]].
    + apply daemon_survives_repaired, R.
    + apply failed_request_preserves_state_repaired, R.
    + apply later_requests_unaffected_repaired, R.
    + apply status_file_removed_repaired, R.
  - destruct (recv_catch_os sh) eqn:U; [exact I|]. cbn [negb].
    intros cmd astate run decode. apply daemon_survives_refuted_unguarded, U.
Qed.
