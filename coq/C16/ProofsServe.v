(* C16 (b): proofs about the serve-loop model. *)
From Coq Require Import ZArith List Bool Lia Arith.
From C16 Require Import Bytes Shape Model ProofsFrame Serve Statement.
From Gen Require Import Frame.
Import ListNotations.
Open Scope Z_scope.
Arguments encode_frame : simpl never.
Arguments frame_from_buffer : simpl never.

(* ---------------------------------------------------------------- struct.error never escapes *)
Lemma ffb_total buf ms :
  wf (mk_ipc buf ms) -> exists r b' ms', frame_from_buffer buf ms = Ret r b' ms' /\ wf (mk_ipc b' ms').
Proof.
  intros W. unfold frame_from_buffer. rewrite header_is_4.
  destruct (py_len buf <? 4) eqn:E1.
  - eauto.
  - assert (L4 : (4 <= length buf)%nat) by (unfold py_len in E1; lia).
    assert (K : forall v, unpack_be4 (firstn 4 buf) = Some v ->
      exists r b' ms',
        (if py_len buf <? Z.add v 4 then Ret None buf (Some v)
         else Ret (Some (py_slice buf (Some 4) (Some (Z.add 4 v)))) (py_slice buf (Some (Z.add 4 v)) None) None)
        = Ret r b' ms' /\ wf (mk_ipc b' ms')).
    { intros v U. destruct (py_len buf <? Z.add v 4).
      - do 3 eexists. split; [reflexivity|]. split; assumption.
      - do 3 eexists. split; [reflexivity|]. exact I. }
    destruct ms as [v|].
    + destruct W as [_ U]. apply K, U.
    + rewrite slice_to by (unfold py_len; lia). change (Z.to_nat 4) with 4%nat.
      assert (L : length (firstn 4 buf) = 4%nat) by (rewrite firstn_length; lia).
      unfold unpack_be4 at 1. rewrite L. cbn [Nat.eqb].
      apply K. unfold unpack_be4. rewrite L. reflexivity.
Qed.

Lemma read_bytes_total : forall sock s, wf s -> read_bytes s sock <> RaisedStructError.
Proof.
  induction sock as [|c cs IH]; intros [buf ms] W; destruct (ffb_total buf ms W) as (r & b' & ms' & F & W');
    cbn [read_bytes buffer msize]; rewrite F; destruct r; try discriminate.
  destruct (is_empty c); [discriminate|]. apply IH, wf_extend, W'.
Qed.

Lemma read_bytes_open_total : forall sock s, wf s -> read_bytes_open s sock <> OStructError.
Proof.
  induction sock as [|c cs IH]; intros [buf ms] W; destruct (ffb_total buf ms W) as (r & b' & ms' & F & W');
    cbn [read_bytes_open buffer msize]; rewrite F; destruct r; try discriminate.
  destruct (is_empty c); apply IH; [exact W' | apply wf_extend, W'].
Qed.

Lemma read_bytes_one_chunk b r :
  sized b -> read_bytes ipc_init [encode_frame b ++ r] = Read b (mk_ipc r None) [].
Proof.
  intros S. cbn [read_bytes ipc_init buffer msize].
  assert (F0 : frame_from_buffer [] None = Ret None [] None) by reflexivity.
  rewrite F0.
  assert (NE : is_empty (encode_frame b ++ r) = false) by (unfold encode_frame, pack_be32; reflexivity).
  rewrite NE. cbn [read_bytes buffer msize]. rewrite app_nil_l.
  rewrite (ffb_complete (encode_frame b ++ r) None b r I S eq_refl). reflexivity.
Qed.

Section ServeProofs.
Variables cmd astate : Type.
Variable run : cmd -> astate -> astate * bool.
Variable decode : bytes -> payload cmd.
Variable talks : cmd -> astate -> bool.

Notation serve_conn := (serve_conn cmd astate run decode talks).
Notation serve := (serve cmd astate run decode talks).
Notation classify := (classify cmd decode).
Notation same_daemon := (same_daemon astate).

Lemma classify_not_struct b : classify b <> RaiseStruct.
Proof. unfold Serve.classify. destruct (is_empty b); [discriminate|]. destruct (decode b); discriminate. Qed.

Lemma classify_got b p : classify b = Got p ->
  match p with PBadUtf8 | PNotJson | PNotDict => False | _ => True end.
Proof.
  unfold Serve.classify. destruct (is_empty b); [discriminate|].
  destruct (decode b); intros H; inversion H; exact I.
Qed.

Lemma repaired_flags sh : serve_repaired sh = true ->
  recv_catch_os sh = true /\ recv_catch_unicode sh = true /\ reset_on_accept sh = true /\
  args_validated sh = true /\ send_guarded sh = true.
Proof. unfold serve_repaired. rewrite !andb_true_iff. tauto. Qed.

(* in the repaired loop the effect of a connection depends on the daemon only through
   (app, status_file, ph) and is computed from a fresh reassembly state *)
Definition outcome (sh : shape) (d : daemon astate) (c : conn) : daemon astate * reply cmd :=
  match ph d with
  | Exited => (d, NoReply)
  | Serving =>
      match read_bytes ipc_init (feed (sent c)) with
      | RaisedStructError => (d, NoReply)
      | Read b i1 _ =>
          let d1 := mk_daemon i1 (app d) (status_file d) Serving in
          match classify b with
          | Got (PCmd k) =>
              if talks k (app d) && negb (stays c) && negb (stdout_guarded sh)
              then crash cmd astate d1 c false
              else let '(a', raised) := run k (app d) in
                   let d' := mk_daemon i1 a' (status_file d) Serving in
                   if raised then crash cmd astate d' c false else (d', if stays c then Done k else NoReply)
          | Got PStop => (mk_daemon i1 (app d) false Exited, if stays c then Stopped else NoReply)
          | Got PNoCommand => (d1, if stays c then ErrNoCommand else NoReply)
          | Got PCommandNotStr => (d1, if stays c then ErrNotStr else NoReply)
          | Got PUnknown => (d1, if stays c then ErrUnknown else NoReply)
          | Got (PBadArgs _) => (d1, if stays c then ErrBadArgs else NoReply)
          | _ => (d1, NoReply)
          end
      end
  end.

Lemma serve_conn_repaired sh d c : serve_repaired sh = true -> serve_conn sh d c = outcome sh d c.
Proof.
  intros R. destruct (repaired_flags sh R) as (F1 & F2 & F3 & F4 & F5).
  unfold Serve.serve_conn, outcome. destruct (ph d); [|reflexivity]. rewrite F3.
  destruct (read_bytes ipc_init (feed (sent c))) as [|b i1 rest] eqn:RB.
  - exfalso. exact (read_bytes_total _ _ wf_init RB).
  - pose proof (classify_not_struct b) as NS. pose proof (classify_got b) as CG.
    destruct (classify b) as [| | |p] eqn:C; rewrite ?F1, ?F2; try reflexivity; [congruence|].
    specialize (CG p eq_refl).
    destruct p; try (exfalso; exact CG); unfold dispatch, respond; rewrite ?F4, ?F5; cbn [stays];
      try (destruct (stays c); reflexivity).
Qed.

(* ---------------------------------------------------------------- survival *)
Lemma survives_step sh d c :
  serve_repaired sh = true -> no_internal_crash cmd astate run ->
  output_tolerated cmd astate talks sh ->
  is_stop_request cmd decode c = false ->
  ph d = Serving /\ status_file d = true ->
  ph (fst (serve_conn sh d c)) = Serving /\ status_file (fst (serve_conn sh d c)) = true.
Proof.
  intros R NC OT NS [P S]. rewrite (serve_conn_repaired sh d c R). unfold outcome. rewrite P.
  unfold is_stop_request, conn_request in NS.
  destruct (read_bytes ipc_init (feed (sent c))) as [|b i1 rest]; [auto|].
  destruct (classify b) as [| | |p]; cbn [fst ph status_file]; auto.
  destruct p; cbn [fst ph status_file]; auto; [|discriminate].
  assert (Q : talks c0 (app d) && negb (stays c) && negb (stdout_guarded sh) = false).
  { destruct OT as [G|Qt]; [rewrite G; cbn [negb]; apply andb_false_r | rewrite Qt; reflexivity]. }
  rewrite Q.
  pose proof (NC c0 (app d)) as H. destruct (run c0 (app d)) as [a' raised]. simpl in H. subst raised.
  cbn [fst ph status_file]. auto.
Qed.

Lemma daemon_survives_repaired sh : serve_repaired sh = true -> daemon_survives cmd astate run decode talks sh.
Proof.
  intros R NC OT a conns. unfold start.
  assert (G : forall conns d, (forall c, In c conns -> is_stop_request cmd decode c = false) ->
              ph d = Serving /\ status_file d = true ->
              ph (fst (serve sh d conns)) = Serving /\ status_file (fst (serve sh d conns)) = true).
  { induction conns0 as [|c cs IH]; intros d NS I0; [exact I0|].
    cbn [Serve.serve].
    pose proof (survives_step sh d c R NC OT (NS c (or_introl eq_refl)) I0) as I1.
    destruct (serve_conn sh d c) as [d1 r]. cbn [fst] in I1.
    specialize (IH d1 (fun c' H => NS c' (or_intror H)) I1).
    destruct (serve sh d1 cs) as [d2 rs]. exact IH. }
  intros NS. apply G; [exact NS | split; reflexivity].
Qed.

(* ---------------------------------------------------------------- faults leave no trace *)
Lemma outcome_same sh d d' c :
  same_daemon d d' ->
  same_daemon (fst (outcome sh d c)) (fst (outcome sh d' c)) /\ snd (outcome sh d c) = snd (outcome sh d' c).
Proof.
  intros (A & S & P). unfold outcome. rewrite P, A, S. destruct (ph d') eqn:P'.
  - destruct (read_bytes ipc_init (feed (sent c))) as [|b i1 rest].
    + cbn [fst snd]. unfold Statement.same_daemon. rewrite P, P'. auto.
    + destruct (classify b) as [| | |p]; try (split; [split; [|split]|]; reflexivity).
  - cbn [fst snd]. unfold Statement.same_daemon. rewrite P, P'. auto.
Qed.

Lemma fault_outcome sh d c : is_fault cmd decode c = true -> same_daemon (fst (outcome sh d c)) d.
Proof.
  unfold is_fault, conn_request, outcome. intros F.
  destruct (ph d) eqn:P; [|split; [|split]; reflexivity].
  destruct (read_bytes ipc_init (feed (sent c))) as [|b i1 rest]; [split; [|split]; reflexivity|].
  destruct (classify b) as [| | |p]; try (split; [|split]; cbn [fst app status_file ph]; congruence).
  destruct p; try discriminate; split; try split; cbn [fst app status_file ph]; congruence.
Qed.

Lemma failed_request_preserves_state_repaired sh :
  serve_repaired sh = true -> failed_request_preserves_state cmd astate run decode talks sh.
Proof. intros R d c F. rewrite (serve_conn_repaired sh d c R). apply fault_outcome, F. Qed.

Lemma serve_same sh : serve_repaired sh = true -> forall cs d d',
  same_daemon d d' ->
  snd (serve sh d cs) = snd (serve sh d' cs) /\ same_daemon (fst (serve sh d cs)) (fst (serve sh d' cs)).
Proof.
  intros R. induction cs as [|c cs IH]; intros d d' E; [split; [reflexivity | exact E]|].
  cbn [Serve.serve]. rewrite !(serve_conn_repaired sh _ c R).
  destruct (outcome_same sh d d' c E) as [E1 E2].
  destruct (outcome sh d c) as [d1 r1]. destruct (outcome sh d' c) as [d1' r1']. cbn [fst snd] in E1, E2. subst r1'.
  destruct (IH d1 d1' E1) as [E3 E4].
  destruct (serve sh d1 cs) as [d2 rs]. destruct (serve sh d1' cs) as [d2' rs']. cbn [fst snd] in *.
  split; [congruence | exact E4].
Qed.

Lemma later_requests_unaffected_repaired sh :
  serve_repaired sh = true -> later_requests_unaffected cmd astate run decode talks sh.
Proof.
  intros R d f later F. cbv zeta. apply (serve_same sh R).
  apply (failed_request_preserves_state_repaired sh R d f F).
Qed.

(* ---------------------------------------------------------------- status file *)
Lemma status_step sh d c : serve_repaired sh = true ->
  (ph d = Exited -> status_file d = false) ->
  ph (fst (serve_conn sh d c)) = Exited -> status_file (fst (serve_conn sh d c)) = false.
Proof.
  intros R J. rewrite (serve_conn_repaired sh d c R). unfold outcome.
  destruct (ph d) eqn:P; [|cbn [fst]; intros _; apply J; reflexivity].
  destruct (read_bytes ipc_init (feed (sent c))) as [|b i1 rest]; cbn [fst]; [rewrite P; discriminate|].
  destruct (classify b) as [| | |p]; cbn [fst ph status_file]; try discriminate.
  destruct p; cbn [fst ph status_file]; try discriminate; auto.
  destruct (talks c0 (app d) && negb (stays c) && negb (stdout_guarded sh)); [cbn [fst ph status_file crash]; auto|].
  destruct (run c0 (app d)) as [a' raised]. destruct raised; cbn [fst ph status_file crash]; [auto | discriminate].
Qed.

Lemma status_file_removed_repaired sh :
  serve_repaired sh = true -> status_file_removed_on_exit cmd astate run decode talks sh.
Proof.
  intros R a conns. cbv zeta.
  assert (G : forall conns d, (ph d = Exited -> status_file d = false) ->
              ph (fst (serve sh d conns)) = Exited -> status_file (fst (serve sh d conns)) = false).
  { induction conns0 as [|c cs IH]; intros d J; [exact J|].
    cbn [Serve.serve]. pose proof (status_step sh d c R J) as J1.
    destruct (serve_conn sh d c) as [d1 r]. cbn [fst] in J1.
    specialize (IH d1 J1). destruct (serve sh d1 cs) as [d2 rs]. exact IH. }
  apply G. unfold start. cbn [ph]. discriminate.
Qed.

(* ---------------------------------------------------------------- the unguarded loop dies (F3) *)
Definition connect_and_close : conn := mk_conn [] false.

Lemma daemon_survives_refuted_unguarded sh :
  recv_catch_os sh = false -> daemon_survives_refuted cmd astate run decode talks sh.
Proof.
  intros U. exists [connect_and_close]. split.
  - intros c [<-|[]]. reflexivity.
  - intros a. cbn [Serve.serve]. unfold Serve.serve_conn, start. cbn [ph ipc].
    assert (RB : read_bytes ipc_init (feed (sent connect_and_close)) = Read [] (mk_ipc [] None) []) by reflexivity.
    destruct (reset_on_accept sh); rewrite RB; unfold Serve.classify; cbn [is_empty]; rewrite U; split; reflexivity.
Qed.

(* the unvalidated loop leaves a stale status file after a malformed stop *)
Lemma stale_status_unvalidated sh b :
  args_validated sh = false -> b <> [] -> sized b -> decode b = PBadArgs true ->
  forall a, let d := fst (serve sh (start astate a) [mk_conn [encode_frame b] true]) in
            ph d = Exited /\ status_file d = true.
Proof.
  intros U NE S D a. cbv zeta. cbn [Serve.serve]. unfold Serve.serve_conn, start. cbn [ph ipc].
  assert (RB : read_bytes ipc_init (feed (sent (mk_conn [encode_frame b] true))) = Read b (mk_ipc [] None) []).
  { cbn [sent feed filter]. assert (N : negb (is_empty (encode_frame b)) = true) by (unfold encode_frame, pack_be32; reflexivity).
    rewrite N. rewrite <- (app_nil_r (encode_frame b)). apply read_bytes_one_chunk, S. }
  assert (C : classify b = Got (PBadArgs true)).
  { unfold Serve.classify. rewrite (is_empty_false b NE), D. reflexivity. }
  destruct (reset_on_accept sh); rewrite RB, C; unfold dispatch; rewrite U; split; reflexivity.
Qed.

(* without the per-connection reset, bytes left over by one client are taken for the next client's request *)
Lemma leftover_leaks_without_reset sh b1 b2 b3 :
  reset_on_accept sh = false ->
  b1 <> [] -> b2 <> [] -> b3 <> [] -> sized b1 -> sized b2 -> sized b3 ->
  decode b1 = PUnknown -> decode b2 = PNoCommand -> decode b3 = PCommandNotStr ->
  forall a,
    snd (serve sh (start astate a) [mk_conn [encode_frame b1 ++ encode_frame b2] true; mk_conn [encode_frame b3] true])
      = [ErrUnknown; ErrNoCommand] /\
    snd (serve sh (start astate a) [mk_conn [encode_frame b3] true]) = [ErrNotStr].
Proof.
  intros U N1 N2 N3 S1 S2 S3 D1 D2 D3 a.
  assert (NEf : forall b r, negb (is_empty (encode_frame b ++ r)) = true) by (intros; unfold encode_frame, pack_be32; reflexivity).
  assert (C1 : classify b1 = Got PUnknown) by (unfold Serve.classify; rewrite (is_empty_false b1 N1), D1; reflexivity).
  assert (C2 : classify b2 = Got PNoCommand) by (unfold Serve.classify; rewrite (is_empty_false b2 N2), D2; reflexivity).
  assert (C3 : classify b3 = Got PCommandNotStr) by (unfold Serve.classify; rewrite (is_empty_false b3 N3), D3; reflexivity).
  split.
  - cbn [Serve.serve]. unfold Serve.serve_conn at 1, start. cbn [ph ipc]. rewrite U.
    cbn [sent feed filter]. rewrite NEf, read_bytes_one_chunk by exact S1. rewrite C1.
    unfold dispatch, respond. cbn [stays fst snd].
    unfold Serve.serve_conn. cbn [ph ipc sent feed filter]. rewrite U.
    pose proof (NEf b3 []) as N. rewrite app_nil_r in N. rewrite N.
    assert (RB : read_bytes (mk_ipc (encode_frame b2) None) [encode_frame b3] = Read b2 (mk_ipc [] None) [encode_frame b3]).
    { cbn [read_bytes buffer msize].
      rewrite (ffb_complete (encode_frame b2) None b2 [] I S2 ltac:(rewrite app_nil_r; reflexivity)). reflexivity. }
    rewrite RB, C2. unfold dispatch, respond. cbn [stays]. reflexivity.
  - cbn [Serve.serve]. unfold Serve.serve_conn, start. cbn [ph ipc sent feed filter]. rewrite U. cbn [ipc].
    pose proof (NEf b3 []) as N. rewrite app_nil_r in N. rewrite N.
    pose proof (read_bytes_one_chunk b3 [] S3) as RB. rewrite app_nil_r in RB. unfold bytes in *. rewrite RB, C3.
    unfold dispatch, respond. cbn [stays]. reflexivity.
Qed.

(* ---------------------------------------------------------------- stalled clients, idle exit, output to a gone client *)
Notation step := (step cmd astate run decode talks).
Notation steps := (steps cmd astate run decode talks).

Lemma blocked_absorbing sh idle : forall evs e, blocked e = true ->
  steps sh idle e evs = (e, repeat NoReply (length evs)).
Proof.
  induction evs as [|ev evs IH]; intros e B; cbn [Serve.steps]; [reflexivity|].
  unfold Serve.step at 1. rewrite B. rewrite (IH e B). reflexivity.
Qed.

Lemma stalled_blocks sh : conn_timeout sh = false -> stalled_client_blocks_refuted cmd astate run decode talks sh.
Proof.
  intros U idle a later.
  assert (E : steps sh idle (estart astate a) (Stalled [] :: later)
              = (mk_e (mk_daemon (mk_ipc [] None) a true Serving) true, repeat NoReply (S (length later)))).
  { cbn [Serve.steps]. unfold Serve.step at 1, estart, start. cbn [blocked core ph ipc app status_file].
    assert (RB : read_bytes_open ipc_init (feed []) = OWaiting (mk_ipc [] None)) by reflexivity.
    assert (I0 : (if reset_on_accept sh then ipc_init else ipc_init) = ipc_init) by (destruct (reset_on_accept sh); reflexivity).
    rewrite I0, RB, U. rewrite blocked_absorbing by reflexivity. reflexivity. }
  cbv zeta. rewrite E. cbn [fst snd blocked core ph]. auto.
Qed.

Lemma idle_exit sh : idle_exit_removes_status_file cmd astate run decode talks sh.
Proof.
  intros e B P. cbv zeta. unfold Serve.step. rewrite B, P. cbn [fst core die ph status_file]. auto.
Qed.

Lemma events_survive_step sh idle e ev :
  serve_repaired sh = true -> conn_timeout sh = true ->
  no_internal_crash cmd astate run -> output_tolerated cmd astate talks sh ->
  event_is_stop cmd decode ev = false -> event_is_idle ev = false ->
  blocked e = false /\ ph (core e) = Serving /\ status_file (core e) = true ->
  let e' := fst (step sh idle e ev) in
  blocked e' = false /\ ph (core e') = Serving /\ status_file (core e') = true.
Proof.
  intros R T NC OT NS NI (B & P & S). cbv zeta.
  destruct (repaired_flags sh R) as (F1 & F2 & F3 & F4 & F5).
  unfold Serve.step. rewrite B. destruct ev as [c|chunks|]; [| |discriminate].
  - pose proof (survives_step sh (core e) c R NC OT NS (conj P S)) as H.
    destruct (serve_conn sh (core e) c) as [d' r]. cbn [fst core blocked] in *. tauto.
  - rewrite P, F3. cbn [event_is_stop] in NS.
    destruct (read_bytes_open ipc_init (feed chunks)) as [|b i1 rest|i1] eqn:RB.
    + exfalso. exact (read_bytes_open_total _ _ wf_init RB).
    + pose proof (survives_step sh (core e) (mk_conn chunks true) R NC OT NS (conj P S)) as H.
      destruct (serve_conn sh (core e) (mk_conn chunks true)) as [d' r]. cbn [fst core blocked] in *. tauto.
    + rewrite T, F1. cbn [fst core blocked ph status_file]. auto.
Qed.

Lemma stalled_ok sh : conn_timeout sh = true -> serve_repaired sh = true ->
  stalled_client_does_not_block_forever cmd astate run decode talks sh.
Proof.
  intros T R NC OT idle a evs. unfold estart, start.
  assert (G : forall evs e, no_stop_no_idle cmd decode evs ->
              blocked e = false /\ ph (core e) = Serving /\ status_file (core e) = true ->
              let e' := fst (steps sh idle e evs) in
              blocked e' = false /\ ph (core e') = Serving /\ status_file (core e') = true).
  { induction evs0 as [|ev evs0 IH]; intros e NS I0; [exact I0|].
    cbv zeta. cbn [Serve.steps].
    destruct (NS ev (or_introl eq_refl)) as [N1 N2].
    pose proof (events_survive_step sh idle e ev R T NC OT N1 N2 I0) as I1. cbv zeta in I1.
    destruct (step sh idle e ev) as [e1 r]. cbn [fst] in I1.
    specialize (IH e1 (fun ev' H => NS ev' (or_intror H)) I1). cbv zeta in IH.
    destruct (steps sh idle e1 evs0) as [e2 rs]. exact IH. }
  intros NS. apply G; [exact NS | repeat split].
Qed.

Lemma status_event_step sh idle e ev : serve_repaired sh = true ->
  (ph (core e) = Exited -> status_file (core e) = false) ->
  let e' := fst (step sh idle e ev) in ph (core e') = Exited -> status_file (core e') = false.
Proof.
  intros R J. cbv zeta. destruct (repaired_flags sh R) as (F1 & F2 & F3 & F4 & F5).
  unfold Serve.step. destruct (blocked e); [exact J|].
  destruct ev as [c|chunks|].
  - pose proof (status_step sh (core e) c R J) as H.
    destruct (serve_conn sh (core e) c) as [d' r]. exact H.
  - destruct (ph (core e)) eqn:P; [|cbn [fst]; intros _; apply J; reflexivity]. rewrite F3.
    destruct (read_bytes_open ipc_init (feed chunks)) as [|b i1 rest|i1].
    + cbn [fst core die status_file]. auto.
    + assert (J' : ph (core e) = Exited -> status_file (core e) = false) by (rewrite P; discriminate).
      pose proof (status_step sh (core e) (mk_conn chunks true) R J') as H.
      destruct (serve_conn sh (core e) (mk_conn chunks true)) as [d' r]. exact H.
    + rewrite F1. destruct (conn_timeout sh); cbn [fst core ph]; discriminate.
  - destruct (ph (core e)) eqn:P; [|cbn [fst]; intros _; apply J; reflexivity].
    destruct idle; [cbn [fst core die status_file]; auto | cbn [fst]; rewrite P; discriminate].
Qed.

Lemma status_events_repaired sh : serve_repaired sh = true ->
  status_file_removed_on_exit_events cmd astate run decode talks sh.
Proof.
  intros R idle a evs. cbv zeta.
  assert (G : forall evs e, (ph (core e) = Exited -> status_file (core e) = false) ->
              ph (core (fst (steps sh idle e evs))) = Exited -> status_file (core (fst (steps sh idle e evs))) = false).
  { induction evs0 as [|ev evs0 IH]; intros e J; [exact J|].
    cbn [Serve.steps]. pose proof (status_event_step sh idle e ev R J) as J1. cbv zeta in J1.
    destruct (step sh idle e ev) as [e1 r]. cbn [fst] in J1.
    specialize (IH e1 J1). destruct (steps sh idle e1 evs0) as [e2 rs]. exact IH. }
  apply G. unfold estart, start. cbn [core ph]. discriminate.
Qed.

Lemma hangup_during_output sh : stdout_guarded sh = false ->
  hangup_during_output_refuted cmd astate run decode talks sh.
Proof.
  intros U b k a NE S D T. cbv zeta. cbn [Serve.serve]. unfold Serve.serve_conn, start. cbn [ph ipc].
  assert (RB : read_bytes ipc_init (feed (sent (mk_conn [encode_frame b] false))) = Read b (mk_ipc [] None) []).
  { cbn [sent feed filter]. assert (N : negb (is_empty (encode_frame b)) = true) by (unfold encode_frame, pack_be32; reflexivity).
    rewrite N. rewrite <- (app_nil_r (encode_frame b)). apply read_bytes_one_chunk, S. }
  assert (C : classify b = Got (PCmd k)).
  { unfold Serve.classify. rewrite (is_empty_false b NE), D. reflexivity. }
  destruct (reset_on_accept sh); rewrite RB, C; unfold dispatch; cbn [app stays]; rewrite T, U; reflexivity.
Qed.

End ServeProofs.

(* ---------------------------------------------------------------- verdict for any source shape *)
Lemma serve_verdict_all : forall sh, serve_verdict sh.
Proof.
  intros sh. unfold serve_verdict. destruct (serve_repaired sh) eqn:R.
  - intros cmd astate run decode talks. split; [|split; [|split]].
    + apply daemon_survives_repaired, R.
    + apply failed_request_preserves_state_repaired, R.
    + apply later_requests_unaffected_repaired, R.
    + apply status_file_removed_repaired, R.
  - destruct (recv_catch_os sh) eqn:U; [exact I|]. cbn [negb].
    intros cmd astate run decode talks. apply daemon_survives_refuted_unguarded, U.
Qed.

Lemma stall_verdict_all : forall sh, stall_verdict sh.
Proof.
  intros sh cmd astate run decode talks. destruct (conn_timeout sh) eqn:T.
  - intros R. apply stalled_ok; assumption.
  - apply stalled_blocks, T.
Qed.

Lemma output_verdict_all : forall sh, output_verdict sh.
Proof.
  intros sh cmd astate run decode talks. destruct (stdout_guarded sh) eqn:G; [exact I|].
  apply hangup_during_output, G.
Qed.
