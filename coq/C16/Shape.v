(* C16: the exception-handling structure of Server.serve as data.  gen/ServeShape.v defines
   [current_shape] from the source text; C16/Serve.v interprets it. *)
Record shape := {
  recv_catch_os : bool;       (* receive(server) is inside a try whose handler catches OSError and continues serving *)
  recv_catch_unicode : bool;  (* ... and that handler also catches UnicodeDecodeError (raised by IPCBase.read) *)
  reset_on_accept : bool;     (* IPCServer.__enter__ clears buffer / message_size for every new connection *)
  args_validated : bool;      (* run_command rejects missing / unexpected argument names with an error response *)
  send_guarded : bool;        (* the reply send is inside try/except OSError: pass *)
  conn_timeout : bool;        (* the accepted connection gets a receive timeout before receive(server) (TimeoutError is an OSError) *)
  stdout_guarded : bool       (* WriteToConn.write tolerates OSError from send (client hung up while a command prints) *)
}.
