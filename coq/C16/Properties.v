(* Property C16.  Only theorem statements closed by `exact`, each followed by Print Assumptions. *)
From Coq Require Import ZArith List Bool.
From C16 Require Import Bytes Shape Model Serve Statement ProofsFrame ProofsServe.
From Gen Require Import Frame ServeShape.
Import ListNotations.
Open Scope Z_scope.

(* (a) framing: all message lists, ALL segmentations of the stream *)
Theorem framing_correct : Statement.framing_correct.
Proof. exact framing_correct_l. Qed.
Print Assumptions framing_correct.

Theorem framing_correct_counted : Statement.framing_counted.
Proof. exact framing_correct_counted_l. Qed.
Print Assumptions framing_correct_counted.

Theorem partial_frame_never_delivered : Statement.partial_frame_never_delivered.
Proof. exact partial_frame_never_delivered_l. Qed.
Print Assumptions partial_frame_never_delivered.

Theorem order_preserved : Statement.order_preserved.
Proof. exact order_preserved_l. Qed.
Print Assumptions order_preserved.

(* both directions of a dmypy exchange: request (client -> server) and reply stream incl. the
   WriteToConn stdout/stderr frames (server -> client loop of dmypy/client.py request()) *)
Theorem request_delivered : Statement.request_delivered.
Proof. exact request_delivered_l. Qed.
Print Assumptions request_delivered.

Theorem reply_stream_delivered : Statement.reply_stream_delivered.
Proof. exact reply_stream_delivered_l. Qed.
Print Assumptions reply_stream_delivered.

Theorem client_reassembles_any_fragmentation : Statement.client_reassembles_any_fragmentation.
Proof. exact client_any_fragmentation_l. Qed.
Print Assumptions client_reassembles_any_fragmentation.

Theorem client_rejects_truncated : Statement.client_rejects_truncated.
Proof. exact client_rejects_truncated_l. Qed.
Print Assumptions client_rejects_truncated.

(* non-vacuity *)
Example client_example :
  let final := fun b : bytes => match b with 1%N :: _ => true | _ => false end in
  client_request final (feed [[0%N; 0%N; 0%N]; [2%N; 5%N; 6%N; 0%N; 0%N]; [0%N; 1%N; 1%N]]) = Some [[5%N; 6%N]; [1%N]] /\
  client_request final (feed [[0%N; 0%N; 0%N; 2%N; 5%N; 6%N; 0%N; 0%N; 0%N; 1%N; 1%N]]) = Some [[5%N; 6%N]; [1%N]] /\
  client_request final (feed [[0%N; 0%N; 0%N; 2%N; 5%N; 6%N; 0%N]; [0%N; 0%N]]) = None.
Proof. repeat split; vm_compute; reflexivity. Qed.
Example reply_example :
  read_until_final (fun b => match b with 1%N :: _ => true | _ => false end) 2 ipc_init
    (feed [[0%N; 0%N; 0%N]; [2%N; 5%N; 6%N; 0%N; 0%N]; [0%N; 1%N; 1%N]]) = Some [[5%N; 6%N]; [1%N]].
Proof. vm_compute. reflexivity. Qed.
Example framing_example :
  read_all (feed [[0%N; 0%N]; []; [0%N; 2%N; 7%N]; [8%N; 0%N; 0%N; 0%N; 1%N; 9%N]]) = Some [[7%N; 8%N]; [9%N]]
  /\ concat [[0%N; 0%N]; []; [0%N; 2%N; 7%N]; [8%N; 0%N; 0%N; 0%N; 1%N; 9%N]] = wire [[7%N; 8%N]; [9%N]].
Proof. split; vm_compute; reflexivity. Qed.
Example partial_example :
  read_all (feed [[0%N; 0%N; 0%N; 1%N; 5%N; 0%N; 0%N]; [0%N; 3%N; 1%N]]) = Some [[5%N]].
Proof. vm_compute. reflexivity. Qed.

(* (b) serve loop.  The theorems are generic in the source shape; [serve_loop_verdict] is about the
   shape t16 read from the current mypy/dmypy_server.py + mypy/ipc.py (gen/ServeShape.v). *)
Theorem daemon_survives : forall sh, serve_repaired sh = true ->
  forall cmd astate run decode talks, Statement.daemon_survives cmd astate run decode talks sh.
Proof. intros sh R cmd astate run decode talks. exact (daemon_survives_repaired cmd astate run decode talks sh R). Qed.
Print Assumptions daemon_survives.

Theorem daemon_survives_refuted : forall sh, recv_catch_os sh = false ->
  forall cmd astate run decode talks, Statement.daemon_survives_refuted cmd astate run decode talks sh.
Proof. intros sh U cmd astate run decode talks. exact (daemon_survives_refuted_unguarded cmd astate run decode talks sh U). Qed.
Print Assumptions daemon_survives_refuted.

Theorem failed_request_preserves_state : forall sh, serve_repaired sh = true ->
  forall cmd astate run decode talks, Statement.failed_request_preserves_state cmd astate run decode talks sh.
Proof. intros sh R cmd astate run decode talks. exact (failed_request_preserves_state_repaired cmd astate run decode talks sh R). Qed.
Print Assumptions failed_request_preserves_state.

Theorem later_requests_unaffected : forall sh, serve_repaired sh = true ->
  forall cmd astate run decode talks, Statement.later_requests_unaffected cmd astate run decode talks sh.
Proof. intros sh R cmd astate run decode talks. exact (later_requests_unaffected_repaired cmd astate run decode talks sh R). Qed.
Print Assumptions later_requests_unaffected.

Theorem status_file_removed_on_exit : forall sh, serve_repaired sh = true ->
  forall cmd astate run decode talks, Statement.status_file_removed_on_exit cmd astate run decode talks sh.
Proof. intros sh R cmd astate run decode talks. exact (status_file_removed_repaired cmd astate run decode talks sh R). Qed.
Print Assumptions status_file_removed_on_exit.

(* without argument validation a malformed stop request ends the daemon and leaves its status file *)
Theorem status_file_removed_on_exit_refuted : forall sh cmd astate run decode talks b,
  args_validated sh = false -> b <> [] -> py_len b < two32 -> decode b = PBadArgs true ->
  forall a, let d := fst (serve cmd astate run decode talks sh (start astate a) [mk_conn [encode_frame b] true]) in
            ph d = Exited /\ status_file d = true.
Proof. intros sh cmd astate run decode talks b. exact (stale_status_unvalidated cmd astate run decode talks sh b). Qed.
Print Assumptions status_file_removed_on_exit_refuted.

(* without the per-connection reset a later client is answered for bytes an earlier client left behind *)
Theorem later_requests_unaffected_refuted : forall sh cmd astate run decode talks b1 b2 b3,
  reset_on_accept sh = false ->
  b1 <> [] -> b2 <> [] -> b3 <> [] -> py_len b1 < two32 -> py_len b2 < two32 -> py_len b3 < two32 ->
  decode b1 = PUnknown -> decode b2 = PNoCommand -> decode b3 = PCommandNotStr ->
  forall a,
    snd (serve cmd astate run decode talks sh (start astate a)
           [mk_conn [encode_frame b1 ++ encode_frame b2] true; mk_conn [encode_frame b3] true]) = [ErrUnknown; ErrNoCommand] /\
    snd (serve cmd astate run decode talks sh (start astate a) [mk_conn [encode_frame b3] true]) = [ErrNotStr].
Proof. intros sh cmd astate run decode talks b1 b2 b3. exact (leftover_leaks_without_reset cmd astate run decode talks sh b1 b2 b3). Qed.
Print Assumptions later_requests_unaffected_refuted.

(* stalled clients / idle exit / output to a client that has gone *)
Theorem stalled_client_does_not_block_forever : forall sh, conn_timeout sh = true -> serve_repaired sh = true ->
  forall cmd astate run decode talks, Statement.stalled_client_does_not_block_forever cmd astate run decode talks sh.
Proof. intros sh T R cmd astate run decode talks. exact (stalled_ok cmd astate run decode talks sh T R). Qed.
Print Assumptions stalled_client_does_not_block_forever.

Theorem stalled_client_blocks_refuted : forall sh, conn_timeout sh = false ->
  forall cmd astate run decode talks, Statement.stalled_client_blocks_refuted cmd astate run decode talks sh.
Proof. intros sh T cmd astate run decode talks. exact (stalled_blocks cmd astate run decode talks sh T). Qed.
Print Assumptions stalled_client_blocks_refuted.

Theorem idle_exit_removes_status_file : forall sh cmd astate run decode talks,
  Statement.idle_exit_removes_status_file cmd astate run decode talks sh.
Proof. intros sh cmd astate run decode talks. exact (idle_exit cmd astate run decode talks sh). Qed.
Print Assumptions idle_exit_removes_status_file.

Theorem status_file_removed_on_exit_events : forall sh, serve_repaired sh = true ->
  forall cmd astate run decode talks, Statement.status_file_removed_on_exit_events cmd astate run decode talks sh.
Proof. intros sh R cmd astate run decode talks. exact (status_events_repaired cmd astate run decode talks sh R). Qed.
Print Assumptions status_file_removed_on_exit_events.

Theorem hangup_during_output_refuted : forall sh, stdout_guarded sh = false ->
  forall cmd astate run decode talks, Statement.hangup_during_output_refuted cmd astate run decode talks sh.
Proof. intros sh G cmd astate run decode talks. exact (hangup_during_output cmd astate run decode talks sh G). Qed.
Print Assumptions hangup_during_output_refuted.

Theorem stall_verdict_current : stall_verdict current_shape.
Proof. exact (stall_verdict_all current_shape). Qed.
Print Assumptions stall_verdict_current.

Theorem output_verdict_current : output_verdict current_shape.
Proof. exact (output_verdict_all current_shape). Qed.
Print Assumptions output_verdict_current.

(* the loop that is in the source now *)
Theorem serve_loop_verdict : serve_verdict current_shape.
Proof. exact (serve_verdict_all current_shape). Qed.
Print Assumptions serve_loop_verdict.

(* non-vacuity: a repaired shape exists; the hypotheses of the refutations are met by a concrete decoder *)
Example repaired_shape_exists : serve_repaired {| recv_catch_os := true; recv_catch_unicode := true; reset_on_accept := true; args_validated := true; send_guarded := true; conn_timeout := true; stdout_guarded := true |} = true.
Proof. reflexivity. Qed.
Example survives_hypotheses_met :
  let decode := fun b : bytes => match b with [1%N] => PCmd tt | [2%N] => PStop | _ => @PNotJson unit end in
  is_stop_request unit decode (mk_conn [[0%N; 0%N]; [0%N; 1%N; 1%N]] true) = false /\
  is_fault unit decode (mk_conn [[0%N; 0%N; 0%N; 1%N; 7%N]] true) = true /\
  is_stop_request unit decode (mk_conn [[0%N; 0%N; 0%N; 1%N; 2%N]] true) = true.
Proof. repeat split; vm_compute; reflexivity. Qed.
