(* C16: the Python byte-string operations used by mypy/ipc.py framing, as total Gallina functions.
   Bytes are [list N] (values < 256 are not needed by any theorem: the payload is opaque).
   Definitions only; the generated file gen/Frame.v is written against these names. *)
From Coq Require Import ZArith List Bool.
Import ListNotations.
Open Scope Z_scope.

Definition bytes := list N.

Definition py_len (b : bytes) : Z := Z.of_nat (length b).

(* Python slice index normalisation for step 1: negative indices count from the end, then clamp *)
Definition norm_index (len i : Z) : Z :=
  if i <? 0 then Z.max 0 (len + i) else Z.min i len.

(* b[lo:hi] with optional bounds *)
Definition py_slice (b : bytes) (lo hi : option Z) : bytes :=
  let len := py_len b in
  let l := match lo with None => 0 | Some i => norm_index len i end in
  let h := match hi with None => len | Some i => norm_index len i end in
  skipn (Z.to_nat l) (firstn (Z.to_nat h) b).

(* struct.unpack("!L", b)[0] for a 4-byte b: big-endian unsigned.  Total: folds whatever bytes it is
   given; that the argument has exactly 4 bytes is a side condition emitted by the translator
   ([unpack_width_ok]) and used by the proofs. *)
Definition unpack_be (b : bytes) : Z :=
  fold_left (fun acc x => acc * 256 + Z.of_N x) b 0.

(* struct.pack("!L", n): 4 bytes, big-endian.  struct.error for n outside [0, 2^32) is the
   hypothesis [n < 2^32] of the framing theorems. *)
Definition pack_be32 (n : Z) : bytes :=
  [Z.to_N ((n / 16777216) mod 256); Z.to_N ((n / 65536) mod 256); Z.to_N ((n / 256) mod 256); Z.to_N (n mod 256)].

(* struct.unpack("!L", b)[0]: struct.error unless b has exactly 4 bytes *)
Definition unpack_be4 (b : bytes) : option Z :=
  if (length b =? 4)%nat then Some (unpack_be b) else None.

(* result of the translated method frame_from_buffer: the returned value and the new values of
   self.buffer / self.message_size, or struct.error escaping *)
Inductive ffb_result :=
| StructError
| Ret (frame : option bytes) (buffer : bytes) (message_size : option Z).

Definition is_empty (b : bytes) : bool := match b with [] => true | _ => false end.
