(* C04: which deps-cache theorem applies to the protocol regenerated from build.write_deps_cache. *)
From Coq Require Import List Bool Arith.
From C04 Require Import Deps.
From Gen Require Import CacheProtocol.
Import ListNotations.

Lemma deps_refuted_if_meta_despite_error : forall P,
  dp_meta_last P = true -> dp_meta_skipped_on_error P = false -> ~ deps_cache_safe_for P.
Proof.
  intros [l s] Hl Hs. simpl in Hl, Hs. subst. exact deps_refuted_d119a57.
Qed.

Lemma deps_decided_lemma :
  if dprotocol_ok current_deps_protocol then deps_cache_safe_for current_deps_protocol
  else ~ deps_cache_safe_for current_deps_protocol.
Proof.
  lazymatch eval vm_compute in (dprotocol_ok current_deps_protocol) with
  | true => replace (dprotocol_ok current_deps_protocol) with true by (vm_compute; reflexivity);
            apply deps_safe_of_ok; vm_compute; reflexivity
  | false => replace (dprotocol_ok current_deps_protocol) with false by (vm_compute; reflexivity);
             apply deps_refuted_if_meta_despite_error; vm_compute; reflexivity
  end.
Qed.
