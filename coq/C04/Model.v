(* C04 -- model of mypy's per-module cache-entry protocol under crashes and failed writes.
   Executable definitions only (no proofs).

   One cache entry = three records of a module (build.get_cache_names / get_meta_ex_name):
     data     the serialized tree; its interface hash; its mtime (stamp)
     meta     names the analysis input it was produced from (source hash, dependency interface hashes,
              options: abstracted to ONE value [inp]; hashes are the identity), the interface hash and
              the mtime of the data file it belongs to (data_mtime)
     meta_ex  error_lines (+ indirect dependencies): the errors of the analysis of some input
   An entry is TRUSTED by a later run iff meta and meta_ex are both found (find_cache_meta), the meta
   names the current input (validate_meta: source hash; freshness of dependency hashes) and the data
   file's mtime equals meta.data_mtime.  A trusted entry is used AS FOUND: error_lines are replayed,
   the data file is loaded for dependants. *)
From Coq Require Import List Bool Arith.
Import ListNotations.

Definition mid := nat.     (* module *)
Definition inp := nat.     (* analysis input of a module: (source, dependency interfaces, options) *)
Definition ifc := nat.     (* interface hash *)
Definition errs := nat.    (* error_lines *)
Definition stamp := nat.   (* mtime of a data file *)

Record data_rec := { d_if : ifc; d_stamp : stamp }.
Record meta_rec := { m_of : inp; m_if : ifc; m_stamp : stamp }.
Record ex_rec := { x_of : inp }.
Record mrec := { rd : option data_rec; rm : option meta_rec; rx : option ex_rec }.
Definition empty_rec : mrec := {| rd := None; rm := None; rx := None |}.
Definition store := mid -> mrec.
Definition empty_store : store := fun _ => empty_rec.

Inductive skind := FS | SQL.   (* FilesystemMetadataStore: every write durable at once (tmp + os.replace);
                                  SqliteMetadataStore: durable at commit / commit_path (per shard) *)

(* template steps (what the translator extracts, per `for id in stale` loop body) and concrete steps *)
Inductive pstep := PRmMeta | PRmEx | PData | PMeta | PEx | PCommitM.
Inductive step := SRmMeta (m : mid) | SRmEx (m : mid) | SData (m : mid) | SMeta (m : mid) | SEx (m : mid)
                | SCommitM (m : mid) | SCommitAll
                | STouchMeta (m : mid).   (* validate_meta: "Optimization: update mtime and path": the meta found is
                                             rewritten (same hash, dependencies, interface hash, data_mtime) while
                                             the graph is loaded, before any SCC is processed *)

Record protocol := {
  p_seq : list (list pstep);     (* build.process_stale_scc: one list per loop over the SCC's modules *)
  p_iface : list (list pstep);   (* build.process_stale_scc_interface *)
  p_impl : list (list pstep);    (* build.process_stale_scc_implementation *)
  p_data_fail_drops : bool;      (* write_cache returns (hash, None) when the data write fails, and the
                                    meta loops `continue` on None *)
  p_rm_fail_drops : bool;        (* write_cache: a remove that raises an OSError other than FileNotFoundError
                                    makes it return (hash, None): nothing more is written for the module *)
  p_coord_commit : bool;         (* process_graph: manager.commit() before the workers start *)
  p_worker_iface_commit : bool;  (* worker.serve: manager.commit() after each SCC's interface phase *)
  p_worker_impl_commit : bool;   (* worker.serve: manager.commit() after the implementation phases of a batch *)
  p_final_commit : bool          (* build.build: finally: manager.commit() *)
}.

Definition inst (m : mid) (p : pstep) : step :=
  match p with
  | PRmMeta => SRmMeta m | PRmEx => SRmEx m | PData => SData m | PMeta => SMeta m | PEx => SEx m
  | PCommitM => SCommitM m
  end.

Definition loop_steps (body : list pstep) (mods : list mid) : list step :=
  concat (map (fun m => map (inst m) body) mods).
Definition loops_steps (loops : list (list pstep)) (mods : list mid) : list step :=
  concat (map (fun body => loop_steps body mods) loops).

Definition commit_if (b : bool) : list step := if b then [SCommitAll] else [].

(* single-process build: SCCs in processing order, each a list of modules in processing order *)
Definition gen_seq (P : protocol) (sccs : list (list mid)) : list step :=
  concat (map (loops_steps (p_seq P)) sccs) ++ commit_if (p_final_commit P).
(* graph loading (single process / coordinator): metas rewritten by validate_meta *)
Definition gen_load (touch : list mid) : list step := map STouchMeta touch.

(* one worker: a list of batches (SccRequestMessage.scc_ids), each a list of SCCs *)
Definition gen_batch (P : protocol) (batch : list (list mid)) : list step :=
  concat (map (fun scc => loops_steps (p_iface P) scc ++ commit_if (p_worker_iface_commit P)) batch)
  ++ concat (map (fun m => loops_steps (p_impl P) [m]) (concat batch))
  ++ commit_if (p_worker_impl_commit P).
Definition gen_worker (P : protocol) (batches : list (list (list mid))) : list step :=
  concat (map (gen_batch P) batches).

Inductive shape := Seq (sccs : list (list mid)) | Par (workers : list (list (list (list mid)))).
Definition procs_of (P : protocol) (touch : list mid) (sh : shape) : list (list step) :=
  match sh with
  | Seq sccs => [gen_load touch ++ gen_seq P sccs]
  | Par ws => (gen_load touch ++ commit_if (p_coord_commit P)) :: map (gen_worker P) ws
  end.
Definition shape_mods (sh : shape) : list mid :=
  match sh with
  | Seq sccs => concat sccs
  | Par ws => concat (map (fun w => concat (map (fun b => concat b) w)) ws)
  end.

(* ---------------------------------------------------------------- execution, per module *)
Record ms := { v : mrec;          (* what the running process sees (its own uncommitted writes included) *)
               d : mrec;          (* what is durable *)
               dropped : bool }.  (* write_cache returned None for the module: no meta / meta_ex writes *)

Definition set_rd (x : option data_rec) (r : mrec) : mrec := {| rd := x; rm := rm r; rx := rx r |}.
Definition set_rm (x : option meta_rec) (r : mrec) : mrec := {| rd := rd r; rm := x; rx := rx r |}.
Definition set_rx (x : option ex_rec) (r : mrec) : mrec := {| rd := rd r; rm := rm r; rx := x |}.

Definition wr (k : skind) (f : mrec -> mrec) (s : ms) : ms :=
  {| v := f (v s); d := match k with FS => f (d s) | SQL => d s end; dropped := dropped s |}.
Definition commit (s : ms) : ms := {| v := v s; d := v s; dropped := dropped s |}.
Definition drop (s : ms) : ms := {| v := v s; d := d s; dropped := true |}.

(* State.interface_hash as loaded: from the meta that find_cache_meta returned (meta and meta_ex both
   found), BEFORE validate_meta -- build.State.new_state *)
Definition old_iface (r : mrec) : option ifc :=
  match rm r, rx r with Some mr, Some _ => Some (m_if mr) | _, _ => None end.

Section Exec.
  Variable iface_of : inp -> ifc.
  Variable P : protocol.
  Variable k : skind.
  Variable shard : mid -> nat.
  Variable m : mid.           (* the module whose records we follow *)
  Variable ci : inp.          (* its current analysis input *)
  Variable oldif : option ifc.

  Definition same_if (a : option ifc) (b : ifc) : bool :=
    match a with Some x => Nat.eqb x b | None => false end.

  Definition exec_step (fl : bool) (st : stamp) (s : ms) (x : step) : ms :=
    match x with
    | SRmMeta m' =>
        if Nat.eqb m' m then
          if dropped s then s
          else if fl then (if p_rm_fail_drops P then drop s else s)   (* the remove raises; nothing removed *)
          else wr k (set_rm None) s
        else s
    | SRmEx m' =>
        if Nat.eqb m' m then
          if dropped s then s
          else if fl then (if p_rm_fail_drops P then drop s else s)
          else wr k (set_rx None) s
        else s
    | STouchMeta m' =>
        if Nat.eqb m' m then
          match rm (v s), rx (v s) with
          | Some mr, Some _ => if fl then s else wr k (set_rm (Some mr)) s
          | _, _ => s
          end
        else s
    | SData m' =>
        if Nat.eqb m' m then
          if dropped s then s
          else if same_if oldif (iface_of ci) then
            (* "Interface is unchanged": data file not rewritten; getmtime(data_file) must succeed *)
            match rd (v s) with Some _ => s | None => drop s end
          else if fl then (if p_data_fail_drops P then drop s else s)
          else wr k (set_rd (Some {| d_if := iface_of ci; d_stamp := st |})) s
        else s
    | SMeta m' =>
        if Nat.eqb m' m then
          if dropped s then s else if fl then s
          else match rd (v s) with
               | Some dr => wr k (set_rm (Some {| m_of := ci; m_if := iface_of ci; m_stamp := d_stamp dr |})) s
               | None => s
               end
        else s
    | SEx m' =>
        if Nat.eqb m' m then
          if dropped s then s else if fl then s
          else wr k (set_rx (Some {| x_of := ci |})) s
        else s
    | SCommitM m' => if Nat.eqb (shard m') (shard m) then commit s else s
    | SCommitAll => commit s
    end.

  (* the first n steps of a process (crash_at n); fl i / stp i: does write i fail / mtime it gets *)
  Fixpoint run_steps (fl : nat -> bool) (stp : nat -> stamp) (i n : nat) (l : list step) (s : ms) : ms :=
    match n, l with
    | S n', x :: l' => run_steps fl stp (S i) n' l' (exec_step (fl i) (stp i) s x)
    | _, _ => s
    end.
End Exec.

(* a process starts from the durable state, runs n steps, and whatever it has not committed is lost
   (killed, or exits: closing a sqlite connection rolls the open transaction back) *)
Definition run_proc (iface_of : inp -> ifc) (P : protocol) (k : skind) (shard : mid -> nat) (m : mid) (ci : inp)
           (fl : nat -> bool) (stp : nat -> stamp) (n : nat) (steps : list step) (r : mrec) : mrec :=
  d (run_steps iface_of P k shard m ci (old_iface r) fl stp 0 n steps {| v := r; d := r; dropped := false |}).

Record round := {
  r_cur : mid -> inp;            (* the files of this run *)
  r_touch : list mid;            (* modules whose meta validate_meta rewrites while loading (mtime changed, hash not) *)
  r_shape : shape;               (* which SCCs are processed, by which process, in which order *)
  r_fail : nat -> nat -> bool;   (* process, step index: this write fails *)
  r_stamp : nat -> nat -> stamp; (* process, step index: mtime the written data file gets *)
  r_crash : nat -> nat;          (* process: number of steps executed before it is killed (>= length: none) *)
  r_shard : mid -> nat           (* sqlite shard of a module's records *)
}.

Fixpoint run_procs (iface_of : inp -> ifc) (P : protocol) (k : skind) (r : round) (m : mid) (p : nat)
         (procs : list (list step)) (rec : mrec) : mrec :=
  match procs with
  | [] => rec
  | steps :: rest =>
      run_procs iface_of P k r m (S p) rest
        (run_proc iface_of P k (r_shard r) m (r_cur r m) (r_fail r p) (r_stamp r p) (r_crash r p) steps rec)
  end.

Definition run_round (iface_of : inp -> ifc) (P : protocol) (k : skind) (r : round) (st : store) : store :=
  fun m => run_procs iface_of P k r m 0 (procs_of P (r_touch r) (r_shape r)) (st m).

Definition run_history (iface_of : inp -> ifc) (P : protocol) (k : skind) (h : list round) : store :=
  fold_left (fun st r => run_round iface_of P k r st) h empty_store.

(* ---------------------------------------------------------------- what the next run reports *)
Definition trusted (ci : inp) (r : mrec) : option (ex_rec * data_rec) :=
  match rm r, rd r, rx r with
  | Some mr, Some dr, Some xr =>
      if Nat.eqb (m_of mr) ci && Nat.eqb (d_stamp dr) (m_stamp mr) then Some (xr, dr) else None
  | _, _, _ => None
  end.

(* per module: the diagnostics reported and the interface dependants are checked against *)
Definition cold_mod (errs_of : inp -> errs) (iface_of : inp -> ifc) (ci : inp) : errs * ifc :=
  (errs_of ci, iface_of ci).
Definition warm_mod (errs_of : inp -> errs) (iface_of : inp -> ifc) (ci : inp) (r : mrec) : errs * ifc :=
  match trusted ci r with
  | Some (xr, dr) => (errs_of (x_of xr), d_if dr)
  | None => cold_mod errs_of iface_of ci
  end.
Definition warm (errs_of : inp -> errs) (iface_of : inp -> ifc) (st : store) (cur : mid -> inp) (mods : list mid) :=
  map (fun m => warm_mod errs_of iface_of (cur m) (st m)) mods.
Definition cold (errs_of : inp -> errs) (iface_of : inp -> ifc) (cur : mid -> inp) (mods : list mid) :=
  map (fun m => cold_mod errs_of iface_of (cur m)) mods.

(* ---------------------------------------------------------------- the side condition on the op order *)
(* abstract knowledge about one module's records while a process runs *)
Inductive pres := PU (* unknown: whatever the earlier runs left *) | PA (* absent *) | PN (* absent, or written by this run *).
Inductive dst := DU (* data not touched by this process *) | DG (* data belongs to the current input, or module dropped *) | DB.
Definition astate := (pres * pres * dst)%type.
Definition a0 : astate := (PU, PU, DU).

Definition is_PU (p : pres) := match p with PU => true | _ => false end.
Definition is_PA (p : pres) := match p with PA => true | _ => false end.
Definition is_DU (x : dst) := match x with DU => true | _ => false end.
Definition is_DG (x : dst) := match x with DG => true | _ => false end.

Definition flags := (bool * bool)%type.   (* (p_data_fail_drops, p_rm_fail_drops) *)
Definition pflags (P : protocol) : flags := (p_data_fail_drops P, p_rm_fail_drops P).

Definition abs_p (drops : flags) (a : astate) (p : pstep) : option astate :=
  let '(aM, aX, aD) := a in
  match p with
  | PRmMeta => Some (if snd drops then PA else aM, aX, aD)   (* an ignored failing remove removes nothing *)
  | PRmEx => Some (aM, if snd drops then PA else aX, aD)
  | PData => if is_PA aM && is_DU aD then Some (aM, aX, if fst drops then DG else DB) else None
  | PMeta => if is_PA aX && negb (is_PU aM) && is_DG aD then Some (PN, aX, aD) else None
  | PEx => if negb (is_PU aM) && negb (is_PU aX) then Some (aM, PN, aD) else None
  | PCommitM => Some a
  end.

Definition step_view (m : mid) (x : step) : option pstep :=
  match x with
  | SRmMeta m' => if Nat.eqb m' m then Some PRmMeta else None
  | SRmEx m' => if Nat.eqb m' m then Some PRmEx else None
  | SData m' => if Nat.eqb m' m then Some PData else None
  | SMeta m' => if Nat.eqb m' m then Some PMeta else None
  | SEx m' => if Nat.eqb m' m then Some PEx else None
  | SCommitM _ => None
  | SCommitAll => None
  | STouchMeta _ => None
  end.

Definition abs_step (drops : flags) (m : mid) (a : astate) (x : step) : option astate :=
  match step_view m x with Some p => abs_p drops a p | None => Some a end.

Fixpoint abs_run (drops : flags) (m : mid) (a : astate) (l : list step) : option astate :=
  match l with
  | [] => Some a
  | x :: l' => match abs_step drops m a x with Some a' => abs_run drops m a' l' | None => None end
  end.

Definition checked_steps (drops : flags) (m : mid) (l : list step) : bool :=
  match abs_run drops m a0 l with Some _ => true | None => false end.

Fixpoint abs_ps (drops : flags) (a : astate) (l : list pstep) : option astate :=
  match l with
  | [] => Some a
  | p :: l' => match abs_p drops a p with Some a' => abs_ps drops a' l' | None => None end
  end.

(* the decidable side condition: per module, the protocol first invalidates the old entry (removes meta
   and meta_ex), then settles the data file, then publishes meta, then meta_ex; checked for the
   sequential function and for interface phase followed by implementation phase *)
Definition protocol_ok (P : protocol) : bool :=
  match abs_ps (pflags P) a0 (concat (p_seq P)) with Some _ => true | None => false end
  && match abs_ps (pflags P) a0 (concat (p_iface P) ++ concat (p_impl P)) with Some _ => true | None => false end.

(* the order of the snapshot e70354f (and of every tree before the repair), and the repaired one *)
Definition protocol_e70354f : protocol :=
  {| p_seq := [[PData; PCommitM]; [PMeta; PEx; PCommitM]];
     p_iface := [[PData; PCommitM]; [PMeta; PCommitM]];
     p_impl := [[PEx; PCommitM]];
     p_data_fail_drops := true; p_rm_fail_drops := true; p_coord_commit := true;
     p_worker_iface_commit := true; p_worker_impl_commit := true; p_final_commit := true |}.
Definition protocol_repaired : protocol :=
  {| p_seq := [[PRmMeta; PRmEx; PData; PCommitM]; [PMeta; PEx; PCommitM]];
     p_iface := [[PRmMeta; PRmEx; PData; PCommitM]; [PMeta; PCommitM]];
     p_impl := [[PEx; PCommitM]];
     p_data_fail_drops := true; p_rm_fail_drops := true; p_coord_commit := true;
     p_worker_iface_commit := true; p_worker_impl_commit := true; p_final_commit := true |}.

(* build-level record: @plugins_snapshot.json vouches for ALL module entries (find_cache_meta abandons every
   entry when the recorded snapshot and the current one are both non-empty and differ).  Order of events in
   build.dispatch; semantics in Snapshot.v *)
Inductive snapstep := SnInval | SnGraph | SnWrite.
