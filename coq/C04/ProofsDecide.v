(* C04: which theorem applies to the op order regenerated from the current sources. *)
From Coq Require Import List Bool Arith.
From C04 Require Import Model Statement Proofs ProofsGen ProofsRefute.
From Gen Require Import CacheProtocol.
Import ListNotations.

Definition verdict (P : protocol) : Prop :=
  if protocol_ok P then crash_safe_for P /\ write_is_optional_for P else ~ crash_safe_for P.

Lemma current_decided : verdict current_protocol.
Proof.
  unfold verdict.
  lazymatch eval vm_compute in (protocol_ok current_protocol) with
  | true =>
      replace (protocol_ok current_protocol) with true by (vm_compute; reflexivity);
      split; [apply crash_safe_of_ok | apply write_is_optional_of_ok]; vm_compute; reflexivity
  | false =>
      replace (protocol_ok current_protocol) with false by (vm_compute; reflexivity);
      refute_any
  end.
Qed.

Lemma repaired_ok : protocol_ok protocol_repaired = true.
Proof. vm_compute. reflexivity. Qed.
Lemma e70354f_not_ok : protocol_ok protocol_e70354f = false.
Proof. vm_compute. reflexivity. Qed.
