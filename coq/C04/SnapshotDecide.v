(* C04: which snapshot theorem applies to the order regenerated from build.dispatch. *)
From Coq Require Import List Bool Arith.
From C04 Require Import Model Snapshot.
From Gen Require Import CacheProtocol.
Import ListNotations.

Lemma snapshot_decided_lemma :
  if snapshot_ok current_snapshot_order then snapshot_safe_for current_snapshot_order
  else ~ snapshot_safe_for current_snapshot_order.
Proof.
  lazymatch eval vm_compute in (snapshot_ok current_snapshot_order) with
  | true => replace (snapshot_ok current_snapshot_order) with true by (vm_compute; reflexivity);
            apply snapshot_safe_of_ok; vm_compute; reflexivity
  | false => replace (snapshot_ok current_snapshot_order) with false by (vm_compute; reflexivity);
             first [exact snapshot_refuted_e70354f | exact snapshot_refuted_write_first]
  end.
Qed.

