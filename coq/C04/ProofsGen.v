(* C04: every step list generated from a protocol that passes [protocol_ok] satisfies the side
   condition, for every SCC structure / batch structure / number of workers. *)
From Coq Require Import List Bool Arith Lia.
From C04 Require Import Model Statement Proofs.
Import ListNotations.

Section Gen.
Variable dr : flags.
Variable m : mid.

Lemma abs_run_app : forall l1 l2 a,
  abs_run dr m a (l1 ++ l2) = match abs_run dr m a l1 with Some a' => abs_run dr m a' l2 | None => None end.
Proof.
  induction l1 as [|x l1 IH]; intros l2 a; simpl; [reflexivity|].
  destruct (abs_step dr m a x); [apply IH | reflexivity].
Qed.

Definition silent (l : list step) : Prop := forall x, In x l -> step_view m x = None.

Lemma abs_run_silent : forall l a, silent l -> abs_run dr m a l = Some a.
Proof.
  induction l as [|x l IH]; intros a H; simpl; [reflexivity|].
  unfold abs_step. rewrite (H x (or_introl eq_refl)). apply IH. intros y Hy. apply H. right. exact Hy.
Qed.

Lemma silent_app : forall l1 l2, silent l1 -> silent l2 -> silent (l1 ++ l2).
Proof. intros l1 l2 H1 H2 x Hx. apply in_app_or in Hx. destruct Hx; auto. Qed.

Lemma silent_concat : forall ls, (forall l, In l ls -> silent l) -> silent (concat ls).
Proof.
  induction ls as [|l ls IH]; intros H; simpl; [intros x []|].
  apply silent_app; [apply H; left; reflexivity | apply IH; intros l' Hl'; apply H; right; exact Hl'].
Qed.

Lemma silent_commit_if : forall b, silent (commit_if b).
Proof. intros [|] x Hx; simpl in Hx; [destruct Hx as [<-|[]]; reflexivity | destruct Hx]. Qed.

Lemma silent_load : forall touch, silent (gen_load touch).
Proof. intros touch x Hx. unfold gen_load in Hx. apply in_map_iff in Hx. destruct Hx as (y & <- & _). reflexivity. Qed.

Lemma step_view_inst_other : forall m' p, m' <> m -> step_view m (inst m' p) = None.
Proof.
  intros m' p H. apply Nat.eqb_neq in H. destruct p; simpl; try rewrite H; reflexivity.
Qed.

Lemma silent_inst_other : forall m' body, m' <> m -> silent (map (inst m') body).
Proof.
  intros m' body H x Hx. apply in_map_iff in Hx. destruct Hx as (p & <- & _). apply step_view_inst_other. exact H.
Qed.

Lemma abs_run_inst : forall body a, abs_run dr m a (map (inst m) body) = abs_ps dr a body.
Proof.
  induction body as [|p body IH]; intros a; simpl; [reflexivity|].
  unfold abs_step.
  destruct p; simpl; rewrite ?Nat.eqb_refl; simpl;
    try (destruct (abs_p dr a _); [apply IH | reflexivity]).
  destruct a as [[aM aX] aD]. simpl. apply IH.
Qed.

Lemma abs_ps_app : forall l1 l2 a,
  abs_ps dr a (l1 ++ l2) = match abs_ps dr a l1 with Some a' => abs_ps dr a' l2 | None => None end.
Proof.
  induction l1 as [|x l1 IH]; intros l2 a; simpl; [reflexivity|].
  destruct (abs_p dr a x); [apply IH | reflexivity].
Qed.

Lemma NoDup_app_disj : forall (l1 l2 : list mid) x, NoDup (l1 ++ l2) -> In x l1 -> ~ In x l2.
Proof.
  induction l1 as [|y l1 IH]; intros l2 x H Hx; [destruct Hx|].
  simpl in H. inversion H; subst. destruct Hx as [->|Hx].
  - intro Hin. apply H2. apply in_or_app. right. exact Hin.
  - apply IH; assumption.
Qed.

Lemma NoDup_app_l : forall (l1 l2 : list mid), NoDup (l1 ++ l2) -> NoDup l1.
Proof.
  induction l1 as [|y l1 IH]; intros l2 H; [constructor|].
  simpl in H. inversion H; subst. constructor.
  - intro Hin. apply H2. apply in_or_app. left. exact Hin.
  - eapply IH. exact H3.
Qed.
Lemma NoDup_app_r : forall (l1 l2 : list mid), NoDup (l1 ++ l2) -> NoDup l2.
Proof.
  induction l1 as [|y l1 IH]; intros l2 H; [exact H|].
  simpl in H. inversion H; subst. apply IH. exact H3.
Qed.

(* blocks (modules of a loop, SCCs of a build, SCCs of a batch, batches of a worker): the block that
   holds m acts as X, all the others are silent *)
Lemma per_block : forall (B : Type) (g : B -> list step) (mods_of : B -> list mid) (X : list pstep) (blocks : list B),
  NoDup (concat (map mods_of blocks)) -> In m (concat (map mods_of blocks)) ->
  (forall b, ~ In m (mods_of b) -> silent (g b)) ->
  (forall b, In m (mods_of b) -> NoDup (mods_of b) -> forall a, abs_run dr m a (g b) = abs_ps dr a X) ->
  forall a, abs_run dr m a (concat (map g blocks)) = abs_ps dr a X.
Proof.
  intros B g mods_of X blocks. induction blocks as [|b blocks IH]; intros Hnd Hin Hsil Hact a.
  - destruct Hin.
  - simpl in *. rewrite abs_run_app.
    assert (Hnd1 : NoDup (mods_of b)) by (eapply NoDup_app_l; exact Hnd).
    assert (Hnd2 : NoDup (concat (map mods_of blocks))) by (eapply NoDup_app_r; exact Hnd).
    destruct (in_dec Nat.eq_dec m (mods_of b)) as [Hb|Hb].
    + rewrite (Hact b Hb Hnd1 a). destruct (abs_ps dr a X) as [a'|]; [|reflexivity].
      apply abs_run_silent. apply silent_concat. intros l Hl.
      apply in_map_iff in Hl. destruct Hl as (b' & <- & Hb'). apply Hsil. intro Hm.
      apply (NoDup_app_disj _ _ m Hnd Hb). apply in_concat. exists (mods_of b'). split; [|exact Hm].
      apply in_map. exact Hb'.
    + rewrite (abs_run_silent _ a (Hsil b Hb)). apply IH; auto.
      apply in_app_or in Hin. destruct Hin as [Hin|Hin]; [contradiction | exact Hin].
Qed.

Lemma per_block_silent : forall (B : Type) (g : B -> list step) (mods_of : B -> list mid) (blocks : list B),
  ~ In m (concat (map mods_of blocks)) ->
  (forall b, ~ In m (mods_of b) -> silent (g b)) ->
  silent (concat (map g blocks)).
Proof.
  intros B g mods_of blocks Hn Hsil. apply silent_concat. intros l Hl.
  apply in_map_iff in Hl. destruct Hl as (b & <- & Hb). apply Hsil. intro Hm. apply Hn.
  apply in_concat. exists (mods_of b). split; [apply in_map; exact Hb | exact Hm].
Qed.

Lemma concat_singletons : forall (l : list mid), concat (map (fun x => [x]) l) = l.
Proof. induction l as [|x l IH]; simpl; [reflexivity | rewrite IH; reflexivity]. Qed.

(* one loop over the modules of an SCC *)
Lemma loop_steps_act : forall body mods, NoDup mods -> In m mods ->
  forall a, abs_run dr m a (loop_steps body mods) = abs_ps dr a body.
Proof.
  intros body mods Hnd Hin a. unfold loop_steps.
  apply (per_block mid (fun m' => map (inst m') body) (fun x => [x]) body mods).
  - rewrite concat_singletons. exact Hnd.
  - rewrite concat_singletons. exact Hin.
  - intros b Hb. apply silent_inst_other. intro E. apply Hb. left. exact E.
  - intros b Hb _ a'. destruct Hb as [->|[]]. apply abs_run_inst.
Qed.

Lemma loop_steps_silent : forall body mods, ~ In m mods -> silent (loop_steps body mods).
Proof.
  intros body mods Hn. unfold loop_steps.
  apply (per_block_silent mid (fun m' => map (inst m') body) (fun x => [x]) mods).
  - rewrite concat_singletons. exact Hn.
  - intros b Hb. apply silent_inst_other. intro E. apply Hb. left. exact E.
Qed.

Lemma loops_steps_act : forall loops mods, NoDup mods -> In m mods ->
  forall a, abs_run dr m a (loops_steps loops mods) = abs_ps dr a (concat loops).
Proof.
  induction loops as [|body loops IH]; intros mods Hnd Hin a; [reflexivity|].
  unfold loops_steps in *. simpl. rewrite abs_run_app, abs_ps_app.
  rewrite (loop_steps_act body mods Hnd Hin a).
  destruct (abs_ps dr a body); [apply IH; assumption | reflexivity].
Qed.

Lemma loops_steps_silent : forall loops mods, ~ In m mods -> silent (loops_steps loops mods).
Proof.
  intros loops mods Hn. unfold loops_steps. apply silent_concat. intros l Hl.
  apply in_map_iff in Hl. destruct Hl as (body & <- & _). apply loop_steps_silent. exact Hn.
Qed.

Section WithP.
Variable P : protocol.

(* single-process build *)
Lemma gen_seq_act : forall sccs, NoDup (concat sccs) -> In m (concat sccs) ->
  forall a, abs_run dr m a (gen_seq P sccs) = abs_ps dr a (concat (p_seq P)).
Proof.
  intros sccs Hnd Hin a. unfold gen_seq. rewrite abs_run_app.
  rewrite (per_block (list mid) (loops_steps (p_seq P)) (fun s => s) (concat (p_seq P)) sccs).
  - destruct (abs_ps dr a (concat (p_seq P))); [apply abs_run_silent, silent_commit_if | reflexivity].
  - rewrite map_id. exact Hnd.
  - rewrite map_id. exact Hin.
  - intros b Hb. apply loops_steps_silent. exact Hb.
  - intros b Hb Hndb a'. apply loops_steps_act; assumption.
Qed.

Lemma gen_seq_silent : forall sccs, ~ In m (concat sccs) -> silent (gen_seq P sccs).
Proof.
  intros sccs Hn. unfold gen_seq. apply silent_app; [|apply silent_commit_if].
  apply (per_block_silent (list mid) (loops_steps (p_seq P)) (fun s => s) sccs).
  - rewrite map_id. exact Hn.
  - intros b Hb. apply loops_steps_silent. exact Hb.
Qed.

(* one batch of a worker: interface phases of its SCCs, then implementation phase module by module *)
Lemma gen_batch_act : forall batch, NoDup (concat batch) -> In m (concat batch) ->
  forall a, abs_run dr m a (gen_batch P batch) = abs_ps dr a (concat (p_iface P) ++ concat (p_impl P)).
Proof.
  intros batch Hnd Hin a. unfold gen_batch. rewrite abs_run_app, abs_ps_app.
  rewrite (per_block (list mid) (fun scc => loops_steps (p_iface P) scc ++ commit_if (p_worker_iface_commit P))
             (fun s => s) (concat (p_iface P)) batch).
  - destruct (abs_ps dr a (concat (p_iface P))) as [a1|]; [|reflexivity].
    rewrite abs_run_app.
    rewrite (per_block mid (fun m' => loops_steps (p_impl P) [m']) (fun x => [x]) (concat (p_impl P)) (concat batch)).
    + destruct (abs_ps dr a1 (concat (p_impl P))); [apply abs_run_silent, silent_commit_if | reflexivity].
    + rewrite concat_singletons. exact Hnd.
    + rewrite concat_singletons. exact Hin.
    + intros b Hb. apply loops_steps_silent. exact Hb.
    + intros b Hb Hndb a'. apply loops_steps_act; assumption.
  - rewrite map_id. exact Hnd.
  - rewrite map_id. exact Hin.
  - intros b Hb. apply silent_app; [apply loops_steps_silent; exact Hb | apply silent_commit_if].
  - intros b Hb Hndb a'. rewrite abs_run_app. rewrite (loops_steps_act _ b Hndb Hb a').
    destruct (abs_ps dr a' (concat (p_iface P))); [apply abs_run_silent, silent_commit_if | reflexivity].
Qed.

Lemma gen_batch_silent : forall batch, ~ In m (concat batch) -> silent (gen_batch P batch).
Proof.
  intros batch Hn. unfold gen_batch. apply silent_app; [|apply silent_app; [|apply silent_commit_if]].
  - apply (per_block_silent (list mid) (fun scc => loops_steps (p_iface P) scc ++ commit_if (p_worker_iface_commit P))
             (fun s => s) batch).
    + rewrite map_id. exact Hn.
    + intros b Hb. apply silent_app; [apply loops_steps_silent; exact Hb | apply silent_commit_if].
  - apply (per_block_silent mid (fun m' => loops_steps (p_impl P) [m']) (fun x => [x]) (concat batch)).
    + rewrite concat_singletons. exact Hn.
    + intros b Hb. apply loops_steps_silent. exact Hb.
Qed.

Definition batch_mods (b : list (list mid)) : list mid := concat b.
Definition worker_mods (w : list (list (list mid))) : list mid := concat (map batch_mods w).

Lemma gen_worker_act : forall w, NoDup (worker_mods w) -> In m (worker_mods w) ->
  forall a, abs_run dr m a (gen_worker P w) = abs_ps dr a (concat (p_iface P) ++ concat (p_impl P)).
Proof.
  intros w Hnd Hin a. unfold gen_worker.
  apply (per_block (list (list mid)) (gen_batch P) batch_mods _ w Hnd Hin).
  - intros b Hb. apply gen_batch_silent. exact Hb.
  - intros b Hb Hndb a'. apply gen_batch_act; assumption.
Qed.

Lemma gen_worker_silent : forall w, ~ In m (worker_mods w) -> silent (gen_worker P w).
Proof.
  intros w Hn. unfold gen_worker. apply (per_block_silent (list (list mid)) (gen_batch P) batch_mods w Hn).
  intros b Hb. apply gen_batch_silent. exact Hb.
Qed.

End WithP.


End Gen.

Lemma NoDup_concat_in : forall (ls : list (list mid)) l, NoDup (concat ls) -> In l ls -> NoDup l.
Proof.
  induction ls as [|l0 ls IH]; intros l H Hin; [destruct Hin|].
  simpl in H. destruct Hin as [->|Hin].
  - eapply NoDup_app_l. exact H.
  - apply IH; [eapply NoDup_app_r; exact H | exact Hin].
Qed.

Lemma protocol_ok_round_checked : forall P r,
  protocol_ok P = true -> NoDup (shape_mods (r_shape r)) -> round_checked P r.
Proof.
  intros P r Hok Hnd m. unfold protocol_ok in Hok. apply andb_true_iff in Hok. destruct Hok as [Hseq Hpar].
  destruct (r_shape r) as [sccs|ws]; simpl in *.
  - constructor; [|constructor]. unfold checked_steps. rewrite abs_run_app.
    rewrite (abs_run_silent _ m _ a0 (silent_load m (r_touch r))).
    destruct (in_dec Nat.eq_dec m (concat sccs)) as [Hin|Hin].
    + rewrite (gen_seq_act _ m P sccs Hnd Hin a0).
      destruct (abs_ps (pflags P) a0 (concat (p_seq P))); [reflexivity | discriminate].
    + rewrite (abs_run_silent _ m _ a0 (gen_seq_silent m P sccs Hin)). reflexivity.
  - constructor.
    { unfold checked_steps.
      rewrite (abs_run_silent _ m _ a0 (silent_app m _ _ (silent_load m (r_touch r)) (silent_commit_if m _))).
      reflexivity. }
    apply Forall_forall. intros steps Hs. apply in_map_iff in Hs. destruct Hs as (w & <- & Hw).
    unfold checked_steps.
    assert (Hndw : NoDup (worker_mods w)).
    { apply (NoDup_concat_in (map worker_mods ws)); [exact Hnd | apply in_map; exact Hw]. }
    destruct (in_dec Nat.eq_dec m (worker_mods w)) as [Hin|Hin].
    + rewrite (gen_worker_act _ m P w Hndw Hin a0).
      destruct (abs_ps (pflags P) a0 (concat (p_iface P) ++ concat (p_impl P))); [reflexivity | discriminate].
    + rewrite (abs_run_silent _ m _ a0 (gen_worker_silent m P w Hin)). reflexivity.
Qed.

(* the positive theorem: any op order that passes the side condition is crash safe *)
Lemma crash_safe_of_ok : forall P, protocol_ok P = true -> crash_safe_for P.
Proof.
  intros P Hok errs_of iface_of k h Hwf cur mods. apply crash_safe_checked_rounds.
  eapply Forall_impl; [|exact Hwf]. intros r Hr. apply protocol_ok_round_checked; assumption.
Qed.

Lemma write_is_optional_of_ok : forall P, protocol_ok P = true -> write_is_optional_for P.
Proof. intros P Hok errs_of iface_of k h Hwf _ cur mods. apply crash_safe_of_ok; assumption. Qed.
