(* Full-strength statement of property C04 over the model, always visible. *)
From Coq Require Import List Bool Arith.
From C04 Require Import Model.
Import ListNotations.

(* Whatever happened before -- any number of runs, each after arbitrary edits (r_cur), processing any
   SCCs in any order on any number of processes (r_shape), each process killed at any position between
   two store operations or not at all (r_crash), any subset of store writes and removes failing (r_fail),
   any set of metas rewritten by validate_meta while loading (r_touch), data files
   getting any mtimes (r_stamp), either store (k), any sharding (r_shard) -- the next run on any files
   [cur] reports for every module exactly what a cold run reports (diagnostics, and the interface its
   dependants are checked against). *)
Definition crash_safe_for (P : protocol) : Prop :=
  forall (errs_of : inp -> errs) (iface_of : inp -> ifc) (k : skind) (h : list round),
    Forall (fun r => NoDup (shape_mods (r_shape r))) h ->   (* a run processes a module at most once *)
    forall (cur : mid -> inp) (mods : list mid),
      warm errs_of iface_of (run_history iface_of P k h) cur mods = cold errs_of iface_of cur mods.

(* build.write_cache's docstring: "mypy's behavior is still correct when any given write_cache() call
   is replaced with a no-op": instance of crash_safe_for with no crash (r_crash beyond every length). *)
Definition write_is_optional_for (P : protocol) : Prop :=
  forall (errs_of : inp -> errs) (iface_of : inp -> ifc) (k : skind) (h : list round),
    Forall (fun r => NoDup (shape_mods (r_shape r))) h ->
    Forall (fun r => forall p, r_crash r p >= length (nth p (procs_of P (r_touch r) (r_shape r)) [])) h ->
    forall (cur : mid -> inp) (mods : list mid),
      warm errs_of iface_of (run_history iface_of P k h) cur mods = cold errs_of iface_of cur mods.
