(* Property C04, fine-grained dependency cache (write_deps_cache / read_deps_cache): statements closed by `exact`. *)
From Coq Require Import List Bool Arith.
From C04 Require Import Deps DepsDecide.
From Gen Require Import CacheProtocol.
Import ListNotations.

(* deps files first, deps meta last and only if every deps-file write succeeded => after any history of runs, each
   killed anywhere or with any writes failing, deps that read_deps_cache trusts are the deps of the metas it matched *)
Theorem deps_cache_crash_safe : forall P, dprotocol_ok P = true -> deps_cache_safe_for P.
Proof. exact deps_safe_of_ok. Qed.
Print Assumptions deps_cache_crash_safe.

(* the current code writes the deps meta although a deps-file write failed (then raises a blocking error): the meta
   keeps the old mtime of that file, which still matches: old deps are trusted against the new metas *)
Theorem deps_cache_crash_safe_refuted : ~ deps_cache_safe_for dprotocol_d119a57.
Proof. exact deps_refuted_d119a57. Qed.
Print Assumptions deps_cache_crash_safe_refuted.

(* the protocol regenerated from build.write_deps_cache *)
Theorem deps_cache_crash_safe_decided :
  if dprotocol_ok current_deps_protocol then deps_cache_safe_for current_deps_protocol
  else ~ deps_cache_safe_for current_deps_protocol.
Proof. exact deps_decided_lemma. Qed.
Print Assumptions deps_cache_crash_safe_decided.

Example deps_side_condition_satisfiable :
  dprotocol_ok {| dp_meta_last := true; dp_meta_skipped_on_error := true |} = true.
Proof. reflexivity. Qed.
