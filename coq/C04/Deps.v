(* C04: the fine-grained dependency cache (build.write_deps_cache / read_deps_cache), per module i.

   Records: the deps file of i (content, mtime) and the global @deps.meta.json = (snapshot of the module metas'
   source hashes: abstracted to a version v, and for each module the mtime of the deps file it vouches for).
   read_deps_cache trusts the cache iff the snapshot matches the metas found (v = current) and every listed
   deps file has exactly the listed mtime.  W v i = the deps content that is right for module i at version v.
   The op order ([deps file writes]; meta write) and the reaction to a failed deps-file write are GENERATED. *)
From Coq Require Import List Bool Arith.
Import ListNotations.

Definition ver := nat.
Definition dstamp := nat.
Record dstate := { df : option (nat * dstamp);            (* deps file of i: content id, mtime *)
                   dm : option (ver * option dstamp) }.    (* deps meta: snapshot, listed mtime of i's file *)
Definition d_empty : dstate := {| df := None; dm := None |}.

Record dprotocol := {
  dp_meta_last : bool;             (* DEPS_META_FILE is written after the loop over the deps files *)
  dp_meta_skipped_on_error : bool  (* ... and not at all when a deps-file write failed *)
}.

Record dround := {
  dr_v : ver;          (* program version (module metas) of this run *)
  dr_t : dstamp;       (* mtime the files written by this run get *)
  dr_in : bool;        (* i is among the modules whose deps file is rewritten *)
  dr_loaded : bool;    (* read_deps_cache accepted the old cache: fg_deps_meta starts from its entries *)
  dr_fail_d : bool;    (* the write of i's deps file fails *)
  dr_err : bool;       (* some deps-file write of the run failed *)
  dr_fail_m : bool;    (* the write of the deps meta fails *)
  dr_pos : nat         (* store operations concerning i executed before the run is killed (0, 1, 2) *)
}.

Definition old_listed (s : dstate) (loaded : bool) : option dstamp :=
  if loaded then match dm s with Some (_, l) => l | None => None end else None.

Definition step_d (W : ver -> nat) (r : dround) (s : dstate) : dstate :=
  if dr_in r && negb (dr_fail_d r) then {| df := Some (W (dr_v r), dr_t r); dm := dm s |} else s.

Definition step_m (P : dprotocol) (r : dround) (listed0 : option dstamp) (s : dstate) : dstate :=
  if dr_fail_m r then s
  else if dp_meta_skipped_on_error P && dr_err r then s
  else {| df := df s;
          dm := Some (dr_v r, if dr_in r && negb (dr_fail_d r) then Some (dr_t r) else listed0) |}.

Definition drun (W : ver -> nat) (P : dprotocol) (s : dstate) (r : dround) : dstate :=
  let l0 := old_listed s (dr_loaded r) in
  if dp_meta_last P then
    match dr_pos r with
    | 0 => s
    | 1 => step_d W r s
    | _ => step_m P r l0 (step_d W r s)
    end
  else
    match dr_pos r with
    | 0 => s
    | 1 => step_m P r l0 s
    | _ => step_d W r (step_m P r l0 s)
    end.

(* does read_deps_cache at version v use i's deps file, and is that right *)
Definition d_trusted (v : ver) (s : dstate) : option nat :=
  match dm s with
  | Some (v', Some t) => if Nat.eqb v' v then
                           match df s with Some (c, t') => if Nat.eqb t' t then Some c else None | None => None end
                         else None
  | _ => None
  end.

(* well-formed round w.r.t. the state it starts from *)
Definition dwf (W : ver -> nat) (s : dstate) (r : dround) : Prop :=
  (* fresh mtime: time has moved on since every earlier write *)
  (forall c t, df s = Some (c, t) -> t <> dr_t r) /\
  (forall v l, dm s = Some (v, Some l) -> l <> dr_t r) /\
  (* a failing write of i's file is a failing deps-file write of the run *)
  (dr_in r = true -> dr_fail_d r = true -> dr_err r = true) /\
  (* the old cache is loaded only when read_deps_cache accepts it; a module that is not rewritten has unchanged deps *)
  (dr_loaded r = true -> forall v t, dm s = Some (v, Some t) ->
     (exists c, df s = Some (c, t)) /\ (dr_in r = false -> W (dr_v r) = W v)).

Fixpoint dreach (W : ver -> nat) (P : dprotocol) (h : list dround) (s0 s : dstate) : Prop :=
  match h with
  | [] => s0 = s
  | r :: h' => dwf W s0 r /\ dreach W P h' (drun W P s0 r) s
  end.

Definition deps_cache_safe_for (P : dprotocol) : Prop :=
  forall (W : ver -> nat) (h : list dround) (s : dstate),
    dreach W P h d_empty s -> forall v c, d_trusted v s = Some c -> c = W v.

Definition dprotocol_ok (P : dprotocol) : bool := dp_meta_last P && dp_meta_skipped_on_error P.

(* ---------------------------------------------------------------- proofs *)
Definition DInv (W : ver -> nat) (s : dstate) : Prop :=
  forall v t c, dm s = Some (v, Some t) -> df s = Some (c, t) -> c = W v.

Lemma DInv_trust : forall W s, DInv W s -> forall v c, d_trusted v s = Some c -> c = W v.
Proof.
  intros W s H v c. unfold d_trusted. destruct (dm s) as [[v' [t|]]|] eqn:Em; try discriminate.
  destruct (Nat.eqb v' v) eqn:Ev; [|discriminate]. destruct (df s) as [[c' t']|] eqn:Ef; [|discriminate].
  destruct (Nat.eqb t' t) eqn:Et; [|discriminate]. intros E. inversion E; subst c'.
  apply Nat.eqb_eq in Ev, Et. subst. eapply H; eauto.
Qed.

Lemma drun_DInv : forall W P s r, dprotocol_ok P = true -> DInv W s -> dwf W s r -> DInv W (drun W P s r).
Proof.
  intros W P s r Hok HI (Hf1 & Hf2 & Herr & Hld). unfold dprotocol_ok in Hok. apply andb_true_iff in Hok.
  destruct Hok as [Hl Hs]. unfold drun. rewrite Hl.
  assert (HD : DInv W (step_d W r s)).
  { unfold step_d. destruct (dr_in r && negb (dr_fail_d r)) eqn:E; [|exact HI].
    intros v t c Hm Hd. simpl in Hm, Hd. injection Hd as Hc Ht. exfalso. apply (Hf2 v t Hm). symmetry. exact Ht. }
  destruct (dr_pos r) as [|[|n]]; [exact HI | exact HD |].
  unfold step_m. destruct (dr_fail_m r); [exact HD|]. rewrite Hs. simpl.
  destruct (dr_err r) eqn:Ee; [exact HD|]. simpl.
  intros v t c Hm Hd. simpl in Hm. inversion Hm; subst v. clear Hm.
  unfold step_d in *. destruct (dr_in r && negb (dr_fail_d r)) eqn:E.
  - simpl in Hd. inversion H1; subst t. inversion Hd. reflexivity.
  - (* i's file not rewritten by this run *)
    assert (Hin : dr_in r = false).
    { destruct (dr_in r) eqn:Ei; [|reflexivity]. simpl in E. apply negb_false_iff in E.
      discriminate (Herr eq_refl E). }
    unfold old_listed in H1. destruct (dr_loaded r) eqn:El; [|discriminate].
    destruct (dm s) as [[v0 l0]|] eqn:Em0; [|discriminate]. subst l0.
    destruct (Hld eq_refl v0 t eq_refl) as [_ HW]. rewrite (HW Hin). eapply HI; eauto.
Qed.

Lemma deps_safe_of_ok : forall P, dprotocol_ok P = true -> deps_cache_safe_for P.
Proof.
  intros P Hok W h.
  assert (G : forall s0 s, DInv W s0 -> dreach W P h s0 s -> DInv W s).
  { induction h as [|r h IH]; intros s0 s H0 Hre; simpl in Hre.
    - subst. exact H0.
    - destruct Hre as [Hw Hre]. eapply IH; [|exact Hre]. apply drun_DInv; assumption. }
  intros s Hr. apply DInv_trust. eapply G; [|exact Hr]. intros v t c Hm. discriminate Hm.
Qed.

(* the current code writes the deps meta even when a deps-file write failed; the meta keeps the OLD mtime of that
   file, which still matches: the old deps of i are trusted against the new metas *)
Definition dprotocol_d119a57 : dprotocol := {| dp_meta_last := true; dp_meta_skipped_on_error := false |}.

Lemma deps_refuted_d119a57 : ~ deps_cache_safe_for dprotocol_d119a57.
Proof.
  intro H.
  set (r1 := {| dr_v := 1; dr_t := 10; dr_in := true; dr_loaded := false; dr_fail_d := false; dr_err := false; dr_fail_m := false; dr_pos := 2 |}).
  set (r2 := {| dr_v := 2; dr_t := 20; dr_in := true; dr_loaded := true; dr_fail_d := true; dr_err := true; dr_fail_m := false; dr_pos := 2 |}).
  specialize (H (fun v => v) [r1; r2] (drun (fun v => v) dprotocol_d119a57 (drun (fun v => v) dprotocol_d119a57 d_empty r1) r2)).
  assert (R : dreach (fun v => v) dprotocol_d119a57 [r1; r2] d_empty
                (drun (fun v => v) dprotocol_d119a57 (drun (fun v => v) dprotocol_d119a57 d_empty r1) r2)).
  { simpl. split; [|split; [|reflexivity]].
    - repeat split; intros; simpl in *; try discriminate.
    - repeat split; intros; simpl in *; try discriminate.
      + vm_compute in H0. inversion H0. intro; discriminate.
      + vm_compute in H0. inversion H0. intro; discriminate.
      + vm_compute in H1. inversion H1. subst. vm_compute. eexists; reflexivity. }
  specialize (H R 2 1). vm_compute in H. specialize (H eq_refl). discriminate H.
Qed.
