(* C04: concrete histories on which an unsafe op order makes the next run wrong (witnesses). *)
From Coq Require Import List Bool Arith Lia.
From C04 Require Import Model Statement.
Import ListNotations.

Definition idn (x : nat) : nat := x.
Definition never (_ _ : nat) : bool := false.
Definition stamps (p i : nat) : nat := 10 * p + i.

(* module 0; a complete run on input 1 ... *)
Definition full_run (ci : inp) : round :=
  {| r_cur := fun _ => ci; r_touch := []; r_shape := Seq [[0]]; r_fail := never; r_stamp := fun p i => 100 * ci + i;
     r_crash := fun _ => 1000; r_shard := fun _ => 0 |}.
(* ... an edit (input 2) and a run killed after n store operations *)
Definition killed_run (ci : inp) (n : nat) : round :=
  {| r_cur := fun _ => ci; r_touch := []; r_shape := Seq [[0]]; r_fail := never; r_stamp := fun p i => 100 * ci + i;
     r_crash := fun _ => n; r_shard := fun _ => 0 |}.
(* the same in a worker of a parallel build *)
Definition killed_worker (ci : inp) (n : nat) : round :=
  {| r_cur := fun _ => ci; r_touch := []; r_shape := Par [[[[0]]]]; r_fail := never; r_stamp := fun p i => 100 * ci + i;
     r_crash := fun _ => n; r_shard := fun _ => 0 |}.
(* a complete run in which step i (a write) fails *)
Definition failing_run (ci : inp) (i : nat) : round :=
  {| r_cur := fun _ => ci; r_touch := []; r_shape := Seq [[0]]; r_fail := fun _ j => Nat.eqb i j; r_stamp := fun p j => 100 * ci + j;
     r_crash := fun _ => 1000; r_shard := fun _ => 0 |}.

(* a run in which step i fails (write returns False / remove raises) and which is killed after n steps *)
Definition fail_and_kill (ci : inp) (i n : nat) : round :=
  {| r_cur := fun _ => ci; r_touch := []; r_shape := Seq [[0]]; r_fail := fun _ j => Nat.eqb i j; r_stamp := fun p j => 100 * ci + j;
     r_crash := fun _ => n; r_shard := fun _ => 0 |}.

Lemma wf1 : forall r1, r_shape r1 = Seq [[0]] \/ r_shape r1 = Par [[[[0]]]] -> NoDup (shape_mods (r_shape r1)).
Proof. intros r1 [H|H]; rewrite H; simpl; repeat constructor; simpl; tauto. Qed.

(* F2, filesystem store, single process: killed between write_cache_meta and write_cache_meta_ex *)
Definition w_f2_fs : list round := [full_run 1; killed_run 2 3].
(* F2, sqlite store, worker: killed after the commit of the interface phase *)
Definition w_f2_par : list round := [full_run 1; killed_worker 2 5].
(* F2, any store: the meta_ex write fails (returns False) *)
Definition w_f2_fail : list round := [full_run 1; failing_run 2 3].
(* F2b: killed after the data write; the edit is reverted (input 1 again: same hash); complete run;
   the data file of input 2 is now paired with a valid meta for input 1 *)
Definition w_f2b : list round := [full_run 1; killed_run 2 2; full_run 1].

Ltac refute_with h k cur :=
  let H := fresh in
  intro H;
  specialize (H idn idn k h);
  match type of H with ?A -> _ =>
    let W := fresh in
    assert (W : A) by (repeat constructor; simpl; tauto);
    specialize (H W (fun _ : mid => cur) [0]); vm_compute in H; discriminate H
  end.

Lemma refuted_e70354f_fs : ~ crash_safe_for protocol_e70354f.
Proof. refute_with w_f2_fs FS 2. Qed.

Lemma refuted_e70354f_sqlite_worker : ~ crash_safe_for protocol_e70354f.
Proof. refute_with w_f2_par SQL 2. Qed.

Lemma refuted_e70354f_failed_write : ~ write_is_optional_for protocol_e70354f.
Proof.
  intro H. specialize (H idn idn SQL w_f2_fail).
  assert (W : Forall (fun r => NoDup (shape_mods (r_shape r))) w_f2_fail) by (repeat constructor; simpl; tauto).
  assert (W2 : Forall (fun r => forall p, r_crash r p >= length (nth p (procs_of protocol_e70354f (r_touch r) (r_shape r)) [])) w_f2_fail).
  { apply Forall_cons; [|apply Forall_cons; [|apply Forall_nil]]; intros p;
    destruct p as [|[|p]]; cbn; lia. }
  specialize (H W W2 (fun _ : mid => 2) [0]). vm_compute in H. discriminate H.
Qed.

Lemma refuted_e70354f_stale_data : ~ crash_safe_for protocol_e70354f.
Proof. refute_with w_f2b FS 1. Qed.

(* the sequential sqlite build is NOT hit by the kill window (meta and meta_ex are in one transaction) *)
Example sqlite_sequential_kill_positions_fine :
  forall n, n <= 8 ->
    warm idn idn (run_history idn protocol_e70354f SQL [full_run 1; killed_run 2 n]) (fun _ => 2) [0]
    = cold idn idn (fun _ => 2) [0].
Proof.
  intros n H. do 9 (destruct n as [|n]; [vm_compute; reflexivity|]). exfalso.
  repeat (apply le_S_n in H). inversion H.
Qed.

(* which witness refutes an arbitrary (generated) protocol: tried in turn *)
Ltac refute_any :=
  first [ refute_with w_f2_fs FS 2 | refute_with w_f2_par SQL 2 | refute_with w_f2b FS 1
        | refute_with w_f2_fail FS 2
        | refute_with [full_run 1; killed_run 2 1] FS 2 | refute_with [full_run 1; killed_run 2 2] FS 2
        | refute_with [full_run 1; killed_run 2 4] FS 2 | refute_with [full_run 1; killed_run 2 5] FS 2
        | refute_with [full_run 1; killed_worker 2 3] FS 2 | refute_with [full_run 1; killed_worker 2 4] FS 2
        | refute_with [full_run 1; killed_worker 2 6] FS 2 | refute_with [full_run 1; killed_worker 2 7] FS 2
        | refute_with [full_run 1; failing_run 2 0] FS 2 | refute_with [full_run 1; failing_run 2 1] FS 2 | refute_with [full_run 1; failing_run 2 2] FS 2
        | refute_with [full_run 1; failing_run 2 4] FS 2 | refute_with [full_run 1; failing_run 2 5] FS 2
        | refute_with [full_run 1; fail_and_kill 2 0 5] FS 2 | refute_with [full_run 1; fail_and_kill 2 1 5] FS 2
        | refute_with [full_run 1; fail_and_kill 2 0 6] FS 2 | refute_with [full_run 1; fail_and_kill 2 1 6] FS 2
        | refute_with [full_run 1; fail_and_kill 2 0 3] FS 2 | refute_with [full_run 1; fail_and_kill 2 1 4] FS 2
        | refute_with [full_run 1; killed_run 2 1; full_run 1] FS 1 | refute_with [full_run 1; killed_run 2 3; full_run 1] FS 1
        | refute_with [full_run 1; failing_run 2 2; full_run 1] FS 1 | refute_with [full_run 1; failing_run 2 4; full_run 1] FS 1 ].
