(* C04: the build-level record @plugins_snapshot.json.

   find_cache_meta abandons EVERY module entry when the recorded snapshot and the current one are both
   non-empty and differ; otherwise entries are judged on their own.  The meta of a module does not name the
   plugin set it was produced with: the snapshot alone vouches for all entries.  So an entry may be trusted
   only if the recorded snapshot matches AND was written after the entries it vouches for.

   Model (plugin sets are non-empty; hash = identity):
     snap      the recorded snapshot: none / a poison value that equals no real snapshot / Snap p
     ent m     ghost: the plugin set under which the complete (module-level trusted) entry of m was produced
   A run with plugin set p: if the recorded snapshot is Snap q with q <> p every entry is abandoned and
   (coverage assumption) every module that has an entry is re-processed; otherwise any set of modules.
   The order of [invalidate] / [process_graph] / [write snapshot] is GENERATED from build.dispatch. *)
From Coq Require Import List Bool Arith.
From C04 Require Import Model.
Import ListNotations.

Definition pl := nat.
Inductive snap := NoSnap | Poison | Snap (p : pl).
Record gstore := { g_snap : snap; g_ent : mid -> option pl }.
Definition g_empty : gstore := {| g_snap := NoSnap; g_ent := fun _ => None |}.

Inductive gstep := GInval | GProc (m : mid) | GWrite.

Definition expand (mods : list mid) (s : snapstep) : list gstep :=
  match s with SnInval => [GInval] | SnGraph => map GProc mods | SnWrite => [GWrite] end.
Definition gsteps (order : list snapstep) (mods : list mid) : list gstep := concat (map (expand mods) order).

Definition snap_is (s : snap) (p : pl) : bool := match s with Snap q => Nat.eqb q p | _ => false end.

Definition gexec (p : pl) (g : gstore) (x : gstep) : gstore :=
  match x with
  | GInval => if snap_is (g_snap g) p then g else {| g_snap := Poison; g_ent := g_ent g |}
  | GProc m => {| g_snap := g_snap g; g_ent := fun m' => if Nat.eqb m' m then Some p else g_ent g m' |}
  | GWrite => {| g_snap := Snap p; g_ent := g_ent g |}
  end.

(* does the next run (plugin set p) use the entry of m as found?  (no recorded snapshot = no check) *)
Definition g_trusts (p : pl) (g : gstore) (m : mid) : bool :=
  match g_ent g m with
  | None => false
  | Some _ => match g_snap g with NoSnap => true | Poison => false | Snap q => Nat.eqb q p end
  end.

Record ground := {
  gr_p : pl;                 (* the plugin set of this run *)
  gr_mods : list mid;        (* modules (re)processed by process_graph, in order *)
  gr_crash : nat             (* store operations executed before the run is killed / a failed snapshot write aborts it *)
}.

(* every entry is abandoned when the recorded snapshot differs: then every module with an entry is in gr_mods *)
Definition covers (g : gstore) (r : ground) : Prop :=
  snap_is (g_snap g) (gr_p r) = false -> forall m, g_ent g m <> None -> In m (gr_mods r).

Definition grun (order : list snapstep) (g : gstore) (r : ground) : gstore :=
  fold_left (gexec (gr_p r)) (firstn (gr_crash r) (gsteps order (gr_mods r))) g.

(* full statement for the build-level record *)
Definition snapshot_safe_for (order : list snapstep) : Prop :=
  forall (h : list ground) (g : gstore),
    (* g is reached from the empty cache through h, each run covering the entries it abandons *)
    (fix reach (h : list ground) (g0 : gstore) : Prop :=
       match h with
       | [] => g0 = g
       | r :: h' => covers g0 r /\ reach h' (grun order g0 r)
       end) h g_empty ->
    forall p m q, g_trusts p g m = true -> g_ent g m = Some q -> q = p.

(* side condition: invalidate first, rewrite the entries, write the snapshot last *)
Definition snapshot_ok (order : list snapstep) : bool :=
  match order with
  | [SnInval; SnGraph; SnWrite] => true
  | _ => false
  end.

Definition snapshot_order_e70354f : list snapstep := [SnGraph; SnWrite].
Definition snapshot_order_repaired : list snapstep := [SnInval; SnGraph; SnWrite].

(* ---------------------------------------------------------------- proofs *)
Definition GInv (g : gstore) : Prop :=
  (forall q, g_snap g = Snap q -> forall m q', g_ent g m = Some q' -> q' = q) /\
  (g_snap g = NoSnap -> forall m, g_ent g m = None).

Lemma GInv_empty : GInv g_empty.
Proof. split; intros; simpl in *; [discriminate | reflexivity]. Qed.

Lemma trust_correct : forall g, GInv g -> forall p m q, g_trusts p g m = true -> g_ent g m = Some q -> q = p.
Proof.
  intros g [H1 H2] p m q Ht He. unfold g_trusts in Ht. rewrite He in Ht.
  destruct (g_snap g) as [| |q0] eqn:Es.
  - rewrite (H2 eq_refl m) in He. discriminate.
  - discriminate.
  - apply Nat.eqb_eq in Ht. subst q0. eapply H1; eauto.
Qed.

(* phases of the repaired order *)
Definition Safe (p : pl) (g : gstore) : Prop := g_snap g = Poison \/ g_snap g = Snap p.

Lemma inval_safe : forall p g, GInv g -> GInv (gexec p g GInval) /\ Safe p (gexec p g GInval).
Proof.
  intros p g [H1 H2]. simpl. destruct (snap_is (g_snap g) p) eqn:E.
  - split; [split; assumption|]. right. unfold snap_is in E. destruct (g_snap g); try discriminate.
    apply Nat.eqb_eq in E. subst. reflexivity.
  - split; [|left; reflexivity]. split; simpl; intros; discriminate.
Qed.

Lemma proc_safe : forall p g m, GInv g -> Safe p g -> GInv (gexec p g (GProc m)) /\ Safe p (gexec p g (GProc m)).
Proof.
  intros p g m [H1 H2] HS. split; [|exact HS]. split; simpl.
  - intros q Hq m' q' He. destruct (Nat.eqb m' m).
    + inversion He; subst q'. destruct HS as [HS|HS]; rewrite HS in Hq; [discriminate | inversion Hq; reflexivity].
    + eapply H1; eauto.
  - intros Hn. destruct HS as [HS|HS]; rewrite HS in Hn; discriminate.
Qed.

Lemma procs_safe : forall p mods g, GInv g -> Safe p g ->
  forall n, GInv (fold_left (gexec p) (firstn n (map GProc mods)) g) /\ Safe p (fold_left (gexec p) (firstn n (map GProc mods)) g).
Proof.
  intros p mods. induction mods as [|m mods IH]; intros g HG HS n.
  - destruct n; simpl; auto.
  - destruct n; simpl; [auto|]. destruct (proc_safe p g m HG HS) as [HG' HS']. apply IH; assumption.
Qed.

Lemma fold_procs_ent : forall p mods g m,
  g_ent (fold_left (gexec p) (map GProc mods) g) m = if existsb (Nat.eqb m) mods then Some p else g_ent g m.
Proof.
  intros p mods. induction mods as [|m0 mods IH]; intros g m; simpl; [reflexivity|].
  rewrite IH. simpl. destruct (existsb (Nat.eqb m) mods); [destruct (Nat.eqb m m0); reflexivity|].
  destruct (Nat.eqb m m0); reflexivity.
Qed.

Lemma fold_procs_snap : forall p mods g, g_snap (fold_left (gexec p) (map GProc mods) g) = g_snap g.
Proof. intros p mods. induction mods as [|m0 mods IH]; intros g; simpl; [reflexivity|]. rewrite IH. reflexivity. Qed.

Lemma firstn_app_cases : forall (A : Type) (l1 l2 : list A) n,
  firstn n (l1 ++ l2) = firstn n l1 \/ exists k, firstn n (l1 ++ l2) = l1 ++ firstn k l2.
Proof.
  intros A l1 l2 n. rewrite firstn_app. destruct (Nat.le_gt_cases n (length l1)) as [H|H].
  - left. replace (n - length l1) with 0 by (apply eq_sym, Nat.sub_0_le; exact H). simpl. apply app_nil_r.
  - right. exists (n - length l1). rewrite firstn_all2 by (apply Nat.lt_le_incl; exact H). reflexivity.
Qed.

Lemma grun_repaired : forall g r, GInv g -> covers g r -> GInv (grun snapshot_order_repaired g r).
Proof.
  intros g r HG Hcov. unfold grun, snapshot_order_repaired, gsteps. simpl. rewrite ?app_nil_r.
  set (p := gr_p r). set (mods := gr_mods r).
  destruct (gr_crash r) as [|n]; [exact HG|]. simpl.
  destruct (inval_safe p g HG) as [HG1 HS1]. set (g1 := gexec p g GInval) in *.
  destruct (firstn_app_cases gstep (map GProc mods) [GWrite] n) as [E|[k E]]; rewrite E.
  - apply procs_safe; assumption.
  - rewrite fold_left_app.
    destruct (procs_safe p mods g1 HG1 HS1 (length (map GProc mods))) as [HG2 HS2].
    rewrite firstn_all in HG2, HS2.
    destruct k; simpl; [exact HG2|]. rewrite firstn_nil. simpl.
    (* the snapshot write: every entry that exists now was produced under p *)
    split; simpl.
    + intros q Hq m q' He. inversion Hq; subst q. rewrite fold_procs_ent in He.
      destruct (existsb (Nat.eqb m) mods) eqn:Ex; [inversion He; reflexivity|].
      (* not re-processed: then the recorded snapshot was already Snap p, and g's entries are p's *)
      assert (Hent : g_ent (if snap_is (g_snap g) p then g else {| g_snap := Poison; g_ent := g_ent g |}) m = g_ent g m)
        by (destruct (snap_is (g_snap g) p); reflexivity).
      rewrite Hent in He. clear Hent.
      destruct (snap_is (g_snap g) p) eqn:Es.
      * destruct HG as [H1 _]. unfold snap_is in Es. destruct (g_snap g) as [| |q0] eqn:Eg; try discriminate.
        apply Nat.eqb_eq in Es. subst q0. eapply H1; eauto.
      * exfalso. assert (Hin : In m mods) by (apply Hcov; [exact Es | congruence]).
        assert (existsb (Nat.eqb m) mods = true) by (apply existsb_exists; exists m; split; [exact Hin | apply Nat.eqb_refl]).
        congruence.
    + intros Hn. discriminate.
Qed.

Lemma snapshot_safe_of_ok : forall order, snapshot_ok order = true -> snapshot_safe_for order.
Proof.
  intros order Hok.
  assert (order = snapshot_order_repaired).
  { unfold snapshot_ok in Hok.
    destruct order as [|[] [|[] [|[] [|? ?]]]]; try discriminate; reflexivity. }
  subst order. intros h g Hreach. apply trust_correct.
  revert Hreach. generalize GInv_empty. generalize g_empty.
  induction h as [|r h IH]; intros g0 HG Hreach.
  - subst g. exact HG.
  - destruct Hreach as [Hc Hr]. eapply IH; [|exact Hr]. apply grun_repaired; assumption.
Qed.

(* ---- refutations *)
(* order of e70354f: plugin edited (1 -> 2), run killed after re-processing m but before the snapshot write,
   plugin edit reverted: the snapshot still says 1 and vouches for the entry produced under 2 (F2d) *)
Lemma snapshot_refuted_e70354f : ~ snapshot_safe_for snapshot_order_e70354f.
Proof.
  intro H.
  set (h := [ {| gr_p := 1; gr_mods := [0]; gr_crash := 10 |}; {| gr_p := 2; gr_mods := [0]; gr_crash := 1 |} ]).
  specialize (H h (grun snapshot_order_e70354f (grun snapshot_order_e70354f g_empty (nth 0 h (Build_ground 0 [] 0))) (nth 1 h (Build_ground 0 [] 0)))).
  assert (R : covers g_empty (nth 0 h (Build_ground 0 [] 0)) /\
              (covers (grun snapshot_order_e70354f g_empty (nth 0 h (Build_ground 0 [] 0))) (nth 1 h (Build_ground 0 [] 0)) /\
               grun snapshot_order_e70354f (grun snapshot_order_e70354f g_empty (nth 0 h (Build_ground 0 [] 0))) (nth 1 h (Build_ground 0 [] 0))
               = grun snapshot_order_e70354f (grun snapshot_order_e70354f g_empty (nth 0 h (Build_ground 0 [] 0))) (nth 1 h (Build_ground 0 [] 0)))).
  { split; [intros _ m Hm; exfalso; apply Hm; reflexivity|]. split; [|reflexivity].
    intros _ m Hm. vm_compute in Hm. vm_compute. destruct m; [left; reflexivity | exfalso; apply Hm; reflexivity]. }
  specialize (H R 1 0 2). vm_compute in H. specialize (H eq_refl eq_refl). discriminate H.
Qed.

(* snapshot written BEFORE process_graph: killed right after it, the new snapshot vouches for old entries *)
Lemma snapshot_refuted_write_first : ~ snapshot_safe_for [SnWrite; SnGraph].
Proof.
  intro H.
  set (r1 := {| gr_p := 1; gr_mods := [0]; gr_crash := 10 |}). set (r2 := {| gr_p := 2; gr_mods := [0]; gr_crash := 1 |}).
  specialize (H [r1; r2] (grun [SnWrite; SnGraph] (grun [SnWrite; SnGraph] g_empty r1) r2)).
  assert (R : covers g_empty r1 /\ (covers (grun [SnWrite; SnGraph] g_empty r1) r2 /\
              grun [SnWrite; SnGraph] (grun [SnWrite; SnGraph] g_empty r1) r2 = grun [SnWrite; SnGraph] (grun [SnWrite; SnGraph] g_empty r1) r2)).
  { split; [intros _ m Hm; exfalso; apply Hm; reflexivity|]. split; [|reflexivity].
    intros _ m Hm. vm_compute in Hm. vm_compute. destruct m; [left; reflexivity | exfalso; apply Hm; reflexivity]. }
  specialize (H R 2 0 1). vm_compute in H. specialize (H eq_refl eq_refl). discriminate H.
Qed.
