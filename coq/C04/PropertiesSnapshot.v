(* Property C04, build-level record (@plugins_snapshot.json): statements closed by `exact`. *)
From Coq Require Import List Bool Arith.
From C04 Require Import Model Snapshot SnapshotDecide.
From Gen Require Import CacheProtocol.
Import ListNotations.

(* invalidate first, rewrite the entries, write the snapshot last => whatever runs were killed wherever,
   with whatever plugin edits in between, an entry the next run trusts was produced under its plugin set *)
Theorem snapshot_safe : forall order, snapshot_ok order = true -> snapshot_safe_for order.
Proof. exact snapshot_safe_of_ok. Qed.
Print Assumptions snapshot_safe.

(* the order of e70354f / f44db5e (no invalidation) REFUTES it: plugin edit, kill before the snapshot write,
   plugin edit reverted (finding F2d) *)
Theorem snapshot_refuted : ~ snapshot_safe_for snapshot_order_e70354f.
Proof. exact snapshot_refuted_e70354f. Qed.
Print Assumptions snapshot_refuted.

(* snapshot written before process_graph: refuted by a plugin edit and one kill *)
Theorem snapshot_written_first_refuted : ~ snapshot_safe_for [SnWrite; SnGraph].
Proof. exact snapshot_refuted_write_first. Qed.
Print Assumptions snapshot_written_first_refuted.

(* the order regenerated from build.dispatch *)
Theorem current_snapshot_order_decided :
  if snapshot_ok current_snapshot_order then snapshot_safe_for current_snapshot_order
  else ~ snapshot_safe_for current_snapshot_order.
Proof. exact snapshot_decided_lemma. Qed.
Print Assumptions current_snapshot_order_decided.

Example snapshot_side_condition_satisfiable : snapshot_ok snapshot_order_repaired = true.
Proof. reflexivity. Qed.
