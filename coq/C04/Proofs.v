(* C04: the invariant, its preservation by every step of a checked op order, warm = cold under it. *)
From Coq Require Import List Bool Arith Lia.
From C04 Require Import Model Statement.
Import ListNotations.

Section Inv.
Variable iface_of : inp -> ifc.

(* whenever meta and meta_ex are both present the entry is a complete consistent triple *)
Definition SInv (r : mrec) : Prop :=
  forall mr xr, rm r = Some mr -> rx r = Some xr ->
    exists dr, rd r = Some dr /\ d_stamp dr = m_stamp mr /\ d_if dr = iface_of (m_of mr)
               /\ m_if mr = iface_of (m_of mr) /\ x_of xr = m_of mr.

Lemma SInv_empty : SInv empty_rec.
Proof. intros mr xr H; discriminate H. Qed.

Lemma SInv_rm_none : forall r, SInv (set_rm None r).
Proof. intros r mr xr H; discriminate H. Qed.

Lemma SInv_rx_none : forall r, SInv (set_rx None r).
Proof. intros r mr xr _ H; discriminate H. Qed.

Lemma warm_mod_cold : forall errs_of ci r, SInv r -> warm_mod errs_of iface_of ci r = cold_mod errs_of iface_of ci.
Proof.
  intros errs_of ci r H. unfold warm_mod, trusted.
  destruct (rm r) as [mr|] eqn:Em; [|reflexivity].
  destruct (rd r) as [dr|] eqn:Ed; [|reflexivity].
  destruct (rx r) as [xr|] eqn:Ex; [|reflexivity].
  destruct (Nat.eqb (m_of mr) ci && Nat.eqb (d_stamp dr) (m_stamp mr)) eqn:E; [|reflexivity].
  apply andb_true_iff in E. destruct E as [E1 _]. apply Nat.eqb_eq in E1.
  destruct (H mr xr Em Ex) as (dr' & Hd & _ & Hif & _ & Hx).
  rewrite Ed in Hd. inversion Hd; subst dr'. unfold cold_mod. rewrite Hx, Hif, E1. reflexivity.
Qed.

Section Step.
Variable P : protocol.
Variable k : skind.
Variable shard : mid -> nat.
Variable m : mid.
Variable ci : inp.
Variable r0 : mrec.     (* the module's entry when the process started *)
Hypothesis SInv_r0 : SInv r0.

Definition RM (aM : pres) (s : ms) : Prop :=
  match aM with
  | PU => True
  | PA => rm (v s) = None
  | PN => forall mr, rm (v s) = Some mr ->
            m_of mr = ci /\ m_if mr = iface_of ci /\
            exists dr, rd (v s) = Some dr /\ d_stamp dr = m_stamp mr /\ d_if dr = iface_of ci
  end.
Definition RX (aX : pres) (s : ms) : Prop :=
  match aX with
  | PU => True
  | PA => rx (v s) = None
  | PN => forall xr, rx (v s) = Some xr -> x_of xr = ci
  end.
Definition RD (aD : dst) (s : ms) : Prop :=
  match aD with
  | DU => rd (v s) = rd r0
  | DG => dropped s = true \/ exists dr, rd (v s) = Some dr /\ d_if dr = iface_of ci
  | DB => True
  end.
Definition R (a : astate) (s : ms) : Prop :=
  let '(aM, aX, aD) := a in RM aM s /\ RX aX s /\ RD aD s.
Definition Good (s : ms) : Prop := SInv (v s) /\ SInv (d s) /\ (k = FS -> d s = v s).

Lemma RM_PN_none : forall s, rm (v s) = None -> RM PN s.
Proof. intros s H mr1 Hm. rewrite H in Hm. discriminate. Qed.
Lemma RX_PN_none : forall s, rx (v s) = None -> RX PN s.
Proof. intros s H xr1 Hx. rewrite H in Hx. discriminate. Qed.

Ltac r3 := simpl; split; [|split].
Ltac solveRD :=
  match goal with
  | E : dropped ?s = true |- _ => solve [left; exact E]
  | H : _ \/ _ |- _ => solve [destruct H as [H|H]; [discriminate H | right; exact H]]
  end.

Lemma Good_wr : forall f s, Good s -> SInv (f (v s)) -> Good (wr k f s).
Proof.
  intros f s (Hv & Hd & Hk) Hf. unfold Good, wr; simpl. split; [exact Hf|]. split.
  - destruct k; [rewrite (Hk eq_refl); exact Hf | exact Hd].
  - intros E. rewrite E. rewrite (Hk E). reflexivity.
Qed.

Lemma Good_commit : forall s, Good s -> Good (commit s).
Proof. intros s (Hv & _ & _). unfold Good, commit; simpl. auto. Qed.

Lemma Good_drop : forall s, Good s -> Good (drop s).
Proof. intros s H. exact H. Qed.

Lemma old_iface_good : forall x, old_iface r0 = Some x ->
  exists dr, rd r0 = Some dr /\ d_if dr = x.
Proof.
  unfold old_iface. intros x H.
  destruct (rm r0) as [mr|] eqn:Em; [|discriminate].
  destruct (rx r0) as [xr|] eqn:Ex; [|discriminate].
  inversion H; subst x.
  destruct (SInv_r0 mr xr Em Ex) as (dr & Hd & _ & Hif & Hmi & _).
  exists dr. split; [exact Hd|]. congruence.
Qed.

Lemma SInv_touch : forall r mr, SInv r -> rm r = Some mr -> SInv (set_rm (Some mr) r).
Proof.
  intros r mr H Em mr1 xr1 Hm Hx. simpl in Hm, Hx. inversion Hm; subst mr1.
  destruct (H mr xr1 Em Hx) as (dr & H1 & H2). exists dr. simpl. split; assumption.
Qed.

Ltac strengthen :=
  match goal with
  | |- ?G /\ (_ \/ ?Rr) => cut (G /\ Rr); [intros [? ?]; split; [assumption | right; assumption] | ]
  end.

Lemma step_ok : forall fl st a a' s x,
  Good s -> R a s -> dropped s = false -> abs_step (pflags P) m a x = Some a' ->
  Good (exec_step iface_of P k shard m ci (old_iface r0) fl st s x) /\
  (dropped (exec_step iface_of P k shard m ci (old_iface r0) fl st s x) = true \/
   R a' (exec_step iface_of P k shard m ci (old_iface r0) fl st s x)).
Proof.
  intros fl st [[aM aX] aD] a' s x HG HR Hnd Ha.
  destruct HR as (HM & HX & HD).
  unfold abs_step, pflags in Ha.
  destruct x as [m'|m'|m'|m'|m'|m'| |m']; simpl in Ha; simpl exec_step.
  - (* SRmMeta *)
    destruct (Nat.eqb m' m); [|inversion Ha; subst a'; split; [exact HG | right; simpl; auto]].
    inversion Ha; subst a'. clear Ha. rewrite Hnd.
    destruct fl.
    + destruct (p_rm_fail_drops P).
      * split; [apply Good_drop; exact HG | left; reflexivity].
      * split; [exact HG | right; simpl; auto].
    + split; [apply Good_wr; [exact HG | apply SInv_rm_none]|]. right. r3.
      * destruct (p_rm_fail_drops P); [reflexivity|]. destruct aM; simpl; auto. intros ? Hc; discriminate Hc.
      * exact HX.
      * exact HD.
  - (* SRmEx *)
    destruct (Nat.eqb m' m); [|inversion Ha; subst a'; split; [exact HG | right; simpl; auto]].
    inversion Ha; subst a'. clear Ha. rewrite Hnd.
    destruct fl.
    + destruct (p_rm_fail_drops P).
      * split; [apply Good_drop; exact HG | left; reflexivity].
      * split; [exact HG | right; simpl; auto].
    + split; [apply Good_wr; [exact HG | apply SInv_rx_none]|]. right. r3.
      * destruct aM; simpl in *; auto.
      * destruct (p_rm_fail_drops P); [reflexivity|]. destruct aX; simpl; auto. intros ? Hc; discriminate Hc.
      * exact HD.
  - (* SData *)
    strengthen.
    destruct (Nat.eqb m' m).
    + destruct aM; simpl in Ha; try discriminate.
      destruct aD; simpl in Ha; try discriminate.
      inversion Ha; subst a'. clear Ha. simpl in HM, HD.
      destruct (dropped s) eqn:Edr.
      { split; [exact HG|]. r3; auto. destruct (p_data_fail_drops P); simpl; auto. }
      destruct (same_if (old_iface r0) (iface_of ci)) eqn:Esame.
      { unfold same_if in Esame. destruct (old_iface r0) as [x|] eqn:Eo; [|discriminate].
        apply Nat.eqb_eq in Esame. destruct (old_iface_good x Eo) as (dr & Hdr & Hif).
        rewrite HD, Hdr. split; [exact HG|]. r3; auto.
        destruct (p_data_fail_drops P); simpl; auto. right. exists dr. rewrite HD. split; congruence. }
      destruct fl.
      { destruct (p_data_fail_drops P) eqn:Ep.
        - split; [apply Good_drop; exact HG|]. r3; auto; simpl; auto.
        - split; [exact HG|]. r3; auto; simpl; auto. }
      split.
      * apply Good_wr; [exact HG|]. intros mr1 xr1 Hm. simpl in Hm. rewrite HM in Hm. discriminate.
      * r3; auto.
        destruct (p_data_fail_drops P); simpl; auto. right. eexists. split; reflexivity.
    + inversion Ha; subst a'. split; [exact HG | simpl; auto].
  - (* SMeta *)
    strengthen.
    destruct (Nat.eqb m' m).
    + destruct aX; simpl in Ha; try discriminate.
      assert (HaM : aM <> PU) by (intro; subst aM; simpl in Ha; discriminate).
      assert (HaD : aD = DG) by (destruct aM, aD; simpl in Ha; congruence).
      assert (a' = (PN, PA, DG)) by (destruct aM, aD; simpl in Ha; congruence). subst a' aD. clear Ha.
      simpl in HX, HD.
      assert (HMN : RM PN s).
      { destruct aM; simpl in HM; [congruence | apply RM_PN_none; exact HM | exact HM]. }
      destruct (dropped s) eqn:Edr; [split; [exact HG | r3; [exact HMN | exact HX | left; exact Edr]]|].
      destruct fl; [split; [exact HG | r3; [exact HMN | exact HX | destruct HD as [HD|HD]; [discriminate HD | right; exact HD]]]|].
      destruct (rd (v s)) as [dr|] eqn:Ed; [|split; [exact HG | r3; [exact HMN | exact HX | destruct HD as [HD|(dr0 & HD & _)]; discriminate HD]]].
      split.
      * apply Good_wr; [exact HG|]. intros mr1 xr1 _ Hx. simpl in Hx. rewrite HX in Hx. discriminate.
      * r3.
        -- intros mr1 Hm. simpl in Hm. inversion Hm; subst mr1; simpl. split; [reflexivity|]. split; [reflexivity|].
           exists dr. split; [exact Ed|]. split; [reflexivity|].
           destruct HD as [HD|(dr' & Hd' & Hif)]; [discriminate HD|].
           simpl in Hd'. congruence.
        -- exact HX.
        -- destruct HD as [HD|HD]; [discriminate HD | right; simpl; rewrite Ed; exact HD].
    + inversion Ha; subst a'. split; [exact HG | simpl; auto].
  - (* SEx *)
    strengthen.
    destruct (Nat.eqb m' m).
    + assert (HaM : aM <> PU) by (intro; subst aM; simpl in Ha; discriminate).
      assert (HaX : aX <> PU) by (intro; subst aX; destruct aM; simpl in Ha; discriminate).
      assert (a' = (aM, PN, aD)) by (destruct aM, aX; simpl in Ha; congruence). subst a'. clear Ha.
      assert (HXN : RX PN s).
      { destruct aX; simpl in HX; [congruence | apply RX_PN_none; exact HX | exact HX]. }
      destruct (dropped s) eqn:Edr; [split; [exact HG | r3; auto]|].
      destruct fl; [split; [exact HG | r3; auto]|].
      split.
      * apply Good_wr; [exact HG|]. intros mr1 xr1 Hm Hx. simpl in Hm, Hx. inversion Hx; subst xr1; simpl.
        destruct aM; simpl in HM; try congruence.
        destruct (HM mr1 Hm) as (H1 & H2 & dr & H3 & H4 & H5).
        exists dr. split; [exact H3|]. split; [exact H4|]. split; [congruence|]. split; [congruence|]. congruence.
      * r3.
        -- destruct aM; simpl in *; auto.
        -- intros xr1 Hx. simpl in Hx. inversion Hx; reflexivity.
        -- destruct aD; simpl in *; auto.
    + inversion Ha; subst a'. split; [exact HG | simpl; auto].
  - (* SCommitM *)
    strengthen.
    inversion Ha; subst a'. destruct (Nat.eqb (shard m') (shard m)).
    + split; [apply Good_commit; exact HG | simpl; auto].
    + split; [exact HG | simpl; auto].
  - (* SCommitAll *)
    strengthen.
    inversion Ha; subst a'. split; [apply Good_commit; exact HG | simpl; auto].
  - (* STouchMeta *)
    strengthen.
    inversion Ha; subst a'. clear Ha.
    destruct (Nat.eqb m' m); [|split; [exact HG | simpl; auto]].
    destruct (rm (v s)) as [mr|] eqn:Em; [|split; [exact HG | simpl; auto]].
    destruct (rx (v s)) as [xr|] eqn:Ex; [|split; [exact HG | simpl; auto]].
    destruct fl; [split; [exact HG | simpl; auto]|].
    destruct HG as (Hv & Hd & Hk).
    split.
    + apply Good_wr; [unfold Good; auto | apply SInv_touch; assumption].
    + r3.
      * destruct aM; simpl in *; auto; [congruence|].
        intros mr1 Hm. inversion Hm; subst mr1. apply HM. exact Em.
      * destruct aX; simpl in *; auto.
      * destruct aD; simpl in *; auto.
Qed.

(* once the module is dropped nothing is written for it any more *)
Lemma step_dropped : forall fl st s x,
  Good s -> dropped s = true ->
  Good (exec_step iface_of P k shard m ci (old_iface r0) fl st s x) /\
  dropped (exec_step iface_of P k shard m ci (old_iface r0) fl st s x) = true.
Proof.
  intros fl st s x HG Hd.
  destruct x as [m'|m'|m'|m'|m'|m'| |m']; simpl exec_step;
    try (destruct (Nat.eqb m' m); rewrite ?Hd; split; first [assumption | reflexivity]).
  - destruct (Nat.eqb (shard m') (shard m)); [split; [apply Good_commit; exact HG | exact Hd] | split; assumption].
  - split; [apply Good_commit; exact HG | exact Hd].
  - destruct (Nat.eqb m' m); [|split; assumption].
    destruct (rm (v s)) as [mr|] eqn:Em; [|split; assumption].
    destruct (rx (v s)) as [xr|] eqn:Ex; [|split; assumption].
    destruct fl; [split; assumption|].
    split; [|exact Hd]. destruct HG as (Hv & Hdd & Hk).
    apply Good_wr; [unfold Good; auto | apply SInv_touch; assumption].
Qed.

Lemma run_ok : forall fl stp l i n a s,
  abs_run (pflags P) m a l <> None -> Good s -> (dropped s = true \/ R a s) ->
  Good (run_steps iface_of P k shard m ci (old_iface r0) fl stp i n l s).
Proof.
  intros fl stp l. induction l as [|x l IH]; intros i n a s Ha HG HR.
  - destruct n; exact HG.
  - destruct n; [exact HG|]. simpl.
    simpl in Ha. destruct (abs_step (pflags P) m a x) as [a'|] eqn:Ea; [|congruence].
    destruct (dropped s) eqn:Edr.
    + destruct (step_dropped (fl i) (stp i) s x HG Edr) as (HG' & Hd').
      eapply IH; [exact Ha | exact HG' | left; exact Hd'].
    + destruct HR as [HR|HR]; [discriminate HR|].
      destruct (step_ok (fl i) (stp i) a a' s x HG HR Edr Ea) as (HG' & HR').
      eapply IH; eauto.
Qed.

End Step.

Lemma run_proc_ok : forall P k shard m ci fl stp n steps r,
  SInv r -> checked_steps (pflags P) m steps = true ->
  SInv (run_proc iface_of P k shard m ci fl stp n steps r).
Proof.
  intros P k shard m ci fl stp n steps r Hr Hc. unfold run_proc.
  assert (G : Good k (run_steps iface_of P k shard m ci (old_iface r) fl stp 0 n steps
                        {| v := r; d := r; dropped := false |})).
  { eapply (run_ok P k shard m ci r Hr fl stp steps 0 n a0).
    - unfold checked_steps in Hc. destruct (abs_run (pflags P) m a0 steps); congruence.
    - unfold Good; simpl. auto.
    - right. simpl. auto. }
  destruct G as (_ & Hd & _). exact Hd.
Qed.

Lemma run_procs_ok : forall P k r m procs p rec,
  SInv rec -> Forall (fun steps => checked_steps (pflags P) m steps = true) procs ->
  SInv (run_procs iface_of P k r m p procs rec).
Proof.
  intros P k r m procs. induction procs as [|steps rest IH]; intros p rec Hr Hc; simpl.
  - exact Hr.
  - inversion Hc; subst. apply IH; [|assumption]. apply run_proc_ok; assumption.
Qed.

Definition round_checked (P : protocol) (r : round) : Prop :=
  forall m, Forall (fun steps => checked_steps (pflags P) m steps = true) (procs_of P (r_touch r) (r_shape r)).

Lemma run_round_ok : forall P k r st,
  (forall m, SInv (st m)) -> round_checked P r -> forall m, SInv (run_round iface_of P k r st m).
Proof. intros P k r st Hst Hc m. unfold run_round. apply run_procs_ok; auto. Qed.

Lemma run_history_ok : forall P k h,
  Forall (round_checked P) h -> forall m, SInv (run_history iface_of P k h m).
Proof.
  intros P k h. unfold run_history.
  assert (G : forall st, (forall m, SInv (st m)) -> Forall (round_checked P) h ->
                forall m, SInv (fold_left (fun st r => run_round iface_of P k r st) h st m)).
  { induction h as [|r h IH]; intros st Hst Hc; simpl.
    - exact Hst.
    - inversion Hc; subst. apply IH; [|assumption]. apply run_round_ok; assumption. }
  intros Hc. apply G; [|exact Hc]. intros m. apply SInv_empty.
Qed.

Lemma warm_cold_of_SInv : forall errs_of st cur mods,
  (forall m, SInv (st m)) -> warm errs_of iface_of st cur mods = cold errs_of iface_of cur mods.
Proof.
  intros errs_of st cur mods H. unfold warm, cold. apply map_ext. intros m. apply warm_mod_cold. apply H.
Qed.

End Inv.

(* any history of runs whose op sequences satisfy the side condition leaves a cache on which every
   later run reports what a cold run reports *)
Lemma crash_safe_checked_rounds : forall P errs_of iface_of k h,
  Forall (round_checked P) h ->
  forall cur mods, warm errs_of iface_of (run_history iface_of P k h) cur mods = cold errs_of iface_of cur mods.
Proof.
  intros P errs_of iface_of k h Hc cur mods. apply warm_cold_of_SInv. apply run_history_ok. exact Hc.
Qed.
