(* Property C04 -- a killed run or a failed cache write never makes later runs wrong.
   Only theorem statements closed by `exact`, each followed by Print Assumptions. *)
From Coq Require Import List Bool Arith.
From C04 Require Import Model Statement Proofs ProofsGen ProofsRefute ProofsDecide.
From Gen Require Import CacheProtocol.
Import ListNotations.

(* the full statement holds for EVERY op order that passes the decidable side condition
   (invalidate meta + meta_ex, then data, then meta, then meta_ex; per module): all histories, crash
   positions in every process, failing-write subsets, both stores, any SCC / batch / worker structure *)
Theorem crash_safe : forall P, protocol_ok P = true -> crash_safe_for P.
Proof. exact crash_safe_of_ok. Qed.
Print Assumptions crash_safe.

(* build.write_cache's docstring claim, for the same op orders *)
Theorem write_is_optional : forall P, protocol_ok P = true -> write_is_optional_for P.
Proof. exact write_is_optional_of_ok. Qed.
Print Assumptions write_is_optional.

(* the invariant behind both, for arbitrary step lists (not only generated ones) *)
Theorem crash_safe_checked_steps : forall P errs_of iface_of k h,
  Forall (round_checked P) h ->
  forall cur mods, warm errs_of iface_of (run_history iface_of P k h) cur mods = cold errs_of iface_of cur mods.
Proof. exact crash_safe_checked_rounds. Qed.
Print Assumptions crash_safe_checked_steps.

(* the op order of snapshot e70354f REFUTES the full statement (finding F2): filesystem store,
   killed between write_cache_meta and write_cache_meta_ex after an edit *)
Theorem crash_safe_refuted : ~ crash_safe_for protocol_e70354f.
Proof. exact refuted_e70354f_fs. Qed.
Print Assumptions crash_safe_refuted.

(* ... sqlite store, parallel worker killed between the interface-phase commit and the meta_ex write *)
Theorem crash_safe_refuted_sqlite_worker : ~ crash_safe_for protocol_e70354f.
Proof. exact refuted_e70354f_sqlite_worker. Qed.
Print Assumptions crash_safe_refuted_sqlite_worker.

(* ... no kill at all: the meta_ex write fails (both stores) *)
Theorem write_is_optional_refuted : ~ write_is_optional_for protocol_e70354f.
Proof. exact refuted_e70354f_failed_write. Qed.
Print Assumptions write_is_optional_refuted.

(* ... F2b: killed after the data write, edit reverted: a data file of another version gets a valid meta *)
Theorem crash_safe_refuted_stale_data : ~ crash_safe_for protocol_e70354f.
Proof. exact refuted_e70354f_stale_data. Qed.
Print Assumptions crash_safe_refuted_stale_data.

(* the repaired order satisfies the side condition *)
Theorem repaired_protocol_safe : crash_safe_for protocol_repaired /\ write_is_optional_for protocol_repaired.
Proof. exact (conj (crash_safe_of_ok _ repaired_ok) (write_is_optional_of_ok _ repaired_ok)). Qed.
Print Assumptions repaired_protocol_safe.

(* the order regenerated from the CURRENT sources: safe if it passes the side condition, otherwise refuted *)
Theorem current_protocol_decided :
  if protocol_ok current_protocol
  then crash_safe_for current_protocol /\ write_is_optional_for current_protocol
  else ~ crash_safe_for current_protocol.
Proof. exact current_decided. Qed.
Print Assumptions current_protocol_decided.

(* hypotheses are satisfiable: the side condition holds for a concrete order, fails for the old one,
   and a well-formed history exists *)
Example side_condition_satisfiable : protocol_ok protocol_repaired = true.
Proof. exact repaired_ok. Qed.
Example side_condition_rejects_old : protocol_ok protocol_e70354f = false.
Proof. exact e70354f_not_ok. Qed.
(* a history with a meta rewritten by validate_meta, a failing remove and a kill, on the repaired order *)
Example touched_failing_remove_history :
  let r := {| r_cur := fun _ => 2; r_touch := [1]; r_shape := Par [[[[0]]]]; r_fail := fun p i => Nat.eqb p 1 && Nat.eqb i 1;
              r_stamp := fun p i => 200 + i; r_crash := fun p => 6; r_shard := fun _ => 0 |} in
  warm idn idn (run_history idn protocol_repaired SQL [full_run 1; r]) (fun _ => 2) [0; 1]
  = cold idn idn (fun _ => 2) [0; 1].
Proof. vm_compute. reflexivity. Qed.
Example wellformed_history_exists :
  Forall (fun r => NoDup (shape_mods (r_shape r))) [full_run 1; killed_worker 2 5; failing_run 3 3].
Proof. repeat constructor; simpl; tauto. Qed.
