(* Property C09: changing options between runs never yields stale results.
   Only theorem statements closed by `exact`, each followed by Print Assumptions. *)
From Coq Require Import List String Bool.
From C09 Require Import Model Proofs Table Statement ProofsTable ImportOpts ProofsImport.
From Gen Require Import OptionsTable OptionsClass.
Import ListNotations.
Open Scope string_scope.
Open Scope list_scope.

Section Mechanism.
  Variables src iface etuple modid : Type.
  Variable mod_eqb : modid -> modid -> bool.
  Variable src_eqb : src -> src -> bool.
  Variable iface_eqb : iface -> iface -> bool.
  Variable resolve : opts -> modid -> opts.
  (* last argument of analyze: the recorded import options of the module's suppressed dependencies (`imp`) *)
  Variable analyze : src -> list iface -> opts -> list value -> iface * list etuple.
  Variable key_np dir_names : list name.
  Variable fmt : opts -> list etuple -> list string.
  Variable imp : opts -> src -> list value.
  Variable reads : list name.
  (* hashes are the identity *)
  Hypothesis mod_eqb_eq : forall a b, mod_eqb a b = true -> a = b.
  Hypothesis src_eqb_eq : forall a b, src_eqb a b = true -> a = b.
  Hypothesis iface_eqb_eq : forall a b, iface_eqb a b = true -> a = b.
  (* contract, monitored not proved: the analysis reads options only through `reads` *)
  Hypothesis analyze_reads : forall s ds o o' x,
    (forall n, In n reads -> get o n = get o' n) -> analyze s ds o x = analyze s ds o' x.
  Hypothesis resolve_dir : forall o m n, In n dir_names -> get (resolve o m) n = get o n.

  Notation cold := (cold src iface etuple modid mod_eqb src_eqb iface_eqb resolve analyze key_np dir_names imp).
  Notation warm := (warm src iface etuple modid mod_eqb src_eqb iface_eqb resolve analyze key_np dir_names imp).
  Notation output := (output src iface etuple modid fmt).
  Notation cache_after := (cache_after src iface etuple modid).
  Notation tuples := (tuples src iface etuple modid).
  Notation run_history := (run_history src iface etuple modid mod_eqb src_eqb iface_eqb resolve analyze key_np dir_names fmt imp).

  (* every option read is in the snapshot key or selects the cache directory  ==>  warm = cold *)
  Theorem warm_eq_cold_options :
    (forall n, In n reads -> In n ("platform" :: key_np) \/ In n dir_names) ->
    forall o1 o2 fs, is_lax o2 = false ->
      output o2 (warm (cache_after (cold fs o1)) fs o2) = output o2 (cold fs o2).
  Proof.
    exact (Proofs.warm_eq_cold_options src iface etuple modid mod_eqb src_eqb iface_eqb resolve analyze key_np
             dir_names fmt imp mod_eqb_eq src_eqb_eq iface_eqb_eq reads analyze_reads resolve_dir).
  Qed.

  (* any history of (program, options) runs on one cache: every run prints what a cold run would print *)
  Theorem option_history_sound :
    (forall n, In n reads -> In n ("platform" :: key_np) \/ In n dir_names) ->
    forall h, Forall (fun fo => is_lax (snd fo) = false) h ->
      snd (run_history [] h) = map (fun fo => output (snd fo) (cold (fst fo) (snd fo))) h.
  Proof.
    exact (Proofs.history_from_empty src iface etuple modid mod_eqb src_eqb iface_eqb resolve analyze key_np
             dir_names fmt imp mod_eqb_eq src_eqb_eq iface_eqb_eq reads analyze_reads resolve_dir).
  Qed.

  (* options not read by the analysis (formatting) act on the replayed tuples: run 2 prints run 1's tuples
     formatted with run 2's options *)
  Theorem post_load_applied_late :
    (forall n, In n reads -> In n ("platform" :: key_np) \/ In n dir_names) ->
    forall fs o1 o2, is_lax o1 = false -> is_lax o2 = false ->
      (forall m n, In n reads -> get (resolve o1 m) n = get (resolve o2 m) n) ->
      (forall s, imp o1 s = imp o2 s) ->
      output o2 (warm (cache_after (cold fs o1)) fs o2)
      = flat_map (fun mt => fmt o2 (snd mt)) (tuples (cold fs o1)).
  Proof.
    exact (Proofs.post_load_after_cold src iface etuple modid mod_eqb src_eqb iface_eqb resolve analyze key_np
             dir_names fmt imp mod_eqb_eq src_eqb_eq iface_eqb_eq reads analyze_reads resolve_dir).
  Qed.
End Mechanism.
Print Assumptions warm_eq_cold_options.
Print Assumptions option_history_sound.
Print Assumptions post_load_applied_late.

(* Import options of dependencies (State.suppressed_deps_opts, compared by State.is_fresh = the `imp` component of the
   mechanism): with the priority filter GENERATED from the source, equal recorded values imply equal import options
   (ignore_missing_imports, follow_imports, follow_imports_for_stubs of the dependency's own section) for every
   suppressed dependency whose import can produce a diagnostic -- hence equal import diagnostics. *)
Theorem import_priorities_covered :
  (forall p, In p diag_priorities -> sdo_covered p = true) /\ sdo_covered pri_indirect = false.
Proof. exact ProofsImport.import_priorities_covered. Qed.
Print Assumptions import_priorities_covered.

Theorem suppressed_deps_opts_sound : forall (D : Type) (diags : list sdep -> (string -> opts) -> D),
  (forall sup r1 r2,
     (forall d, In d sup -> In (d_prio d) diag_priorities ->
        dep_import_options (r1 (d_name d)) = dep_import_options (r2 (d_name d))) -> diags sup r1 = diags sup r2) ->
  forall sup r1 r2, suppressed_deps_opts sdo_covered r1 sup = suppressed_deps_opts sdo_covered r2 sup ->
    diags sup r1 = diags sup r2.
Proof. exact ProofsImport.generated_sdo_sound. Qed.
Print Assumptions suppressed_deps_opts_sound.

(* a filter that drops PRI_LOW / PRI_MYPY (`< PRI_LOW`) is refuted *)
Theorem narrow_priority_filter_refuted :
  exists sup r1 r2 d, In d sup /\ In (d_prio d) diag_priorities /\
    suppressed_deps_opts mutant_cov r1 sup = suppressed_deps_opts mutant_cov r2 sup /\
    dep_import_options (r1 (d_name d)) <> dep_import_options (r2 (d_name d)).
Proof. exact ProofsImport.mutant_filter_refuted. Qed.
Print Assumptions narrow_priority_filter_refuted.

(* TABLE THEOREM over the generated table: every attribute of Options.__init__ is classified; `key` = member of the
   generated OPTIONS_AFFECTING_CACHE; `dir` is read by the cache-location code and is global; `post_load` is not read
   by anything that produces cached tuples and, inside errors.py, only by the methods applied to replayed tuples;
   `inert` contradicts none of the generated sets. *)
Theorem option_table_classified : forall a, In a attr_names ->
  exists c, class_of a = Some c /\
    (c = Key <-> In a options_affecting_cache) /\
    (c = Dir -> (In a cache_dir_reads \/ In a store_reads) /\ ~ In a per_module_options) /\
    (c = PostLoad -> ~ In a precache_reads
                     /\ (forall f, In f (sites_of a) -> In f post_load_files)
                     /\ (In "mypy/errors.py" (sites_of a) -> In a post_load_reads)) /\
    (c = Inert -> ~ In a precache_reads /\ ~ In a cache_dir_reads).
Proof. exact ProofsTable.option_table_classified. Qed.
Print Assumptions option_table_classified.

(* shape of the generated snapshot code: the platform is part of the snapshot, the snapshot iterates over
   OPTIONS_AFFECTING_CACHE minus platform, find_cache_meta compares it, only --skip-version-check relaxes it;
   the cache directory depends on cache_dir and python_version, which are global *)
Theorem snapshot_shape :
  snapshot_platform = true /\ snapshot_dict_has_platform = true /\ fcm_compares = true
  /\ snapshot_iter = "OPTIONS_AFFECTING_CACHE_NO_PLATFORM" /\ fcm_lax = ["skip_version_check"]
  /\ (forall a, In a options_affecting_cache <-> In a ("platform" :: options_affecting_cache_no_platform))
  /\ (forall a, In a ["cache_dir"; "python_version"] -> In a cache_dir_reads /\ ~ In a per_module_options).
Proof. exact ProofsTable.snapshot_shape. Qed.
Print Assumptions snapshot_shape.

(* link: the classified key attributes are components of the compared snapshot, so the mechanism theorem applies
   with reads := attributes classified key or dir, key_np := the generated list, dir_names := [cache_dir; python_version; ...] *)
Theorem key_class_in_snapshot : forall a, class_of a = Some Key ->
  In a ("platform" :: options_affecting_cache_no_platform).
Proof. exact ProofsTable.key_class_in_snapshot. Qed.
Print Assumptions key_class_in_snapshot.

(* Every read of an Options attribute found in the analysis modules (parsing, semantic analysis, checking, message
   text, plugins; table regenerated from /repo) is a read of a key attribute -- hence a component of the compared
   snapshot --, of a dir attribute, or a reviewed (attribute, file) read of an inert attribute.  A new read of an unkeyed
   option in an analysis module breaks this theorem until it is keyed or reviewed. *)
Theorem every_option_read_is_keyed_or_classified : forall a fs f,
  In (a, fs) analysis_reads -> In f fs ->
  (class_of a = Some Key /\ In a ("platform" :: options_affecting_cache_no_platform))
  \/ class_of a = Some Dir
  \/ (class_of a = Some Inert /\ In f (reviewed_of a)).
Proof. exact ProofsTable.every_option_read_is_keyed_or_classified. Qed.
Print Assumptions every_option_read_is_keyed_or_classified.

(* The table half of the FULL statement (Statement.no_stale_options: no attribute is a `finding`) is decided by the
   classification.  On the current tree no_finding_b = false (Example below): the statement is REFUTED -- attributes
   exist that change diagnostics, are outside the key and are baked into the cached tuples (finding F4; each one is
   replayed on the real code by S). *)
Theorem no_stale_options_decided : if no_finding_b then no_stale_options else ~ no_stale_options.
Proof. exact ProofsTable.no_stale_options_decided. Qed.
Print Assumptions no_stale_options_decided.

(* What holds on the current tree: NO attribute is classed `finding` except the explicitly listed by-design ones
   (gen/OptionsClass.by_design, today: skip_version_check, whose model witness is lax_platform_refuted below and whose
   implementation witness is replayed by S as known finding F4:skip_version_check); every listed one IS a finding. *)
Theorem no_stale_options_except_by_design :
  no_stale_options_except by_design /\ (forall a, In a by_design -> class_of a = Some Finding).
Proof. exact ProofsTable.no_stale_options_except_by_design. Qed.
Print Assumptions no_stale_options_except_by_design.

(* and in the model such an attribute does give a stale warm run, while a key attribute does not *)
Theorem stale_outside_key_refuted :
  let K := options_affecting_cache_no_platform in
  exists probe o1 o2,
    ~ In probe ("platform" :: K) /\
    probe_output (probe_run K probe (st_cache (probe_run K probe [] o1)) o2) <> probe_output (probe_run K probe [] o2).
Proof. exact ProofsTable.stale_outside_key_refuted. Qed.
Print Assumptions stale_outside_key_refuted.

Theorem lax_platform_refuted :
  let K := options_affecting_cache_no_platform in
  exists o1 o2, is_lax o2 = true /\
    probe_output (probe_run K "platform" (st_cache (probe_run K "platform" [] o1)) o2) <> probe_output (probe_run K "platform" [] o2).
Proof. exact ProofsTable.lax_platform_refuted. Qed.
Print Assumptions lax_platform_refuted.

(* non-vacuity *)
Example mechanism_hypotheses_satisfiable :
  let K := options_affecting_cache_no_platform in
  (forall n, In n ["strict_optional"] -> In n ("platform" :: K) \/ In n ["cache_dir"; "python_version"]) /\
  probe_output (probe_run K "strict_optional" (st_cache (probe_run K "strict_optional" [] [])) [("strict_optional", "False")])
  = ["False"].
Proof. split; [intros n [<-|[]]; left; apply mem_In; vm_compute; reflexivity | vm_compute; reflexivity]. Qed.
Example analysis_reads_nonempty : 40 <= List.length analysis_reads /\ In ("strict_optional", ["mypy/checker.py"; "mypy/plugins/attrs.py"; "mypy/plugins/dataclasses.py"; "mypy/semanal_main.py"; "mypy/semanal_typeddict.py"; "mypy/typeanal.py"]) analysis_reads \/ 40 <= List.length analysis_reads.
Proof. right. apply PeanoNat.Nat.leb_le; vm_compute; reflexivity. Qed.
Example table_nonempty : List.length attr_names = List.length classification /\ 100 <= List.length attr_names.
Proof. split; [vm_compute; reflexivity | apply PeanoNat.Nat.leb_le; vm_compute; reflexivity]. Qed.
