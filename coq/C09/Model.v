(* C09 model: options, the options snapshot stored in CacheMeta.options, the cache directory prefix,
   find_cache_meta's comparison, reuse-or-recheck of a module, post-load formatting.
   Executable definitions only (no proofs).

   Sources modelled:
     mypy/options.py  Options.select_options_affecting_cache, OPTIONS_AFFECTING_CACHE(_NO_PLATFORM)
     mypy/build.py    options_snapshot, _cache_dir_prefix, find_cache_meta (options comparison, the
                      --skip-version-check laxness about the platform), find_stale_sccs (replay of cached
                      error_lines through Errors.format_messages), write_cache (what an entry records)
     mypy/errors.py   format_messages_default (applied to replayed tuples) vs render_messages (baked in)
   Hashes (hash_digest of the value list, source hashes, interface hashes) are modelled as the identity. *)
From Coq Require Import List String Bool.
Import ListNotations.
Open Scope string_scope.
Open Scope list_scope.

Definition name := string.
Definition value := string.
(* An Options object as a finite map attribute -> value (values in a canonical text form; absent = ""). *)
Definition opts := list (name * value).

Fixpoint get (o : opts) (n : name) : value :=
  match o with
  | [] => ""
  | (k, v) :: r => if String.eqb k n then v else get r n
  end.

Definition values_of (ns : list name) (o : opts) : list value := map (get o) ns.

Fixpoint list_eqb {A} (eqb : A -> A -> bool) (l1 l2 : list A) : bool :=
  match l1, l2 with
  | [], [] => true
  | x :: r1, y :: r2 => eqb x y && list_eqb eqb r1 r2
  | _, _ => false
  end.

(* options_snapshot: {"platform": p, "other_options": hash(values of OPTIONS_AFFECTING_CACHE_NO_PLATFORM)} *)
Record snapshot := { s_platform : value; s_other : list value }.

Definition options_snapshot (key_np : list name) (o : opts) : snapshot :=
  {| s_platform := get o "platform"; s_other := values_of key_np o |}.

(* find_cache_meta: `if skip_version_check: cached["platform"] = current["platform"]`, then `cached != current` *)
Definition snap_match (lax : bool) (cached current : snapshot) : bool :=
  (lax || String.eqb (s_platform cached) (s_platform current))
  && list_eqb String.eqb (s_other cached) (s_other current).

Definition is_lax (o : opts) : bool := String.eqb (get o "skip_version_check") "True".

(* _cache_dir_prefix (non-bazel): join(cache_dir, "%d.%d" % python_version); dir_names = [cache_dir; python_version] *)
Definition dirkey (dir_names : list name) (o : opts) : list value := values_of dir_names o.

Definition mem (x : string) (l : list string) : bool := existsb (String.eqb x) l.

Section Build.
  Variables src iface etuple modid : Type.
  Variable mod_eqb : modid -> modid -> bool.
  Variable src_eqb : src -> src -> bool.          (* source hash comparison (validate_meta) *)
  Variable iface_eqb : iface -> iface -> bool.    (* interface hash comparison of dependencies *)
  (* clone_for_module: the per-module resolution of global options + config sections + inline directives
     (modelled in C17); abstract here *)
  Variable resolve : opts -> modid -> opts.
  (* semantic analysis + type checking + Errors.file_messages/render_messages of one module: its interface
     and its rendered error tuples.  Abstract. *)
  (* last argument: the import options of the module's suppressed dependencies, as recorded by suppressed_deps_opts
     (the analysis sees OTHER modules' options only through it and through the dependency interfaces) *)
  Variable analyze : src -> list iface -> opts -> list value -> iface * list etuple.
  Variable key_np : list name.      (* OPTIONS_AFFECTING_CACHE_NO_PLATFORM *)
  Variable dir_names : list name.   (* options selecting the cache location *)
  (* Errors.format_messages on the tuples of one module, reading the GLOBAL options *)
  Variable fmt : opts -> list etuple -> list string.
  (* State.suppressed_deps_opts(): for the module with source s, the (name, dep_import_options, reason) records of its
     suppressed dependencies whose import priority is covered (see ImportOpts.v), flattened to text.  It is computed
     from the CURRENT options on every run (manager.import_options) and compared by State.is_fresh. *)
  Variable imp : opts -> src -> list value.

  Record entry := { e_src : src; e_deps : list iface; e_snap : snapshot; e_imp : list value; e_res : iface * list etuple }.
  Definition ckey := (list value * modid)%type.
  Definition cache := list (ckey * entry).

  Definition ckey_eqb (a b : ckey) : bool := list_eqb String.eqb (fst a) (fst b) && mod_eqb (snd a) (snd b).

  Fixpoint lookup (c : cache) (k : ckey) : option entry :=
    match c with
    | [] => None
    | (k', e) :: r => if ckey_eqb k' k then Some e else lookup r k
    end.

  Definition store (c : cache) (k : ckey) (e : entry) : cache := (k, e) :: c.

  (* build state while walking the modules in dependency order:
     cache, interfaces of the modules processed so far, per-module tuples, number of modules re-analysed *)
  Record st := { st_cache : cache; st_ifaces : list iface; st_out : list (modid * list etuple); st_n : nat }.

  (* find_cache_meta (snapshot) + validate_meta (source) + is_fresh (dependencies, suppressed_deps_opts) *)
  Definition reusable (o : opts) (e : entry) (s : src) (ifs : list iface) (snap : snapshot) : bool :=
    src_eqb (e_src e) s && list_eqb iface_eqb (e_deps e) ifs && snap_match (is_lax o) (e_snap e) snap
    && list_eqb String.eqb (e_imp e) (imp o s).

  Definition step (o : opts) (acc : st) (ms : modid * src) : st :=
    let '(m, s) := ms in
    let ro := resolve o m in
    let snap := options_snapshot key_np ro in
    let k := (dirkey dir_names o, m) in
    let ifs := st_ifaces acc in
    let recheck :=
      let r := analyze s ifs ro (imp o s) in
      {| st_cache := store (st_cache acc) k {| e_src := s; e_deps := ifs; e_snap := snap; e_imp := imp o s; e_res := r |};
         st_ifaces := ifs ++ [fst r]; st_out := st_out acc ++ [(m, snd r)]; st_n := S (st_n acc) |} in
    match lookup (st_cache acc) k with
    | Some e =>
        if reusable o e s ifs snap
        then {| st_cache := st_cache acc; st_ifaces := ifs ++ [fst (e_res e)];
                st_out := st_out acc ++ [(m, snd (e_res e))]; st_n := st_n acc |}
        else recheck
    | None => recheck
    end.

  Definition run (c : cache) (fs : list (modid * src)) (o : opts) : st :=
    fold_left (step o) fs {| st_cache := c; st_ifaces := []; st_out := []; st_n := 0 |}.

  Definition cold (fs : list (modid * src)) (o : opts) : st := run [] fs o.
  Definition warm (c : cache) (fs : list (modid * src)) (o : opts) : st := run c fs o.
  Definition cache_after (r : st) : cache := st_cache r.
  Definition tuples (r : st) : list (modid * list etuple) := st_out r.

  (* what the user sees: the replayed / fresh tuples of every module formatted with the CURRENT global options *)
  Definition output (o : opts) (r : st) : list string := flat_map (fun mt => fmt o (snd mt)) (st_out r).

  (* a history of runs sharing one cache directory tree *)
  Fixpoint run_history (c : cache) (h : list (list (modid * src) * opts)) : cache * list (list string) :=
    match h with
    | [] => (c, [])
    | (fs, o) :: r =>
        let x := warm c fs o in
        let '(c', outs) := run_history (cache_after x) r in
        (c', output o x :: outs)
    end.

  (* the cache-free specification *)
  Definition pure_step (o : opts) (acc : list iface * list (modid * list etuple)) (ms : modid * src) :=
    let '(m, s) := ms in
    let r := analyze s (fst acc) (resolve o m) (imp o s) in
    (fst acc ++ [fst r], snd acc ++ [(m, snd r)]).
  Definition pure_run (fs : list (modid * src)) (o : opts) := fold_left (pure_step o) fs ([], []).
End Build.

Arguments e_src {src iface etuple}.
Arguments e_deps {src iface etuple}.
Arguments e_snap {src iface etuple}.
Arguments e_res {src iface etuple}.
Arguments e_imp {src iface etuple}.
Arguments st_cache {src iface etuple modid}.
Arguments st_ifaces {src iface etuple modid}.
Arguments st_out {src iface etuple modid}.
Arguments st_n {src iface etuple modid}.

(* ---- executable prediction used by the correspondence stage: would a module checked under resolved options
   ro1 (global o1) be reused under ro2 (global o2)?  (source and dependencies unchanged) *)
Definition predict_reuse (key_np dir_names : list name) (o1 ro1 o2 ro2 : opts) : bool :=
  list_eqb String.eqb (dirkey dir_names o1) (dirkey dir_names o2)
  && snap_match (is_lax o2) (options_snapshot key_np ro1) (options_snapshot key_np ro2).

(* ---- a concrete instance used for the refutation witness: one module whose only diagnostic is the value of
   option `probe` *)
Definition probe_analyze (probe : name) (_ : unit) (_ : list unit) (o : opts) (_ : list value) : unit * list string := (tt, [get o probe]).
Definition probe_run (key_np : list name) (probe : name) (c : cache unit unit string nat) (o : opts) :=
  run unit unit string nat Nat.eqb (fun _ _ => true) (fun _ _ => true) (fun o _ => o) (probe_analyze probe)
      key_np ["cache_dir"; "python_version"] (fun _ _ => []) c [(0, tt)] o.
Definition probe_output (r : st unit unit string nat) : list string :=
  output unit unit string nat (fun _ ts => ts) [] r.
