(* C09, full-strength statement.
   "When any flag or configuration value differs between two runs sharing a cache directory, the second run's
   diagnostics and exit status equal those of a cold run with the second run's options.  Every option that can
   change a diagnostic is therefore part of the cache validity key or applied after cached results are loaded." *)
From Coq Require Import List String Bool.
From C09 Require Import Model Table.
From Gen Require Import OptionsTable OptionsClass.
Import ListNotations.
Open Scope string_scope.

(* (1) mechanism, for an arbitrary analysis reading the option set `reads` (see Properties.warm_eq_cold_options);
   (2) the table half: every Options attribute is key, dir, post-load or inert -- no attribute is a `finding`.
   (2) is REFUTED on the current tree (finding F4): see Properties.no_stale_options_refuted. *)
Definition no_stale_options : Prop :=
  forall a, In a attr_names -> exists c, class_of a = Some c /\ c <> Finding.

(* (2') what holds on the current tree: no attribute is a finding EXCEPT the explicitly listed by-design ones
   (deliberate behaviour, each with a model witness and a witness replayed on the implementation by S). *)
Definition no_stale_options_except (allowed : list string) : Prop :=
  forall a, In a attr_names -> exists c, class_of a = Some c /\ (c = Finding -> In a allowed).

(* (3) not proved, monitored by the toggle matrix: the real analysis (semantic analysis, checker, render_messages)
   reads, of a module's resolved options, only attributes classified key or dir -- i.e. the hypothesis
   `analyze_reads` + `covered` of the mechanism theorem holds for the real checker with
   reads = { a | class_of a = Key \/ class_of a = Dir }. *)
Definition real_reads_claim : list string :=
  map fst (filter (fun p => match snd p with Key | Dir => true | _ => false end) classification).
