From Coq Require Import List String Bool Arith.
From C09 Require Import Model Proofs ImportOpts.
From Gen Require Import OptionsTable.
Import ListNotations.
Open Scope string_scope.

(* equal suppressed_deps_opts values => equal import options for every covered suppressed dependency *)
Lemma sdo_eq_covers : forall cov r1 r2 sup,
  suppressed_deps_opts cov r1 sup = suppressed_deps_opts cov r2 sup ->
  forall d, In d sup -> cov (d_prio d) = true ->
    dep_import_options (r1 (d_name d)) = dep_import_options (r2 (d_name d)).
Proof.
  intros cov r1 r2 sup; unfold suppressed_deps_opts.
  induction sup as [|x r IH]; intros E d Hin Hc; [destruct Hin|].
  simpl in E. destruct (cov (d_prio x)) eqn:Cx.
  - simpl in E.
    assert (E1 : record_of r1 x = record_of r2 x) by congruence.
    assert (E2 : map (record_of r1) (filter (fun d => cov (d_prio d)) r) = map (record_of r2) (filter (fun d => cov (d_prio d)) r)) by congruence.
    destruct Hin as [<-|Hin]; [unfold record_of in E1; congruence | auto].
  - destruct Hin as [<-|Hin]; [congruence | auto].
Qed.

(* ... hence, when every diagnostic-producing priority is covered, anything that depends on the import options of the
   diagnostic-producing suppressed dependencies only (the importer's import diagnostics) is the same *)
Lemma import_diags_determined : forall (D : Type) (diags : list sdep -> (string -> opts) -> D) cov,
  (forall p, In p diag_priorities -> cov p = true) ->
  (forall sup r1 r2,
     (forall d, In d sup -> In (d_prio d) diag_priorities ->
        dep_import_options (r1 (d_name d)) = dep_import_options (r2 (d_name d))) -> diags sup r1 = diags sup r2) ->
  forall sup r1 r2, suppressed_deps_opts cov r1 sup = suppressed_deps_opts cov r2 sup -> diags sup r1 = diags sup r2.
Proof.
  intros D diags cov Hcov Hd sup r1 r2 E. apply Hd. intros d Hin Hp.
  eapply sdo_eq_covers; eauto.
Qed.

Lemma priorities_covered_true : priorities_covered_b = true.
Proof. vm_compute. reflexivity. Qed.

Lemma import_priorities_covered :
  (forall p, In p diag_priorities -> sdo_covered p = true) /\ sdo_covered pri_indirect = false.
Proof.
  pose proof priorities_covered_true as T. unfold priorities_covered_b in T. apply andb_true_iff in T as [T1 T2].
  split; [exact (proj1 (forallb_forall _ _) T1) | apply negb_true_iff; exact T2].
Qed.

(* with the generated coverage: a fresh verdict of is_fresh's comparison fixes the importer's import diagnostics *)
Lemma generated_sdo_sound : forall (D : Type) (diags : list sdep -> (string -> opts) -> D),
  (forall sup r1 r2,
     (forall d, In d sup -> In (d_prio d) diag_priorities ->
        dep_import_options (r1 (d_name d)) = dep_import_options (r2 (d_name d))) -> diags sup r1 = diags sup r2) ->
  forall sup r1 r2, suppressed_deps_opts sdo_covered r1 sup = suppressed_deps_opts sdo_covered r2 sup ->
    diags sup r1 = diags sup r2.
Proof. intros D diags Hd. apply import_diags_determined; auto. exact (proj1 import_priorities_covered). Qed.

(* the `< PRI_LOW` filter is refuted: a dependency imported inside a function changes its section's
   ignore_missing_imports, the recorded value does not change, the diagnostic does *)
Lemma mutant_filter_refuted :
  exists sup r1 r2 d, In d sup /\ In (d_prio d) diag_priorities /\
    suppressed_deps_opts mutant_cov r1 sup = suppressed_deps_opts mutant_cov r2 sup /\
    dep_import_options (r1 (d_name d)) <> dep_import_options (r2 (d_name d)).
Proof.
  exists [{| d_name := "foo"; d_prio := pri_low; d_reason := "NOT_FOUND" |}],
         (fun _ => []), (fun _ => [("ignore_missing_imports", "True")]),
         {| d_name := "foo"; d_prio := pri_low; d_reason := "NOT_FOUND" |}.
  repeat split; [left; reflexivity | right; right; left; reflexivity | vm_compute; discriminate].
Qed.
