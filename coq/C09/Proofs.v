(* C09: the mechanism.  warm = cold across option changes when every option read by the analysis is part of
   the snapshot key or of the cache-directory key; unbounded histories; post-load formatting. *)
From Coq Require Import List String Bool.
From C09 Require Import Model.
Import ListNotations.
Open Scope string_scope.
Open Scope list_scope.

Lemma list_eqb_eq : forall A (eqb : A -> A -> bool),
  (forall x y, eqb x y = true -> x = y) -> forall l1 l2, list_eqb eqb l1 l2 = true -> l1 = l2.
Proof.
  intros A eqb H l1; induction l1 as [|x r IH]; intros [|y r2] E; simpl in E; try discriminate; auto.
  apply andb_true_iff in E as [E1 E2]. f_equal; auto.
Qed.

Lemma str_list_eqb_eq : forall l1 l2, list_eqb String.eqb l1 l2 = true -> l1 = l2.
Proof. apply list_eqb_eq. intros x y; apply String.eqb_eq. Qed.

Lemma str_list_eqb_refl : forall l, list_eqb String.eqb l l = true.
Proof. induction l; simpl; auto. rewrite String.eqb_refl; auto. Qed.

Lemma values_of_eq_get : forall ns o o', values_of ns o = values_of ns o' ->
  forall n, In n ns -> get o n = get o' n.
Proof.
  induction ns as [|a r IH]; intros o o' E n Hin; [destruct Hin|].
  unfold values_of in *; simpl in E. injection E as E1 E2.
  destruct Hin as [->|Hin]; auto.
Qed.

Lemma snap_match_strict : forall c s, snap_match false c s = true ->
  s_platform c = s_platform s /\ s_other c = s_other s.
Proof.
  unfold snap_match; intros c s E. apply andb_true_iff in E as [E1 E2]. simpl in E1.
  split; [apply String.eqb_eq; exact E1 | apply str_list_eqb_eq; exact E2].
Qed.

Section Mechanism.
  Variables src iface etuple modid : Type.
  Variable mod_eqb : modid -> modid -> bool.
  Variable src_eqb : src -> src -> bool.
  Variable iface_eqb : iface -> iface -> bool.
  Variable resolve : opts -> modid -> opts.
  Variable analyze : src -> list iface -> opts -> list value -> iface * list etuple.
  Variable key_np : list name.
  Variable dir_names : list name.
  Variable fmt : opts -> list etuple -> list string.
  Variable imp : opts -> src -> list value.

  (* hashes are the identity: equal hashes mean equal content (DESIGN section 3) *)
  Hypothesis mod_eqb_eq : forall a b, mod_eqb a b = true -> a = b.
  Hypothesis src_eqb_eq : forall a b, src_eqb a b = true -> a = b.
  Hypothesis iface_eqb_eq : forall a b, iface_eqb a b = true -> a = b.

  (* CONTRACT (monitored by the toggle matrix, not proved): the analysis of a module depends on its resolved
     options only through the set `reads` *)
  Variable reads : list name.
  Hypothesis analyze_reads : forall s ds o o' x,
    (forall n, In n reads -> get o n = get o' n) -> analyze s ds o x = analyze s ds o' x.
  (* the options selecting the cache location are global (not per-module) *)
  Hypothesis resolve_dir : forall o m n, In n dir_names -> get (resolve o m) n = get o n.

  Notation entry := (entry src iface etuple).
  Notation cache := (cache src iface etuple modid).
  Notation st := (st src iface etuple modid).
  Notation step := (step src iface etuple modid mod_eqb src_eqb iface_eqb resolve analyze key_np dir_names imp).
  Notation run := (run src iface etuple modid mod_eqb src_eqb iface_eqb resolve analyze key_np dir_names imp).
  Notation cold := (cold src iface etuple modid mod_eqb src_eqb iface_eqb resolve analyze key_np dir_names imp).
  Notation warm := (warm src iface etuple modid mod_eqb src_eqb iface_eqb resolve analyze key_np dir_names imp).
  Notation lookup := (lookup src iface etuple modid mod_eqb).
  Notation pure_step := (pure_step src iface etuple modid resolve analyze imp).
  Notation pure_run := (pure_run src iface etuple modid resolve analyze imp).
  Notation output := (output src iface etuple modid fmt).
  Notation run_history := (run_history src iface etuple modid mod_eqb src_eqb iface_eqb resolve analyze key_np dir_names fmt imp).
  Notation cache_after := (cache_after src iface etuple modid).
  Notation tuples := (tuples src iface etuple modid).

  (* every cache entry is the analysis result of the inputs it records, under SOME options whose snapshot and
     directory key are the recorded ones *)
  Definition entry_ok (ke : ckey modid * entry) : Prop :=
    exists o, fst (fst ke) = dirkey dir_names o
      /\ e_snap (snd ke) = options_snapshot key_np (resolve o (snd (fst ke)))
      /\ e_res (snd ke) = analyze (e_src (snd ke)) (e_deps (snd ke)) (resolve o (snd (fst ke))) (e_imp (snd ke)).
  Definition cache_ok (c : cache) : Prop := Forall entry_ok c.

  Lemma lookup_in : forall (c : cache) k e, lookup c k = Some e -> In (k, e) c.
  Proof.
    induction c as [|[k' e'] r IH]; intros k e H; simpl in H; [discriminate|].
    destruct (ckey_eqb modid mod_eqb k' k) eqn:E.
    - injection H as <-. left. f_equal.
      unfold ckey_eqb in E. apply andb_true_iff in E as [E1 E2].
      apply str_list_eqb_eq in E1. apply mod_eqb_eq in E2. destruct k', k; simpl in *; congruence.
    - right; auto.
  Qed.

  Lemma step_cache_ok : forall o acc ms, cache_ok (st_cache acc) -> cache_ok (st_cache (step o acc ms)).
  Proof.
    intros o acc [m s] H. unfold Model.step.
    assert (Hst : forall snap r, r = analyze s (st_ifaces acc) (resolve o m) (imp o s) ->
              snap = options_snapshot key_np (resolve o m) ->
              cache_ok (store src iface etuple modid (st_cache acc) (dirkey dir_names o, m)
                         {| e_src := s; e_deps := st_ifaces acc; e_snap := snap; e_imp := imp o s; e_res := r |})).
    { intros snap r -> ->. constructor; auto. exists o; simpl; auto. }
    destruct (lookup (st_cache acc) (dirkey dir_names o, m)) as [e|]; [destruct (reusable _ _ _ _ _ _ _ _ _ _)|];
      simpl; auto.
  Qed.

  Hypothesis covered : forall n, In n reads -> In n ("platform" :: key_np) \/ In n dir_names.

  (* two option sets with the same snapshot and the same directory key agree on everything the analysis reads *)
  Lemma same_key_same_reads : forall o0 o m,
    dirkey dir_names o0 = dirkey dir_names o ->
    s_platform (options_snapshot key_np (resolve o0 m)) = s_platform (options_snapshot key_np (resolve o m)) ->
    s_other (options_snapshot key_np (resolve o0 m)) = s_other (options_snapshot key_np (resolve o m)) ->
    forall n, In n reads -> get (resolve o0 m) n = get (resolve o m) n.
  Proof.
    intros o0 o m Hd Hp Ho n Hn. simpl in Hp, Ho.
    destruct (covered n Hn) as [[<-|Hk]|Hdir].
    - exact Hp.
    - eapply values_of_eq_get; eauto.
    - rewrite !resolve_dir by auto. eapply values_of_eq_get; eauto.
  Qed.

  Lemma step_pure : forall o acc ms, cache_ok (st_cache acc) -> is_lax o = false ->
    (st_ifaces (step o acc ms), st_out (step o acc ms)) = pure_step o (st_ifaces acc, st_out acc) ms.
  Proof.
    intros o acc [m s] H L. unfold Model.step, Model.pure_step. simpl fst; simpl snd.
    destruct (lookup (st_cache acc) (dirkey dir_names o, m)) as [e|] eqn:EL; [|reflexivity].
    destruct (reusable _ _ _ _ _ _ _ _ _ _) eqn:ER; [|reflexivity].
    simpl. unfold reusable in ER. rewrite L in ER.
    apply andb_true_iff in ER as [ER ER4]. apply str_list_eqb_eq in ER4.
    apply andb_true_iff in ER as [ER ER3]. apply andb_true_iff in ER as [ER1 ER2].
    apply src_eqb_eq in ER1. apply (list_eqb_eq _ _ iface_eqb_eq) in ER2.
    apply snap_match_strict in ER3 as [Sp So].
    apply lookup_in in EL. unfold cache_ok in H. rewrite Forall_forall in H.
    destruct (H _ EL) as [o0 [Hd [Hs Hr]]]. simpl in Hd, Hs, Hr.
    assert (A : analyze s (st_ifaces acc) (resolve o0 m) (imp o s) = analyze s (st_ifaces acc) (resolve o m) (imp o s)).
    { apply analyze_reads. apply same_key_same_reads; auto; rewrite <- Hs; auto. }
    rewrite Hr, ER1, ER2, ER4, A. reflexivity.
  Qed.

  Lemma fold_ok : forall o fs acc, cache_ok (st_cache acc) -> is_lax o = false ->
    cache_ok (st_cache (fold_left (step o) fs acc)) /\
    (st_ifaces (fold_left (step o) fs acc), st_out (fold_left (step o) fs acc))
      = fold_left (pure_step o) fs (st_ifaces acc, st_out acc).
  Proof.
    intros o fs; induction fs as [|ms r IH]; intros acc H L; simpl; [split; auto|].
    destruct (IH (step o acc ms) (step_cache_ok o acc ms H) L) as [H1 H2].
    split; auto. rewrite H2, (step_pure o acc ms H L). reflexivity.
  Qed.

  Lemma fold_cache_ok : forall o fs acc, cache_ok (st_cache acc) -> cache_ok (st_cache (fold_left (step o) fs acc)).
  Proof. intros o fs; induction fs; intros acc H; simpl; auto. apply IHfs, step_cache_ok, H. Qed.

  Lemma run_pure : forall c fs o, cache_ok c -> is_lax o = false ->
    (st_ifaces (run c fs o), st_out (run c fs o)) = pure_run fs o.
  Proof.
    intros c fs o H L. unfold Model.run, Model.pure_run.
    exact (proj2 (fold_ok o fs {| st_cache := c; st_ifaces := []; st_out := []; st_n := 0 |} H L)).
  Qed.

  Lemma run_cache_ok : forall c fs o, cache_ok c -> cache_ok (cache_after (run c fs o)).
  Proof.
    intros c fs o H; unfold Model.run, Model.cache_after.
    exact (fold_cache_ok o fs {| st_cache := c; st_ifaces := []; st_out := []; st_n := 0 |} H).
  Qed.

  Lemma empty_ok : cache_ok [].
  Proof. constructor. Qed.

  Lemma warm_out_eq_cold : forall c fs o, cache_ok c -> is_lax o = false ->
    st_out (warm c fs o) = st_out (cold fs o).
  Proof.
    intros c fs o H L. unfold Model.warm, Model.cold.
    pose proof (run_pure c fs o H L) as A. pose proof (run_pure [] fs o empty_ok L) as B.
    rewrite <- B in A. injection A; auto.
  Qed.

  Lemma warm_eq_cold_any_cache : forall c fs o, cache_ok c -> is_lax o = false ->
    output o (warm c fs o) = output o (cold fs o).
  Proof. intros. unfold Model.output. rewrite (warm_out_eq_cold c fs o); auto. Qed.

  Lemma warm_eq_cold_options : forall o1 o2 fs, is_lax o2 = false ->
    output o2 (warm (cache_after (cold fs o1)) fs o2) = output o2 (cold fs o2).
  Proof.
    intros. apply warm_eq_cold_any_cache; auto. apply run_cache_ok, empty_ok.
  Qed.

  Lemma history_sound : forall h c, cache_ok c ->
    Forall (fun fo => is_lax (snd fo) = false) h ->
    snd (run_history c h) = map (fun fo => output (snd fo) (cold (fst fo) (snd fo))) h
    /\ cache_ok (fst (run_history c h)).
  Proof.
    induction h as [|[fs o] r IH]; intros c H F; simpl; [split; auto|].
    inversion F as [|? ? L F']; subst. simpl in L.
    specialize (IH (cache_after (warm c fs o)) (run_cache_ok c fs o H) F').
    destruct (run_history (cache_after (warm c fs o)) r) as [c' outs]. simpl in *.
    destruct IH as [I1 I2]. split; auto. rewrite I1, (warm_eq_cold_any_cache c fs o H L). reflexivity.
  Qed.

  (* the tuples of a cold run depend on the options only through `reads` *)
  Lemma pure_fold_ext : forall o1 o2,
    (forall m n, In n reads -> get (resolve o1 m) n = get (resolve o2 m) n) ->
    (forall s, imp o1 s = imp o2 s) ->
    forall fs acc, fold_left (pure_step o1) fs acc = fold_left (pure_step o2) fs acc.
  Proof.
    intros o1 o2 E EI fs; induction fs as [|[m s] r IH]; intros acc; simpl; auto.
    rewrite <- IH. f_equal. unfold Model.pure_step.
    rewrite (analyze_reads s (fst acc) (resolve o1 m) (resolve o2 m) (imp o1 s) (E m)), (EI s). reflexivity.
  Qed.

  Lemma post_load_applied_late : forall c fs o1 o2, cache_ok c ->
    is_lax o1 = false -> is_lax o2 = false ->
    (forall m n, In n reads -> get (resolve o1 m) n = get (resolve o2 m) n) ->
    (forall s, imp o1 s = imp o2 s) ->
    output o2 (warm c fs o2) = flat_map (fun mt => fmt o2 (snd mt)) (tuples (cold fs o1)).
  Proof.
    intros c fs o1 o2 H L1 L2 E EI. unfold Model.output, Model.tuples.
    rewrite (warm_out_eq_cold c fs o2 H L2).
    pose proof (run_pure [] fs o1 empty_ok L1) as A. pose proof (run_pure [] fs o2 empty_ok L2) as B.
    unfold Model.pure_run in *. rewrite (pure_fold_ext o1 o2 E EI) in A. rewrite <- B in A.
    unfold Model.cold. injection A as _ A2. rewrite A2. reflexivity.
  Qed.

  Lemma post_load_after_cold : forall fs o1 o2,
    is_lax o1 = false -> is_lax o2 = false ->
    (forall m n, In n reads -> get (resolve o1 m) n = get (resolve o2 m) n) ->
    (forall s, imp o1 s = imp o2 s) ->
    output o2 (warm (cache_after (cold fs o1)) fs o2) = flat_map (fun mt => fmt o2 (snd mt)) (tuples (cold fs o1)).
  Proof.
    intros fs o1 o2 L1 L2 E EI. apply post_load_applied_late; auto. apply run_cache_ok, empty_ok.
  Qed.

  Lemma history_from_empty : forall h, Forall (fun fo => is_lax (snd fo) = false) h ->
    snd (run_history [] h) = map (fun fo => output (snd fo) (cold (fst fo) (snd fo))) h.
  Proof. intros h F. exact (proj1 (history_sound h [] empty_ok F)). Qed.
End Mechanism.
