(* C09: the finite table theorem over the GENERATED option table (gen/OptionsTable.v, regenerated from /repo on
   every run) and the committed classification (gen/OptionsClass.v from tools/harness/options_class.json).
   Boolean checks of Table.v decided by vm_compute, lifted to Prop with forallb_forall. *)
From Coq Require Import List String Bool.
From C09 Require Import Model Proofs Table Statement.
From Gen Require Import OptionsTable OptionsClass.
Import ListNotations.
Open Scope string_scope.
Open Scope list_scope.

Lemma mem_In : forall x l, mem x l = true <-> In x l.
Proof.
  intros x l; unfold mem; rewrite existsb_exists; split.
  - intros [y [H E]]. apply String.eqb_eq in E. subst; auto.
  - intros H; exists x; split; auto. apply String.eqb_refl.
Qed.

Lemma nmem_nIn : forall x l, negb (mem x l) = true -> ~ In x l.
Proof. intros x l H I. apply mem_In in I. rewrite I in H. discriminate. Qed.

Lemma subset_In : forall l1 l2, subset l1 l2 = true -> forall x, In x l1 -> In x l2.
Proof. unfold subset; intros l1 l2 H x I. rewrite forallb_forall in H. apply mem_In, H, I. Qed.

Lemma table_ok_true : table_ok = true.
Proof. vm_compute. reflexivity. Qed.

Lemma shape_ok_true : shape_ok = true.
Proof. vm_compute. reflexivity. Qed.

Lemma check_all : forall a, In a attr_names -> check_attr a = true.
Proof.
  pose proof table_ok_true as T. unfold table_ok in T.
  apply andb_true_iff in T as [T _]. apply andb_true_iff in T as [T _]. apply andb_true_iff in T as [T _].
  intros a H. exact (proj1 (forallb_forall check_attr attr_names) T a H).
Qed.

Lemma option_table_classified : forall a, In a attr_names ->
  exists c, class_of a = Some c /\
    (c = Key <-> In a options_affecting_cache) /\
    (c = Dir -> (In a cache_dir_reads \/ In a store_reads) /\ ~ In a per_module_options) /\
    (c = PostLoad -> ~ In a precache_reads
                     /\ (forall f, In f (sites_of a) -> In f post_load_files)
                     /\ (In "mypy/errors.py" (sites_of a) -> In a post_load_reads)) /\
    (c = Inert -> ~ In a precache_reads /\ ~ In a cache_dir_reads).
Proof.
  intros a H. pose proof (check_all a H) as C. unfold check_attr in C.
  destruct (class_of a) as [c|]; [|discriminate]. exists c; split; auto.
  destruct c.
  - (* Key *) apply mem_In in C. repeat split; auto; try discriminate.
  - (* Dir *) apply andb_true_iff in C as [C0 C]. apply andb_true_iff in C as [C1 C2].
    apply nmem_nIn in C0. apply nmem_nIn in C2. apply orb_true_iff in C1.
    repeat split; try discriminate; try (intros X; contradiction); auto.
    destruct C1 as [C1|C1]; apply mem_In in C1; auto.
  - (* PostLoad *) apply andb_true_iff in C as [C0 C]. apply andb_true_iff in C as [C1 C].
    apply andb_true_iff in C as [C2 C3]. apply nmem_nIn in C0. apply nmem_nIn in C1.
    repeat split; try discriminate; try (intros X; contradiction); auto.
    + apply subset_In; auto.
    + intros I. apply orb_true_iff in C3 as [C3|C3]; [apply nmem_nIn in C3; contradiction | apply mem_In; auto].
  - (* Inert *) apply andb_true_iff in C as [C0 C]. apply andb_true_iff in C as [C1 C2].
    apply nmem_nIn in C0, C1, C2.
    repeat split; try discriminate; try (intros X; contradiction); auto.
  - (* Finding *) apply nmem_nIn in C.
    repeat split; try discriminate; try (intros X; contradiction); auto.
Qed.

Lemma classified_is_attr : forall a c, class_of a = Some c -> In a attr_names.
Proof.
  intros a c H. pose proof table_ok_true as T. unfold table_ok in T.
  apply andb_true_iff in T as [T _]. apply andb_true_iff in T as [T _]. apply andb_true_iff in T as [_ T].
  pose proof (proj1 (forallb_forall _ _) T) as T'. unfold class_of in H.
  destruct (find (fun p => fst p =? a) classification) as [p|] eqn:F; [|discriminate].
  apply find_some in F as [F1 F2]. apply String.eqb_eq in F2. subst a. apply mem_In. exact (T' p F1).
Qed.

Lemma snapshot_shape :
  snapshot_platform = true /\ snapshot_dict_has_platform = true /\ fcm_compares = true
  /\ snapshot_iter = "OPTIONS_AFFECTING_CACHE_NO_PLATFORM" /\ fcm_lax = ["skip_version_check"]
  /\ (forall a, In a options_affecting_cache <-> In a ("platform" :: options_affecting_cache_no_platform))
  /\ (forall a, In a ["cache_dir"; "python_version"] -> In a cache_dir_reads /\ ~ In a per_module_options).
Proof.
  pose proof shape_ok_true as T. unfold shape_ok in T.
  apply andb_true_iff in T as [T Hentry]. apply andb_true_iff in T as [T Hpv]. apply andb_true_iff in T as [T Hcd].
  apply andb_true_iff in T as [T Hdirs]. apply andb_true_iff in T as [T Hk]. apply andb_true_iff in T as [T Hpm].
  apply andb_true_iff in T as [T Hnp]. apply andb_true_iff in T as [T Hsub2]. apply andb_true_iff in T as [T Hsub1].
  apply andb_true_iff in T as [T Hlax]. apply andb_true_iff in T as [T Hiter]. apply andb_true_iff in T as [T Hcmp].
  apply andb_true_iff in T as [Hplat Hdict].
  split; [exact Hplat|]. split; [exact Hdict|]. split; [exact Hcmp|].
  split; [apply String.eqb_eq; exact Hiter|]. split; [apply str_list_eqb_eq; exact Hlax|].
  split.
  - intros a; split; apply subset_In; assumption.
  - intros a Ha. split.
    + eapply subset_In; eauto.
    + destruct Ha as [<-|[<-|[]]]; apply nmem_nIn; assumption.
Qed.

(* every attribute classified `key` is a component of the snapshot compared by find_cache_meta;
   every attribute classified `dir` is global *)
Lemma key_class_in_snapshot : forall a, class_of a = Some Key ->
  In a ("platform" :: options_affecting_cache_no_platform).
Proof.
  intros a H. destruct (option_table_classified a (classified_is_attr a _ H)) as [c [Hc [[K _] _]]].
  rewrite H in Hc. injection Hc as <-. apply snapshot_shape, K, eq_refl.
Qed.

(* the table half of the full statement is DECIDED by the classification: it holds iff no attribute is classified
   `finding` (each finding is confirmed on the real code by the toggle matrix) *)
Lemma forallb_false_ex : forall (f : string -> bool) l, forallb f l = false -> exists x, In x l /\ f x = false.
Proof.
  induction l as [|x r IH]; simpl; intros H; [discriminate|].
  apply andb_false_iff in H as [H|H]; [exists x; auto|]. destruct (IH H) as [y [Hy Fy]]. exists y; auto.
Qed.

Lemma no_stale_options_decided : if no_finding_b then no_stale_options else ~ no_stale_options.
Proof.
  destruct no_finding_b eqn:E; unfold no_finding_b in E.
  - intros a Ha. pose proof (proj1 (forallb_forall _ _) E a Ha) as C. simpl in C.
    destruct (class_of a) as [c|]; [|discriminate]. exists c; split; auto. intros ->. discriminate.
  - intros H. apply forallb_false_ex in E as [a [Ha Fa]]. destruct (H a Ha) as [c [Hc Hn]].
    rewrite Hc in Fa. destruct c; try discriminate. apply Hn; reflexivity.
Qed.

Lemma only_by_design_true : only_by_design_b = true.
Proof. vm_compute. reflexivity. Qed.

Lemma no_stale_options_except_by_design :
  no_stale_options_except by_design /\ (forall a, In a by_design -> class_of a = Some Finding).
Proof.
  pose proof only_by_design_true as T. unfold only_by_design_b in T. apply andb_true_iff in T as [T1 T2].
  split.
  - intros a Ha. pose proof (proj1 (forallb_forall _ _) T1 a Ha) as C. simpl in C.
    destruct (class_of a) as [c|]; [|discriminate]. exists c; split; auto. intros ->. apply mem_In; exact C.
  - intros a Ha. pose proof (proj1 (forallb_forall _ _) T2 a Ha) as C. simpl in C.
    destruct (class_of a) as [[]|]; try discriminate; reflexivity.
Qed.

Lemma analysis_reads_ok_true : analysis_reads_ok_b = true.
Proof. vm_compute. reflexivity. Qed.

Lemma every_option_read_is_keyed_or_classified : forall a fs f,
  In (a, fs) analysis_reads -> In f fs ->
  (class_of a = Some Key /\ In a ("platform" :: options_affecting_cache_no_platform))
  \/ class_of a = Some Dir
  \/ (class_of a = Some Inert /\ In f (reviewed_of a)).
Proof.
  intros a fs f H Hf. pose proof analysis_reads_ok_true as T. unfold analysis_reads_ok_b in T.
  apply andb_true_iff in T as [T _].
  pose proof (proj1 (forallb_forall _ _) T (a, fs) H) as T1. simpl in T1.
  pose proof (proj1 (forallb_forall _ _) T1 f Hf) as R. unfold read_ok in R.
  destruct (class_of a) as [[]|] eqn:C; try discriminate.
  - left. split; auto. apply key_class_in_snapshot; exact C.
  - right; left; reflexivity.
  - right; right. split; auto. apply mem_In; exact R.
Qed.

(* model-level witness: an analysis that reads an option outside the key gives a stale warm result *)
Lemma stale_outside_key_refuted :
  let K := options_affecting_cache_no_platform in
  exists probe o1 o2,
    ~ In probe ("platform" :: K) /\
    probe_output (probe_run K probe (st_cache (probe_run K probe [] o1)) o2) <> probe_output (probe_run K probe [] o2).
Proof.
  exists "<an option outside the key>", [], [("<an option outside the key>", "True")]. split.
  - apply nmem_nIn. vm_compute. reflexivity.
  - vm_compute. discriminate.
Qed.

(* the same analysis reading a key option is re-run *)
Lemma fresh_inside_key_witness :
  let K := options_affecting_cache_no_platform in
  let o2 : opts := [("strict_optional", "False")] in
  probe_output (probe_run K "strict_optional" (st_cache (probe_run K "strict_optional" [] [])) o2)
  = probe_output (probe_run K "strict_optional" [] o2).
Proof. vm_compute. reflexivity. Qed.

(* --skip-version-check makes the comparison ignore the platform (find_cache_meta) *)
Lemma lax_platform_refuted :
  let K := options_affecting_cache_no_platform in
  exists o1 o2, is_lax o2 = true /\
    probe_output (probe_run K "platform" (st_cache (probe_run K "platform" [] o1)) o2) <> probe_output (probe_run K "platform" [] o2).
Proof.
  exists [("platform", "linux"); ("skip_version_check", "True")], [("platform", "win32"); ("skip_version_check", "True")].
  split; [vm_compute; reflexivity | vm_compute; discriminate].
Qed.
