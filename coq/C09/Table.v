(* C09: executable checks (definitions only) of the finite table theorem over the GENERATED option table (gen/OptionsTable.v, regenerated from /repo on
   every run) and the committed classification (gen/OptionsClass.v from tools/harness/options_class.json).
   Boolean checks decided by vm_compute, lifted to Prop with forallb_forall. *)
From Coq Require Import List String Bool.
From C09 Require Import Model.
From Gen Require Import OptionsTable OptionsClass.
Import ListNotations.
Open Scope string_scope.
Open Scope list_scope.

Definition attr_names : list string := map fst attrs.

Definition class_of (a : string) : option oclass :=
  option_map snd (find (fun p => String.eqb (fst p) a) classification).

Definition sites_of (a : string) : list string :=
  match find (fun p => String.eqb (fst p) a) read_sites with Some p => snd p | None => [] end.

Definition subset (l1 l2 : list string) : bool := forallb (fun x => mem x l2) l1.

(* files in which a read of a formatting-only option is on the print path *)
Definition post_load_files : list string :=
  ["mypy/errors.py"; "mypy/main.py"; "mypy/dmypy_server.py"; "mypy/build.py"; "mypy/build_worker/worker.py"].

Definition check_attr (a : string) : bool :=
  match class_of a with
  | None => false
  | Some Key => mem a options_affecting_cache
  | Some Dir => negb (mem a options_affecting_cache)
                && ((mem a cache_dir_reads || mem a store_reads) && negb (mem a per_module_options))
  | Some PostLoad => negb (mem a options_affecting_cache)
                && (negb (mem a precache_reads) && (subset (sites_of a) post_load_files
                    && (negb (mem "mypy/errors.py" (sites_of a)) || mem a post_load_reads)))
  | Some Inert => negb (mem a options_affecting_cache)
                && (negb (mem a precache_reads) && negb (mem a cache_dir_reads))
  | Some Finding => negb (mem a options_affecting_cache)
  end.

Fixpoint nodupb (l : list string) : bool :=
  match l with [] => true | x :: r => negb (mem x r) && nodupb r end.

Definition table_ok : bool :=
  forallb check_attr attr_names
  && forallb (fun p => mem (fst p) attr_names) classification
  && nodupb (map fst classification) && nodupb attr_names.

Definition shape_ok : bool :=
  snapshot_platform && snapshot_dict_has_platform && fcm_compares
  && String.eqb snapshot_iter "OPTIONS_AFFECTING_CACHE_NO_PLATFORM"
  && list_eqb String.eqb fcm_lax ["skip_version_check"]
  && subset options_affecting_cache ("platform" :: options_affecting_cache_no_platform)
  && subset ("platform" :: options_affecting_cache_no_platform) options_affecting_cache
  && negb (mem "platform" options_affecting_cache_no_platform)
  && subset per_module_options attr_names && subset options_affecting_cache attr_names
  && subset ["cache_dir"; "python_version"] cache_dir_reads
  && negb (mem "cache_dir" per_module_options) && negb (mem "python_version" per_module_options)
  && subset post_load_entry ["format_messages"; "simplify_path"].


Definition failing : list string := filter (fun a => negb (check_attr a)) attr_names.

Definition findings : list string :=
  map fst (filter (fun p => match snd p with Finding => true | _ => false end) classification).

(* no attribute is classified `finding` (decides the table half of the full statement) *)
Definition no_finding_b : bool :=
  forallb (fun a => match class_of a with Some Finding | None => false | Some _ => true end) attr_names.

(* every attribute classified `finding` is one of the explicitly listed by_design ones, and conversely *)
Definition only_by_design_b : bool :=
  forallb (fun a => match class_of a with Some Finding => mem a by_design | Some _ => true | None => false end) attr_names
  && forallb (fun a => match class_of a with Some Finding => true | _ => false end) by_design.

(* every read of an option inside an analysis module is a read of a key attribute (in the snapshot), of a dir attribute
   (selects the cache directory), or a reviewed read (attribute, file) of an inert attribute *)
Definition reviewed_of (a : string) : list string :=
  match find (fun p => String.eqb (fst p) a) reviewed_reads with Some p => snd p | None => [] end.

Definition read_ok (a f : string) : bool :=
  match class_of a with
  | Some Key | Some Dir => true
  | Some Inert => mem f (reviewed_of a)
  | _ => false
  end.

Definition analysis_reads_ok_b : bool :=
  forallb (fun p => forallb (read_ok (fst p)) (snd p)) analysis_reads
  && forallb (fun p => match class_of (fst p) with Some Inert => true | _ => false end) reviewed_reads.

Definition count_reads (c : oclass -> bool) : nat :=
  List.length (filter (fun p => match class_of (fst p) with Some x => c x | None => false end) analysis_reads).
