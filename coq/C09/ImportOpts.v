(* C09: State.suppressed_deps_opts / Options.dep_import_options (definitions only).
   A module's cache entry records, for every SUPPRESSED dependency (missing, or skipped by follow_imports) whose import
   priority is covered, the triple (name, import options of the dependency's own config section, suppression reason);
   State.is_fresh compares it with the value computed from the current options.  This is the `imp` component of
   Model.reusable. *)
From Coq Require Import List String Bool Arith.
From C09 Require Import Model.
From Gen Require Import OptionsTable.
Import ListNotations.
Open Scope string_scope.

Record sdep := { d_name : string; d_prio : nat; d_reason : string }.

(* Options.dep_import_options of the dependency's resolved options *)
Definition dep_import_options (ro : opts) : list value := values_of import_option_names ro.

Definition record_of (resolve_dep : string -> opts) (d : sdep) : string * list value * string :=
  (d_name d, dep_import_options (resolve_dep (d_name d)), d_reason d).

(* cov = the generated OptionsTable.sdo_covered on the current tree *)
Definition suppressed_deps_opts (cov : nat -> bool) (resolve_dep : string -> opts) (sup : list sdep) :=
  map (record_of resolve_dep) (filter (fun d => cov (d_prio d)) sup).

(* import priorities of imports that can produce diagnostics in the importer (everything except PRI_INDIRECT):
   top-level from-import, top-level import, import inside a function, import under TYPE_CHECKING / MYPY *)
Definition diag_priorities : list nat := [pri_high; pri_med; pri_low; pri_mypy].

Definition priorities_covered_b : bool := forallb sdo_covered diag_priorities && negb (sdo_covered pri_indirect).

(* the seeded mutant: `< PRI_LOW` *)
Definition mutant_cov (p : nat) : bool := Nat.ltb p pri_low.
