(* C10 (a): evaluating a module DAG gives the same result for every topological processing order.

   Contract (Section variable, monitored by S(ii), not proved): the result of analysing a module is a function
   `analyze` of its own source and of the results of its dependencies (taken in the module's own import order). *)
From Coq Require Import List PArith Bool Permutation.
From C10 Require Import Model.
Import ListNotations.

Section Dag.
  Variables (S R : Type).
  Variable deps : positive -> list positive.
  Variable src : positive -> S.
  Variable analyze : S -> list (option R) -> R.

  Notation eval := (eval_order deps src analyze).
  Notation stepf := (step deps src analyze).

  (* ord is a processing order: no module twice, every dependency of a module is processed before it *)
  Inductive topological : list positive -> Prop :=
  | topo_nil : topological []
  | topo_snoc : forall ord n, topological ord -> ~ In n ord -> incl (deps n) ord -> topological (ord ++ [n]).

  Lemma eval_snoc : forall ord n, eval (ord ++ [n]) = stepf (eval ord) n.
  Proof. intros. unfold eval_order. rewrite fold_left_app. reflexivity. Qed.

  Lemma topo_closed : forall ord, topological ord -> forall m, In m ord -> incl (deps m) ord.
  Proof.
    induction 1; intros m Hm; [inversion Hm|].
    apply in_app_or in Hm. destruct Hm as [Hm|[Hm|[]]].
    - intros d Hd. apply in_or_app. left. eapply IHtopological; eauto.
    - subst. intros d Hd. apply in_or_app. left. auto.
  Qed.

  Lemma eval_outside : forall ord n, ~ In n ord -> eval ord n = None.
  Proof.
    intros ord; induction ord as [|x ord IH] using rev_ind; intros n Hn; [reflexivity|].
    rewrite eval_snoc. unfold step, set.
    destruct (Pos.eqb_spec n x).
    - subst. exfalso. apply Hn. apply in_or_app. right. left. reflexivity.
    - apply IH. intro. apply Hn. apply in_or_app. auto.
  Qed.

  (* the final environment satisfies the defining equations of the DAG *)
  Definition solves (e : positive -> option R) (ord : list positive) : Prop :=
    forall n, In n ord -> e n = Some (analyze (src n) (map e (deps n))).

  Lemma eval_solves : forall ord, topological ord -> solves (eval ord) ord.
  Proof.
    induction 1 as [|ord n T IH Hn Hd]; intros m Hm; [inversion Hm|].
    rewrite eval_snoc.
    assert (Hmap : forall k, incl (deps k) ord -> map (stepf (eval ord) n) (deps k) = map (eval ord) (deps k)).
    { intros k Hk. apply map_ext_in. intros d Hd'. unfold step, set.
      destruct (Pos.eqb_spec d n); auto. subst. exfalso. apply Hn. apply Hk. exact Hd'. }
    apply in_app_or in Hm. destruct Hm as [Hm|[Hm|[]]].
    - rewrite (Hmap m (topo_closed ord T m Hm)).
      unfold step at 1, set. destruct (Pos.eqb_spec m n); [subst; contradiction|]. apply IH; auto.
    - subst m. rewrite (Hmap n Hd). unfold step, set. rewrite Pos.eqb_refl. reflexivity.
  Qed.

  (* over a DAG the equations have at most one solution *)
  Lemma solves_unique : forall ord, topological ord -> forall e e', solves e ord -> solves e' ord ->
    forall n, In n ord -> e n = e' n.
  Proof.
    induction 1 as [|ord n T IH Hn Hd]; intros e e' He He' m Hm; [inversion Hm|].
    assert (Hsub : forall f, solves f (ord ++ [n]) -> solves f ord).
    { intros f Hf k Hk. apply Hf. apply in_or_app. auto. }
    apply in_app_or in Hm. destruct Hm as [Hm|[Hm|[]]].
    - apply IH; auto.
    - subst m. rewrite (He n), (He' n) by (apply in_or_app; right; left; reflexivity).
      f_equal. f_equal. apply map_ext_in. intros d Hd'. apply IH; auto.
  Qed.

  Theorem dag_eval_order_independent : forall ord ord',
    topological ord -> topological ord' -> (forall n, In n ord <-> In n ord') ->
    forall n, eval ord n = eval ord' n.
  Proof.
    intros ord ord' T T' Same n.
    destruct (in_dec Pos.eq_dec n ord) as [Hin|Hout].
    - apply (solves_unique ord T); auto.
      + apply eval_solves; auto.
      + intros k Hk. apply (eval_solves ord' T'). apply Same. exact Hk.
    - rewrite (eval_outside ord n Hout). symmetry. apply eval_outside. intro H. apply Hout. apply Same. exact H.
  Qed.

  Lemma topological_NoDup : forall ord, topological ord -> NoDup ord.
  Proof.
    induction 1; [constructor|]. apply NoDup_rev in IHtopological.
    rewrite <- (rev_involutive (ord ++ [n])). apply NoDup_rev. rewrite rev_app_distr. simpl.
    constructor; auto. rewrite <- in_rev. auto.
  Qed.

  (* the diagnostics: each module's messages are a function of its result; the SET printed for the whole program
     (a multiset here: permutation) is independent of the processing order *)
  Variable M : Type.
  Variable messages : positive -> option R -> list M.

  Definition all_messages (ord : list positive) : list M := flat_map (fun n => messages n (eval ord n)) ord.

  Lemma flat_map_perm : forall (A B : Type) (f : A -> list B) l l', Permutation l l' ->
    Permutation (flat_map f l) (flat_map f l').
  Proof.
    intros A B f l l' P; induction P; simpl; auto.
    - apply Permutation_app_head; auto.
    - rewrite !app_assoc. apply Permutation_app_tail. apply Permutation_app_comm.
    - eapply perm_trans; eauto.
  Qed.

  Theorem diagnostics_set_order_independent : forall ord ord',
    topological ord -> topological ord' -> (forall n, In n ord <-> In n ord') ->
    Permutation (all_messages ord) (all_messages ord').
  Proof.
    intros ord ord' T T' Same. unfold all_messages.
    rewrite (flat_map_ext _ (fun n => messages n (eval ord' n))).
    - apply flat_map_perm. apply NoDup_Permutation; auto using topological_NoDup.
    - intros n. rewrite (dag_eval_order_independent ord ord' T T' Same n). reflexivity.
  Qed.
End Dag.
