(* C10 (b), final round: graph_utils.topsort (Kahn by levels) followed by build.sorted_components' per-level
   `sorted(ready, key=...)`: the list of levels is a function of the graph AS A SET of vertices and edges.  It does not
   depend on the insertion order of the `data` dict, on the enumeration order of the dependency sets, nor on the
   iteration order of the `ready` sets (modelled by arbitrary `shuffle` functions). *)
From Coq Require Import List PArith ZArith Bool Permutation Lia.
From C10 Require Import Model Sorted.
Import ListNotations.

Definition memp (x : positive) (l : list positive) : bool := existsb (Pos.eqb x) l.

Lemma memp_In : forall x l, memp x l = true <-> In x l.
Proof.
  intros x l. unfold memp. rewrite existsb_exists. split.
  - intros [y [Hy E]]. apply Pos.eqb_eq in E. subst; auto.
  - intro H. exists x. split; auto. apply Pos.eqb_refl.
Qed.

Definition same_members (a b : list positive) : Prop := forall x, In x a <-> In x b.

Lemma memp_same : forall x a b, same_members a b -> memp x a = memp x b.
Proof.
  intros x a b H. destruct (memp x a) eqn:E1; destruct (memp x b) eqn:E2; auto.
  - apply memp_In in E1. apply H in E1. apply memp_In in E1. congruence.
  - apply memp_In in E2. apply H in E2. apply memp_In in E2. congruence.
Qed.

Section Topsort.
  (* a vertex is ready when it is not done and all its dependencies (self-dependencies ignored) are done *)
  Definition is_ready (deps : positive -> list positive) (done : list positive) (n : positive) : bool :=
    negb (memp n done) && forallb (fun d => memp d done || Pos.eqb d n) (deps n).

  Definition ready (deps : positive -> list positive) (nodes done : list positive) : list positive :=
    filter (is_ready deps done) nodes.

  (* the levels yielded by topsort; `nodes` is the dict in insertion order *)
  Fixpoint layers (deps : positive -> list positive) (fuel : nat) (nodes done : list positive) : list (list positive) :=
    match fuel with
    | O => []
    | S f => match ready deps nodes done with
             | [] => []
             | r => r :: layers deps f nodes (r ++ done)
             end
    end.

  (* sorted_components: each level is a SET, enumerated in some order (shuffle), then sorted(ready, key=-order) *)
  Definition sorted_levels (key : positive -> Z) (shuffle : list positive -> list positive)
             (deps : positive -> list positive) (nodes : list positive) : list (list positive) :=
    map (fun r => isort key neg_leb (shuffle r)) (layers deps (length nodes) nodes []).
End Topsort.

Lemma forallb_same : forall (f : positive -> bool) a b, same_members a b -> forallb f a = forallb f b.
Proof.
  intros f a b H. destruct (forallb f a) eqn:E1; destruct (forallb f b) eqn:E2; auto.
  - exfalso. assert (forallb f b = true); [|congruence]. apply forallb_forall. intros x Hx.
    apply (proj1 (forallb_forall f a) E1). apply H. exact Hx.
  - exfalso. assert (forallb f a = true); [|congruence]. apply forallb_forall. intros x Hx.
    apply (proj1 (forallb_forall f b) E2). apply H. exact Hx.
Qed.

Lemma forallb_ext' : forall (f g : positive -> bool) l, (forall x, f x = g x) -> forallb f l = forallb g l.
Proof. intros f g l H; induction l; simpl; auto. rewrite H, IHl. reflexivity. Qed.

Lemma is_ready_same : forall deps deps' done done' n,
  (forall m, same_members (deps m) (deps' m)) -> same_members done done' ->
  is_ready deps done n = is_ready deps' done' n.
Proof.
  intros deps deps' done done' n Hd Hs. unfold is_ready.
  rewrite (memp_same n done done' Hs). f_equal.
  rewrite (forallb_same _ (deps n) (deps' n) (Hd n)).
  apply forallb_ext'. intro d. rewrite (memp_same d done done' Hs). reflexivity.
Qed.

Lemma ready_perm : forall deps deps' nodes nodes' done done',
  (forall m, same_members (deps m) (deps' m)) -> same_members done done' -> Permutation nodes nodes' ->
  Permutation (ready deps nodes done) (ready deps' nodes' done').
Proof.
  intros deps deps' nodes nodes' done done' Hd Hs P. unfold ready.
  rewrite (filter_ext _ (is_ready deps' done')).
  - apply filter_perm. exact P.
  - intro n. apply is_ready_same; auto.
Qed.

Lemma same_members_app : forall r r' d d', Permutation r r' -> same_members d d' -> same_members (r ++ d) (r' ++ d').
Proof.
  intros r r' d d' P H x. rewrite !in_app_iff. split; intros [A|A]; auto.
  - left. eapply Permutation_in; eauto.
  - right. apply H; auto.
  - left. eapply Permutation_in; [apply Permutation_sym|]; eauto.
  - right. apply H; auto.
Qed.

Lemma layers_perm : forall deps deps' fuel nodes nodes' done done',
  (forall m, same_members (deps m) (deps' m)) -> same_members done done' -> Permutation nodes nodes' ->
  Forall2 (@Permutation positive) (layers deps fuel nodes done) (layers deps' fuel nodes' done').
Proof.
  intros deps deps' fuel; induction fuel as [|f IH]; intros nodes nodes' done done' Hd Hs P; simpl; [constructor|].
  pose proof (ready_perm deps deps' nodes nodes' done done' Hd Hs P) as R.
  destruct (ready deps nodes done) as [|x r] eqn:E1; destruct (ready deps' nodes' done') as [|y r'] eqn:E2.
  - constructor.
  - apply Permutation_nil in R. discriminate.
  - apply Permutation_sym in R. apply Permutation_nil in R. discriminate.
  - constructor; [exact R|]. apply IH; auto.
    change (same_members ((x :: r) ++ done) ((y :: r') ++ done')). apply same_members_app; auto.
Qed.

Lemma layers_are_filters : forall deps fuel nodes done l,
  In l (layers deps fuel nodes done) -> exists p, l = filter p nodes.
Proof.
  intros deps fuel; induction fuel as [|f IH]; intros nodes done l H; simpl in H; [contradiction|].
  destruct (ready deps nodes done) as [|x r] eqn:E; [contradiction|].
  destruct H as [H|H].
  - exists (is_ready deps done). rewrite <- H. symmetry. exact E.
  - eapply IH; eauto.
Qed.

Lemma sorted_levels_invariant : forall key shuffle shuffle' deps deps' nodes nodes',
  (forall l, Permutation (shuffle l) l) -> (forall l, Permutation (shuffle' l) l) ->
  (forall m, same_members (deps m) (deps' m)) -> Permutation nodes nodes' -> NoDup (map key nodes) ->
  sorted_levels key shuffle deps nodes = sorted_levels key shuffle' deps' nodes'.
Proof.
  intros key sh sh' deps deps' nodes nodes' Hsh Hsh' Hd P ND. unfold sorted_levels.
  rewrite <- (Permutation_length P).
  pose proof (layers_perm deps deps' (length nodes) nodes nodes' [] [] Hd (fun x => iff_refl _) P) as F.
  pose proof (layers_are_filters deps (length nodes) nodes []) as Fl.
  induction F as [|l l' ls ls' Pl F IHF]; simpl; [reflexivity|].
  f_equal.
  - apply (isort_perm_invariant _ _ key neg_leb neg_leb_total neg_leb_trans neg_leb_antisym).
    + eapply perm_trans; [apply Hsh|]. eapply perm_trans; [exact Pl|]. apply Permutation_sym. apply Hsh'.
    + destruct (Fl l (or_introl eq_refl)) as [p Hp].
      eapply Permutation_NoDup; [apply Permutation_map; apply Permutation_sym; apply Hsh|].
      rewrite Hp. apply NoDup_map_filter. exact ND.
  - apply IHF. intros l0 H0. apply Fl. right. exact H0.
Qed.

(* completeness of the model as a topological sort: every vertex of an acyclic graph is yielded -- not needed for
   determinism; the correspondence with the real topsort (stage C) checks the levels themselves. *)

(* ---------------------------------------------------------------- order-insensitive folds over sets
   A fold whose step commutes gives the same result for every enumeration of the set.  Instance: the sort key of
   sorted_components, min(graph[id].order for id in scc.mod_ids), iterates a SET. *)
Lemma fold_left_perm_comm : forall (A B : Type) (f : A -> B -> A),
  (forall a x y, f (f a x) y = f (f a y) x) ->
  forall l l', Permutation l l' -> forall a, fold_left f l a = fold_left f l' a.
Proof.
  intros A B f Hc l l' P; induction P; intro a; simpl; auto.
  - rewrite Hc. reflexivity.
  - rewrite IHP1. apply IHP2.
Qed.

Definition min_order (order : positive -> Z) (scc : list positive) (start : Z) : Z :=
  fold_left (fun acc id => Z.min acc (order id)) scc start.

Lemma min_order_perm : forall order scc scc' start,
  Permutation scc scc' -> min_order order scc start = min_order order scc' start.
Proof.
  intros order scc scc' start P. unfold min_order. apply fold_left_perm_comm; auto.
  intros a x y. lia.
Qed.
