(* C10 — executable models only (no proofs).

   (b) the places where mypy canonicalises an order before printing / serialising:
         sorted(...) is CPython's stable sort -> `isort` (stable insertion sort, same input/output relation);
         str comparison is lexicographic on code points -> `lex_leb` on `list N`.
   (a) evaluation of a module DAG in a given processing order.
   Models of: nodes.SymbolTable.write (the JSON format is canonicalised by util.json_dumps(sort_keys), same model;
   SymbolTable.serialize itself iterates in insertion order), the sorted(<set>) string lists
   (future_import_flags, slots, immutable, required_keys, readonly_keys, scc.mod_ids, unused-ignore codes),
   build.transitive_dep_hash, State.patch_indirect_dependencies, build.order_ascc (uniform-priority case),
   build.sorted_components (`sorted_ready`), build.deps_to_json (sorted or not: generated flag), errors.Errors.sort_messages /
   sort_within_context. *)
From Coq Require Import List NArith ZArith Bool.
Import ListNotations.

(* ---------------------------------------------------------------- stable sort by key *)
Section Sort.
  Variables (A K : Type) (key : A -> K) (leb : K -> K -> bool).

  (* x was EARLIER in the input than everything in l: it goes before the first element whose key is >= its key,
     hence before equal keys: stable *)
  Fixpoint insert (x : A) (l : list A) : list A :=
    match l with
    | [] => [x]
    | y :: r => if leb (key x) (key y) then x :: y :: r else y :: insert x r
    end.

  Definition isort (l : list A) : list A := fold_right insert [] l.
End Sort.
Arguments insert {A K} key leb x l.
Arguments isort {A K} key leb l.

(* Python `str` ordering: lexicographic on code points, a proper prefix is smaller *)
Definition name := list N.

Fixpoint lex_leb (a b : name) : bool :=
  match a, b with
  | [], _ => true
  | _ :: _, [] => false
  | x :: a', y :: b' => if N.ltb x y then true else if N.eqb x y then lex_leb a' b' else false
  end.

Fixpoint name_eqb (a b : name) : bool :=
  match a, b with
  | [], [] => true
  | x :: a', y :: b' => N.eqb x y && name_eqb a' b'
  | _, _ => false
  end.

Definition sorted_names (l : list name) : list name := isort (fun x => x) lex_leb l.

(* key of `sorted(ascc, key=lambda id: -graph[id].order)` *)
Definition neg_leb (a b : Z) : bool := Z.leb (- a) (- b).

(* ---------------------------------------------------------------- serialisation choke points *)
Definition bytes := list N.

Section Writers.
  (* un-modelled leaf writers: any functions *)
  Variable V : Type.
  Variable write_str : name -> bytes.
  Variable write_int : nat -> bytes.
  Variable write_value : name -> V -> bytes.      (* SymbolTableNode.write(data, fullname, key) / Type.write *)
  Variable no_serialize : V -> bool.
  Variable builtins_name : name.                   (* "__builtins__" *)
  Variable tag_dict : bytes.

  Definition keep (kv : name * V) : bool := negb (name_eqb (fst kv) builtins_name || no_serialize (snd kv)).

  (* nodes.SymbolTable.write: `items` is the dict in insertion order *)
  Definition symtab_write (items : list (name * V)) : bytes :=
    tag_dict ++ write_int (length (filter keep items)) ++
    flat_map (fun kv => write_str (fst kv) ++ write_value (fst kv) (snd kv))
             (filter keep (isort fst lex_leb items)).

  (* write_str_list(data, sorted(<set of str>)) : `enum` is the set in whatever order CPython iterates it *)
  Definition str_set_write (enum : list name) : bytes :=
    write_int (length enum) ++ flat_map write_str (sorted_names enum).

  (* build.deps_to_json: {k: sorted(v)} when `sorted_flag` (the flag is regenerated from the source:
     Gen.SortedSites.deps_to_json_sorted); {k: list(v)} -- SET ITERATION ORDER -- otherwise *)
  Definition deps_targets_write (sorted_flag : bool) (enum : list name) : bytes :=
    write_int (length enum) ++ flat_map write_str (if sorted_flag then sorted_names enum else enum).
End Writers.

(* build.transitive_dep_hash: deps are (id, is_indirect, trans_dep_hash of the dep); `digest` un-modelled *)
Section TransDep.
  Variable write_str : name -> bytes.
  Variable write_bytes : bytes -> bytes.
  Variable digest : bytes -> bytes.
  Definition dep := (name * (bool * bytes))%type.
  Definition dep_id (d : dep) : name := fst d.

  (* single-module fast path: State.dependencies is deduplicated; multi-module path: `enum` enumerates deps_set *)
  Definition transitive_dep_hash (enum : list dep) (in_scc : name -> bool) : bytes :=
    let direct := filter (fun d => negb (fst (snd d))) enum in
    digest (flat_map (fun d => write_str (dep_id d) ++
                               (if in_scc (dep_id d) then [] else write_bytes (snd (snd d))))
                     (isort dep_id lex_leb direct)).
End TransDep.

(* State.patch_indirect_dependencies: `enum` enumerates the set  encountered - existing_deps ;
   add_dependency appends to self.dependencies when not yet present *)
Section Indirect.
  Variable in_modules : name -> bool.
  Definition add_dependency (deps : list name) (d : name) : list name :=
    if existsb (name_eqb d) deps then deps else deps ++ [d].
  Definition patch_indirect (deps : list name) (enum : list name) : list name :=
    fold_left (fun acc d => if in_modules d then add_dependency acc d else acc) (sorted_names enum) deps.
End Indirect.

(* build.order_ascc, uniform priorities: sorted(ascc, key=-order) over a SET of ids; sorted_components: the same
   key over a set of SCCs (key = min order in the SCC) *)
Definition order_ascc (enum : list (name * Z)) : list name := map fst (isort snd neg_leb enum).

(* ---------------------------------------------------------------- Errors.sort_messages *)
Record einfo := EInfo {
  e_id : nat;               (* identity of the message (stands for text etc.) *)
  e_ctx : nat;              (* import_ctx, compared with == *)
  e_line : Z; e_col : Z; e_end_line : Z; e_end_col : Z;
  e_code : nat;             (* ErrorCode identity (0 = None) *)
  e_prio : Z }.

(* maximal runs of neighbours related by `same` (the while-loops compare errors[i+1] with errors[i]) *)
Fixpoint runs {A} (same : A -> A -> bool) (l : list A) : list (list A) :=
  match l with
  | [] => []
  | x :: r =>
      match runs same r with
      | (y :: g) :: gs => if same y x then (x :: y :: g) :: gs else [x] :: (y :: g) :: gs
      | _ => [[x]]
      end
  end.

Definition pair_leb (a b : Z * Z) : bool :=
  if Z.ltb (fst a) (fst b) then true else if Z.eqb (fst a) (fst b) then Z.leb (snd a) (snd b) else false.

Definition same_ctx (a b : einfo) : bool := Nat.eqb (e_ctx a) (e_ctx b).
Definition same_pos_code (a b : einfo) : bool :=
  Z.eqb (e_line a) (e_line b) && Z.eqb (e_col a) (e_col b) && Z.eqb (e_end_line a) (e_end_line b) &&
  Z.eqb (e_end_col a) (e_end_col b) && Nat.eqb (e_code a) (e_code b).

Definition linecol (e : einfo) : Z * Z := (e_line e, e_col e).

Definition sort_within_context (l : list einfo) : list einfo :=
  concat (map (isort e_prio Z.leb) (runs same_pos_code l)).

Definition sort_messages (l : list einfo) : list einfo :=
  concat (map (fun run => sort_within_context (isort linecol pair_leb run)) (runs same_ctx l)).

(* ---------------------------------------------------------------- (a) DAG evaluation *)
Section Dag.
  Variables (S R : Type).
  Variable deps : positive -> list positive.       (* a module's dependencies, in ITS OWN import order *)
  Variable src : positive -> S.
  Variable analyze : S -> list (option R) -> R.     (* result of a module from its source and its deps' results *)

  Definition env := positive -> option R.
  Definition empty : env := fun _ => None.
  Definition set (e : env) (n : positive) (r : R) : env := fun m => if Pos.eqb m n then Some r else e m.

  Definition step (e : env) (n : positive) : env := set e n (analyze (src n) (map e (deps n))).

  (* process the modules in the order given *)
  Definition eval_order (ord : list positive) : env := fold_left step ord empty.
End Dag.
Arguments eval_order {S R} deps src analyze ord.
Arguments step {S R} deps src analyze e n.
Arguments set {R} e n r.
Arguments empty {R}.
