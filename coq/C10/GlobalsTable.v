(* C10 (c): finite table theorem over the process-global mutable state listed by tools/extractors/t10.py, and the
   frame argument that turns the table into history independence. *)
From Coq Require Import List String Bool.
From Gen Require Import Globals SortedSites.
Import ListNotations.
Open Scope string_scope.

Definition gclass_eqb (a b : gclass) : bool :=
  match a, b with
  | ResetPerBuild, ResetPerBuild | ImmutableAfterImport, ImmutableAfterImport
  | CacheTransparent, CacheTransparent | Finding, Finding => true
  | _, _ => false
  end.

Fixpoint lookup (g : string) (t : list (string * gclass)) : option gclass :=
  match t with
  | [] => None
  | (k, c) :: r => if String.eqb g k then Some c else lookup g r
  end.

Definition mem (g : string) (l : list string) : bool := existsb (String.eqb g) l.

Definition row_ok (row : string * (string * bool)) : bool :=
  match lookup (fst row) classification with
  | None => false                                                (* a new global nobody has looked at *)
  | Some ResetPerBuild => mem (fst row) reset_set                (* claimed reset: must really be reset *)
  | Some ImmutableAfterImport => negb (snd (snd row))            (* claimed constant: no mutation site inside any function *)
  | Some CacheTransparent => true                                (* reason recorded in globals_class.json *)
  | Some Finding => true                                         (* reported by the harness as a finding *)
  end.

(* the reset entry points that build.build / build_inner must call *)
Definition required_reset_calls : list string :=
  ["instance_cache.reset"; "reset_known_modules_cache"; "reset_global_state"].

(* no stale rows: every classified name is a global that exists now *)
Definition class_row_ok (row : string * gclass) : bool := existsb (fun g => String.eqb (fst row) (fst g)) globals.

Lemma table_check : forallb row_ok globals = true.
Proof. vm_compute. reflexivity. Qed.

Lemma reset_calls_check : forallb (fun r => mem r build_reset_calls) required_reset_calls = true.
Proof. vm_compute. reflexivity. Qed.

Lemma classification_check : forallb class_row_ok classification = true.
Proof. vm_compute. reflexivity. Qed.

Lemma mem_In : forall g l, mem g l = true -> In g l.
Proof.
  unfold mem; intros g l H. apply existsb_exists in H. destruct H as [x [Hx E]].
  apply String.eqb_eq in E. subst; auto.
Qed.

Lemma globals_table : forall id kind mutated, In (id, (kind, mutated)) globals ->
  exists c, lookup id classification = Some c /\
            (c = ResetPerBuild -> In id reset_set) /\
            (c = ImmutableAfterImport -> mutated = false).
Proof.
  intros id kind mutated Hin.
  pose proof (proj1 (forallb_forall row_ok globals) table_check _ Hin) as H.
  unfold row_ok in H. cbn [fst snd] in H.
  destruct (lookup id classification) as [c|]; [|discriminate].
  exists c. split; [reflexivity|]. split; intro E; subst c.
  - apply mem_In; exact H.
  - apply negb_true_iff in H. exact H.
Qed.

Lemma build_calls_resets : forall r, In r required_reset_calls -> In r build_reset_calls.
Proof.
  intros r Hr. apply mem_In.
  exact (proj1 (forallb_forall _ required_reset_calls) reset_calls_check _ Hr).
Qed.

(* every modelled choke point is still written the way Model.v assumes (syntactic check by t10, regenerated) *)
Lemma sites_check : forallb (fun r : string * bool => snd r) sorted_sites = true.
Proof. vm_compute. reflexivity. Qed.

Lemma sites_table : forall site b, In (site, b) sorted_sites -> b = true.
Proof.
  intros site b Hin. exact (proj1 (forallb_forall _ sorted_sites) sites_check _ Hin).
Qed.

(* ---------------------------------------------------------------- frame argument
   A process-global state is a valuation of the listed globals.  `reset` overwrites the reset set with initial
   values.  If the result of a build depends on the state only through globals that are either reset or have the
   same value in both states (immutable after import; transparent ones are the monitored contract), then the
   result after ANY history equals the result in a fresh process. *)
Section Frame.
  Variables (Val In_ Out : Type).
  Variable init : string -> Val.
  Variable resets : list string.
  Definition gstate := string -> Val.
  Definition reset (g : gstate) : gstate := fun f => if mem f resets then init f else g f.

  Variable build : gstate -> In_ -> Out.
  Variable reads : list string.
  Hypothesis build_reads_only : forall g g' i, (forall f, In f reads -> g f = g' f) -> build g i = build g' i.

  Lemma history_independent : forall g g' i,
    (forall f, In f reads -> mem f resets = true \/ g f = g' f) ->
    build (reset g) i = build (reset g') i.
  Proof.
    intros g g' i H. apply build_reads_only. intros f Hf. unfold reset.
    destruct (mem f resets) eqn:E; auto. destruct (H f Hf) as [H1|H1]; [congruence|auto].
  Qed.
End Frame.
