(* C10 (b), final round: every iteration site of the functions that produce cache records and processing orders is
   sorted (machine-checked), of ordered origin, an order-insensitive fold, or a listed exception (known finding). *)
From Coq Require Import List String Bool.
From Gen Require Import IterSites.
Import ListNotations.
Open Scope string_scope.

Fixpoint itlookup (s : string) (t : list (string * itclass)) : option itclass :=
  match t with
  | [] => None
  | (k, c) :: r => if String.eqb s k then Some c else itlookup s r
  end.

Definition smem (s : string) (l : list string) : bool := existsb (String.eqb s) l.

Definition itrow_ok (row : string * bool) : bool :=
  match itlookup (fst row) iteration_classification with
  | None => false                          (* a new unsorted iteration nobody has looked at *)
  | Some ISorted => snd row                (* claimed sorted: must be syntactically sorted *)
  | Some IException => smem (fst row) iteration_exceptions
  | Some _ => true                         (* reason recorded in globals_class.json *)
  end.

Definition itclass_row_ok (row : string * itclass) : bool :=
  existsb (fun s => String.eqb (fst row) (fst s)) iteration_sites.

Lemma iter_check : forallb itrow_ok iteration_sites = true.
Proof. vm_compute. reflexivity. Qed.

Lemma iter_no_stale : forallb itclass_row_ok iteration_classification = true.
Proof. vm_compute. reflexivity. Qed.

Lemma smem_In : forall s l, smem s l = true -> In s l.
Proof.
  unfold smem; intros s l H. apply existsb_exists in H. destruct H as [x [Hx E]].
  apply String.eqb_eq in E. subst; auto.
Qed.

Lemma iter_table : forall site b, In (site, b) iteration_sites ->
  exists c, itlookup site iteration_classification = Some c /\
            (c = ISorted -> b = true) /\ (c = IException -> In site iteration_exceptions).
Proof.
  intros site b Hin.
  pose proof (proj1 (forallb_forall itrow_ok iteration_sites) iter_check _ Hin) as H.
  unfold itrow_ok in H. cbn [fst snd] in H.
  destruct (itlookup site iteration_classification) as [c|]; [|discriminate].
  exists c. split; [reflexivity|]. split; intro E; subst c.
  - exact H.
  - apply smem_In. exact H.
Qed.

Lemma iter_exceptions_now : iteration_exceptions = [].
Proof. reflexivity. Qed.
