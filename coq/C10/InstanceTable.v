(* C10 (c), round 3: the reset entry points are called on EVERY path of build()/build_inner(), and the per-build
   objects' containers / memos (BuildManager, FindModuleCache, FileSystemCache) are classified; for lookup memos every
   statement that writes into them is a reviewed one (so that an entry is a function of its key alone and results
   cannot depend on which lookup -- which file -- came first). *)
From Coq Require Import List String Bool.
From Gen Require Import Globals InstanceState.
From C10 Require Import GlobalsTable.
Import ListNotations.
Open Scope string_scope.

Fixpoint list_eqb (a b : list string) : bool :=
  match a, b with
  | [], [] => true
  | x :: a', y :: b' => String.eqb x y && list_eqb a' b'
  | _, _ => false
  end.

Lemma list_eqb_eq : forall a b, list_eqb a b = true -> a = b.
Proof.
  induction a as [|x a IH]; destruct b as [|y b]; simpl; intro H; try discriminate; auto.
  apply andb_true_iff in H. destruct H as [H1 H2]. apply String.eqb_eq in H1. subst. f_equal. auto.
Qed.

Fixpoint ilookup (f : string) (t : list (string * (iclass * list string))) : option (iclass * list string) :=
  match t with
  | [] => None
  | (k, v) :: r => if String.eqb f k then Some v else ilookup f r
  end.

Definition irow_ok (row : string * list string) : bool :=
  match ilookup (fst row) instance_classification with
  | None => false                                            (* a container nobody has looked at *)
  | Some (PerBuildInstance, _) => true                       (* owner created per build: instance_creators *)
  | Some (OrderSensitiveMemo, approved) => list_eqb (snd row) approved   (* exactly the reviewed write sites *)
  end.

Lemma instance_check : forallb irow_ok instance_fields = true.
Proof. vm_compute. reflexivity. Qed.

Lemma creators_check : forallb (fun r : string * bool => snd r) instance_creators = true.
Proof. vm_compute. reflexivity. Qed.

Lemma unconditional_check : forallb (fun r => mem r build_reset_calls_unconditional) required_reset_calls = true.
Proof. vm_compute. reflexivity. Qed.

Lemma instance_table : forall f ws, In (f, ws) instance_fields ->
  exists c approved, ilookup f instance_classification = Some (c, approved) /\
                     (c = OrderSensitiveMemo -> ws = approved).
Proof.
  intros f ws Hin.
  pose proof (proj1 (forallb_forall irow_ok instance_fields) instance_check _ Hin) as H.
  unfold irow_ok in H. cbn [fst snd] in H.
  destruct (ilookup f instance_classification) as [[c approved]|]; [|discriminate].
  exists c, approved. split; [reflexivity|]. intro E. subst c. apply list_eqb_eq. exact H.
Qed.

Lemma creators_table : forall n b, In (n, b) instance_creators -> b = true.
Proof. intros n b Hin. exact (proj1 (forallb_forall _ instance_creators) creators_check _ Hin). Qed.

Lemma resets_unconditional : forall r, In r required_reset_calls -> In r build_reset_calls_unconditional.
Proof.
  intros r Hr. apply mem_In. exact (proj1 (forallb_forall _ required_reset_calls) unconditional_check _ Hr).
Qed.
