(* C10 — the property at full strength.  Only parts of it are proved (Properties.v); the rest is searched on the
   implementation by tools/harness/C10.py (stage S) because Coq cannot see CPython's set iteration order. *)
From Coq Require Import List NArith ZArith Bool Permutation.
From C10 Require Import Model.
Import ListNotations.

Section Full.
  (* the implementation as a black box *)
  Variables (Program Options Seed Output Cache Record : Type).
  Variable run : Seed -> Options -> list Program (* file arguments, in order *) -> Output * Cache.
  Variable diagnostics : Output -> list Record.     (* the printed lines *)
  Variable acyclic : list Program -> Prop.
  (* a process that has executed the builds `history` before *)
  Variable run_after : list (Options * list Program) -> Seed -> Options -> list Program -> Output * Cache.

  (* (i) text AND order of the diagnostics and every cache record are independent of the hash seed *)
  Definition seed_independent : Prop := forall s s' o files, run s o files = run s' o files.

  (* (ii) without import cycles the SET of diagnostics is independent of the order of the file arguments *)
  Definition argument_order_independent : Prop := forall s o files files',
    acyclic files -> Permutation files files' ->
    forall r, In r (diagnostics (fst (run s o files))) <-> In r (diagnostics (fst (run s o files'))).

  (* (iii) independent of the builds executed earlier in the same process *)
  Definition history_independent_full : Prop := forall history s o files,
    run_after history s o files = run s o files.

  Definition C10_full : Prop := seed_independent /\ argument_order_independent /\ history_independent_full.
End Full.

(* The part of (i) that concerns Errors.sort_messages, at full strength: the printed order of the messages of a
   file does not depend on the order in which the checker produced them.  REFUTED by the faithful model
   (Properties.sort_messages_refuted): the sort key (line, column) is not total. *)
Definition sort_messages_order_insensitive : Prop := forall l l',
  (forall x y, In x l -> In y l -> e_ctx x = e_ctx y) -> Permutation l l' -> sort_messages l = sort_messages l'.

(* Every set that reaches a cache record is written through a sort; for build.deps_to_json this depends on the flag
   regenerated from the source (refuted before fix 6f793e2, proved since: Properties.deps_to_json_perm_invariant). *)
Definition deps_json_enumeration_independent (sorted_flag : bool) : Prop :=
  forall write_str write_int (enum enum' : list name),
  Permutation enum enum' -> NoDup enum ->
  deps_targets_write write_str write_int sorted_flag enum = deps_targets_write write_str write_int sorted_flag enum'.
