(* C10 (b): Errors.sort_messages.

   The real sort key is (line, column) [sorted(errors[i0:i], key=lambda x: (x.line, x.column))] followed, inside a
   run of equal (line, column, end_line, end_column, code), by `priority`.  Both sorts are stable.  The key is NOT
   total on messages: two different messages at the same (line, column) keep their INPUT order.  Hence
     - with pairwise distinct (line, column) inside one import context the output is independent of the order in
       which the checker emitted the messages (sort_messages_perm_invariant_single_ctx);
     - otherwise it is not (sort_messages_refuted): the printed order then is exactly the emission order, and
       whether that order can vary with the hash seed is what S(i) searches for. *)
From Coq Require Import List NArith ZArith Bool Permutation Lia.
From C10 Require Import Model Sorted.
Import ListNotations.

Lemma runs_all_same : forall A (same : A -> A -> bool) l,
  (forall x y, In x l -> In y l -> same x y = true) -> l <> [] -> runs same l = [l].
Proof.
  intros A same l; induction l as [|x r IH]; intros H Hne; [congruence|].
  destruct r as [|y r'].
  - reflexivity.
  - change (runs same (x :: y :: r')) with
      (match runs same (y :: r') with
       | (z :: g) :: gs => if same z x then (x :: z :: g) :: gs else [x] :: (z :: g) :: gs
       | _ => [[x]] end).
    rewrite IH.
    + rewrite H; simpl; auto.
    + intros a b Ha Hb. apply H; right; auto.
    + discriminate.
Qed.

Definition single_ctx (l : list einfo) : Prop := forall x y, In x l -> In y l -> e_ctx x = e_ctx y.

Lemma single_ctx_runs : forall l, single_ctx l -> l <> [] -> runs same_ctx l = [l].
Proof.
  intros l H Hne. apply runs_all_same; auto.
  intros x y Hx Hy. unfold same_ctx. apply Nat.eqb_eq. apply H; auto.
Qed.

Lemma sort_messages_single : forall l, single_ctx l ->
  sort_messages l = sort_within_context (isort linecol pair_leb l).
Proof.
  intros l H. destruct l as [|x r] eqn:E; [reflexivity|].
  unfold sort_messages. rewrite single_ctx_runs; auto; [|discriminate]. simpl. apply app_nil_r.
Qed.

Lemma sort_messages_perm_invariant_single_ctx : forall l l',
  single_ctx l -> Permutation l l' -> NoDup (map linecol l) -> sort_messages l = sort_messages l'.
Proof.
  intros l l' H P ND.
  assert (H' : single_ctx l').
  { intros x y Hx Hy. apply H; eapply Permutation_in; try apply Permutation_sym; eauto. }
  rewrite !sort_messages_single; auto.
  rewrite (isort_perm_invariant _ _ linecol pair_leb pair_leb_total pair_leb_trans pair_leb_antisym _ _ P ND).
  reflexivity.
Qed.

Definition w1 := EInfo 1 0 3 0 3 5 7 0.
Definition w2 := EInfo 2 0 3 0 3 5 8 0.     (* same position, another error code *)
Definition w3 := EInfo 3 0 3 0 3 5 7 0.     (* same position, same code, same priority, another text *)

Lemma sort_messages_refuted :
  exists l l', single_ctx l /\ Permutation l l' /\ sort_messages l <> sort_messages l'.
Proof.
  exists [w1; w2], [w2; w1]. split; [|split].
  - intros x y [Hx|[Hx|[]]] [Hy|[Hy|[]]]; subst; reflexivity.
  - apply perm_swap.
  - vm_compute. discriminate.
Qed.

Lemma sort_messages_refuted_same_code :
  exists l l', single_ctx l /\ Permutation l l' /\ sort_messages l <> sort_messages l'.
Proof.
  exists [w1; w3], [w3; w1]. split; [|split].
  - intros x y [Hx|[Hx|[]]] [Hy|[Hy|[]]]; subst; reflexivity.
  - apply perm_swap.
  - vm_compute. discriminate.
Qed.
