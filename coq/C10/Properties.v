(* Property C10 (PARTIAL) — theorem statements only, each closed by `exact` and followed by Print Assumptions. *)
From Coq Require Import List String NArith ZArith Bool Permutation.
From C10 Require Import Model Sorted Messages Dag GlobalsTable InstanceTable Topsort IterTable Statement.
From Gen Require Import Globals SortedSites InstanceState IterSites.
Import ListNotations.

(* ---- (b) sorted choke points: any two enumerations of the same dict / set give the same bytes ---- *)

(* core: CPython's stable sort with a total order on pairwise distinct keys forgets the input order *)
Theorem sorted_forgets_enumeration_order :
  forall (A K : Type) (key : A -> K) (leb : K -> K -> bool),
    (forall a b, leb a b = true \/ leb b a = true) ->
    (forall a b c, leb a b = true -> leb b c = true -> leb a c = true) ->
    (forall a b, leb a b = true -> leb b a = true -> a = b) ->
    forall l l', Permutation l l' -> NoDup (map key l) -> isort key leb l = isort key leb l'.
Proof. exact isort_perm_invariant. Qed.
Print Assumptions sorted_forgets_enumeration_order.

(* nodes.SymbolTable.write / serialize: for key in sorted(self) *)
Theorem serialize_perm_invariant :
  forall V write_str write_int write_value no_serialize builtins_name tag_dict (items items' : list (name * V)),
    Permutation items items' -> NoDup (map fst items) ->
    symtab_write V write_str write_int write_value no_serialize builtins_name tag_dict items =
    symtab_write V write_str write_int write_value no_serialize builtins_name tag_dict items'.
Proof. exact symtab_write_perm. Qed.
Print Assumptions serialize_perm_invariant.

(* write_str_list(data, sorted(S)) for the str sets: future_import_flags, slots, immutable, required_keys,
   readonly_keys, scc.mod_ids, unused-ignore codes *)
Theorem str_set_perm_invariant :
  forall write_str write_int (enum enum' : list name),
    Permutation enum enum' -> NoDup enum ->
    str_set_write write_str write_int enum = str_set_write write_str write_int enum'.
Proof. exact str_set_write_perm. Qed.
Print Assumptions str_set_perm_invariant.

(* build.transitive_dep_hash (both paths) *)
Theorem transitive_dep_hash_perm_invariant :
  forall write_str write_bytes digest in_scc (enum enum' : list dep),
    Permutation enum enum' -> NoDup (map dep_id enum) ->
    transitive_dep_hash write_str write_bytes digest enum in_scc =
    transitive_dep_hash write_str write_bytes digest enum' in_scc.
Proof. exact transitive_dep_hash_perm. Qed.
Print Assumptions transitive_dep_hash_perm_invariant.

(* State.patch_indirect_dependencies: the dependency list (hence dep_hashes, meta bytes) *)
Theorem patch_indirect_perm_invariant :
  forall in_modules deps (enum enum' : list name),
    Permutation enum enum' -> NoDup enum ->
    patch_indirect in_modules deps enum = patch_indirect in_modules deps enum'.
Proof. exact patch_indirect_perm. Qed.
Print Assumptions patch_indirect_perm_invariant.

(* build.order_ascc / sorted_components: module processing order inside an SCC / among ready SCCs *)
Theorem order_ascc_perm_invariant :
  forall (enum enum' : list (name * Z)),
    Permutation enum enum' -> NoDup (map snd enum) -> order_ascc enum = order_ascc enum'.
Proof. exact order_ascc_perm. Qed.
Print Assumptions order_ascc_perm_invariant.

(* graph_utils.topsort + the per-level sorted(ready, key=-order) of build.sorted_components: the list of levels is a
   function of the graph as a SET of vertices and edges -- independent of the insertion order of the `data` dict
   (nodes ~ nodes'), of the enumeration of each dependency set (deps m, deps' m have the same members) and of the
   iteration order of every `ready` set (shuffle, shuffle' arbitrary permutations); unbounded graphs *)
Theorem sorted_components_levels_order_independent :
  forall key shuffle shuffle' deps deps' nodes nodes',
    (forall l, Permutation (shuffle l) l) -> (forall l, Permutation (shuffle' l) l) ->
    (forall m, same_members (deps m) (deps' m)) -> Permutation nodes nodes' -> NoDup (map key nodes) ->
    sorted_levels key shuffle deps nodes = sorted_levels key shuffle' deps' nodes'.
Proof. exact sorted_levels_invariant. Qed.
Print Assumptions sorted_components_levels_order_independent.

(* order-insensitive folds: a fold whose step commutes does not see the enumeration order of the set it iterates *)
Theorem commutative_fold_forgets_enumeration_order :
  forall (A B : Type) (f : A -> B -> A), (forall a x y, f (f a x) y = f (f a y) x) ->
    forall l l', Permutation l l' -> forall a, fold_left f l a = fold_left f l' a.
Proof. exact fold_left_perm_comm. Qed.
Print Assumptions commutative_fold_forgets_enumeration_order.

(* instance: the sort key of sorted_components, min(graph[id].order for id in scc.mod_ids), over a set of ids *)
Theorem scc_min_order_key_perm_invariant :
  forall order scc scc' start, Permutation scc scc' -> min_order order scc start = min_order order scc' start.
Proof. exact min_order_perm. Qed.
Print Assumptions scc_min_order_key_perm_invariant.

(* every for-loop / comprehension of the functions that produce cache records and processing orders (generated table):
   sorted (machine-checked), ordered origin, order-insensitive fold, or a listed exception; no exception today *)
Theorem every_iteration_site_sorted_or_order_insensitive :
  forall site b, In (site, b) iteration_sites ->
    exists c, itlookup site iteration_classification = Some c /\
              (c = ISorted -> b = true) /\ (c = IException -> In site iteration_exceptions).
Proof. exact iter_table. Qed.
Print Assumptions every_iteration_site_sorted_or_order_insensitive.

Theorem no_unsorted_exception_left : iteration_exceptions = [].
Proof. exact iter_exceptions_now. Qed.
Print Assumptions no_unsorted_exception_left.

(* build.deps_to_json, with the flag regenerated from the current source (true since fix 6f793e2: sorted(v)) *)
Theorem deps_to_json_perm_invariant : deps_json_enumeration_independent deps_to_json_sorted.
Proof. exact deps_targets_write_sorted_perm. Qed.
Print Assumptions deps_to_json_perm_invariant.

(* why the flag matters: the unsorted variant (the code before the fix) is order dependent *)
Theorem deps_to_json_unsorted_refuted : ~ deps_json_enumeration_independent false.
Proof.
  intro H. destruct deps_targets_write_unsorted_refuted as [e [e' [P [ND Hne]]]]. exact (Hne (H _ _ e e' P ND)).
Qed.
Print Assumptions deps_to_json_unsorted_refuted.

(* build.find_stale_sccs: cached errors of a fresh SCC are replayed in set-iteration order only when at most one
   module has errors (the bound 1 is one of the generated sorted_sites facts); that is order-free, two would not be *)
Theorem unordered_replay_of_at_most_one_is_unique :
  forall (A : Type) (l l' : list A), Permutation l l' -> List.length l <= 1 -> l = l'.
Proof. exact enum_le1_unique. Qed.
Print Assumptions unordered_replay_of_at_most_one_is_unique.

(* every modelled choke point is still written the way the model assumes (regenerated syntactic table) *)
Theorem every_choke_point_still_sorted : forall site b, In (site, b) sorted_sites -> b = true.
Proof. exact sites_table. Qed.
Print Assumptions every_choke_point_still_sorted.

(* Errors.sort_messages: real key = (line, column), then priority inside equal (position, code); stable.
   PARTIAL: invariant exactly when the (line, column) keys are pairwise distinct within one import context *)
Theorem sort_messages_perm_invariant_partial :
  forall l l', single_ctx l -> Permutation l l' -> NoDup (map linecol l) -> sort_messages l = sort_messages l'.
Proof. exact sort_messages_perm_invariant_single_ctx. Qed.
Print Assumptions sort_messages_perm_invariant_partial.

(* ... and Statement.sort_messages_order_insensitive is false: two messages at one position keep emission order *)
Theorem sort_messages_refuted :
  exists l l', single_ctx l /\ Permutation l l' /\ sort_messages l <> sort_messages l'.
Proof. exact Messages.sort_messages_refuted. Qed.
Print Assumptions sort_messages_refuted.

(* ---- (a) order independence of DAG evaluation (unbounded DAGs) ---- *)
Theorem dag_eval_order_independent :
  forall (S R : Type) deps src (analyze : S -> list (option R) -> R) ord ord',
    topological deps ord -> topological deps ord' -> (forall n, In n ord <-> In n ord') ->
    forall n, eval_order deps src analyze ord n = eval_order deps src analyze ord' n.
Proof. exact Dag.dag_eval_order_independent. Qed.
Print Assumptions dag_eval_order_independent.

Theorem diagnostics_set_order_independent :
  forall (S R : Type) deps src (analyze : S -> list (option R) -> R) (M : Type) messages ord ord',
    topological deps ord -> topological deps ord' -> (forall n, In n ord <-> In n ord') ->
    Permutation (all_messages S R deps src analyze M messages ord) (all_messages S R deps src analyze M messages ord').
Proof. exact Dag.diagnostics_set_order_independent. Qed.
Print Assumptions diagnostics_set_order_independent.

(* ---- (c) finite table theorem over the generated list of process-global mutable objects ---- *)
Theorem every_global_classified_and_reset :
  forall id kind mutated, In (id, (kind, mutated)) globals ->
    exists c, lookup id classification = Some c /\
              (c = ResetPerBuild -> In id reset_set) /\
              (c = ImmutableAfterImport -> mutated = false).
Proof. exact globals_table. Qed.
Print Assumptions every_global_classified_and_reset.

Theorem build_calls_every_reset_entry_point :
  forall r, In r required_reset_calls -> In r build_reset_calls.
Proof. exact build_calls_resets. Qed.
Print Assumptions build_calls_every_reset_entry_point.

(* ... and calls them on EVERY path: a reset under an `if`, in a loop / handler / nested def, or after a return does
   not count (generated list build_reset_calls_unconditional) *)
Theorem reset_entry_points_called_unconditionally :
  forall r, In r required_reset_calls -> In r build_reset_calls_unconditional.
Proof. exact resets_unconditional. Qed.
Print Assumptions reset_entry_points_called_unconditionally.

(* per-build objects: every container attribute of BuildManager / FindModuleCache / FileSystemCache is classified;
   for lookup memos the statements that write into them are exactly the reviewed ones *)
Theorem instance_state_classified_and_memo_writes_reviewed :
  forall f ws, In (f, ws) instance_fields ->
    exists c approved, ilookup f instance_classification = Some (c, approved) /\
                       (c = OrderSensitiveMemo -> ws = approved).
Proof. exact instance_table. Qed.
Print Assumptions instance_state_classified_and_memo_writes_reviewed.

(* the owners of that state are created anew for every build *)
Theorem per_build_objects_created_per_build : forall n b, In (n, b) instance_creators -> b = true.
Proof. exact creators_table. Qed.
Print Assumptions per_build_objects_created_per_build.

(* history independence, given that a build reads only globals that are reset or equal in both processes *)
Theorem history_independent_given_frame :
  forall (Val In_ Out : Type) (init : string -> Val) (resets : list string)
         (build : (string -> Val) -> In_ -> Out) (reads : list string),
    (forall g g' i, (forall f, In f reads -> g f = g' f) -> build g i = build g' i) ->
    forall g g' i, (forall f, In f reads -> mem f resets = true \/ g f = g' f) ->
      build (reset Val init resets g) i = build (reset Val init resets g') i.
Proof. exact history_independent. Qed.
Print Assumptions history_independent_given_frame.

(* ---- hypotheses are satisfiable / models compute ---- *)
Example ex_sorted : sorted_names [[98%N]; [97%N; 98%N]; [97%N]] = [[97%N]; [97%N; 98%N]; [98%N]].
Proof. reflexivity. Qed.
Example ex_order_ascc : order_ascc [([97%N], 3%Z); ([98%N], 7%Z); ([99%N], 5%Z)] = [[98%N]; [99%N]; [97%N]].
Proof. reflexivity. Qed.
Example ex_sorted_levels :
  sorted_levels (fun n => Zpos n) (fun l => l) (fun n => match n with 1%positive => [2; 3]%positive | 2%positive => [4%positive] | 3%positive => [4; 3]%positive | _ => [] end)
                [1; 2; 3; 4]%positive = [[4]; [3; 2]; [1]]%positive
  /\ sorted_levels (fun n => Zpos n) (@rev positive) (fun n => match n with 1%positive => [3; 2]%positive | 2%positive => [4%positive] | 3%positive => [3; 4]%positive | _ => [] end)
                [4; 3; 1; 2]%positive = [[4]; [3; 2]; [1]]%positive.
Proof. split; reflexivity. Qed.
Example ex_topo : topological (fun n => match n with 3%positive => [1; 2]%positive | 2%positive => [1%positive] | _ => [] end)
                              [1; 2; 3]%positive.
Proof.
  apply (topo_snoc _ [1; 2]%positive 3%positive).
  - apply (topo_snoc _ [1%positive] 2%positive).
    + apply (topo_snoc _ [] 1%positive); [constructor | intros [] | intros x []].
    + intros [H|[]]; discriminate.
    + intros x [H|[]]; subst; left; reflexivity.
  - intros [H|[H|[]]]; discriminate.
  - intros x [H|[H|[]]]; subst; [left|right; left]; reflexivity.
Qed.
Example ex_sort_messages_hyp : single_ctx [w1; EInfo 9 0 4 0 4 1 7 0] /\ NoDup (map linecol [w1; EInfo 9 0 4 0 4 1 7 0]).
Proof.
  split.
  - intros x y [Hx|[Hx|[]]] [Hy|[Hy|[]]]; subst; reflexivity.
  - repeat constructor; simpl; intuition discriminate.
Qed.
Example ex_table_nonempty : List.length globals > 300 /\ List.length reset_set > 10 /\ List.length sorted_sites > 10.
Proof. repeat split; vm_compute; apply PeanoNat.Nat.leb_le; reflexivity. Qed.
