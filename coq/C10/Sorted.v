(* C10 (b): the sorted choke points are permutation invariant.

   Main lemma `isort_perm_invariant`: for a total order on keys, two enumerations of the same collection with
   pairwise distinct keys (a dict's keys, a set's elements, State.order values) sort to the SAME list, so whatever
   is computed from the sorted list (bytes, hashes, dependency lists) does not depend on the enumeration order. *)
From Coq Require Import List NArith ZArith Bool Permutation Lia.
From C10 Require Import Model.
Import ListNotations.

Section Generic.
  Variables (A K : Type) (key : A -> K) (leb : K -> K -> bool).
  Hypothesis leb_total : forall a b, leb a b = true \/ leb b a = true.
  Hypothesis leb_trans : forall a b c, leb a b = true -> leb b c = true -> leb a c = true.
  Hypothesis leb_antisym : forall a b, leb a b = true -> leb b a = true -> a = b.

  Lemma insert_comm : forall x y s, key x <> key y ->
    insert key leb x (insert key leb y s) = insert key leb y (insert key leb x s).
  Proof.
    intros x y s Hne. induction s as [|z r IH]; simpl.
    - destruct (leb (key x) (key y)) eqn:Exy; destruct (leb (key y) (key x)) eqn:Eyx; auto.
      + exfalso; apply Hne; apply leb_antisym; auto.
      + destruct (leb_total (key x) (key y)); congruence.
    - destruct (leb (key y) (key z)) eqn:Eyz; destruct (leb (key x) (key z)) eqn:Exz; simpl.
      + destruct (leb (key x) (key y)) eqn:Exy; destruct (leb (key y) (key x)) eqn:Eyx;
          rewrite ?Exz, ?Eyz; auto.
        * exfalso; apply Hne; apply leb_antisym; auto.
        * destruct (leb_total (key x) (key y)); congruence.
      + (* y <= z < x *)
        destruct (leb (key x) (key y)) eqn:Exy.
        * rewrite (leb_trans _ _ _ Exy Eyz) in Exz; discriminate.
        * rewrite Eyz. simpl. rewrite Exz. reflexivity.
      + (* x <= z < y *)
        rewrite Exz. destruct (leb (key y) (key x)) eqn:Eyx.
        * rewrite (leb_trans _ _ _ Eyx Exz) in Eyz; discriminate.
        * simpl. rewrite Eyz. reflexivity.
      + rewrite Exz, Eyz. f_equal. exact IH.
  Qed.

  Lemma isort_perm_invariant : forall l l',
    Permutation l l' -> NoDup (map key l) -> isort key leb l = isort key leb l'.
  Proof.
    intros l l' P. induction P; intros ND; simpl.
    - reflexivity.
    - simpl in ND. inversion ND; subst. rewrite IHP; auto.
    - simpl in ND. inversion ND as [|? ? Hn ND']; subst. inversion ND'; subst.
      apply insert_comm. intro E. apply Hn. left. symmetry. exact E.
    - rewrite IHP1; auto. apply IHP2.
      eapply Permutation_NoDup; [apply Permutation_map; exact P1 | exact ND].
  Qed.

  Lemma insert_perm : forall x l, Permutation (x :: l) (insert key leb x l).
  Proof.
    intros x l; induction l as [|y r IH]; simpl; auto.
    destruct (leb (key x) (key y)); auto.
    eapply perm_trans; [apply perm_swap|]. apply perm_skip. exact IH.
  Qed.

  Lemma isort_perm : forall l, Permutation l (isort key leb l).
  Proof.
    induction l; simpl; auto. eapply perm_trans; [apply perm_skip; exact IHl | apply insert_perm].
  Qed.

  (* output is ordered (so the model is a sort, not just some canonical form) *)
  Inductive ordered : list A -> Prop :=
  | ord_nil : ordered []
  | ord_cons : forall x l, Forall (fun y => leb (key x) (key y) = true) l -> ordered l -> ordered (x :: l).

  Lemma insert_ordered : forall x l, ordered l -> ordered (insert key leb x l).
  Proof.
    intros x l H; induction H; simpl.
    - constructor; auto. constructor.
    - destruct (leb (key x) (key x0)) eqn:E.
      + constructor; [|constructor; auto]. constructor; auto.
        eapply Forall_impl; [|exact H]. intros a Ha; simpl in Ha. eapply leb_trans; eauto.
      + constructor; auto.
        assert (Hx : leb (key x0) (key x) = true) by (destruct (leb_total (key x) (key x0)); congruence).
        eapply Permutation_Forall; [apply insert_perm|]. constructor; auto.
  Qed.

  Lemma isort_ordered : forall l, ordered (isort key leb l).
  Proof. induction l; simpl; [constructor | apply insert_ordered; auto]. Qed.

  (* anything computed from the sorted list is invariant *)
  Corollary through_sort_invariant : forall (B : Type) (f : list A -> B) l l',
    Permutation l l' -> NoDup (map key l) -> f (isort key leb l) = f (isort key leb l').
  Proof. intros; f_equal; apply isort_perm_invariant; auto. Qed.
End Generic.

(* ---------------------------------------------------------------- the concrete orders are total orders *)
Lemma lex_leb_total : forall a b, lex_leb a b = true \/ lex_leb b a = true.
Proof.
  induction a as [|x a IH]; destruct b as [|y b]; simpl; auto.
  destruct (N.ltb x y) eqn:L1; auto. destruct (N.ltb y x) eqn:L2; auto.
  apply N.ltb_ge in L1, L2. assert (x = y) by lia. subst. rewrite N.eqb_refl. apply IH.
Qed.

Lemma lex_leb_trans : forall a b c, lex_leb a b = true -> lex_leb b c = true -> lex_leb a c = true.
Proof.
  induction a as [|x a IH]; destruct b as [|y b]; destruct c as [|z c]; simpl; auto; try discriminate.
  destruct (N.ltb x y) eqn:L1; destruct (N.ltb y z) eqn:L2; intros H1 H2.
  - apply N.ltb_lt in L1, L2. assert (L : (x <? z)%N = true) by (apply N.ltb_lt; lia). rewrite L; auto.
  - destruct (N.eqb y z) eqn:E; try discriminate. apply N.eqb_eq in E; subst. rewrite L1; auto.
  - destruct (N.eqb x y) eqn:E; try discriminate. apply N.eqb_eq in E; subst. rewrite L2; auto.
  - destruct (N.eqb x y) eqn:E1; try discriminate. destruct (N.eqb y z) eqn:E2; try discriminate.
    apply N.eqb_eq in E1, E2; subst. rewrite L2, N.eqb_refl. eapply IH; eauto.
Qed.

Lemma lex_leb_antisym : forall a b, lex_leb a b = true -> lex_leb b a = true -> a = b.
Proof.
  induction a as [|x a IH]; destruct b as [|y b]; simpl; auto; try discriminate.
  destruct (N.ltb x y) eqn:L1; destruct (N.ltb y x) eqn:L2; intros H1 H2.
  - apply N.ltb_lt in L1, L2. lia.
  - destruct (N.eqb y x) eqn:E; try discriminate. apply N.eqb_eq in E. apply N.ltb_lt in L1. lia.
  - destruct (N.eqb x y) eqn:E; try discriminate. apply N.eqb_eq in E. apply N.ltb_lt in L2. lia.
  - destruct (N.eqb x y) eqn:E; try discriminate. apply N.eqb_eq in E; subst. f_equal. apply IH; auto.
    rewrite N.eqb_refl in H2. exact H2.
Qed.

Lemma neg_leb_total : forall a b, neg_leb a b = true \/ neg_leb b a = true.
Proof. unfold neg_leb; intros. destruct (Z.leb_spec (- a) (- b)); auto. right. apply Z.leb_le. lia. Qed.
Lemma neg_leb_trans : forall a b c, neg_leb a b = true -> neg_leb b c = true -> neg_leb a c = true.
Proof. unfold neg_leb; intros a b c H1 H2. apply Z.leb_le in H1, H2. apply Z.leb_le. lia. Qed.
Lemma neg_leb_antisym : forall a b, neg_leb a b = true -> neg_leb b a = true -> a = b.
Proof. unfold neg_leb; intros a b H1 H2. apply Z.leb_le in H1, H2. lia. Qed.

Lemma Zleb_total : forall a b, Z.leb a b = true \/ Z.leb b a = true.
Proof. intros. destruct (Z.leb_spec a b); auto. right. apply Z.leb_le. lia. Qed.
Lemma Zleb_trans : forall a b c, Z.leb a b = true -> Z.leb b c = true -> Z.leb a c = true.
Proof. intros a b c H1 H2. apply Z.leb_le in H1, H2. apply Z.leb_le. lia. Qed.
Lemma Zleb_antisym : forall a b, Z.leb a b = true -> Z.leb b a = true -> a = b.
Proof. intros a b H1 H2. apply Z.leb_le in H1, H2. lia. Qed.

Lemma pair_leb_total : forall a b, pair_leb a b = true \/ pair_leb b a = true.
Proof.
  intros [a1 a2] [b1 b2]; unfold pair_leb; simpl.
  destruct (Z.ltb_spec a1 b1); auto. destruct (Z.ltb_spec b1 a1); auto.
  assert (a1 = b1) by lia. subst. rewrite Z.eqb_refl. apply Zleb_total.
Qed.
Lemma pair_leb_trans : forall a b c, pair_leb a b = true -> pair_leb b c = true -> pair_leb a c = true.
Proof.
  intros [a1 a2] [b1 b2] [c1 c2]; unfold pair_leb; simpl.
  destruct (Z.ltb_spec a1 b1); destruct (Z.ltb_spec b1 c1); intros H1 H2.
  - destruct (Z.ltb_spec a1 c1); auto; lia.
  - destruct (Z.eqb_spec b1 c1); try discriminate. subst. destruct (Z.ltb_spec a1 c1); auto; lia.
  - destruct (Z.eqb_spec a1 b1); try discriminate. subst. destruct (Z.ltb_spec b1 c1); auto; lia.
  - destruct (Z.eqb_spec a1 b1); try discriminate. destruct (Z.eqb_spec b1 c1); try discriminate. subst.
    destruct (Z.ltb_spec c1 c1); auto. rewrite Z.eqb_refl. eapply Zleb_trans; eauto.
Qed.
Lemma pair_leb_antisym : forall a b, pair_leb a b = true -> pair_leb b a = true -> a = b.
Proof.
  intros [a1 a2] [b1 b2]; unfold pair_leb; simpl.
  destruct (Z.ltb_spec a1 b1); destruct (Z.ltb_spec b1 a1); intros H1 H2; try lia.
  - destruct (Z.eqb_spec b1 a1); try discriminate; lia.
  - destruct (Z.eqb_spec a1 b1); try discriminate; lia.
  - destruct (Z.eqb_spec a1 b1); try discriminate. subst. f_equal. apply Zleb_antisym; auto.
    rewrite Z.eqb_refl in H2; auto.
Qed.

Definition names_perm_invariant := isort_perm_invariant name name (fun x => x) lex_leb lex_leb_total lex_leb_trans lex_leb_antisym.

(* ---------------------------------------------------------------- the choke points *)
Section Chokes.
  Variable V : Type.
  Variable write_str : name -> bytes.
  Variable write_int : nat -> bytes.
  Variable write_value : name -> V -> bytes.
  Variable no_serialize : V -> bool.
  Variable builtins_name : name.
  Variable tag_dict : bytes.

  Lemma filter_length_perm : forall (f : name * V -> bool) l l', Permutation l l' ->
    length (filter f l) = length (filter f l').
  Proof.
    intros f l l' P; induction P; simpl; auto.
    - destruct (f x); simpl; auto.
    - destruct (f x); destruct (f y); simpl; auto.
    - congruence.
  Qed.

  Lemma symtab_write_perm : forall items items',
    Permutation items items' -> NoDup (map fst items) ->
    symtab_write V write_str write_int write_value no_serialize builtins_name tag_dict items =
    symtab_write V write_str write_int write_value no_serialize builtins_name tag_dict items'.
  Proof.
    intros items items' P ND. unfold symtab_write.
    rewrite (filter_length_perm _ _ _ P).
    rewrite (isort_perm_invariant _ _ fst lex_leb lex_leb_total lex_leb_trans lex_leb_antisym _ _ P ND).
    reflexivity.
  Qed.

  Lemma str_set_write_perm : forall enum enum',
    Permutation enum enum' -> NoDup enum ->
    str_set_write write_str write_int enum = str_set_write write_str write_int enum'.
  Proof.
    intros e e' P ND. unfold str_set_write, sorted_names.
    rewrite (Permutation_length P). rewrite (names_perm_invariant _ _ P); auto.
    rewrite map_id; auto.
  Qed.
End Chokes.

Lemma filter_perm : forall A (f : A -> bool) l l', Permutation l l' -> Permutation (filter f l) (filter f l').
Proof.
  intros A f l l' P; induction P; simpl; auto.
  - destruct (f x); auto.
  - destruct (f x); destruct (f y); auto. apply perm_swap.
  - eapply perm_trans; eauto.
Qed.

Lemma NoDup_map_filter : forall A B (g : A -> B) (f : A -> bool) l, NoDup (map g l) -> NoDup (map g (filter f l)).
Proof.
  intros A B g f l; induction l as [|x l IH]; simpl; intro ND; auto.
  inversion ND; subst. destruct (f x); simpl; auto. constructor; auto.
  intro Hin. apply H1. apply in_map_iff in Hin. destruct Hin as [y [E Hy]].
  apply filter_In in Hy. apply in_map_iff. exists y; tauto.
Qed.

Lemma transitive_dep_hash_perm : forall write_str write_bytes digest in_scc (enum enum' : list dep),
  Permutation enum enum' -> NoDup (map dep_id enum) ->
  transitive_dep_hash write_str write_bytes digest enum in_scc =
  transitive_dep_hash write_str write_bytes digest enum' in_scc.
Proof.
  intros ws wb dg in_scc e e' P ND. unfold transitive_dep_hash.
  rewrite (isort_perm_invariant _ _ dep_id lex_leb lex_leb_total lex_leb_trans lex_leb_antisym
             _ _ (filter_perm _ _ _ _ P)); auto.
  apply NoDup_map_filter; auto.
Qed.

Lemma patch_indirect_perm : forall in_modules deps enum enum',
  Permutation enum enum' -> NoDup enum ->
  patch_indirect in_modules deps enum = patch_indirect in_modules deps enum'.
Proof.
  intros im deps e e' P ND. unfold patch_indirect, sorted_names.
  rewrite (names_perm_invariant _ _ P); auto. rewrite map_id; auto.
Qed.

Lemma order_ascc_perm : forall enum enum',
  Permutation enum enum' -> NoDup (map snd enum) -> order_ascc enum = order_ascc enum'.
Proof.
  intros e e' P ND. unfold order_ascc.
  rewrite (isort_perm_invariant _ _ snd neg_leb neg_leb_total neg_leb_trans neg_leb_antisym _ _ P ND); auto.
Qed.

(* deps_to_json: invariant when it sorts ... *)
Lemma deps_targets_write_sorted_perm : forall write_str write_int (enum enum' : list name),
  Permutation enum enum' -> NoDup enum ->
  deps_targets_write write_str write_int true enum = deps_targets_write write_str write_int true enum'.
Proof.
  intros ws wi e e' P ND. unfold deps_targets_write, sorted_names.
  rewrite (Permutation_length P). rewrite (names_perm_invariant _ _ P); auto. rewrite map_id; auto.
Qed.

(* ... and not when it writes list(<set>) (the code before fix 6f793e2): two enumerations of a two-element set *)
Lemma deps_targets_write_unsorted_refuted :
  exists (enum enum' : list name), Permutation enum enum' /\ NoDup enum /\
    deps_targets_write (fun s => s) (fun n => [N.of_nat n]) false enum <>
    deps_targets_write (fun s => s) (fun n => [N.of_nat n]) false enum'.
Proof.
  exists [[97%N]; [98%N]], [[98%N]; [97%N]]. split; [apply perm_swap|]. split.
  - repeat constructor; simpl; intuition congruence.
  - vm_compute. discriminate.
Qed.

(* find_stale_sccs replays the cached errors of a fresh SCC in SET ITERATION order when at most one module has errors:
   fine, a list of length <= 1 has one enumeration; with two elements it has two (why the bound must stay 1). *)
Lemma enum_le1_unique : forall (A : Type) (l l' : list A), Permutation l l' -> length l <= 1 -> l = l'.
Proof.
  intros A l l' P H. destruct l as [|x [|y r]]; simpl in H.
  - apply Permutation_nil in P. subst; reflexivity.
  - apply Permutation_length_1_inv in P. subst; reflexivity.
  - lia.
Qed.

Lemma enum_2_refuted : exists (l l' : list name), Permutation l l' /\ length l = 2 /\ l <> l'.
Proof.
  exists [[97%N]; [98%N]], [[98%N]; [97%N]]. split; [apply perm_swap|]. split; [reflexivity|discriminate].
Qed.
