(* Transitivity of subtyping on fragment F1 (Model.frag1), and its refutation on the full language. *)
From Coq Require Import ZArith List Bool PArith Lia.
From C08 Require Import Model Proofs ProofsKind.
Import ListNotations.

(* ---------------------------------------------------------------- refutation on the full language *)
Definition rcls (mro : list cid) (bases : list cid) (en : option (list Z)) : cls :=
  {| c_mro := mro; c_var := []; c_bases := bases; c_amap := []; c_promote := []; c_enum := en; c_protocol := false |}.
(* 1 object, 2 tuple (unused), 3 bool, 4 Uno: an enum with the single member X (coded 7) *)
Definition refute_ct : ctable :=
  {| classes := [(1%positive, rcls [1%positive] [] None);
                 (4%positive, rcls [4%positive; 1%positive] [1%positive] (Some [7%Z]))];
     k_object := 1%positive; k_tuple := 2%positive; k_bool := 3%positive; k_sized := 9%positive; k_tuplelike := [] |}.
Definition r_a : ty := TInst 4%positive [].                       (* Uno *)
Definition r_b : ty := TUnion [TLit 4%positive 7%Z; TNever].      (* Literal[Uno.X] | Never *)
Definition r_c : ty := TLit 4%positive 7%Z.                       (* Literal[Uno.X] *)

Lemma subtype_trans_refuted_witness :
  wf_ct refute_ct = true /\ any_free r_a = true /\ any_free r_b = true /\ any_free r_c = true /\
  is_subtype refute_ct 10 r_a r_b = Some true /\ is_subtype refute_ct 10 r_b r_c = Some true /\
  is_subtype refute_ct 10 r_a r_c = Some false /\
  is_proper_subtype refute_ct 10 r_a r_b = Some true /\ is_proper_subtype refute_ct 10 r_b r_c = Some true /\
  is_proper_subtype refute_ct 10 r_a r_c = Some false.
Proof. vm_compute. repeat split; reflexivity. Qed.

(* ---------------------------------------------------------------- class-table facts from wf_ct *)
Lemma lookup_in : forall l c, lookup_cls l c = empty_cls \/ In (c, lookup_cls l c) l.
Proof.
  induction l as [|[d x] r IH]; intros c; simpl; auto.
  destruct (Pos.eqb c d) eqn:E.
  - apply Pos.eqb_eq in E. subst. right. left. reflexivity.
  - destruct (IH c); auto.
Qed.

Lemma mem_cid_in : forall c l, mem_cid c l = true <-> In c l.
Proof.
  intros c l. unfold mem_cid. rewrite existsb_exists. split.
  - intros [x [H1 H2]]. apply Pos.eqb_eq in H2. subst. auto.
  - intros H. exists c. split; auto. apply Pos.eqb_refl.
Qed.

Section Facts.
Variable ct : ctable.
Hypothesis Hwf : wf_ct ct = true.

Lemma wf_lat_ok : wf_lat ct = true.
Proof. assert (W := Hwf). unfold wf_ct in W. do 5 (apply andb_prop in W; destruct W as [W ?]). apply andb_prop in W. tauto. Qed.

Lemma mro_trans : forall c d e, In d (c_mro (cls_of ct c)) -> In e (c_mro (cls_of ct d)) -> In e (c_mro (cls_of ct c)).
Proof.
  intros c d e Hd He. change (cls_of ct c) with (lookup_cls (classes ct) c) in *.
  destruct (lookup_in (classes ct) c) as [E|Hin].
  - rewrite E in Hd. destruct Hd.
  - assert (W := wf_lat_ok). unfold wf_lat in W. apply andb_prop in W. destruct W as [_ W]. rewrite forallb_forall in W.
    specialize (W _ Hin). simpl in W. apply andb_prop in W. destruct W as [W _].
    rewrite forallb_forall in W. specialize (W d Hd). rewrite forallb_forall in W.
    apply mem_cid_in. apply W. exact He.
Qed.

Lemma promote_plain_up : forall c p, In p (c_promote (cls_of ct c)) -> plain_up ct p = true.
Proof.
  intros c p Hp. unfold cls_of in Hp.
  destruct (lookup_in (classes ct) c) as [E|Hin].
  - rewrite E in Hp. destruct Hp.
  - assert (W := wf_lat_ok). unfold wf_lat in W. apply andb_prop in W. destruct W as [_ W]. rewrite forallb_forall in W.
    specialize (W _ Hin). simpl in W. apply andb_prop in W. destruct W as [_ W].
    rewrite forallb_forall in W. apply W. exact Hp.
Qed.
Lemma promote_plain : forall c p, In p (c_promote (cls_of ct c)) -> plain ct p = true.
Proof. intros c p Hp. assert (H := promote_plain_up c p Hp). unfold plain_up in H. apply andb_prop in H. tauto. Qed.
Lemma object_plain : plain ct (k_object ct) = true.
Proof. assert (W := wf_lat_ok). unfold wf_lat in W. apply andb_prop in W. tauto. Qed.

Lemma object_mro : c_mro (cls_of ct (k_object ct)) = [k_object ct].
Proof.
  assert (W := Hwf). unfold wf_ct in W.
  do 5 (apply andb_prop in W; destruct W as [W ?]).
  (* facts: object in table, length mro = 1, wf_class for all *)
  match goal with H : forallb (wf_class ct) _ = true |- _ => rename H into Hall end.
  match goal with H : mem_cid (k_object ct) (cids_of ct) = true |- _ => rename H into Hobj end.
  rewrite forallb_forall in Hall. apply mem_cid_in in Hobj. specialize (Hall _ Hobj).
  unfold wf_class in Hall. repeat (apply andb_prop in Hall; destruct Hall as [Hall ?]).
  destruct (c_mro (cls_of ct (k_object ct))) as [|h [|h2 t]] eqn:E; simpl in *; try discriminate.
  apply Pos.eqb_eq in Hall. subst. reflexivity.
Qed.

Lemma object_promote : c_promote (cls_of ct (k_object ct)) = [].
Proof.
  assert (W := Hwf). unfold wf_ct in W.
  do 5 (apply andb_prop in W; destruct W as [W ?]).
  destruct (c_promote (cls_of ct (k_object ct))); auto. simpl in *. discriminate.
Qed.

Lemma has_base_trans : forall c d e, has_base ct c d = true -> has_base ct d e = true -> has_base ct c e = true.
Proof.
  unfold has_base. intros c d e H1 H2.
  apply orb_true_iff in H1. apply orb_true_iff in H2. apply orb_true_iff.
  destruct H1 as [H1|H1].
  - apply Pos.eqb_eq in H1. subst. auto.
  - destruct H2 as [H2|H2].
    + apply Pos.eqb_eq in H2. subst. auto.
    + right. apply mem_cid_in. apply mem_cid_in in H1. apply mem_cid_in in H2. eapply mro_trans; eauto.
Qed.

Lemma has_base_object : forall e, has_base ct (k_object ct) e = true -> e = k_object ct.
Proof.
  unfold has_base. intros e H. apply orb_true_iff in H. destruct H as [H|H].
  - apply Pos.eqb_eq in H. auto.
  - rewrite object_mro in H. apply mem_cid_in in H. destruct H as [H|[]]. auto.
Qed.

(* ---------------------------------------------------------------- the order on classes *)
Inductive ile (np : bool) : cid -> cid -> Prop :=
| ile_nom : forall c d, has_base ct c d = true \/ d = k_object ct -> ile np c d
| ile_promo : forall c d b p, np = false -> In b (c_mro (cls_of ct c)) -> In p (c_promote (cls_of ct b)) ->
    ile np p d -> ile np c d.

Lemma ile_refl : forall np c, ile np c c.
Proof. intros. apply ile_nom. left. unfold has_base. rewrite Pos.eqb_refl. reflexivity. Qed.

Lemma ile_object : forall np e, ile np (k_object ct) e -> e = k_object ct.
Proof.
  intros np e H. remember (k_object ct) as o. induction H; subst.
  - destruct H; auto. apply has_base_object; auto.
  - rewrite object_mro in H0. destruct H0 as [H0|[]]. subst. rewrite object_promote in H1. destruct H1.
Qed.

Lemma ile_trans : forall np a b, ile np a b -> forall c, ile np b c -> ile np a c.
Proof.
  intros np a b H. induction H as [a b Hab | a b base p Hnp Hb Hp Hpb IH]; intros c Hbc.
  - destruct Hab as [Hab|Hab].
    + (* a has base b *)
      induction Hbc as [b c Hbc | b c base p Hnp Hb Hp Hpc IH].
      * apply ile_nom. destruct Hbc; auto. left. eapply has_base_trans; eauto.
      * eapply ile_promo; eauto.
        unfold has_base in Hab. apply orb_true_iff in Hab. destruct Hab as [Hab|Hab].
        -- apply Pos.eqb_eq in Hab. subst. auto.
        -- apply mem_cid_in in Hab. eapply mro_trans; eauto.
    + subst b. apply ile_object in Hbc. subst. apply ile_nom. auto.
  - eapply ile_promo; eauto.
Qed.

(* ---------------------------------------------------------------- the order on F1 types *)
Definition ale (np : bool) (l r : ty) : Prop :=
  match l, r with
  | TNone, TNone => True
  | TNone, TInst d [] => d = k_object ct
  | TInst c [], TInst d [] => ile np c d
  | TLit c v, TLit d w => c = d /\ v = w
  | TLit c v, TInst d [] => ile np c d
  | _, _ => False
  end.
Definition ale_u (np : bool) (l r : ty) : Prop :=
  match r with
  | TUnion rs => exists x, In x rs /\ ale np l x
  | _ => ale np l r
  end.
Definition le (np : bool) (l r : ty) : Prop :=
  match l with
  | TNever => True
  | TUnion ls => forall x, In x ls -> ale_u np x r
  | _ => ale_u np l r
  end.

Lemma ale_trans : forall np a b c, ale np a b -> ale np b c -> ale np a c.
Proof.
  intros np a b c H1 H2.
  destruct a as [| | |ca [|? ?]|ca va| |]; simpl in H1; try contradiction;
  destruct b as [| | |cb [|? ?]|cb vb| |]; simpl in H1; try contradiction;
  destruct c as [| | |cc [|? ?]|cc vc| |]; simpl in H2; try contradiction; simpl; auto.
  all: try (eapply ile_trans; eauto; fail).
  all: try (destruct H1; subst; auto; fail).
  all: try (subst; apply ile_object in H2; auto; fail).
Qed.

Lemma ale_atom_l : forall np l r, ale np l r -> atom_ok ct r = true \/ True.
Proof. auto. Qed.

Lemma ale_u_trans : forall np a b c, ale np a b -> ale_u np b c -> ale_u np a c.
Proof.
  intros np a b c H1 H2. unfold ale_u in *. destruct c; try (eapply ale_trans; eauto; fail).
  destruct H2 as [x [Hx Hbx]]. exists x. split; auto. eapply ale_trans; eauto.
Qed.

(* b is an atom or a union of atoms: ale_u x b followed by le b c *)
Lemma ale_u_le_trans : forall np x b c, ale_u np x b -> le np b c -> ale_u np x c.
Proof.
  intros np x b c H1 H2. destruct b; simpl in H1, H2;
    try (eapply ale_u_trans; eauto; fail);
    try (destruct x as [| | |? [|? ?]|? ?| |]; simpl in H1; contradiction).
  destruct H1 as [y [Hy Hxy]]. eapply ale_u_trans; eauto.
Qed.

Lemma le_trans : forall np a b c, le np a b -> le np b c -> le np a c.
Proof.
  intros np a b c H1 H2. destruct a; simpl in *; auto;
    try (eapply ale_u_le_trans; eauto; fail).
  intros x Hx. eapply ale_u_le_trans; eauto.
Qed.

(* ---------------------------------------------------------------- helpers *)
Lemma anyM_true_inv : forall A (f : A -> ob) l, anyM f l = Some true -> exists x, In x l /\ f x = Some true.
Proof.
  induction l; simpl; intros H; try discriminate.
  destruct (f a) as [[|]|] eqn:E; try discriminate.
  - exists a; auto.
  - destruct (IHl H) as [x [Hx Hf]]. exists x; auto.
Qed.
Lemma anyM_false_inv : forall A (f : A -> ob) l, anyM f l = Some false -> forall x, In x l -> f x = Some false.
Proof.
  induction l; simpl; intros H x Hx; [contradiction|].
  destruct (f a) as [[|]|] eqn:E; try discriminate.
  destruct Hx as [<-|Hx]; auto.
Qed.
Lemma allM_true_inv : forall A (f : A -> ob) l, allM f l = Some true -> forall x, In x l -> f x = Some true.
Proof.
  induction l; simpl; intros H x Hx; [contradiction|].
  destruct (f a) as [[|]|] eqn:E; try discriminate.
  destruct Hx as [<-|Hx]; auto.
Qed.
Lemma allM_trueish : forall A (f : A -> ob) l, (forall x, In x l -> trueish (f x)) -> trueish (allM f l).
Proof.
  induction l; simpl; intros H b Hb; [congruence|].
  destruct (f a) as [[|]|] eqn:E; try discriminate.
  - apply IHl; auto.
  - specialize (H a (or_introl eq_refl) _ E). discriminate.
Qed.
(* an element that is not refuted keeps `any` from answering False *)
Lemma anyM_trueish : forall A (f : A -> ob) l x, In x l -> trueish (f x) -> trueish (anyM f l).
Proof.
  intros A f l x Hx Hf b Hb. destruct b; auto.
  rewrite (anyM_false_inv _ _ _ Hb x Hx) in Hf. specialize (Hf _ eq_refl). discriminate.
Qed.

Lemma atom_no_union : forall t, atom_ok ct t = true -> no_union t = true.
Proof. destruct t; simpl; auto; try discriminate. destruct args; auto; discriminate. Qed.

Lemma flatten_atoms : forall ts, forallb (atom_ok ct) ts = true -> flatten ts = ts.
Proof.
  induction ts; simpl; intros H; auto. apply andb_prop in H. destruct H as [H1 H2].
  unfold flatten in *. simpl. rewrite IHts; auto.
  destruct a; simpl in *; auto; discriminate.
Qed.

Lemma mem_ty_atoms : forall x l, forallb (atom_ok ct) l = true -> mem_ty x l = true -> In x l.
Proof.
  intros x l Hl Hm. unfold mem_ty in Hm. apply existsb_exists in Hm. destruct Hm as [y [Hy He]].
  rewrite forallb_forall in Hl. apply ty_eqb_eq in He; [subst; auto|]. apply atom_no_union; auto.
Qed.

Lemma ty_eqb_union_incl : forall ls rs, ty_eqb (TUnion ls) (TUnion rs) = true ->
  forall x, In x ls -> existsb (ty_eqb x) rs = true.
Proof.
  intros ls rs H. simpl in H. apply andb_prop in H. destruct H as [H _].
  induction ls; intros x Hx; [contradiction|].
  apply andb_prop in H. destruct H as [H1 H2]. destruct Hx as [<-|Hx]; auto.
Qed.

Lemma ale_refl : forall np a, atom_ok ct a = true -> ale np a a.
Proof.
  destruct a as [| | |c [|? ?]|c v| |]; simpl; intros; try discriminate; auto. apply ile_refl.
Qed.

Lemma eq_le : forall np l r, frag1 ct l = true -> frag1 ct r = true -> ty_eqb l r = true -> le np l r.
Proof.
  intros np l r Fl Fr E.
  destruct l as [| | |c [|? ?]|c v|ls|]; simpl in Fl; try discriminate; simpl; auto.
  - destruct r; simpl in E; try discriminate; simpl; auto.
  - destruct r as [| | |d [|? ?]|d w|rs|]; simpl in E; try discriminate;
      apply andb_prop in E; destruct E as [E1 E2]; try discriminate.
    apply Pos.eqb_eq in E1. subst. simpl. apply ile_refl.
  - destruct r as [| | |d [|? ?]|d w|rs|]; simpl in E; try discriminate.
    apply andb_prop in E. destruct E as [E1 E2]. apply Pos.eqb_eq in E1. apply Z.eqb_eq in E2. subst. simpl. auto.
  - destruct r as [| | |d [|? ?]|d w|rs|]; try (simpl in E; discriminate).
    intros x Hx. simpl. simpl in Fr. destruct ls as [|l0 ls']; [discriminate|]. destruct rs as [|r0 rs']; [discriminate|].
    assert (M := ty_eqb_union_incl _ _ E x Hx).
    apply (mem_ty_atoms x _ Fr) in M. exists x. split; auto. apply ale_refl.
    rewrite forallb_forall in Fl. apply Fl; auto.
Qed.
End Facts.

(* ---------------------------------------------------------------- join(s,t) and join(t,s) need not be equivalent *)
Definition pcls (mro bases : list cid) : cls :=
  {| c_mro := mro; c_var := []; c_bases := bases; c_amap := []; c_promote := []; c_enum := None; c_protocol := false |}.
(* 1 object, 2 A, 3 B(A), 4 C(A), 5 X(B, C), 6 Y(C, B); tuple/bool ids unused *)
Definition jc_ct : ctable :=
  {| classes := [(1%positive, pcls [1%positive] []); (2%positive, pcls [2%positive; 1%positive] [1%positive]);
                 (3%positive, pcls [3%positive; 2%positive; 1%positive] [2%positive]);
                 (4%positive, pcls [4%positive; 2%positive; 1%positive] [2%positive]);
                 (5%positive, pcls [5%positive; 3%positive; 4%positive; 2%positive; 1%positive] [3%positive; 4%positive]);
                 (6%positive, pcls [6%positive; 4%positive; 3%positive; 2%positive; 1%positive] [4%positive; 3%positive])];
     k_object := 1%positive; k_tuple := 8%positive; k_bool := 9%positive; k_sized := 10%positive; k_tuplelike := [] |}.
Lemma join_comm_refuted_witness :
  wf_ct jc_ct = true /\
  join_types jc_ct 20 (TInst 5%positive []) (TInst 6%positive []) = Some (TInst 3%positive []) /\
  join_types jc_ct 20 (TInst 6%positive []) (TInst 5%positive []) = Some (TInst 4%positive []) /\
  is_subtype jc_ct 20 (TInst 3%positive []) (TInst 4%positive []) = Some false /\
  is_subtype jc_ct 20 (TInst 4%positive []) (TInst 3%positive []) = Some false.
Proof. vm_compute. repeat split; reflexivity. Qed.

(* ---------------------------------------------------------------- meet is not always a lower bound *)
Definition gcls (mro bases : list cid) (vs : list variance) (pr : list cid) : cls :=
  {| c_mro := mro; c_var := vs; c_bases := bases; c_amap := []; c_promote := pr; c_enum := None; c_protocol := false |}.
(* 1 object, 2 int (promoted to float), 3 float, 4 Contra[T_contra] *)
Definition ml_ct : ctable :=
  {| classes := [(1%positive, gcls [1%positive] [] [] []);
                 (2%positive, gcls [2%positive; 1%positive] [1%positive] [] [3%positive]);
                 (3%positive, gcls [3%positive; 1%positive] [1%positive] [] []);
                 (4%positive, gcls [4%positive; 1%positive] [1%positive] [Contra] [])];
     k_object := 1%positive; k_tuple := 8%positive; k_bool := 9%positive; k_sized := 10%positive; k_tuplelike := [] |}.
Definition ml_s : ty := TInst 4%positive [TInst 3%positive []].      (* Contra[float] *)
Definition ml_t : ty := TInst 4%positive [TInst 2%positive []].      (* Contra[int] *)
Lemma meet_lower_refuted_witness :
  wf_ct ml_ct = true /\ any_free ml_s = true /\ any_free ml_t = true /\
  meet_types ml_ct 20 ml_s ml_t = Some ml_t /\ meet_types ml_ct 20 ml_t ml_s = Some ml_t /\
  is_subtype ml_ct 20 ml_t ml_s = Some false /\ is_subtype ml_ct 20 ml_s ml_t = Some true.
Proof. vm_compute. repeat split; reflexivity. Qed.
