(* Soundness / completeness of `sub` w.r.t. the order `le` on fragment F1, and transitivity. *)
From Coq Require Import ZArith List Bool PArith Lia.
From C08 Require Import Model Proofs ProofsKind ProofsTrans.
Import ListNotations.

Section F1.
Variable ct : ctable.
Hypothesis Hwf : wf_ct ct = true.

Lemma atom_frag : forall x, atom_ok ct x = true -> frag1 ct x = true.
Proof. destruct x; simpl; auto; discriminate. Qed.

Lemma atom_le : forall np l x, atom_ok ct x = true -> ale_u ct np l x = ale ct np l x.
Proof. destruct x; simpl; auto; discriminate. Qed.

Lemma le_atom : forall np x r, atom_ok ct x = true -> le ct np x r = ale_u ct np x r.
Proof. destruct x; simpl; auto; discriminate. Qed.

Lemma go_true_inv : forall (subf : kind -> ty -> ty -> ob) k r (P : cid -> Prop) items seen,
  (fix go (items : list ty) (seen : list cid) : ob :=
     match items with
     | [] => Some true
     | TLit c v :: rest =>
         if mem_cid c seen then go rest seen
         else match subf k (TInst c []) r with
              | None => None
              | Some false => Some false
              | Some true => go rest (c :: seen)
              end
     | it :: rest =>
         match subf k it r with
         | None => None
         | Some false => Some false
         | Some true => go rest seen
         end
     end) items seen = Some true ->
  (forall c, mem_cid c seen = true -> P c) -> (forall c, subf k (TInst c []) r = Some true -> P c) ->
  forall it, In it items -> match it with TLit c _ => P c | _ => subf k it r = Some true end.
Proof.
  intros subf k r P. induction items as [|a rest IH]; intros seen H Hseen Hsub it Hin; [contradiction|].
  destruct a.
  all: try (destruct (subf k _ r) as [[|]|] eqn:E; try discriminate;
            destruct Hin as [<-|Hin]; [exact E | eapply IH; eauto]; fail).
  (* literal *)
  destruct (mem_cid c seen) eqn:M.
  - destruct Hin as [<-|Hin]; [apply Hseen; auto | eapply IH; eauto].
  - destruct (subf k (TInst c []) r) as [[|]|] eqn:E; try discriminate.
    destruct Hin as [<-|Hin]; [apply Hsub; auto|].
    eapply (IH (c :: seen)); eauto.
    intros c' Hc'. simpl in Hc'. apply orb_true_iff in Hc'. destruct Hc' as [Hc'|Hc']; auto.
    apply Pos.eqb_eq in Hc'. subst. apply Hsub; auto.
Qed.

Lemma sub_sound : forall n k l r, k_notparams k = false -> frag1 ct l = true -> frag1 ct r = true ->
  sub ct no_cache n k l r = Some true -> le ct (k_nopromo k) l r.
Proof.
  induction n; intros k l r Hn Fl Fr H; [discriminate|].
  simpl in H. unfold sub_step in H.
  destruct (ty_eqb l r) eqn:E; [apply eq_le; auto|].
  assert (Hany : is_any r = false) by (destruct r; simpl in *; auto; discriminate).
  rewrite Hany, andb_false_r in H.
  destruct r as [| | |d [|? ?]|d w|rs|]; simpl in Fr; try discriminate.
  - (* r = Never *)
    destruct l as [| | |c [|? ?]|c v|ls|]; simpl in Fl; try discriminate; simpl; auto.
    + simpl in H. assert (H' := IHn k (TInst c []) TNever Hn Fl eq_refl H). simpl in H'. contradiction.
    + intros x Hx. assert (Ax : atom_ok ct x = true) by (destruct ls; [discriminate|]; rewrite forallb_forall in Fl; auto).
      assert (H' := IHn k x TNever Hn (atom_frag _ Ax) eq_refl (allM_true_inv _ _ _ H x Hx)).
      rewrite le_atom in H'; auto.
  - (* r = None *)
    destruct l as [| | |c [|? ?]|c v|ls|]; simpl in Fl; try discriminate; simpl; auto.
    + simpl in H. assert (H' := IHn k (TInst c []) TNone Hn Fl eq_refl H). simpl in H'. contradiction.
    + intros x Hx. assert (Ax : atom_ok ct x = true) by (destruct ls; [discriminate|]; rewrite forallb_forall in Fl; auto).
      assert (H' := IHn k x TNone Hn (atom_frag _ Ax) eq_refl (allM_true_inv _ _ _ H x Hx)).
      rewrite le_atom in H'; auto.
  - (* r = Inst d [] *)
    destruct l as [| | |c [|? ?]|c v|ls|]; simpl in Fl; try discriminate; simpl; auto.
    + (* None *) simpl in H. inversion H. apply Pos.eqb_eq; auto.
    + (* Inst c [] *)
      simpl in H. unfold no_cache at 1 in H.
      assert (Hnom : has_base ct c d || (d =? k_object ct)%positive = true -> ile ct (k_nopromo k) c d).
      { intros HB. apply ile_nom. apply orb_true_iff in HB. destruct HB; [left; auto| right; apply Pos.eqb_eq; auto]. }
      destruct (negb (k_nopromo k) && negb (c_protocol (cls_of ct d))) eqn:Q.
      * match type of H with match ?a with _ => _ end = _ => destruct a as [[|]|] eqn:EA end; try discriminate.
        -- apply anyM_true_inv in EA. destruct EA as [b [Hb EA]]. apply anyM_true_inv in EA. destruct EA as [p [Hp EA]].
           assert (Pp := promote_plain ct Hwf b p Hp).
           assert (H' := IHn k (TInst p []) (TInst d []) Hn Pp Fr EA). simpl in H'.
           apply andb_prop in Q. destruct Q as [Q _]. apply negb_true_iff in Q.
           eapply ile_promo; eauto.
        -- destruct (has_base ct c d || (d =? k_object ct)%positive) eqn:HB; [auto|discriminate].
      * destruct (has_base ct c d || (d =? k_object ct)%positive) eqn:HB; [auto|discriminate].
    + (* Lit c v *)
      simpl in H. assert (H' := IHn k (TInst c []) (TInst d []) Hn Fl Fr H). exact H'.
    + (* Union ls *)
      simpl in H. intros x Hx.
      assert (Ax : atom_ok ct x = true) by (destruct ls; [discriminate|]; rewrite forallb_forall in Fl; auto).
      assert (G := go_true_inv (sub ct no_cache n) k (TInst d [])
                     (fun c => plain ct c = true -> ile ct (k_nopromo k) c d) ls [] H
                     (fun c Hc => ltac:(discriminate))
                     (fun c Hc Pc => IHn k (TInst c []) (TInst d []) Hn Pc Fr Hc) x Hx).
      destruct x as [| | |c [|? ?]|c v| |]; simpl in Ax; try discriminate; simpl.
      * assert (H' := IHn k TNone (TInst d []) Hn eq_refl Fr G). exact H'.
      * assert (H' := IHn k (TInst c []) (TInst d []) Hn Ax Fr G). exact H'.
      * apply G; auto.
  - (* r = Lit d w *)
    destruct l as [| | |c [|? ?]|c v|ls|]; simpl in Fl; try discriminate; simpl; auto; try (simpl in H; discriminate).
    intros x Hx. assert (Ax : atom_ok ct x = true) by (destruct ls; [discriminate|]; rewrite forallb_forall in Fl; auto).
    simpl in H.
    assert (H' := IHn k x (TLit d w) Hn (atom_frag _ Ax) Fr (allM_true_inv _ _ _ H x Hx)).
    rewrite le_atom in H'; auto.
  - (* r = Union rs *)
    assert (Frs : forallb (atom_ok ct) rs = true) by (destruct rs; [discriminate|auto]).
    assert (Fr' : frag1 ct (TUnion rs) = true) by exact Fr.
    assert (Hex : forall l0, atom_ok ct l0 = true \/ l0 = TNever ->
              (exists x, In x rs /\ sub ct no_cache n k l0 x = Some true) -> le ct (k_nopromo k) l0 (TUnion rs)).
    { intros l0 Al [x [Hx Hs]].
      assert (Ax : atom_ok ct x = true) by (rewrite forallb_forall in Frs; auto).
      destruct Al as [Al|Al]; [|subst; simpl; auto].
      assert (H' := IHn k l0 x Hn (atom_frag _ Al) (atom_frag _ Ax) Hs).
      rewrite le_atom in *; auto. rewrite atom_le in H'; auto. simpl. exists x. auto. }
    destruct l as [| | |c [|? ?]|c v|ls|]; simpl in Fl; try discriminate.
    + simpl; auto.
    + simpl in H. destruct (anyM _ rs) as [[|]|] eqn:EA; try discriminate.
      apply Hex; auto. apply anyM_true_inv in EA. exact EA.
    + simpl in H. destruct (anyM _ rs) as [[|]|] eqn:EA; try discriminate.
      * apply Hex; auto. apply anyM_true_inv in EA. exact EA.
      * unfold plain in Fl. apply andb_prop in Fl. destruct Fl as [Fl _]. apply andb_prop in Fl. destruct Fl as [_ Fl].
        apply negb_true_iff in Fl. rewrite Fl in H. discriminate.
    + simpl in H. destruct (anyM _ rs) as [[|]|] eqn:EA; try discriminate.
      apply Hex; auto. apply anyM_true_inv in EA. exact EA.
    + (* Union / Union *)
      simpl in H. rewrite (flatten_atoms ct rs Frs) in H.
      intros x Hx. assert (Ax : atom_ok ct x = true) by (destruct ls; [discriminate|]; rewrite forallb_forall in Fl; auto).
      assert (Hx' := allM_true_inv _ _ _ H x Hx). simpl in Hx'.
      destruct (mem_ty x rs) eqn:M.
      * apply (mem_ty_atoms ct x rs Frs) in M. simpl. exists x. split; auto. apply ale_refl; auto.
      * assert (Hsub : sub ct no_cache n k x (TUnion rs) = Some true -> ale_u ct (k_nopromo k) x (TUnion rs)).
        { intros Hs. assert (H' := IHn k x (TUnion rs) Hn (atom_frag _ Ax) Fr' Hs). rewrite le_atom in H'; auto. }
        destruct x as [| | |c [|? ?]|c v| |]; simpl in Ax; try discriminate; auto.
        destruct (mem_ty (TInst c []) rs) eqn:M2; auto.
        apply (mem_ty_atoms ct _ rs Frs) in M2. simpl. exists (TInst c []). split; auto. simpl. apply ile_refl.
Qed.

(* ---------------------------------------------------------------- completeness: le => never answered False *)
Lemma trueish_none : trueish None.
Proof. intros b H; discriminate. Qed.
Lemma trueish_true : trueish (Some true).
Proof. intros b H; congruence. Qed.
Hint Resolve trueish_none trueish_true : tru.

Lemma zip3_nil_mid : forall A B C (a : list A) (c : list C), zip3 a (@nil B) c = [].
Proof. destruct a; auto. Qed.

Section K.
Variable k : kind.
Hypothesis Hn : k_notparams k = false.

Lemma C_ile : forall c d, ile ct (k_nopromo k) c d -> plain ct d = true ->
  forall m, trueish (sub ct no_cache m k (TInst c []) (TInst d [])).
Proof.
  intros c d H Pd. induction H as [c d Hcd | c d b p Hnp Hb Hp Hpd IH]; intros m; (destruct m; [apply trueish_none|]);
    simpl; unfold sub_step; (destruct (ty_eqb _ _); [apply trueish_true|]); rewrite andb_false_r; unfold no_cache at 1.
  - match goal with |- trueish (match ?a with _ => _ end) => destruct a as [[|]|] end; auto with tru.
    assert (HB : has_base ct c d || (d =? k_object ct)%positive = true).
    { apply orb_true_iff. destruct Hcd; [left; auto|right; apply Pos.eqb_eq; auto]. }
    rewrite HB, Hn, zip3_nil_mid. simpl. apply trueish_true.
  - assert (Pr : c_protocol (cls_of ct d) = false).
    { unfold plain in Pd. apply andb_prop in Pd. destruct Pd as [_ Pd]. apply negb_true_iff in Pd. exact Pd. }
    rewrite Hnp, Pr. simpl.
    assert (T : trueish (anyM (fun b0 : cid => anyM (fun p0 : cid => sub ct no_cache m k (TInst p0 []) (TInst d []))
                                       (c_promote (cls_of ct b0))) (c_mro (cls_of ct c)))).
    { apply (anyM_trueish _ _ _ b Hb). apply (anyM_trueish _ _ _ p Hp). apply IH; auto. }
    destruct (anyM _ (c_mro (cls_of ct c))) as [[|]|]; auto with tru.
    specialize (T _ eq_refl). discriminate.
Qed.

Lemma C_atom : forall l r, ale ct (k_nopromo k) l r -> atom_ok ct l = true -> atom_ok ct r = true ->
  forall m, trueish (sub ct no_cache m k l r).
Proof.
  intros l r H Al Ar m.
  destruct l as [| | |c [|? ?]|c v| |]; simpl in Al; try discriminate;
  destruct r as [| | |d [|? ?]|d w| |]; simpl in Ar; try discriminate; simpl in H; try contradiction.
  - destruct m; [apply trueish_none|]. simpl. unfold sub_step. simpl. apply trueish_true.
  - subst d. destruct m; [apply trueish_none|]. simpl. unfold sub_step. simpl. rewrite andb_false_r.
    rewrite Pos.eqb_refl. apply trueish_true.
  - apply C_ile; auto.
  - destruct m; [apply trueish_none|]. simpl. unfold sub_step. simpl. rewrite andb_false_r. apply C_ile; auto.
  - destruct H; subst. destruct m; [apply trueish_none|]. simpl. unfold sub_step. rewrite ty_eqb_refl. apply trueish_true.
Qed.

Lemma union_atoms : forall rs, frag1 ct (TUnion rs) = true -> forallb (atom_ok ct) rs = true /\ rs <> [].
Proof. intros rs H. simpl in H. destruct rs; [discriminate|]. split; auto. discriminate. Qed.

Lemma frag_not_any : forall r, frag1 ct r = true -> is_any r = false.
Proof. destruct r; simpl; auto; discriminate. Qed.

Lemma C_atom_u : forall l r, ale_u ct (k_nopromo k) l r -> atom_ok ct l = true -> frag1 ct r = true ->
  forall m, trueish (sub ct no_cache m k l r).
Proof.
  intros l r H Al Fr m. destruct r as [| | |d ds|d w|rs|]; simpl in Fr; try discriminate;
    try (apply C_atom; auto; fail).
  - (* Never *) destruct l as [| | |c [|? ?]|c v| |]; simpl in H; contradiction.
  - (* Union *)
    destruct (union_atoms rs Fr) as [Frs _]. simpl in H. destruct H as [x [Hx Hlx]].
    assert (Ax : atom_ok ct x = true) by (rewrite forallb_forall in Frs; auto).
    destruct m; [apply trueish_none|]. simpl. unfold sub_step.
    destruct (ty_eqb _ _); [apply trueish_true|]. rewrite andb_false_r.
    assert (T : trueish (anyM (fun it : ty => sub ct no_cache m k l it) rs)).
    { apply (anyM_trueish _ _ _ x Hx). apply C_atom; auto. }
    assert (U : is_union l = false) by (destruct l as [| | |c [|? ?]|c v| |]; simpl in Al; try discriminate; auto).
    rewrite U.
    destruct (anyM _ rs) as [[|]|]; auto with tru. specialize (T _ eq_refl). discriminate.
Qed.

Lemma C_never_atom : forall r, atom_ok ct r = true -> forall m, trueish (sub ct no_cache m k TNever r).
Proof.
  intros r Ar m. destruct m; [apply trueish_none|]. simpl. unfold sub_step.
  destruct (ty_eqb _ _); [apply trueish_true|].
  destruct r as [| | |d [|? ?]|d w| |]; simpl in Ar; try discriminate; rewrite andb_false_r; apply trueish_true.
Qed.

Lemma C_never : forall r, frag1 ct r = true -> forall m, trueish (sub ct no_cache m k TNever r).
Proof.
  intros r Fr m. destruct r as [| | |d ds|d w|rs|]; simpl in Fr; try discriminate;
    try (apply C_never_atom; auto; fail).
  - destruct m; [apply trueish_none|]. simpl. unfold sub_step. simpl. apply trueish_true.
  - destruct m; [apply trueish_none|]. simpl. unfold sub_step. simpl. rewrite andb_false_r.
    destruct rs as [|x rs']; [discriminate|]. apply andb_prop in Fr. destruct Fr as [Ax _].
    assert (T : trueish (anyM (fun it : ty => sub ct no_cache m k TNever it) (x :: rs'))).
    { apply (anyM_trueish _ _ (x :: rs') x (or_introl eq_refl)). apply C_never_atom; auto. }
    destruct (anyM _ (x :: rs')) as [[|]|]; auto with tru.
Qed.

Lemma go_trueish : forall (subf : kind -> ty -> ty -> ob) r items seen,
  (forall it, In it items -> trueish (subf k it r)) ->
  (forall c v, In (TLit c v) items -> trueish (subf k (TInst c []) r)) ->
  trueish ((fix go (items : list ty) (seen : list cid) : ob :=
     match items with
     | [] => Some true
     | TLit c v :: rest =>
         if mem_cid c seen then go rest seen
         else match subf k (TInst c []) r with
              | None => None
              | Some false => Some false
              | Some true => go rest (c :: seen)
              end
     | it :: rest =>
         match subf k it r with
         | None => None
         | Some false => Some false
         | Some true => go rest seen
         end
     end) items seen).
Proof.
  intros subf r. induction items as [|a rest IH]; intros seen H1 H2; [apply trueish_true|].
  assert (R1 : forall it, In it rest -> trueish (subf k it r)) by (intros; apply H1; right; auto).
  assert (R2 : forall c v, In (TLit c v) rest -> trueish (subf k (TInst c []) r)) by (intros; eapply H2; right; eauto).
  destruct a.
  all: try (assert (T := H1 _ (or_introl eq_refl)); destruct (subf k _ r) as [[|]|]; auto with tru;
            specialize (T _ eq_refl); discriminate).
  all: try (destruct (mem_cid c seen); auto;
            assert (T := H2 c v (or_introl eq_refl)); destruct (subf k (TInst c []) r) as [[|]|]; auto with tru;
            try (specialize (T _ eq_refl); discriminate)).
Qed.

Lemma C_le : forall l r, le ct (k_nopromo k) l r -> frag1 ct l = true -> frag1 ct r = true ->
  forall m, trueish (sub ct no_cache m k l r).
Proof.
  intros l r H Fl Fr m.
  destruct l as [| | |c cs|c v|ls|]; simpl in Fl; try discriminate.
  - apply C_never; auto.
  - apply C_atom_u; auto.
  - apply C_atom_u; auto.
  - apply C_atom_u; auto.
  - (* Union ls *)
    assert (Fls : forallb (atom_ok ct) ls = true) by (destruct ls; [discriminate|auto]).
    simpl in H.
    assert (Hit : forall it, In it ls -> forall m', trueish (sub ct no_cache m' k it r)).
    { intros it Hin m'. apply C_atom_u; auto. rewrite forallb_forall in Fls; auto. }
    destruct m; [apply trueish_none|]. simpl. unfold sub_step.
    destruct (ty_eqb _ _); [apply trueish_true|]. rewrite (frag_not_any r Fr), andb_false_r.
    destruct r as [| | |d [|? ?]|d w|rs|]; simpl in Fr; try discriminate.
    + apply allM_trueish. intros; apply Hit; auto.
    + apply allM_trueish. intros; apply Hit; auto.
    + apply go_trueish.
      * intros; apply Hit; auto.
      * intros c v Hin. assert (Hx := H _ Hin). simpl in Hx. apply C_ile; auto.
    + apply allM_trueish. intros; apply Hit; auto.
    + simpl. apply allM_trueish. intros it Hin.
      destruct (mem_ty it (flatten rs)); auto with tru.
      destruct it; try (apply Hit; auto).
      destruct (mem_ty _ _); auto with tru.
Qed.
End K.

(* ---------------------------------------------------------------- transitivity on F1 *)
Theorem sub_trans_F1 : forall k a b c, k_notparams k = false ->
  frag1 ct a = true -> frag1 ct b = true -> frag1 ct c = true ->
  forall n m, sub ct no_cache n k a b = Some true -> sub ct no_cache m k b c = Some true ->
  forall q, trueish (sub ct no_cache q k a c).
Proof.
  intros k a b c Hn Fa Fb Fc n m H1 H2 q.
  apply C_le; auto. eapply le_trans; eauto using sub_sound.
Qed.
End F1.
