(* F2: every True answer of `sub` is justified by the order LE (soundness) *)
From Coq Require Import ZArith List Bool PArith Lia.
From C08 Require Import Model Proofs ProofsKind ProofsTrans ProofsTrans2 ProofsF2.
Import ListNotations.

Section S2.
Variable ct : ctable.
Hypothesis Hwf : wf_ct ct = true.

Definition kind_ok (k : kind) : bool := negb (k_proper k) || k_nopromo k.

Lemma LE_np : forall np l r, LE ct true l r -> LE ct np l r.
Proof. intros np l r [h H]. exists h. apply leh_np; auto. Qed.

Lemma wf_ac_ok : wf_ac ct = true.
Proof. assert (W := Hwf). unfold wf_ct in W. do 5 (apply andb_prop in W; destruct W as [W ?]). apply andb_prop in W. tauto. Qed.

Lemma assoc_in : forall A (l : list (cid * A)) c x, assoc_cid l c = Some x -> In (c, x) l.
Proof.
  induction l as [|[d y] r IH]; simpl; intros c x H; [discriminate|].
  destruct (Pos.eqb c d) eqn:E.
  - apply Pos.eqb_eq in E. inversion H; subst. auto.
  - right. auto.
Qed.

Lemma plain_frag2 : forall p, plain ct p = true -> frag2 ct (TInst p []) = true.
Proof.
  intros p H. unfold plain in H. apply andb_prop in H. destruct H as [H H3]. apply andb_prop in H. destruct H as [H1 H2].
  simpl. unfold cls_ok2. rewrite H2, H3. simpl. apply Nat.eqb_eq in H1. rewrite H1. reflexivity.
Qed.

Lemma cls_ok2_proto : forall c, cls_ok2 ct c = true -> c_protocol (cls_of ct c) = false.
Proof. intros c H. unfold cls_ok2 in H. apply andb_prop in H. destruct H as [H _]. apply negb_true_iff; auto. Qed.

Lemma frag2_inst : forall c xs, frag2 ct (TInst c xs) = true ->
  cls_ok2 ct c = true /\ length xs = arity ct c /\ forall x, In x xs -> frag2 ct x = true.
Proof.
  intros c xs H. simpl in H. apply andb_prop in H. destruct H as [H H3]. apply andb_prop in H. destruct H as [H1 H2].
  apply Nat.eqb_eq in H2. rewrite forallb_forall in H3. auto.
Qed.

(* arguments mapped to a supertype stay in F2 *)
Lemma mts_frag : forall c xs d, frag2 ct (TInst c xs) = true -> (has_base ct c d = true \/ d = k_object ct) ->
  forall x, In x (map_to_super ct c xs d) -> frag2 ct x = true.
Proof.
  intros c xs d F Hb x Hx. destruct (frag2_inst c xs F) as [_ [Len Fx]].
  unfold map_to_super in Hx. destruct (Pos.eqb c d) eqn:E; [auto|].
  destruct (c_var (cls_of ct d)) as [|v0 vs] eqn:Ev; [destruct Hx|].
  assert (Hmro : In d (c_mro (cls_of ct c))).
  { destruct Hb as [Hb|Hb].
    - unfold has_base in Hb. rewrite E in Hb. simpl in Hb. apply mem_cid_in; auto.
    - subst d. assert (A : arity ct (k_object ct) = 0).
      { assert (W := Hwf). unfold wf_ct in W. do 5 (apply andb_prop in W; destruct W as [W ?]).
        match goal with H : (arity ct (k_object ct) =? 0) = true |- _ => apply Nat.eqb_eq in H; exact H end. }
      unfold arity in A. rewrite Ev in A. discriminate. }
  assert (Hne : lookup_cls (classes ct) c <> empty_cls).
  { intros E0. unfold cls_of in Hmro. rewrite E0 in Hmro. destruct Hmro. }
  destruct (lookup_in (classes ct) c) as [E0|Hin]; [contradiction|].
  assert (Hc : In c (cids_of ct)) by (unfold cids_of; apply in_map_iff; exists (c, lookup_cls (classes ct) c); auto).
  assert (W := Hwf). unfold wf_ct in W. apply andb_prop in W. destruct W as [_ W]. rewrite forallb_forall in W.
  specialize (W c Hc). unfold wf_class in W. do 2 (apply andb_prop in W; destruct W as [W ?]).
  match goal with H : forallb _ (c_mro (cls_of ct c)) = true |- _ => rename H into Ham end.
  apply andb_prop in W. destruct W as [W Ham']. clear W.
  (* the conjunct about generic ancestors is the one before the promotion conjunct *)
  assert (Hspec : Pos.eqb d c || Nat.eqb (arity ct d) 0 ||
            match assoc_cid (c_amap (cls_of ct c)) d with
            | Some specs => Nat.eqb (length specs) (arity ct d)
                            && forallb (fun s => match s with AP i => Nat.ltb i (arity ct c) | AC _ => true end) specs
            | None => false
            end = true).
  { rewrite forallb_forall in Ham. apply Ham. exact Hmro. }
  rewrite Pos.eqb_sym, E in Hspec. simpl in Hspec.
  assert (Ad : Nat.eqb (arity ct d) 0 = false) by (unfold arity; rewrite Ev; reflexivity).
  rewrite Ad in Hspec. simpl in Hspec.
  destruct (assoc_cid (c_amap (cls_of ct c)) d) as [specs|] eqn:Ea; [|discriminate].
  apply andb_prop in Hspec. destruct Hspec as [_ Hs]. rewrite forallb_forall in Hs.
  apply in_map_iff in Hx. destruct Hx as [s [<- Hs']].
  destruct s as [i|t]; simpl.
  - specialize (Hs _ Hs'). simpl in Hs. apply Nat.ltb_lt in Hs. apply Fx. apply nth_In. lia.
  - assert (A := wf_ac_ok). unfold wf_ac in A. rewrite forallb_forall in A.
    specialize (A _ Hin). simpl in A. rewrite forallb_forall in A.
    apply assoc_in in Ea. unfold cls_of in Ea. specialize (A _ Ea). simpl in A. rewrite forallb_forall in A.
    apply (A _ Hs').
Qed.

Section WithLk.
(* any lookup table whose entries are semantically right (b = true iff LE) *)
Variable lk : kind -> ty -> ty -> option bool.
Hypothesis Hlk : forall k l r b, lk k l r = Some b -> k_notparams k = false -> kind_ok k = true ->
  frag2 ct l = true -> frag2 ct r = true -> (b = true <-> LE ct (k_nopromo k) l r).

Lemma allM_ns_true_inv : forall A (f : A -> ob) l, allM_ns f l = Some true -> forall x, In x l -> f x = Some true.
Proof.
  induction l; simpl; intros H x Hx; [contradiction|].
  destruct (f a) as [[|]|] eqn:E; destruct (allM_ns f l) as [[|]|] eqn:E2; try discriminate.
  destruct Hx as [<-|Hx]; auto.
Qed.

Lemma flatten_atoms2 : forall ts, frag2 ct (TUnion ts) = true -> flatten ts = ts.
Proof.
  intros ts F. assert (H : forall x, In x ts -> is_union x = false).
  { intros x Hx. destruct (frag2_atomish ct ts x F Hx) as [A _]. unfold is_atomish in A.
    apply andb_prop in A. destruct A as [A _]. apply negb_true_iff in A. exact A. }
  clear F. induction ts as [|a l IH]; auto. unfold flatten in *. simpl. rewrite IH; [|intros; apply H; right; auto].
  assert (Ua := H a (or_introl eq_refl)). destruct a; simpl in *; auto; discriminate.
Qed.

Lemma contract_go_in : forall all items done x, In x (contract_go ct all items done) ->
  In x items \/ exists c', x = TInst c' [] /\ contractible ct c' = true /\ complete ct all c' = true /\ exists v, In (TLit c' v) items.
Proof.
  induction items as [|a r IH]; intros done x H; simpl in H; [contradiction|].
  assert (G : forall done', In x (contract_go ct all r done') ->
            In x (a :: r) \/ exists c', x = TInst c' [] /\ contractible ct c' = true /\ complete ct all c' = true /\ exists v, In (TLit c' v) (a :: r)).
  { intros done' Hx. destruct (IH done' x Hx) as [Hi|[c' [E [C1 [C2 [v Hv]]]]]]; [left; right; auto|].
    right. exists c'. repeat split; auto. exists v. right; auto. }
  destruct a; try (destruct H as [<-|H]; [left; left; auto|eapply G; eauto]; fail).
  destruct (contractible ct c && complete ct all c) eqn:E.
  - apply andb_prop in E. destruct E as [E1 E2]. destruct (mem_cid c done).
    + eapply G; eauto.
    + destruct H as [<-|H]; [|eapply G; eauto].
      right. exists c. repeat split; auto. exists v. left; auto.
  - destruct H as [<-|H]; [left; left; auto|eapply G; eauto].
Qed.

Lemma leh_inst_bad : forall np h c xs r, leh ct np h (TInst c xs) r ->
  match r with TNone | TNever | TLit _ _ | TAny | TTuple _ => False | _ => True end.
Proof. intros np h c xs r H. destruct h; [contradiction|]. destruct r; simpl in H; auto. Qed.

Lemma lit_inst_frag : forall c v, frag2 ct (TLit c v) = true -> frag2 ct (TInst c []) = true.
Proof.
  intros c v H. simpl in H. apply andb_prop in H. destruct H as [H1 H2]. apply Nat.eqb_eq in H2.
  unfold frag2. rewrite H1. simpl. rewrite H2. reflexivity.
Qed.

Lemma LE_lit_of_inst : forall np c v r, is_union r = false -> LE ct np (TInst c []) r -> LE ct np (TLit c v) r.
Proof.
  intros np c v r U [h H]. assert (B := leh_inst_bad np h c [] r H).
  destruct r; try contradiction; try discriminate. apply LE_lit_inst. exists h; auto.
Qed.

Section Step.
Variable n : nat.
Hypothesis IHn : forall k l r, k_notparams k = false -> kind_ok k = true -> frag2 ct l = true -> frag2 ct r = true ->
  sub ct lk n k l r = Some true -> LE ct (k_nopromo k) l r.

(* is_same_type: both directions *)
Lemma same_sound : forall a b kk, k_notparams kk = false -> k_nopromo kk = true ->
  frag2 ct a = true -> frag2 ct b = true ->
  same_gen (sub ct lk n) kk a b = Some true -> LE ct true a b /\ LE ct true b a.
Proof.
  induction a using ty_ind'; intros b kk Hk Hnp Fa Fb Hs;
    try (rewrite same_gen_nonfast in Hs by reflexivity; apply andM_true_inv in Hs; destruct Hs as [H1 H2];
         assert (Kk : kind_ok kk = true) by (unfold kind_ok; rewrite Hnp; apply orb_true_r);
         rewrite <- Hnp; split; apply IHn; auto; fail).
  destruct (fast (TInst c args) b) eqn:F.
  - destruct b as [| | |d ys| | |]; simpl in F; try discriminate.
    assert (Fc := F). apply andb_prop in Fc. destruct Fc as [Fc Fl]. apply Pos.eqb_eq in Fc. subst d.
    rewrite same_gen_fast in Hs by exact F.
    destruct (frag2_inst _ _ Fa) as [_ [_ Fxs]]. destruct (frag2_inst _ _ Fb) as [_ [_ Fys]].
    rewrite Forall_forall in H.
    assert (PW : forall x y, In (x, y) (combine args ys) -> LE ct true x y /\ LE ct true y x).
    { intros x y Hin. apply (H x (in_combine_l _ _ _ _ Hin) y K_proper_np); auto.
      - apply Fxs. eapply in_combine_l; eauto.
      - apply Fys. eapply in_combine_r; eauto.
      - eapply same_list_true_inv; eauto. }
    assert (Hb : has_base ct c c = true \/ c = k_object ct) by (left; unfold has_base; rewrite Pos.eqb_refl; auto).
    assert (Hm : forall zs, map_to_super ct c zs c = zs) by (intros; unfold map_to_super; rewrite Pos.eqb_refl; auto).
    split; apply LE_inst_nom; auto; rewrite Hm; intros [[la ra] v] Hin.
    + destruct (PW la ra (in_zip3_combine _ _ _ _ _ _ _ _ _ Hin)). destruct v; simpl; auto.
    + destruct (PW ra la (in_combine_swap _ _ _ _ _ _ (in_zip3_combine _ _ _ _ _ _ _ _ _ Hin))). destruct v; simpl; auto.
  - rewrite same_gen_nonfast in Hs by exact F. apply andM_true_inv in Hs. destruct Hs as [H1 H2].
    assert (Kk : kind_ok kk = true) by (unfold kind_ok; rewrite Hnp; apply orb_true_r).
    rewrite <- Hnp. split; apply IHn; auto.
Qed.
End Step.

Lemma sub_S2 : forall n k l r, sub ct lk (S n) k l r = sub_step ct lk (sub ct lk n) k l r.
Proof. reflexivity. Qed.

Theorem sub_sound2 : forall n k l r, k_notparams k = false -> kind_ok k = true ->
  frag2 ct l = true -> frag2 ct r = true ->
  sub ct lk n k l r = Some true -> LE ct (k_nopromo k) l r.
Proof.
  induction n; intros k l r Hn Hk Fl Fr H; [discriminate|].
  rewrite sub_S2 in H. unfold sub_step in H.
  destruct (ty_eqb l r) eqn:E; [destruct (eq_le2 ct (k_nopromo k) l r Fl Fr E) as [L _]; exact L|].
  assert (Hany : is_any r = false) by (destruct r; simpl in *; auto; discriminate).
  rewrite Hany, andb_false_r in H.
  assert (IH : forall k0 l0 r0, k_notparams k0 = false -> kind_ok k0 = true -> frag2 ct l0 = true -> frag2 ct r0 = true ->
            sub ct lk n k0 l0 r0 = Some true -> LE ct (k_nopromo k0) l0 r0) by (intros; apply IHn; auto).
  assert (IHk : forall l0 r0, frag2 ct l0 = true -> frag2 ct r0 = true ->
            sub ct lk n k l0 r0 = Some true -> LE ct (k_nopromo k) l0 r0) by (intros; apply IHn; auto).
  assert (Hitems : forall ts x, frag2 ct (TUnion ts) = true -> In x ts -> is_atomish x = true /\ frag2 ct x = true)
    by (intros; eapply frag2_atomish; eauto).
  destruct r as [| | |d ys|d w|rs|]; try (simpl in Fr; discriminate).
  - (* r = Never *)
    destruct l as [| | |c xs|c v|ls|]; try (simpl in Fl; discriminate); try (simpl in H; discriminate).
    all: first
      [ apply LE_never
      | apply LE_none_none
      | (simpl in H;
         match goal with Hs : sub _ _ _ _ (TInst ?c0 []) ?R = Some true, Fr0 : frag2 ct ?R = true |- _ =>
           exfalso; assert (Fi : frag2 ct (TInst c0 []) = true) by (eapply lit_inst_frag; eauto);
           destruct (IHk _ _ Fi Fr0 Hs) as [h L]; exact (leh_inst_bad _ _ _ _ _ L) end)
      | (apply LE_union_l; intros x Hx; destruct (Hitems _ _ Fl Hx) as [Ax Fx];
         simpl in H; apply IHk; auto; apply (allM_true_inv _ _ _ H x Hx)) ].
  - (* r = None *)
    destruct l as [| | |c xs|c v|ls|]; try (simpl in Fl; discriminate); try (simpl in H; discriminate).
    all: first
      [ apply LE_never
      | apply LE_none_none
      | (simpl in H;
         match goal with Hs : sub _ _ _ _ (TInst ?c0 []) ?R = Some true, Fr0 : frag2 ct ?R = true |- _ =>
           exfalso; assert (Fi : frag2 ct (TInst c0 []) = true) by (eapply lit_inst_frag; eauto);
           destruct (IHk _ _ Fi Fr0 Hs) as [h L]; exact (leh_inst_bad _ _ _ _ _ L) end)
      | (apply LE_union_l; intros x Hx; destruct (Hitems _ _ Fl Hx) as [Ax Fx];
         simpl in H; apply IHk; auto; apply (allM_true_inv _ _ _ H x Hx)) ].
  - (* r = Inst d ys *)
    destruct l as [| | |c xs|c v|ls|]; try (simpl in Fl; discriminate).
    + apply LE_never.
    + simpl in H. injection H as H. apply Pos.eqb_eq in H. subst. apply LE_none_obj.
    + (* Inst / Inst *)
      cbn beta iota in H.
      destruct (lk k (TInst c xs) (TInst d ys)) as [bh|] eqn:Ehit.
      { injection H as ->. apply (Hlk k _ _ true Ehit Hn Hk Fl Fr). reflexivity. }
      assert (Hnom : has_base ct c d || (d =? k_object ct)%positive = true ->
                (k_notparams k = true \/
                 allM_ns (fun p : ty * ty * variance => let '(la, ra, v) := p in
                    match v with
                    | Inv => if k_proper k then same_gen (sub ct lk n) k la ra
                             else andM (sub ct lk n k la ra) (fun _ => sub ct lk n k ra la)
                    | Cov => sub ct lk n k la ra
                    | Contra => sub ct lk n k ra la
                    end) (zip3 (map_to_super ct c xs d) ys (c_var (cls_of ct d))) = Some true) ->
                LE ct (k_nopromo k) (TInst c xs) (TInst d ys)).
      { intros HB [Hc|Hc]; [congruence|].
        assert (HB' : has_base ct c d = true \/ d = k_object ct).
        { apply orb_true_iff in HB. destruct HB; [left; auto|right; apply Pos.eqb_eq; auto]. }
        apply LE_inst_nom; auto. intros [[la ra] v] Hin.
        assert (Hv := allM_ns_true_inv _ _ _ Hc _ Hin). simpl in Hv.
        assert (Fla : frag2 ct la = true).
        { apply (mts_frag c xs d Fl HB'). eapply in_combine_l. eapply in_zip3_combine; eauto. }
        assert (Fra : frag2 ct ra = true).
        { destruct (frag2_inst _ _ Fr) as [_ [_ Fys]]. apply Fys. eapply in_combine_r. eapply in_zip3_combine; eauto. }
        destruct v; simpl.
        - destruct (k_proper k) eqn:P.
          + assert (Np : k_nopromo k = true) by (unfold kind_ok in Hk; rewrite P in Hk; exact Hk).
            rewrite Np. apply (same_sound n IHn la ra k); auto.
          + apply andM_true_inv in Hv. destruct Hv. split; apply IHk; auto.
        - apply IHk; auto.
        - apply IHk; auto. }
      destruct (negb (k_nopromo k) && negb (c_protocol (cls_of ct d))) eqn:Q.
      * match type of H with match ?a with _ => _ end = _ => destruct a as [[|]|] eqn:EA end; try discriminate.
        -- apply anyM_true_inv in EA. destruct EA as [b [Hb EA]]. apply anyM_true_inv in EA. destruct EA as [p [Hp EA]].
           assert (Fp := plain_frag2 p (promote_plain ct Hwf b p Hp)).
           assert (L := IHk (TInst p []) (TInst d ys) Fp Fr EA).
           apply andb_prop in Q. destruct Q as [Q1 Q2]. apply negb_true_iff in Q1. apply negb_true_iff in Q2.
           rewrite Q1 in *. eapply LE_promo; eauto.
        -- destruct (has_base ct c d || (d =? k_object ct)%positive) eqn:HB; [|discriminate].
           apply Hnom; auto. destruct (k_notparams k); auto.
      * destruct (has_base ct c d || (d =? k_object ct)%positive) eqn:HB; [|discriminate].
        apply Hnom; auto. destruct (k_notparams k); auto.
    + (* Lit / Inst *)
      cbn beta iota in H. apply LE_lit_of_inst; auto. apply IHk; auto. eapply lit_inst_frag; eauto.
    + (* Union / Inst *)
      cbn beta iota in H. apply LE_union_l. intros x Hx. destruct (Hitems _ _ Fl Hx) as [Ax Fx].
      assert (G := go_true_inv (sub ct lk n) k (TInst d ys)
                     (fun c0 => frag2 ct (TInst c0 []) = true -> LE ct (k_nopromo k) (TInst c0 []) (TInst d ys)) ls [] H
                     (fun c0 Hc0 => ltac:(discriminate))
                     (fun c0 Hc0 Pc => IHk (TInst c0 []) (TInst d ys) Pc Fr Hc0) x Hx).
      destruct x; try (apply IHk; auto; fail).
      apply LE_lit_of_inst; auto. apply G. eapply lit_inst_frag; eauto.
  - (* r = Lit d w *)
    destruct l as [| | |c xs|c v|ls|]; try (simpl in Fl; discriminate); try (simpl in H; discriminate).
    all: first
      [ apply LE_never
      | apply LE_none_none
      | (simpl in H;
         match goal with Hs : sub _ _ _ _ (TInst ?c0 []) ?R = Some true, Fr0 : frag2 ct ?R = true |- _ =>
           exfalso; assert (Fi : frag2 ct (TInst c0 []) = true) by (eapply lit_inst_frag; eauto);
           destruct (IHk _ _ Fi Fr0 Hs) as [h L]; exact (leh_inst_bad _ _ _ _ _ L) end)
      | (apply LE_union_l; intros x Hx; destruct (Hitems _ _ Fl Hx) as [Ax Fx];
         simpl in H; apply IHk; auto; apply (allM_true_inv _ _ _ H x Hx)) ].
  - (* r = Union rs *)
    assert (Hex : forall l0, is_atomish l0 = true -> frag2 ct l0 = true ->
              (exists x, In x rs /\ sub ct lk n k l0 x = Some true) -> LE ct (k_nopromo k) l0 (TUnion rs)).
    { intros l0 Al Fl0 [x [Hx Hs]]. destruct (Hitems _ _ Fr Hx) as [Ax Fx].
      apply (LE_union_r ct _ l0 rs x); auto. }
    destruct l as [| | |c xs|c v|ls|]; try (simpl in Fl; discriminate).
    + apply LE_never.
    + cbn beta iota in H. simpl is_union in H. cbn iota in H.
      destruct (anyM _ rs) as [[|]|] eqn:EA; try discriminate. apply Hex; auto. apply anyM_true_inv in EA. exact EA.
    + cbn beta iota in H. simpl is_union in H. cbn iota in H.
      destruct (anyM _ rs) as [[|]|] eqn:EA; try discriminate.
      * apply Hex; auto. apply anyM_true_inv in EA. exact EA.
      * destruct (contractible ct c) eqn:Cc; [|discriminate].
        rewrite (flatten_atoms2 rs Fr) in H. apply anyM_true_inv in H. destruct H as [x [Hx Hs]].
        unfold contract in Hx. destruct (contract_go_in rs rs [] x Hx) as [Hin|[c' [-> [C1 [C2 [v Hv]]]]]].
        -- apply Hex; auto. exists x; auto.
        -- destruct (Hitems _ _ Fr Hv) as [_ Fv].
           apply (LE_contract ct _ c xs rs c' v); auto. apply IHk; auto. eapply lit_inst_frag; eauto.
    + cbn beta iota in H. simpl is_union in H. cbn iota in H.
      destruct (anyM _ rs) as [[|]|] eqn:EA; try discriminate. apply Hex; auto. apply anyM_true_inv in EA. exact EA.
    + (* Union / Union *)
      cbn beta iota in H. simpl is_union in H. cbn iota in H. rewrite (flatten_atoms2 rs Fr) in H.
      apply LE_union_l. intros x Hx. destruct (Hitems _ _ Fl Hx) as [Ax Fx].
      assert (Hx' := allM_true_inv _ _ _ H x Hx). cbn beta in Hx'.
      destruct (mem_ty x rs) eqn:M.
      * unfold mem_ty in M. apply existsb_exists in M. destruct M as [y [Hy Exy]].
        destruct (Hitems _ _ Fr Hy) as [Ay Fy]. apply (LE_union_r ct _ x rs y); auto.
        destruct (eq_le2 ct (k_nopromo k) x y Fx Fy Exy) as [L _]; exact L.
      * destruct x; try (apply IHk; auto; fail).
        destruct (mem_ty (TInst c []) rs) eqn:M2; [|apply IHk; auto].
        unfold mem_ty in M2. apply existsb_exists in M2. destruct M2 as [y [Hy Exy]].
        destruct (Hitems _ _ Fr Hy) as [Ay Fy]. apply (LE_union_r ct _ (TLit c v) rs y); auto.
        apply LE_lit_of_inst; [unfold is_atomish in Ay; apply andb_prop in Ay; destruct Ay as [Ay _]; apply negb_true_iff; auto|].
        destruct (eq_le2 ct (k_nopromo k) (TInst c []) y (lit_inst_frag c v Fx) Fy Exy) as [L _]; exact L.
Qed.
End WithLk.
End S2.
