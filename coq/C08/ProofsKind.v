(* proper subtype => subtype (monotonicity of the answer in the subtype kind) *)
From Coq Require Import ZArith List Bool PArith Lia.
From C08 Require Import Model Proofs.
Import ListNotations.

(* a = Some true forces every defined answer b to be true *)
Definition imp (a b : ob) : Prop := a = Some true -> forall y, b = Some y -> y = true.

Lemma imp_true : forall a, imp a (Some true).
Proof. intros a _ y H. congruence. Qed.
Lemma imp_none : forall a, imp a None.
Proof. intros a _ y H. discriminate. Qed.
Lemma imp_false_l : forall b, imp (Some false) b.
Proof. intros b H. discriminate. Qed.
Lemma imp_none_l : forall b, imp None b.
Proof. intros b H. discriminate. Qed.
Lemma imp_agree : forall a b, agree a b -> imp a b.
Proof. intros a b H Ha y Hb. symmetry. apply (H _ _ Ha Hb). Qed.
Lemma imp_same : forall a, imp a a.
Proof. intros a H y H'. congruence. Qed.
#[export] Hint Resolve imp_true imp_none imp_false_l imp_none_l imp_same : imp.

(* or-shaped: Some true => true, Some false => continue *)
Lemma imp_or : forall a b y1 y2, imp a b -> imp y1 y2 ->
  imp (match a with None => None | Some true => Some true | Some false => y1 end)
      (match b with None => None | Some true => Some true | Some false => y2 end).
Proof.
  intros a b y1 y2 Hab Hy. destruct a as [[|]|], b as [[|]|]; auto with imp.
  specialize (Hab eq_refl _ eq_refl). discriminate.
Qed.
(* and-shaped: Some false => false, Some true => continue *)
Lemma imp_and : forall a b x1 x2, imp a b -> imp x1 x2 ->
  imp (match a with None => None | Some false => Some false | Some true => x1 end)
      (match b with None => None | Some false => Some false | Some true => x2 end).
Proof.
  intros a b x1 x2 Hab Hx. destruct a as [[|]|], b as [[|]|]; auto with imp.
  specialize (Hab eq_refl _ eq_refl). discriminate.
Qed.
Lemma imp_anyM : forall A (f g : A -> ob) l, (forall x, In x l -> imp (f x) (g x)) -> imp (anyM f l) (anyM g l).
Proof. induction l; simpl; intros H; auto with imp. apply imp_or; auto with datatypes. Qed.
Lemma imp_allM : forall A (f g : A -> ob) l, (forall x, In x l -> imp (f x) (g x)) -> imp (allM f l) (allM g l).
Proof.
  induction l; simpl; intros H; auto with imp.
  apply (imp_and (f a) (g a)); auto with datatypes.
Qed.
Lemma imp_allM_ns : forall A (f g : A -> ob) l, (forall x, In x l -> imp (f x) (g x)) -> imp (allM_ns f l) (allM_ns g l).
Proof.
  induction l; simpl; intros H; auto with imp.
  assert (H1 := H a (or_introl eq_refl)).
  assert (H2 : imp (allM_ns f l) (allM_ns g l)) by (apply IHl; intros; apply H; right; auto).
  destruct (f a) as [[|]|], (allM_ns f l) as [[|]|]; simpl; auto with imp.
  destruct (g a) as [x|], (allM_ns g l) as [y|]; auto with imp.
  rewrite (H1 eq_refl _ eq_refl), (H2 eq_refl _ eq_refl). auto with imp.
Qed.
Lemma imp_andM : forall a1 a2 b1 b2, imp a1 a2 -> imp (b1 tt) (b2 tt) -> imp (andM a1 b1) (andM a2 b2).
Proof. intros. unfold andM. apply (imp_and a1 a2); auto. Qed.

Lemma in_zip3_third : forall A B C (a : list A) (b : list B) (c : list C) x y z,
  In (x, y, z) (zip3 a b c) -> In z c.
Proof.
  induction a; destruct b, c; simpl; intros; try contradiction.
  destruct H as [H|H]; [inversion H; auto|right; eauto].
Qed.

Definition kle (k1 k2 : kind) : Prop :=
  (k_proper k2 = true -> k_proper k1 = true) /\ (k_nopromo k2 = true -> k_nopromo k1 = true)
  /\ k_notparams k1 = false /\ k_notparams k2 = false.

Section Step.
Variable ct : ctable.
Variables f g : kind -> ty -> ty -> ob.
Hypothesis Hfg : forall k1 k2 l r, kle k1 k2 -> imp (f k1 l r) (g k2 l r).
Hypothesis Hag : forall k l r, agree (f k l r) (g k l r).
Variables k1 k2 : kind.
Hypothesis Hk : kle k1 k2.
(* the invariant-parameter case, supplied by the caller *)
Hypothesis Hinv : forall la ra, (exists c, In Inv (c_var (cls_of ct c))) -> k_proper k1 = true ->
  imp (same_gen f k1 la ra)
      (if k_proper k2 then same_gen g k2 la ra else andM (g k2 la ra) (fun _ => g k2 ra la)).

Lemma step_imp : forall l r,
  imp (sub_step ct no_cache f k1 l r) (sub_step ct no_cache g k2 l r).
Proof.
  intros l r. unfold sub_step.
  destruct (ty_eqb l r); [auto with imp|].
  destruct Hk as [Hp [Hnp [Hn1 Hn2]]].
  assert (Hpp : k_proper k1 = false -> k_proper k2 = false).
  { intros H. destruct (k_proper k2); auto. rewrite (Hp eq_refl) in H. discriminate. }
  assert (Hcp : forall p : ty * ty * variance, (snd p = Inv -> exists c, In Inv (c_var (cls_of ct c))) ->
     imp (let '(la, ra, v) := p in
          match v with
          | Inv => if k_proper k1 then same_gen f k1 la ra else andM (f k1 la ra) (fun _ => f k1 ra la)
          | Cov => f k1 la ra
          | Contra => f k1 ra la
          end)
         (let '(la, ra, v) := p in
          match v with
          | Inv => if k_proper k2 then same_gen g k2 la ra else andM (g k2 la ra) (fun _ => g k2 ra la)
          | Cov => g k2 la ra
          | Contra => g k2 ra la
          end)).
  { intros [[la ra] v] Hv. destruct v; try (apply Hfg; exact Hk).
    destruct (k_proper k1) eqn:P1; [apply Hinv; [apply Hv|]; reflexivity|].
    rewrite (Hpp eq_refl). apply imp_andM; apply Hfg; exact Hk. }
  assert (Hgo : forall r0 litems seen,
    imp ((fix go (items : list ty) (seen : list cid) : ob :=
                 match items with
                 | [] => Some true
                 | TLit c v :: rest =>
                     if mem_cid c seen then go rest seen
                     else match f k1 (TInst c []) r0 with
                          | None => None
                          | Some false => Some false
                          | Some true => go rest (c :: seen)
                          end
                 | it :: rest =>
                     match f k1 it r0 with
                     | None => None
                     | Some false => Some false
                     | Some true => go rest seen
                     end
                 end) litems seen)
          ((fix go (items : list ty) (seen : list cid) : ob :=
                 match items with
                 | [] => Some true
                 | TLit c v :: rest =>
                     if mem_cid c seen then go rest seen
                     else match g k2 (TInst c []) r0 with
                          | None => None
                          | Some false => Some false
                          | Some true => go rest (c :: seen)
                          end
                 | it :: rest =>
                     match g k2 it r0 with
                     | None => None
                     | Some false => Some false
                     | Some true => go rest seen
                     end
                 end) litems seen)).
  { intros r0. induction litems as [|it rest IH]; intros seen; auto with imp.
    destruct it; try (apply (imp_and (f k1 _ r0) (g k2 _ r0)); auto with imp; apply Hfg; exact Hk).
    destruct (mem_cid c seen); auto.
    apply (imp_and (f k1 _ r0) (g k2 _ r0)); auto with imp; apply Hfg; exact Hk. }
  destruct (negb (k_proper k2) && is_any r) eqn:C2; [destruct (negb (k_proper k1) && is_any r); auto with imp|].
  destruct (negb (k_proper k1) && is_any r) eqn:C1.
  { apply andb_prop in C1. destruct C1 as [C1 C1']. rewrite C1' in C2.
    destruct (k_proper k1); [discriminate|]. rewrite (Hpp eq_refl) in C2. discriminate. }
  clear C1 C2.
  destruct r; destruct l; auto with imp;
    try (apply Hfg; exact Hk);
    try (apply imp_allM; intros; apply Hfg; exact Hk);
    try (apply Hgo);
    try (apply imp_or; [apply imp_anyM; intros; apply Hfg; exact Hk | auto with imp]).
  all: try (simpl; destruct (k_proper k1) eqn:P1; [destruct (k_proper k2)|rewrite (Hpp eq_refl)]; simpl; auto with imp; fail).
  - (* Inst / Inst *)
    unfold no_cache.
    assert (Hnom : imp
      (if has_base ct c0 c || (c =? k_object ct)%positive
       then if k_notparams k1 then Some true
            else allM_ns (fun p : ty * ty * variance => let '(la, ra, v) := p in
                   match v with
                   | Inv => if k_proper k1 then same_gen f k1 la ra else andM (f k1 la ra) (fun _ => f k1 ra la)
                   | Cov => f k1 la ra
                   | Contra => f k1 ra la
                   end) (zip3 (map_to_super ct c0 args0 c) args (c_var (cls_of ct c)))
       else Some false)
      (if has_base ct c0 c || (c =? k_object ct)%positive
       then if k_notparams k2 then Some true
            else allM_ns (fun p : ty * ty * variance => let '(la, ra, v) := p in
                   match v with
                   | Inv => if k_proper k2 then same_gen g k2 la ra else andM (g k2 la ra) (fun _ => g k2 ra la)
                   | Cov => g k2 la ra
                   | Contra => g k2 ra la
                   end) (zip3 (map_to_super ct c0 args0 c) args (c_var (cls_of ct c)))
       else Some false)).
    { destruct (_ || _); auto with imp. rewrite Hn1, Hn2. apply imp_allM_ns. intros [[la ra] v] Hin; apply (Hcp (la, ra, v)).
      simpl. intros ->. exists c. eapply in_zip3_third; eauto. }
    destruct (negb (k_nopromo k1) && negb (c_protocol (cls_of ct c))) eqn:Q1.
    + assert (Q2 : negb (k_nopromo k2) && negb (c_protocol (cls_of ct c)) = true).
      { apply andb_prop in Q1. destruct Q1 as [Q1 Q1']. rewrite Q1'.
        destruct (k_nopromo k2); auto. rewrite (Hnp eq_refl) in Q1. discriminate. }
      rewrite Q2. apply imp_or; auto.
      apply imp_anyM; intros. apply imp_anyM; intros. apply Hfg; exact Hk.
    + destruct (negb (k_nopromo k2) && negb (c_protocol (cls_of ct c))); auto.
      match goal with |- imp _ (match ?a with _ => _ end) => destruct a as [[|]|] end; auto with imp.
  - (* Tuple / Inst *)
    destruct (Pos.eqb c (k_sized ct)); auto with imp.
    destruct (mem_cid c (k_tuplelike ct)).
    + destruct args.
      * destruct (k_proper k1) eqn:P1; auto with imp. rewrite (Hpp eq_refl).
        destruct (Pos.eqb c (k_tuple ct)); auto with imp.
        apply imp_allM; intros; apply Hfg; exact Hk.
      * destruct (_ && _); auto with imp. apply imp_allM; intros; apply Hfg; exact Hk.
    + apply imp_andM; [apply Hfg; exact Hk|].
      assert (Ht := agree_tuple_fallback ct f g Hag ts).
      destruct (tuple_fallback ct f ts) as [x|], (tuple_fallback ct g ts) as [y|]; auto with imp.
      rewrite (Ht _ _ eq_refl eq_refl). apply Hfg; exact Hk.
  - destruct (contractible ct c); auto with imp. apply imp_anyM; intros; apply Hfg; exact Hk.
  - (* Union / Union *)
    simpl. apply imp_allM. intros it _. destruct (mem_ty it (flatten ts)); auto with imp.
    destruct it; try (apply Hfg; exact Hk). destruct (mem_ty _ _); auto with imp.
  - (* Inst / Tuple *)
    destruct (k_proper k1) eqn:P1.
    + rewrite andb_false_r. simpl. auto with imp.
    + rewrite (Hpp eq_refl). auto with imp.
  - (* Tuple / Tuple *)
    destruct (negb _); auto with imp. apply imp_allM; intros; apply Hfg; exact Hk.
Qed.
End Step.


(* ---------------------------------------------------------------- main monotonicity lemma *)
Definition no_inv (ct : ctable) : Prop := forall c, ~ In Inv (c_var (cls_of ct c)).

Lemma sub_kind_mono : forall ct, no_inv ct ->
  forall n m k1 k2 l r, kle k1 k2 -> imp (sub ct no_cache n k1 l r) (sub ct no_cache m k2 l r).
Proof.
  intros ct Hni. induction n; destruct m; simpl; intros; auto with imp.
  apply step_imp; auto.
  - intros; apply fuel_irrelevant.
  - intros la ra [c Hc]. destruct (Hni c Hc).
Qed.

Lemma kle_proper_sub : kle K_proper K_sub.
Proof. unfold kle; simpl; intuition discriminate. Qed.
Lemma kle_proper_np_sub : kle K_proper_np K_sub.
Proof. unfold kle; simpl; intuition discriminate. Qed.
Lemma kle_proper_np_proper : kle K_proper_np K_proper.
Proof. unfold kle; simpl; intuition discriminate. Qed.

(* decidable form of no_inv *)
Definition is_inv (v : variance) : bool := match v with Inv => true | _ => false end.
Definition no_inv_b (ct : ctable) : bool :=
  forallb (fun p : cid * cls => negb (existsb is_inv (c_var (snd p)))) (classes ct).
Lemma no_inv_b_ok : forall ct, no_inv_b ct = true -> no_inv ct.
Proof.
  intros ct H c. unfold cls_of. unfold no_inv_b in H. induction (classes ct) as [|[d x] r IH]; simpl in *; auto.
  apply andb_prop in H. destruct H as [H1 H2].
  destruct (Pos.eqb c d); auto.
  intros Hin. apply negb_true_iff in H1.
  assert (E : existsb is_inv (c_var x) = true) by (apply existsb_exists; exists Inv; auto).
  congruence.
Qed.

(* ---------------------------------------------------------------- is_same_type => both directions, every kind
   (the INVARIANT case of check_type_parameter) *)
Definition trueish (a : ob) : Prop := forall b, a = Some b -> b = true.

Lemma allM_ns_trueish : forall A (F : A -> ob) l,
  (forall p, In p l -> trueish (F p)) -> trueish (allM_ns F l).
Proof.
  induction l; simpl; intros H b Hb; [congruence|].
  destruct (F a) as [x|] eqn:E1; [|discriminate]. destruct (allM_ns F l) as [y|] eqn:E2; [|discriminate].
  inversion Hb. rewrite (H a (or_introl eq_refl) _ E1), (IHl (fun p Hp => H p (or_intror Hp)) y); auto.
Qed.
Lemma andM_trueish : forall a b, trueish a -> trueish (b tt) -> trueish (andM a b).
Proof.
  intros a b Ha Hb c. unfold andM. destruct a as [[|]|]; intros H.
  - apply Hb; auto.
  - specialize (Ha _ eq_refl). discriminate.
  - discriminate.
Qed.
Lemma andM_true_inv : forall a b, andM a b = Some true -> a = Some true /\ b tt = Some true.
Proof. intros a b. unfold andM. destruct a as [[|]|]; intros; try discriminate; auto. Qed.
Lemma in_zip3_combine : forall A B C (a : list A) (b : list B) (c : list C) x y z,
  In (x, y, z) (zip3 a b c) -> In (x, y) (combine a b).
Proof.
  induction a; destruct b, c; simpl; intros; try contradiction.
  destruct H as [H|H]; [inversion H; auto|right; eauto].
Qed.
Lemma in_combine_swap : forall A B (a : list A) (b : list B) x y, In (x, y) (combine a b) -> In (y, x) (combine b a).
Proof.
  induction a; destruct b; simpl; intros; try contradiction.
  destruct H as [H|H]; [inversion H; auto|right; eauto].
Qed.

Definition fast (a b : ty) : bool :=
  match a, b with
  | TInst c xs, TInst d ys => Pos.eqb c d && Nat.eqb (length xs) (length ys)
  | _, _ => false
  end.
Lemma fast_sym : forall a b, fast a b = fast b a.
Proof. destruct a, b; simpl; auto. rewrite Pos.eqb_sym, Nat.eqb_sym. reflexivity. Qed.

Fixpoint same_list (f : kind -> ty -> ty -> ob) (xs ys : list ty) : ob :=
  match xs, ys with
  | x :: xs', y :: ys' =>
      match same_gen f K_proper_np x y with
      | None => None
      | Some false => Some false
      | Some true => same_list f xs' ys'
      end
  | _, _ => Some true
  end.

Lemma same_gen_nonfast : forall f kk a b, fast a b = false ->
  same_gen f kk a b = andM (f kk a b) (fun _ => f kk b a).
Proof. destruct a, b; simpl; try reflexivity. intros ->. reflexivity. Qed.

Lemma same_gen_fast : forall f kk c xs d ys, fast (TInst c xs) (TInst d ys) = true ->
  same_gen f kk (TInst c xs) (TInst d ys) = same_list f xs ys.
Proof.
  intros f kk c xs d ys H. simpl in *. rewrite H. clear H.
  revert ys. induction xs; destruct ys; simpl; auto. rewrite IHxs. reflexivity.
Qed.

Lemma same_list_true_inv : forall f xs ys, same_list f xs ys = Some true ->
  forall x y, In (x, y) (combine xs ys) -> same_gen f K_proper_np x y = Some true.
Proof.
  induction xs; destruct ys; simpl; intros H x y Hin; try contradiction.
  destruct (same_gen f K_proper_np a t) as [[|]|] eqn:E; try discriminate.
  destruct Hin as [Hin|Hin]; [inversion Hin; subst; auto|eauto].
Qed.
Lemma same_list_trueish : forall f xs ys,
  (forall x y, In (x, y) (combine xs ys) -> trueish (same_gen f K_proper_np x y)) -> trueish (same_list f xs ys).
Proof.
  induction xs; destruct ys; simpl; intros H b Hb; try congruence.
  destruct (same_gen f K_proper_np a t) as [[|]|] eqn:E; try discriminate.
  - apply (IHxs ys); auto.
  - specialize (H a t (or_introl eq_refl) _ E). discriminate.
Qed.

(* one nominal step between two instances of the same class *)
Lemma inst_inst_trueish : forall ct m k2 c xs ys, k_notparams k2 = false ->
  (forall la ra v, In (la, ra, v) (zip3 xs ys (c_var (cls_of ct c))) ->
     trueish (match v with
              | Inv => if k_proper k2 then same_gen (sub ct no_cache m) k2 la ra
                       else andM (sub ct no_cache m k2 la ra) (fun _ => sub ct no_cache m k2 ra la)
              | Cov => sub ct no_cache m k2 la ra
              | Contra => sub ct no_cache m k2 ra la
              end)) ->
  trueish (sub ct no_cache (S m) k2 (TInst c xs) (TInst c ys)).
Proof.
  intros ct m k2 c xs ys Hn H b. simpl. unfold sub_step.
  destruct (ty_eqb _ _); [congruence|].
  rewrite andb_false_r. unfold no_cache at 1.
  match goal with |- match ?p with _ => _ end = _ -> _ => destruct p as [[|]|] end; try congruence.
  unfold has_base. rewrite Pos.eqb_refl. simpl. rewrite Hn.
  unfold map_to_super. rewrite Pos.eqb_refl.
  apply allM_ns_trueish. intros [[la ra] v] Hin. apply (H la ra v Hin).
Qed.

Section Same.
Variable ct : ctable.
Variable n : nat.
Hypothesis IHn : forall m k1 k2 l r, kle k1 k2 -> imp (sub ct no_cache n k1 l r) (sub ct no_cache m k2 l r).

Definition SameC (x y : ty) (k2 : kind) (m : nat) : Prop :=
  trueish (sub ct no_cache m k2 x y) /\ trueish (sub ct no_cache m k2 y x) /\
  trueish (same_gen (sub ct no_cache m) k2 x y) /\ trueish (same_gen (sub ct no_cache m) k2 y x).

Lemma kle_np : forall k2, k_notparams k2 = false -> kle K_proper_np k2.
Proof. intros k2 H. unfold kle; simpl. auto. Qed.

Lemma same_lemma : forall x y kk, k_proper kk = true ->
  same_gen (sub ct no_cache n) kk x y = Some true ->
  forall m k2, kle kk k2 -> SameC x y k2 m.
Proof.
  induction x using ty_ind'; intros y kk Hp Hs m k2 Hk;
    try (rewrite same_gen_nonfast in Hs by reflexivity;
         apply andM_true_inv in Hs; destruct Hs as [H1 H2];
         assert (A : trueish (sub ct no_cache m k2 _ y)) by (intros b Hb; apply (IHn m kk k2 _ y Hk H1 _ Hb));
         assert (B : trueish (sub ct no_cache m k2 y _)) by (intros b Hb; apply (IHn m kk k2 y _ Hk H2 _ Hb));
         repeat split; auto;
         [rewrite same_gen_nonfast by reflexivity | rewrite same_gen_nonfast by (rewrite fast_sym; reflexivity)];
         apply andM_trueish; auto; fail).
  destruct (fast (TInst c args) y) eqn:F.
  - destruct y; simpl in F; try discriminate.
    rename c0 into d. rename args0 into ys.
    assert (Fc := F). apply andb_prop in Fc. destruct Fc as [Fc Fl]. apply Pos.eqb_eq in Fc. subst d.
    rewrite same_gen_fast in Hs by exact F.
    assert (PW : forall xi yi, In (xi, yi) (combine args ys) -> forall m k2, k_notparams k2 = false -> SameC xi yi k2 m).
    { intros xi yi Hin m' k2' Hn'. rewrite Forall_forall in H.
      apply (H xi (in_combine_l _ _ _ _ Hin) yi K_proper_np eq_refl
               (same_list_true_inv _ _ _ Hs _ _ Hin) m' k2' (kle_np _ Hn')). }
    assert (Hn2 : k_notparams k2 = false) by (destruct Hk as [_ [_ [_ Hk]]]; exact Hk).
    assert (F' : fast (TInst c ys) (TInst c args) = true) by (rewrite fast_sym; exact F).
    repeat split.
    + destruct m; [intros b Hb; discriminate|].
      apply inst_inst_trueish; auto. intros la ra v Hin.
      destruct (PW la ra (in_zip3_combine _ _ _ _ _ _ _ _ _ Hin) m k2 Hn2) as [A [B [C D]]].
      destruct v; auto. destruct (k_proper k2); auto. apply andM_trueish; auto.
    + destruct m; [intros b Hb; discriminate|].
      apply inst_inst_trueish; auto. intros la ra v Hin.
      destruct (PW ra la (in_combine_swap _ _ _ _ _ _ (in_zip3_combine _ _ _ _ _ _ _ _ _ Hin)) m k2 Hn2) as [A [B [C D]]].
      destruct v; auto. destruct (k_proper k2); auto. apply andM_trueish; auto.
    + rewrite same_gen_fast by exact F. apply same_list_trueish. intros xi yi Hin.
      destruct (PW xi yi Hin m K_proper_np eq_refl) as [A [B [C D]]]. exact C.
    + rewrite same_gen_fast by exact F'. apply same_list_trueish. intros yi xi Hin.
      destruct (PW xi yi (in_combine_swap _ _ _ _ _ _ Hin) m K_proper_np eq_refl) as [A [B [C D]]]. exact D.
  - rewrite same_gen_nonfast in Hs by exact F.
    apply andM_true_inv in Hs. destruct Hs as [H1 H2].
    assert (A : trueish (sub ct no_cache m k2 (TInst c args) y)) by (intros b Hb; apply (IHn m kk k2 _ y Hk H1 _ Hb)).
    assert (B : trueish (sub ct no_cache m k2 y (TInst c args))) by (intros b Hb; apply (IHn m kk k2 y _ Hk H2 _ Hb)).
    repeat split; auto.
    + rewrite same_gen_nonfast by exact F. apply andM_trueish; auto.
    + rewrite same_gen_nonfast by (rewrite fast_sym; exact F). apply andM_trueish; auto.
Qed.
End Same.

(* ---------------------------------------------------------------- full monotonicity: every class table *)
Lemma sub_kind_mono_full : forall ct n m k1 k2 l r,
  kle k1 k2 -> imp (sub ct no_cache n k1 l r) (sub ct no_cache m k2 l r).
Proof.
  intros ct. induction n; destruct m; simpl; intros; auto with imp.
  apply step_imp; auto.
  - intros; apply fuel_irrelevant.
  - intros la ra _ Hp1 Hs y Hy.
    destruct (same_lemma ct n IHn la ra k1 Hp1 Hs m k2 H) as [A [B [C D]]].
    destruct (k_proper k2); [apply C; auto|].
    apply (andM_trueish _ (fun _ => sub ct no_cache m k2 ra la) A B); auto.
Qed.
