(* A sufficient fuel for subtype queries on fragment F1: with promotion chains of length <= N,
   every query between F1 types is answered at every fuel >= N + 4. *)
From Coq Require Import ZArith List Bool PArith Lia.
From C08 Require Import Model Proofs ProofsKind ProofsTrans ProofsTrans2.
Import ListNotations.

Definition def (a : ob) : Prop := a <> None.

Lemma anyM_def : forall A (f : A -> ob) l, (forall x, In x l -> def (f x)) -> def (anyM f l).
Proof.
  induction l; simpl; intros H; [discriminate|].
  assert (H1 := H a (or_introl eq_refl)). destruct (f a) as [[|]|]; try discriminate; [|contradiction].
  apply IHl. intros; apply H; right; auto.
Qed.
Lemma allM_def : forall A (f : A -> ob) l, (forall x, In x l -> def (f x)) -> def (allM f l).
Proof.
  induction l; simpl; intros H; [discriminate|].
  assert (H1 := H a (or_introl eq_refl)). destruct (f a) as [[|]|]; try discriminate; [|contradiction].
  apply IHl. intros; apply H; right; auto.
Qed.

Section Fuel.
Variable ct : ctable.
Variable N : nat.
Hypothesis Hch : chains_ok ct N = true.

Lemma forallb_imp : forall A (f g : A -> bool) l, (forall x, f x = true -> g x = true) -> forallb f l = true -> forallb g l = true.
Proof. induction l; simpl; intros H H1; auto. apply andb_prop in H1. destruct H1. rewrite (H a), IHl; auto. Qed.

Lemma chain_mono : forall n c, chain_ok ct n c = true -> chain_ok ct (S n) c = true.
Proof.
  induction n; intros c H.
  - simpl in *. eapply forallb_imp; [|exact H]. intros b Hb. simpl in Hb.
    destruct (c_promote (cls_of ct b)); auto. simpl in Hb. discriminate.
  - simpl in *. eapply forallb_imp; [|exact H]. intros b Hb. simpl in Hb.
    eapply forallb_imp; [|exact Hb]. intros p Hp. apply IHn in Hp. exact Hp.
Qed.

Lemma chain_ge : forall n c, N <= n -> chain_ok ct n c = true.
Proof.
  intros n c Hn.
  assert (H0 : chain_ok ct N c = true).
  { unfold chains_ok in Hch. rewrite forallb_forall in Hch.
    destruct (lookup_in (classes ct) c) as [E|Hin].
    - destruct N; simpl; unfold cls_of; rewrite E; reflexivity.
    - apply Hch. unfold cids_of. apply in_map_iff. exists (c, lookup_cls (classes ct) c). auto. }
  induction Hn; auto. apply chain_mono; auto.
Qed.

Lemma zip3_nil_mid' : forall A B C (a : list A) (c : list C), zip3 a (@nil B) c = [].
Proof. destruct a; auto. Qed.

Lemma sub_S : forall n k l r, sub ct no_cache (S n) k l r = sub_step ct no_cache (sub ct no_cache n) k l r.
Proof. reflexivity. Qed.

Lemma D_inst : forall n c, chain_ok ct n c = true -> forall k d, def (sub ct no_cache (S n) k (TInst c []) (TInst d [])).
Proof.
  unfold def. induction n; intros c Hc k d; rewrite sub_S; unfold sub_step;
    (destruct (ty_eqb (TInst c []) (TInst d [])); [discriminate|]); rewrite andb_false_r; unfold no_cache at 1;
    (match goal with |- (match ?p with _ => _ end) <> None =>
       assert (P : p <> None);
       [ destruct (negb (k_nopromo k) && negb (c_protocol (cls_of ct d))); [|discriminate];
         apply anyM_def; intros b Hb; apply anyM_def; intros p0 Hp;
         simpl in Hc; rewrite forallb_forall in Hc; specialize (Hc b Hb); rewrite forallb_forall in Hc;
         specialize (Hc p0 Hp)
       | destruct p as [[|]|]; [discriminate| |exfalso; apply P; reflexivity];
         (destruct (has_base ct c d || (d =? k_object ct)%positive); [|discriminate]);
         (destruct (k_notparams k); [discriminate|]); rewrite zip3_nil_mid'; discriminate ] end).
  - discriminate.
  - apply IHn. exact Hc.
Qed.

Lemma D_inst_ge : forall n c k d, N < n -> def (sub ct no_cache n k (TInst c []) (TInst d [])).
Proof.
  intros n c k d Hn. destruct n; [lia|]. apply D_inst. apply chain_ge. lia.
Qed.

Ltac step := rewrite sub_S; unfold sub_step.

Lemma D_atom : forall n k l r, N + 1 < n -> atom_ok ct l = true -> atom_ok ct r = true ->
  def (sub ct no_cache n k l r).
Proof.
  intros n k l r Hn Al Ar. destruct n; [lia|]. unfold def.
  destruct l as [| | |c [|? ?]|c v| |]; simpl in Al; try discriminate;
  destruct r as [| | |d [|? ?]|d w| |]; simpl in Ar; try discriminate;
  try (apply D_inst_ge; lia);
  step; (destruct (ty_eqb _ _); [discriminate|]); rewrite ?andb_false_r; simpl; try discriminate.
  - (* Lit / None *)
    destruct n; [lia|]. step. simpl. rewrite andb_false_r. discriminate.
  - (* Lit / Inst *) apply D_inst_ge; lia.
Qed.

Lemma D_never : forall n k r, 1 < n -> frag1 ct r = true -> def (sub ct no_cache n k TNever r).
Proof.
  intros n k r Hn Fr. destruct n; [lia|]. unfold def. step.
  destruct (ty_eqb _ _); [discriminate|].
  destruct r as [| | |d [|? ?]|d w|rs|]; simpl in Fr; try discriminate; rewrite ?andb_false_r; simpl; try discriminate.
  assert (P : anyM (fun it : ty => sub ct no_cache n k TNever it) rs <> None).
  { apply anyM_def. intros x Hx. destruct n; [lia|]. unfold def. step.
    destruct (ty_eqb _ _); [discriminate|].
    assert (Ax : atom_ok ct x = true) by (destruct rs; [discriminate|]; rewrite forallb_forall in Fr; auto).
    destruct x as [| | |e [|? ?]|e u| |]; simpl in Ax; try discriminate; rewrite ?andb_false_r; simpl; discriminate. }
  destruct (anyM _ rs) as [[|]|]; try discriminate. contradiction.
Qed.

Lemma plain_not_contractible : forall c, plain ct c = true -> contractible ct c = false.
Proof.
  intros c H. unfold plain in H. apply andb_prop in H. destruct H as [H _]. apply andb_prop in H. destruct H as [_ H].
  apply negb_true_iff; auto.
Qed.

Lemma D_atom_any : forall n k l r, N + 2 < n -> atom_ok ct l = true -> frag1 ct r = true ->
  def (sub ct no_cache n k l r).
Proof.
  intros n k l r Hn Al Fr.
  destruct r as [| | |d ds|d w|rs|]; simpl in Fr; try discriminate;
    try (apply D_atom; auto; lia).
  - (* r = Never *)
    destruct n; [lia|]. unfold def. step. destruct (ty_eqb _ _); [discriminate|]. rewrite andb_false_r. simpl.
    destruct l as [| | |c [|? ?]|c v| |]; simpl in Al; try discriminate.
    destruct n; [lia|]. step. simpl. rewrite andb_false_r. discriminate.
  - (* r = Union *)
    assert (Ars : forallb (atom_ok ct) rs = true) by (destruct rs; [discriminate|auto]).
    destruct n; [lia|]. unfold def. step. destruct (ty_eqb _ _); [discriminate|]. rewrite andb_false_r.
    assert (P : anyM (fun it : ty => sub ct no_cache n k l it) rs <> None).
    { apply anyM_def. intros x Hx. apply D_atom; auto; [lia|]. rewrite forallb_forall in Ars; auto. }
    destruct l as [| | |c [|? ?]|c v| |]; simpl in Al; try discriminate; simpl;
      destruct (anyM _ rs) as [[|]|]; try discriminate; try contradiction.
    rewrite (plain_not_contractible c Al). discriminate.
Qed.

Lemma go_def : forall (subf : kind -> ty -> ty -> ob) k r items seen,
  (forall it, In it items -> subf k it r <> None) ->
  (forall c v, In (TLit c v) items -> subf k (TInst c []) r <> None) ->
  (fix go (items : list ty) (seen : list cid) : ob :=
     match items with
     | [] => Some true
     | TLit c v :: rest =>
         if mem_cid c seen then go rest seen
         else match subf k (TInst c []) r with
              | None => None
              | Some false => Some false
              | Some true => go rest (c :: seen)
              end
     | it :: rest =>
         match subf k it r with
         | None => None
         | Some false => Some false
         | Some true => go rest seen
         end
     end) items seen <> None.
Proof.
  intros subf k r. induction items as [|a rest IH]; intros seen H1 H2; [discriminate|].
  assert (R1 : forall it, In it rest -> subf k it r <> None) by (intros; apply H1; right; auto).
  assert (R2 : forall c v, In (TLit c v) rest -> subf k (TInst c []) r <> None) by (intros; eapply H2; right; eauto).
  destruct a.
  all: try (assert (T := H1 _ (or_introl eq_refl)); destruct (subf k _ r) as [[|]|]; auto; discriminate).
  destruct (mem_cid c seen); auto.
  assert (T := H2 c v (or_introl eq_refl)). destruct (subf k (TInst c []) r) as [[|]|]; auto; discriminate.
Qed.

Theorem fuel_sufficient_F1 : forall n k l r, N + 3 < n -> frag1 ct l = true -> frag1 ct r = true ->
  sub ct no_cache n k l r <> None.
Proof.
  intros n k l r Hn Fl Fr.
  destruct l as [| | |c cs|c v|ls|]; simpl in Fl; try discriminate;
    try (apply D_atom_any; auto; lia).
  - apply D_never; auto. lia.
  - (* Union *)
    assert (Als : forallb (atom_ok ct) ls = true) by (destruct ls; [discriminate|auto]).
    assert (Hit : forall it, In it ls -> sub ct no_cache (n - 1) k it r <> None).
    { intros it Hin. apply D_atom_any; auto; [lia|]. rewrite forallb_forall in Als; auto. }
    destruct n; [lia|]. replace (S n - 1) with n in Hit by lia. step.
    destruct (ty_eqb _ _); [discriminate|]. rewrite (frag_not_any ct r Fr), andb_false_r.
    destruct r as [| | |d [|? ?]|d w|rs|]; simpl in Fr; try discriminate.
    + apply allM_def; auto.
    + apply allM_def; auto.
    + apply go_def; auto. intros c0 v0 Hin. apply D_inst_ge. lia.
    + apply allM_def; auto.
    + simpl. apply allM_def. intros it Hin. destruct (mem_ty it (flatten rs)); [discriminate|].
      destruct it as [| | |e es|e u| |]; try (apply Hit; auto; fail).
      destruct (mem_ty (TInst e []) (flatten rs)); [discriminate|apply Hit; auto].
Qed.
End Fuel.
