(* join_types on fragment F1up: the join is an upper bound of both arguments *)
From Coq Require Import ZArith List Bool PArith Lia.
From C08 Require Import Model Proofs ProofsKind ProofsTrans ProofsTrans2 ProofsUnion ProofsMeet.
Import ListNotations.

Section J.
Variable ct : ctable.
Hypothesis Hwf : wf_ct ct = true.
Variable m : nat.                      (* fuel of the subtype queries issued by join *)
Notation sq := (sub ct no_cache m).

(* the three mutually recursive functions of Join.v with the recursive calls abstracted *)
Definition join_body (jf jif : ty -> ty -> option ty) (s0 t0 : ty) : option ty :=
    let norm : option (ty * ty) :=
      if Bool.eqb (can_be_true ct s0) (can_be_true ct t0)
         && Bool.eqb (can_be_false ct s0) (can_be_false ct t0)
      then Some (s0, t0)
      else match Join.tof ct no_cache m s0, Join.tof ct no_cache m t0 with
           | Some a, Some b => Some (a, b)
           | _, _ => None
           end in
    match norm with
    | None => None
    | Some p0 =>
      let p1 := swap_if (is_union (fst p0) && negb (is_union (snd p0))) p0 in
      if is_any (fst p1) then Some (fst p1) else
      let p2 := swap_if (is_none (fst p1) && negb (is_none (snd p1))) p1 in
      let p3 := swap_if (is_never (fst p2) && negb (is_never (snd p2))) p2 in
      let s := fst p3 in
      let t := snd p3 in
      match t with
      | TUnion _ =>
          match (sub ct no_cache m) K_proper s t with
          | None => None
          | Some true => Some t
          | Some false => (simpl_union ct (sub ct no_cache m)) [s; t]
          end
      | TAny => Some t
      | TNone =>
          match s with
          | TNone => Some t
          | TNever => Some t
          | TAny => Some TAny
          | _ => (simpl_union ct (sub ct no_cache m)) [s; t]
          end
      | TNever => Some s
      | TInst c targs =>
          match s with
          | TInst _ _ => jif t s
          | TTuple _ => jf t s
          | TLit _ _ => jf t s
          | _ => Some ((Join.join_default ct) s)
          end
      | TLit c v =>
          match s with
          | TLit d w =>
              if ty_eqb t s then Some t
              else if is_enum ct d && is_enum ct c then (simpl_union ct (sub ct no_cache m)) [s; t]
              else jf (TInst d []) (TInst c [])
          | _ => jf s (TInst c [])
          end
      | TTuple titems =>
          match s with
          | TTuple sitems =>
              if Nat.eqb (length sitems) (length titems) then
                match mapM (fun p => jf (fst p) (snd p)) (combine titems sitems) with
                | None => None
                | Some items => Some (TTuple items)
                end
              else
                match (sub ct no_cache m) K_proper s t with
                | None => None
                | Some true => Some t
                | Some false =>
                    match (sub ct no_cache m) K_proper t s with
                    | None => None
                    | Some true => Some s
                    | Some false =>
                        match tuple_fallback ct (sub ct no_cache m) sitems, tuple_fallback ct (sub ct no_cache m) titems with
                        | Some fs, Some ft => jif fs ft
                        | _, _ => None
                        end
                    end
                end
          | _ => match tuple_fallback ct (sub ct no_cache m) titems with
                 | None => None
                 | Some fb => jf s fb
                 end
          end
      end
    end.

Definition join_norm (s0 t0 : ty) : option (ty * ty) :=

      if Bool.eqb (can_be_true ct s0) (can_be_true ct t0)
         && Bool.eqb (can_be_false ct s0) (can_be_false ct t0)
      then Some (s0, t0)
      else match Join.tof ct no_cache m s0, Join.tof ct no_cache m t0 with
           | Some a, Some b => Some (a, b)
           | _, _ => None
           end.

Definition join_rest (jf jif : ty -> ty -> option ty) (p0 : ty * ty) : option ty :=
      let p1 := swap_if (is_union (fst p0) && negb (is_union (snd p0))) p0 in
      if is_any (fst p1) then Some (fst p1) else
      let p2 := swap_if (is_none (fst p1) && negb (is_none (snd p1))) p1 in
      let p3 := swap_if (is_never (fst p2) && negb (is_never (snd p2))) p2 in
      let s := fst p3 in
      let t := snd p3 in
      match t with
      | TUnion _ =>
          match (sub ct no_cache m) K_proper s t with
          | None => None
          | Some true => Some t
          | Some false => (simpl_union ct (sub ct no_cache m)) [s; t]
          end
      | TAny => Some t
      | TNone =>
          match s with
          | TNone => Some t
          | TNever => Some t
          | TAny => Some TAny
          | _ => (simpl_union ct (sub ct no_cache m)) [s; t]
          end
      | TNever => Some s
      | TInst c targs =>
          match s with
          | TInst _ _ => jif t s
          | TTuple _ => jf t s
          | TLit _ _ => jf t s
          | _ => Some ((Join.join_default ct) s)
          end
      | TLit c v =>
          match s with
          | TLit d w =>
              if ty_eqb t s then Some t
              else if is_enum ct d && is_enum ct c then (simpl_union ct (sub ct no_cache m)) [s; t]
              else jf (TInst d []) (TInst c [])
          | _ => jf s (TInst c [])
          end
      | TTuple titems =>
          match s with
          | TTuple sitems =>
              if Nat.eqb (length sitems) (length titems) then
                match mapM (fun p => jf (fst p) (snd p)) (combine titems sitems) with
                | None => None
                | Some items => Some (TTuple items)
                end
              else
                match (sub ct no_cache m) K_proper s t with
                | None => None
                | Some true => Some t
                | Some false =>
                    match (sub ct no_cache m) K_proper t s with
                    | None => None
                    | Some true => Some s
                    | Some false =>
                        match tuple_fallback ct (sub ct no_cache m) sitems, tuple_fallback ct (sub ct no_cache m) titems with
                        | Some fs, Some ft => jif fs ft
                        | _, _ => None
                        end
                    end
                end
          | _ => match tuple_fallback ct (sub ct no_cache m) titems with
                 | None => None
                 | Some fb => jf s fb
                 end
          end
      end.

Lemma join_body_split : forall jf jif s0 t0,
  join_body jf jif s0 t0 = match join_norm s0 t0 with None => None | Some p0 => join_rest jf jif p0 end.
Proof. reflexivity. Qed.

Definition join_inst_body (jf jvf : ty -> ty -> option ty) (t s : ty) : option ty :=
    match t, s with
    | TInst c targs, TInst d sargs =>
        if Pos.eqb c d then
          (* None = out of fuel; Some None = early `return object_from_instance(t)` *)
          match (fix go (l : list (ty * ty * variance)) : option (option (list ty)) :=
                   match l with
                   | [] => Some (Some [])
                   | (ta, sa, v) :: r =>
                       let one : option (option ty) :=
                         if is_any ta then Some (Some TAny)
                         else if is_any sa then Some (Some TAny)
                         else match v with
                              | Cov => match jf ta sa with
                                       | None => None
                                       | Some x => Some (Some x)
                                       end
                              | _ =>
                                  match andM ((sub ct no_cache m) K_sub ta sa) (fun _ => (sub ct no_cache m) K_sub sa ta) with
                                  | None => None
                                  | Some false => Some None
                                  | Some true => match jf ta sa with
                                                 | None => None
                                                 | Some x => Some (Some x)
                                                 end
                                  end
                              end in
                       match one with
                       | None => None
                       | Some None => Some None
                       | Some (Some x) =>
                           match go r with
                           | None => None
                           | Some None => Some None
                           | Some (Some xs) => Some (Some (x :: xs))
                           end
                       end
                   end) (zip3 targs sargs (c_var (cls_of ct c))) with
          | None => None
          | Some None => Some (Join.object_t ct)
          | Some (Some args) => Some (TInst c args)
          end
        else
          match (match c_bases (cls_of ct c) with
                 | [] => Some false
                 | _ => (sub ct no_cache m) K_proper_ntp t s
                 end) with
          | None => None
          | Some true => jvf t s
          | Some false => jvf s t
          end
    | _, _ => Some TAny
    end.

Definition join_via_body (jf jif : ty -> ty -> option ty) (t s : ty) : option ty :=
    match t, s with
    | TInst c targs, TInst d sargs =>
        (* promotions of t, then of s *)
        (fix p1 (ps : list cid) : option ty :=
           match ps with
           | p :: r => match (sub ct no_cache m) K_sub (TInst p []) s with
                       | None => None
                       | Some true => jf (TInst p []) s
                       | Some false => p1 r
                       end
           | [] =>
             (fix p2 (ps : list cid) : option ty :=
                match ps with
                | p :: r => match (sub ct no_cache m) K_sub (TInst p []) t with
                            | None => None
                            | Some true => jf t (TInst p [])
                            | Some false => p2 r
                            end
                | [] =>
                  let own := c_bases (cls_of ct c) in
                  let extra :=
                    filter (fun b => (Join.is_proto ct) b && negb (mem_cid b own) && has_base ct c b
                                     && forallb (fun p => sub_typevar (snd p) (fst p))
                                          (combine (map_to_super ct c targs b) (c_var (cls_of ct b))))
                           (c_bases (cls_of ct d)) in
                  let fix best_of (bs : list cid) (best : option ty) : option (option ty) :=
                    match bs with
                    | [] => Some best
                    | b :: r =>
                        match jif (TInst b (map_to_super ct c targs b)) s with
                        | None => None
                        | Some res =>
                            best_of r (match best with
                                       | None => Some res
                                       | Some bst => if (Join.is_better ct) res bst then Some res else Some bst
                                       end)
                        end
                    end in
                  match best_of (nodup Pos.eq_dec (own ++ extra)) None with
                  | None => None
                  | Some None => Some (Join.object_t ct)      (* `assert best is not None` *)
                  | Some (Some bst) =>
                      (fix p3 (ps : list cid) (best : ty) : option ty :=
                         match ps with
                         | [] => Some best
                         | p :: r =>
                             match jif (TInst p []) s with
                             | None => None
                             | Some res => p3 r (if (Join.is_better ct) res best then res else best)
                             end
                         end) (c_promote (cls_of ct c)) bst
                  end
                end) (c_promote (cls_of ct d))
           end) (c_promote (cls_of ct c))
    | _, _ => Some TAny
    end.

Lemma join_unfold : forall n s t, join ct no_cache m (S n) s t = join_body (join ct no_cache m n) (join_inst ct no_cache m n) s t.
Proof. reflexivity. Qed.
Lemma join_inst_unfold : forall n s t, join_inst ct no_cache m (S n) s t = join_inst_body (join ct no_cache m n) (join_via ct no_cache m n) s t.
Proof. reflexivity. Qed.
Lemma join_via_unfold : forall n s t, join_via ct no_cache m (S n) s t = join_via_body (join ct no_cache m n) (join_inst ct no_cache m n) s t.
Proof. reflexivity. Qed.

(* ---------------------------------------------------------------- facts *)
Lemma plain_up_plain : forall c, plain_up ct c = true -> plain ct c = true.
Proof. intros c H. unfold plain_up in H. apply andb_prop in H. tauto. Qed.
Lemma atom_up_ok : forall t, atom_up ct t = true -> atom_ok ct t = true.
Proof. destruct t; simpl; auto. destruct args; auto. apply plain_up_plain. apply plain_up_plain. Qed.
Lemma atoms_up_ok : forall l, forallb (atom_up ct) l = true -> forallb (atom_ok ct) l = true.
Proof. intros l H. rewrite forallb_forall in *. intros x Hx. apply atom_up_ok; auto. Qed.
Lemma up_frag : forall t, frag_up ct t = true -> frag1 ct t = true.
Proof.
  destruct t; simpl; auto; try discriminate.
  - destruct args; auto. apply plain_up_plain.
  - apply plain_up_plain.
  - destruct ts; auto. intros H. apply (atoms_up_ok (t :: ts)); auto.
Qed.
Lemma atom_up_frag : forall t, atom_up ct t = true -> frag_up ct t = true.
Proof. destruct t; simpl; auto; discriminate. Qed.

Lemma in_table : forall c, lookup_cls (classes ct) c <> empty_cls -> In c (cids_of ct).
Proof.
  intros c H. destruct (lookup_in (classes ct) c) as [E|Hin]; [contradiction|].
  unfold cids_of. apply in_map_iff. exists (c, lookup_cls (classes ct) c). auto.
Qed.

Lemma wf_class_of : forall c, In c (cids_of ct) -> wf_class ct c = true.
Proof.
  intros c Hc. assert (W := Hwf). unfold wf_ct in W. apply andb_prop in W. destruct W as [_ W].
  rewrite forallb_forall in W. auto.
Qed.

Lemma bases_in_mro : forall c b, In b (c_bases (cls_of ct c)) -> In b (c_mro (cls_of ct c)).
Proof.
  intros c b Hb.
  assert (Hne : lookup_cls (classes ct) c <> empty_cls).
  { intros E. unfold cls_of in Hb. rewrite E in Hb. destruct Hb. }
  assert (W := wf_class_of c (in_table c Hne)). unfold wf_class in W.
  do 7 (apply andb_prop in W; destruct W as [W ?]).
  match goal with H : forallb (fun d => mem_cid d (c_mro (cls_of ct c))) (c_bases (cls_of ct c)) = true |- _ =>
    rewrite forallb_forall in H; apply mem_cid_in; apply H; auto end.
Qed.

Lemma self_in_mro : forall c, lookup_cls (classes ct) c <> empty_cls -> In c (c_mro (cls_of ct c)).
Proof.
  intros c Hne. assert (W := wf_class_of c (in_table c Hne)). unfold wf_class in W.
  do 7 (apply andb_prop in W; destruct W as [W ?]).
  destruct (c_mro (cls_of ct c)) as [|h t]; [discriminate|]. apply Pos.eqb_eq in W. subst. left; auto.
Qed.

Lemma mro_plain_up : forall c b, plain_up ct c = true -> In b (c_mro (cls_of ct c)) -> plain_up ct b = true.
Proof.
  intros c b H Hb. unfold plain_up in *. apply andb_prop in H. destruct H as [_ H].
  rewrite forallb_forall in H. apply andb_true_intro. split; auto.
  apply forallb_forall. intros e He. apply H. eapply mro_trans; eauto.
Qed.

Lemma object_up : plain_up ct (k_object ct) = true.
Proof.
  unfold plain_up. rewrite (object_plain ct Hwf), (object_mro ct Hwf). simpl. rewrite (object_plain ct Hwf). reflexivity.
Qed.

Lemma ile_base : forall c b, In b (c_mro (cls_of ct c)) -> ile ct false c b.
Proof. intros. apply ile_nom. left. unfold has_base. apply orb_true_iff. right. apply mem_cid_in. auto. Qed.

Lemma ile_prom : forall c p, In p (c_promote (cls_of ct c)) -> ile ct false c p.
Proof.
  intros c p Hp. apply (ile_promo ct false c p c p); auto.
  - apply self_in_mro. intros E. unfold cls_of in Hp. rewrite E in Hp. destruct Hp.
  - apply ile_refl.
Qed.

Lemma plain_not_enum : forall c, plain ct c = true -> is_enum ct c = false.
Proof.
  intros c H. unfold plain in H. apply andb_prop in H. destruct H as [H _]. apply andb_prop in H. destruct H as [_ H].
  apply negb_true_iff in H. unfold contractible in H. apply orb_false_iff in H. tauto.
Qed.

Lemma le_lit_of_inst : forall np c v r, le ct np (TInst c []) r -> le ct np (TLit c v) r.
Proof.
  intros np c v r H. simpl in *. unfold ale_u in *.
  destruct r as [| | |d ds|d w|rs|]; simpl in *; auto; try contradiction.
  destruct H as [x [Hx H]]. exists x. split; auto.
  destruct x as [| | |e es|e w| |]; simpl in *; auto; try contradiction.
Qed.

Definition join_ok (s t j : ty) : Prop := frag_up ct j = true /\ le ct false s j /\ le ct false t j.
Lemma join_ok_sym : forall s t j, join_ok s t j -> join_ok t s j.
Proof. intros s t j [A [B C]]. repeat split; auto. Qed.

(* ---------------------------------------------------------------- simplified unions of F1up types *)
Lemma flatten_fix_atoms : forall l, forallb (atom_up ct) l = true ->
  (fix fl (us : list ty) : list ty := match us with [] => [] | u :: r' => flatten_one u ++ fl r' end) l = l.
Proof.
  induction l as [|a l IH]; intros A; auto. simpl in A. apply andb_prop in A. destruct A as [A1 A2].
  rewrite IH; auto. destruct a; simpl in *; auto; discriminate.
Qed.

Lemma flatten_one_up : forall t, frag_up ct t = true ->
  flatten_one t = match t with TUnion items => items | _ => [t] end.
Proof.
  destruct t; simpl; auto. intros H. destruct ts as [|x r]; [discriminate|].
  apply (flatten_fix_atoms (x :: r)). exact H.
Qed.

Lemma simpl_union_shape : forall n fl u, forallb (item_ok ct) fl = true ->
  simpl_union ct (sub ct no_cache n) fl = Some u ->
  u = TNever \/ In u fl \/ exists rr, u = TUnion rr /\ incl rr fl.
Proof.
  intros n fl u Hi H. unfold simpl_union in H. rewrite (flatten_items ct fl Hi) in H.
  assert (G : forall rr, remove_redundant (sub ct no_cache n) fl = Some rr ->
            Some (make_union (if Nat.ltb 1 (count_lit rr) then contract ct rr else rr)) = Some u ->
            u = TNever \/ In u fl \/ exists rr, u = TUnion rr /\ incl rr fl).
  { intros rr Hr Hu. destruct (remove_redundant_spec ct Hwf n fl rr Hi Hr) as [A [I _]].
    assert (Hc : (if Nat.ltb 1 (count_lit rr) then contract ct rr else rr) = rr).
    { destruct (Nat.ltb 1 (count_lit rr)); auto. unfold contract. apply contract_go_plain; auto. }
    rewrite Hc in Hu. injection Hu as <-. destruct rr as [|y [|z rr']]; simpl; auto.
    - right. left. apply I. simpl; auto.
    - right. right. eexists. split; eauto. }
  destruct fl as [|x [|y l]].
  - unfold remove_redundant in H. simpl in H. apply (G []); auto.
  - injection H as <-. right. left. simpl; auto.
  - destruct (remove_redundant _ _) as [rr|] eqn:E; [|discriminate]. apply (G rr); auto.
Qed.

Definition atoms_of (t : ty) : list ty := match t with TUnion items => items | TNever => [] | _ => [t] end.

Lemma atoms_of_up : forall t, frag_up ct t = true -> forallb (atom_up ct) (atoms_of t) = true.
Proof.
  destruct t; simpl; auto; try discriminate; intros H; try (rewrite H; auto).
  destruct ts; auto.
Qed.

Lemma le_of_atoms : forall t j, frag_up ct t = true -> (forall x, In x (atoms_of t) -> ale_u ct false x j) -> le ct false t j.
Proof.
  intros t j F H. destruct t; simpl in *; auto; try discriminate; try (apply H; auto).
Qed.

(* a simplified union whose flattened items are exactly the atoms of the given types (plus Never) *)
Lemma simpl_up : forall n fl u, forallb (fun x => atom_up ct x || is_never x) fl = true ->
  simpl_union ct (sub ct no_cache n) fl = Some u ->
  frag_up ct u = true /\ (forall x, In x fl -> is_never x = false -> ale_u ct false x u).
Proof.
  intros n fl u Hi H.
  assert (Hi' : forallb (item_ok ct) fl = true).
  { rewrite forallb_forall in *. intros x Hx. specialize (Hi x Hx). unfold item_ok.
    apply orb_true_iff in Hi. destruct Hi as [Hi|Hi]; [rewrite (atom_up_ok x Hi)|rewrite Hi, orb_true_r]; auto. }
  destruct (simpl_union_spec ct Hwf n fl u Hi' H) as [F [_ C]].
  split; [|intros; apply C; auto].
  assert (Hup : forall x, In x fl -> atom_ok ct x = true -> atom_up ct x = true).
  { intros x Hx Ax. rewrite forallb_forall in Hi. specialize (Hi x Hx). apply orb_true_iff in Hi.
    destruct Hi as [Hi|Hi]; auto. destruct x; simpl in *; discriminate. }
  destruct (simpl_union_shape n fl u Hi' H) as [->|[Hin|[rr [-> Hrr]]]]; auto.
  - rewrite forallb_forall in Hi. specialize (Hi u Hin). apply orb_true_iff in Hi. destruct Hi as [Hi|Hi].
    + apply atom_up_frag; auto.
    + destruct u; simpl in Hi; try discriminate. reflexivity.
  - simpl in F. simpl. destruct rr as [|y rr']; [discriminate|].
    apply forallb_forall. intros x Hx. apply Hup; auto. rewrite forallb_forall in F. auto.
Qed.

Lemma simpl_pair : forall s t j, frag_up ct s = true -> frag_up ct t = true ->
  simpl_union ct sq [s; t] = Some j -> join_ok s t j.
Proof.
  intros s t j Fs Ft H.
  set (fl := flatten [s; t]).
  assert (Hfl : fl = flatten_one s ++ flatten_one t) by (unfold fl, flatten; simpl; rewrite app_nil_r; auto).
  assert (Hin : forall x, In x fl -> atom_up ct x || is_never x = true).
  { intros x Hx. rewrite Hfl in Hx. apply in_app_or in Hx.
    assert (A : forall u, frag_up ct u = true -> In x (flatten_one u) -> atom_up ct x || is_never x = true).
    { intros u Fu Hu. rewrite (flatten_one_up u Fu) in Hu. destruct u; simpl in Fu; try discriminate;
        try (destruct Hu as [<-|[]]; simpl; auto; rewrite Fu; auto; fail).
      destruct ts; [discriminate|]. rewrite forallb_forall in Fu. rewrite (Fu x Hu). auto. }
    destruct Hx; eauto. }
  assert (Hi : forallb (fun x => atom_up ct x || is_never x) fl = true) by (apply forallb_forall; auto).
  assert (Hflat : flatten fl = fl).
  { apply (flatten_items ct). rewrite forallb_forall in *. intros x Hx. specialize (Hi x Hx). unfold item_ok.
    apply orb_true_iff in Hi. destruct Hi as [Hi|Hi]; [rewrite (atom_up_ok x Hi)|rewrite Hi, orb_true_r]; auto. }
  assert (H' : simpl_union ct sq fl = Some j).
  { unfold simpl_union in *. rewrite Hflat. exact H. }
  destruct (simpl_up m fl j Hi H') as [F C].
  assert (Hcov : forall u, frag_up ct u = true -> (forall x, In x (flatten_one u) -> In x fl) -> le ct false u j).
  { intros u Fu Hsub. apply le_of_atoms; auto. intros x Hx.
    assert (Ax := atoms_of_up u Fu). rewrite forallb_forall in Ax. specialize (Ax x Hx).
    apply C; [|destruct x; simpl in *; auto; discriminate].
    apply Hsub. rewrite (flatten_one_up u Fu). destruct u; simpl in *; auto; try discriminate. }
  repeat split; auto; apply Hcov; auto; intros x Hx; rewrite Hfl; apply in_or_app; auto.
Qed.

(* ---------------------------------------------------------------- true_or_false normalisation *)
Lemma lrefl : forall t, frag_up ct t = true -> le ct false t t.
Proof. intros. apply le_refl. apply up_frag; auto. Qed.

Lemma tof_go_atoms : forall l, forallb (atom_up ct) l = true ->
  (fix go (l : list ty) : option (list ty) :=
     match l with
     | [] => Some []
     | x :: r => match Join.tof ct no_cache m x, go r with
                 | Some a, Some b => Some (a :: b)
                 | _, _ => None
                 end
     end) l = Some l.
Proof.
  induction l as [|a l IH]; intros A; auto. simpl in A. apply andb_prop in A. destruct A as [A1 A2].
  rewrite IH; auto. destruct a; simpl in *; auto; discriminate.
Qed.

Lemma tof_up : forall t t', frag_up ct t = true -> Join.tof ct no_cache m t = Some t' ->
  frag_up ct t' = true /\ le ct false t t'.
Proof.
  intros t t' F H. destruct t; simpl in H; try (injection H as <-; split; auto using lrefl; fail).
  simpl in F. destruct ts as [|x r]; [discriminate|].
  rewrite (tof_go_atoms (x :: r) F) in H.
  assert (Hi : forallb (fun y => atom_up ct y || is_never y) (x :: r) = true).
  { rewrite forallb_forall in *. intros y Hy. rewrite (F y Hy). auto. }
  destruct (simpl_up m (x :: r) t' Hi H) as [F' C]. split; auto.
  intros y Hy. apply C; auto. rewrite forallb_forall in F. specialize (F y Hy). destruct y; simpl in *; auto; discriminate.
Qed.

Lemma norm_up : forall s0 t0 p0, frag_up ct s0 = true -> frag_up ct t0 = true -> join_norm s0 t0 = Some p0 ->
  frag_up ct (fst p0) = true /\ frag_up ct (snd p0) = true /\ le ct false s0 (fst p0) /\ le ct false t0 (snd p0).
Proof.
  intros s0 t0 p0 Fs Ft H. unfold join_norm in H.
  destruct (_ && _).
  - injection H as <-. simpl. auto using lrefl.
  - destruct (Join.tof ct no_cache m s0) as [a|] eqn:E1; [|discriminate].
    destruct (Join.tof ct no_cache m t0) as [b|] eqn:E2; [|discriminate].
    injection H as <-. simpl. destruct (tof_up _ _ Fs E1). destruct (tof_up _ _ Ft E2). auto.
Qed.

(* ---------------------------------------------------------------- the dispatch of join_types *)
Section Rest.
Variables jf jif : ty -> ty -> option ty.
Hypothesis IHj : forall a b y, frag_up ct a = true -> frag_up ct b = true -> jf a b = Some y -> join_ok a b y.
Hypothesis IHi : forall c d y, plain_up ct c = true -> plain_up ct d = true ->
  jif (TInst c []) (TInst d []) = Some y -> join_ok (TInst c []) (TInst d []) y.

Lemma ok_left : forall s t, frag_up ct s = true -> frag_up ct t = true -> le ct false t s -> join_ok s t s.
Proof. intros. repeat split; auto using lrefl. Qed.
Lemma ok_right : forall s t, frag_up ct s = true -> frag_up ct t = true -> le ct false s t -> join_ok s t t.
Proof. intros. repeat split; auto using lrefl. Qed.

(* join with a union on the right (TypeJoinVisitor.visit_union_type) *)
Lemma union_right : forall s t j, frag_up ct s = true -> frag_up ct t = true ->
  match sq K_proper s t with
  | None => None
  | Some true => Some t
  | Some false => simpl_union ct sq [s; t]
  end = Some j -> join_ok s t j.
Proof.
  intros s t j Fs Ft H. destruct (sq K_proper s t) as [[|]|] eqn:E; try discriminate.
  - injection H as <-. apply ok_right; auto.
    exact (sub_sound ct Hwf m K_proper s t eq_refl (up_frag _ Fs) (up_frag _ Ft) E).
  - apply simpl_pair; auto.
Qed.

Lemma lit_inst_ok : forall c v t j, join_ok (TInst c []) t j -> join_ok (TLit c v) t j.
Proof. intros c v t j [A [B C]]. repeat split; auto. apply le_lit_of_inst; auto. Qed.

Lemma join_rest_spec : forall p0 j, frag_up ct (fst p0) = true -> frag_up ct (snd p0) = true ->
  join_rest jf jif p0 = Some j -> join_ok (fst p0) (snd p0) j.
Proof.
  intros [s t] j Fs Ft H. simpl fst in *. simpl snd in *. unfold join_rest in H.
  assert (Fs0 := Fs). assert (Ft0 := Ft).
  destruct s as [| | |c [|? ?]|c v|ss|]; simpl in Fs; try discriminate;
  destruct t as [| | |d [|? ?]|d w|ts|]; simpl in Ft; try discriminate; cbn in H.
  all: try (injection H as <-; repeat split; simpl; auto using lrefl; fail).
  all: try (apply simpl_pair; auto; fail).
  all: try (apply join_ok_sym; apply simpl_pair; auto; fail).
  all: try (apply union_right; auto; fail).
  all: try (apply join_ok_sym; apply union_right; auto; fail).
  - injection H as <-. apply ok_right; simpl; auto.
  - apply join_ok_sym. apply IHi; auto.
  - apply join_ok_sym. apply lit_inst_ok. apply join_ok_sym. apply IHj; auto.
  - apply join_ok_sym. apply IHj; auto.
  - destruct ((d =? c)%positive && (w =? v)%Z) eqn:E.
    + apply andb_prop in E. destruct E as [E1 E2]. apply Pos.eqb_eq in E1. apply Z.eqb_eq in E2. subst.
      injection H as <-. apply ok_right; auto using lrefl.
    + rewrite (plain_not_enum c (plain_up_plain c Fs)) in H. simpl in H.
      apply lit_inst_ok. apply join_ok_sym. apply lit_inst_ok. apply join_ok_sym. apply IHj; auto.
  - injection H as <-. apply ok_left; simpl; auto.
Qed.
End Rest.

(* ---------------------------------------------------------------- join_instances / join_instances_via_supertype *)
Lemma ok_below_l : forall t t' s j, frag_up ct t = true -> le ct false t t' -> join_ok t' s j -> join_ok t s j.
Proof. intros t t' s j F L [A [B C]]. repeat split; auto. eapply (le_trans ct Hwf); eauto. Qed.
Lemma ok_below_r : forall t s s' j, frag_up ct s = true -> le ct false s s' -> join_ok t s' j -> join_ok t s j.
Proof. intros t s s' j F L [A [B C]]. repeat split; auto. eapply (le_trans ct Hwf); eauto. Qed.

Lemma map_super_nil : forall c b, plain ct b = true -> map_to_super ct c [] b = [].
Proof.
  intros c b H. unfold map_to_super. destruct (Pos.eqb c b); auto.
  unfold plain in H. apply andb_prop in H. destruct H as [H _]. apply andb_prop in H. destruct H as [H _].
  apply Nat.eqb_eq in H. unfold arity in H. destruct (c_var (cls_of ct b)); [auto|discriminate].
Qed.

Lemma object_ok : forall c d, plain_up ct c = true -> plain_up ct d = true ->
  join_ok (TInst c []) (TInst d []) (Join.object_t ct).
Proof.
  intros c d Pc Pd. unfold Join.object_t. repeat split; simpl.
  - apply object_up.
  - apply ile_nom; auto.
  - apply ile_nom; auto.
Qed.

Section Inst.
Variables jf jif jvf : ty -> ty -> option ty.
Hypothesis IHj : forall a b y, frag_up ct a = true -> frag_up ct b = true -> jf a b = Some y -> join_ok a b y.
Hypothesis IHi : forall c d y, plain_up ct c = true -> plain_up ct d = true ->
  jif (TInst c []) (TInst d []) = Some y -> join_ok (TInst c []) (TInst d []) y.
Hypothesis IHv : forall c d y, plain_up ct c = true -> plain_up ct d = true ->
  jvf (TInst c []) (TInst d []) = Some y -> join_ok (TInst c []) (TInst d []) y.

Lemma join_inst_spec : forall c d j, plain_up ct c = true -> plain_up ct d = true ->
  join_inst_body jf jvf (TInst c []) (TInst d []) = Some j -> join_ok (TInst c []) (TInst d []) j.
Proof.
  intros c d j Pc Pd H. unfold join_inst_body in H.
  destruct (Pos.eqb c d) eqn:E.
  - apply Pos.eqb_eq in E. subst d. simpl in H. injection H as <-. apply ok_left; simpl; auto. apply ile_refl.
  - match type of H with match ?a with _ => _ end = _ => destruct a as [[|]|] end; try discriminate.
    + apply IHv; auto.
    + apply join_ok_sym. apply IHv; auto.
Qed.

Lemma join_via_spec : forall c d j, plain_up ct c = true -> plain_up ct d = true ->
  join_via_body jf jif (TInst c []) (TInst d []) = Some j -> join_ok (TInst c []) (TInst d []) j.
Proof.
  intros c d j Pc Pd H. unfold join_via_body in H.
  set (t := TInst c []) in *. set (s := TInst d []) in *.
  assert (Ft : frag_up ct t = true) by exact Pc. assert (Fs : frag_up ct s = true) by exact Pd.
  (* candidates reached from c *)
  assert (Hanc : forall b, has_base ct c b = true -> plain_up ct b = true /\ le ct false t (TInst b [])).
  { intros b Hb. unfold has_base in Hb. apply orb_true_iff in Hb. destruct Hb as [Hb|Hb].
    - apply Pos.eqb_eq in Hb. subst b. split; auto. simpl. apply ile_refl.
    - apply mem_cid_in in Hb. split; [apply (mro_plain_up c b Pc Hb)|]. simpl. apply ile_base; auto. }
  (* loop over the promotions of t *)
  match type of H with ?f ?l = _ =>
    assert (G1 : forall ps, incl ps l -> f ps = Some j -> join_ok t s j); [|apply (G1 l); auto using incl_refl] end.
  clear H. induction ps as [|p r IHr]; intros Hi H1.
  2:{ cbn beta iota in H1. destruct (sq K_sub (TInst p []) s) as [[|]|]; try discriminate.
      - assert (Hp : In p (c_promote (cls_of ct c))) by (apply Hi; left; auto).
        apply (ok_below_l t (TInst p [])); auto. simpl. apply ile_prom; auto.
        apply IHj; auto. apply (promote_plain_up ct Hwf c p Hp).
      - apply IHr; auto. intros x Hx. apply Hi. right; auto. }
  cbn beta iota in H1.
  (* loop over the promotions of s *)
  match type of H1 with ?f ?l = _ =>
    assert (G2 : forall ps, incl ps l -> f ps = Some j -> join_ok t s j); [|apply (G2 l); auto using incl_refl] end.
  clear H1. induction ps as [|p r IHr]; intros Hi2 H2.
  2:{ cbn beta iota in H2. destruct (sq K_sub (TInst p []) t) as [[|]|]; try discriminate.
      - assert (Hp : In p (c_promote (cls_of ct d))) by (apply Hi2; left; auto).
        apply (ok_below_r t s (TInst p [])); auto. simpl. apply ile_prom; auto.
        apply IHj; auto. apply (promote_plain_up ct Hwf d p Hp).
      - apply IHr; auto. intros x Hx. apply Hi2. right; auto. }
  cbn beta iota zeta in H2.
  (* candidates *)
  match type of H2 with match ?f ?l None with _ => _ end = _ =>
    assert (G3 : forall bs best, (forall b, In b bs -> has_base ct c b = true) ->
              (forall x, best = Some x -> join_ok t s x) ->
              forall r, f bs best = Some r -> forall x, r = Some x -> join_ok t s x) end.
  { induction bs as [|b r IHr]; intros best Hb Hbest res Hres x Hx.
    - cbn beta iota in Hres. injection Hres as <-. auto.
    - cbn beta iota in Hres.
      destruct (Hanc b (Hb b (or_introl eq_refl))) as [Pb Lb].
      rewrite (map_super_nil c b (plain_up_plain b Pb)) in Hres.
      destruct (jif (TInst b []) s) as [rb|] eqn:Eb; [|discriminate].
      assert (Ob : join_ok t s rb) by (apply (ok_below_l t (TInst b [])); auto; apply IHi; auto).
      eapply (IHr _ (fun b' Hb' => Hb b' (or_intror Hb'))); [|exact Hres|exact Hx].
      intros y Hy. destruct best as [bst|].
      + destruct (Join.is_better ct rb bst); injection Hy as <-; auto.
      + injection Hy as <-. auto. }
  match type of H2 with match ?f ?l None with _ => _ end = _ => destruct (f l None) as [[bst|]|] eqn:EB; try discriminate end.
  2:{ injection H2 as <-. apply object_ok; auto. }
  assert (Obst : join_ok t s bst).
  { eapply G3; [| |exact EB|reflexivity].
    - intros b Hb. apply nodup_In in Hb. apply in_app_or in Hb. destruct Hb as [Hb|Hb].
      + unfold has_base. apply orb_true_iff. right. apply mem_cid_in. apply bases_in_mro; auto.
      + apply filter_In in Hb. destruct Hb as [_ Hb].
        repeat (apply andb_prop in Hb; destruct Hb as [Hb ?]). assumption.
    - intros x Hx. discriminate. }
  (* promotions of t once more *)
  clear EB. revert H2. revert Obst. revert bst.
  match goal with |- forall b0, _ -> ?f ?l b0 = _ -> _ =>
    assert (G4 : forall ps, incl ps l -> forall b0, join_ok t s b0 -> f ps b0 = Some j -> join_ok t s j);
      [|intros b0 Ob0 H4; apply (G4 l (incl_refl _) b0 Ob0 H4)] end.
  induction ps as [|p r IHr]; intros Hi4 b0 Ob0 H4.
  - cbn beta iota in H4. injection H4 as <-. auto.
  - cbn beta iota in H4. assert (Hp : In p (c_promote (cls_of ct c))) by (apply Hi4; left; auto).
    destruct (jif (TInst p []) s) as [rp|] eqn:Ep; [|discriminate].
    assert (Op : join_ok t s rp).
    { apply (ok_below_l t (TInst p [])); auto. simpl. apply ile_prom; auto.
      apply IHi; auto. apply (promote_plain_up ct Hwf c p Hp). }
    eapply IHr; [|idtac|exact H4].
    + intros x Hx. apply Hi4. right; auto.
    + destruct (Join.is_better ct rp b0); auto.
Qed.
End Inst.

(* ---------------------------------------------------------------- main induction *)
Theorem join_spec : forall n,
  (forall s t j, frag_up ct s = true -> frag_up ct t = true -> join ct no_cache m n s t = Some j -> join_ok s t j) /\
  (forall c d j, plain_up ct c = true -> plain_up ct d = true ->
     join_inst ct no_cache m n (TInst c []) (TInst d []) = Some j -> join_ok (TInst c []) (TInst d []) j) /\
  (forall c d j, plain_up ct c = true -> plain_up ct d = true ->
     join_via ct no_cache m n (TInst c []) (TInst d []) = Some j -> join_ok (TInst c []) (TInst d []) j).
Proof.
  induction n as [|n [J [I V]]].
  - split; [|split]; intros; discriminate.
  - split; [|split].
    + intros s t j Fs Ft H. rewrite join_unfold, join_body_split in H.
      destruct (join_norm s t) as [p0|] eqn:En; [|discriminate].
      destruct (norm_up s t p0 Fs Ft En) as [F1 [F2 [L1 L2]]].
      apply (ok_below_l s (fst p0)); auto. apply (ok_below_r (fst p0) t (snd p0)); auto.
      apply (join_rest_spec (join ct no_cache m n) (join_inst ct no_cache m n) J I); auto.
    + intros c d j Pc Pd H. rewrite join_inst_unfold in H. apply (join_inst_spec (join ct no_cache m n) (join_via ct no_cache m n) V); auto.
    + intros c d j Pc Pd H. rewrite join_via_unfold in H. apply (join_via_spec (join ct no_cache m n) (join_inst ct no_cache m n) J I); auto.
Qed.
End J.
