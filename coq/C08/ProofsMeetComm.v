(* meet_types(s, t) and meet_types(t, s) are equivalent on fragment F1 *)
From Coq Require Import ZArith List Bool PArith Lia.
From C08 Require Import Model Proofs ProofsKind ProofsTrans ProofsTrans2 ProofsUnion ProofsMeet.
Import ListNotations.

Lemma agree_mapM : forall A B (f g : A -> option B) l,
  (forall x, In x l -> agree (f x) (g x)) -> agree (mapM f l) (mapM g l).
Proof.
  induction l; simpl; intros H; auto with agree.
  assert (H1 := H a (or_introl eq_refl)).
  assert (H2 : agree (mapM f l) (mapM g l)) by (apply IHl; intros; apply H; right; auto).
  destruct (f a), (g a); auto with agree. rewrite (H1 _ _ eq_refl eq_refl).
  destruct (mapM f l), (mapM g l); auto with agree. rewrite (H2 _ _ eq_refl eq_refl). auto with agree.
Qed.

Section MC.
Variable ct : ctable.
Hypothesis Hwf : wf_ct ct = true.
Variable m : nat.
Notation sq := (sub ct no_cache m).

(* the result of meet does not depend on its own fuel *)
Lemma visit_agree : forall f g, (forall a b, agree (f a b) (g a b)) ->
  forall s t, agree (meet_visit ct m f s t) (meet_visit ct m g s t).
Proof.
  intros f g Hfg s t. unfold meet_visit.
  destruct t; auto with agree.
  - (* Inst *)
    destruct s; auto with agree.
    destruct (Pos.eqb c c0); auto with agree.
    match goal with |- agree (match ?x with _ => _ end) _ => destruct x as [[|]|] end; auto with agree.
    apply agree_opt_match; auto with agree. apply agree_mapM. intros; apply Hfg.
  - (* Union *)
    apply agree_opt_match; auto with agree.
    destruct s; try (apply agree_mapM; intros; apply Hfg).
  - (* Tuple *)
    destruct s; auto with agree.
    + match goal with |- agree (match ?x with _ => _ end) _ => destruct x end; auto with agree.
      apply agree_opt_match; auto with agree. apply agree_mapM. intros; apply Hfg.
    + destruct (Nat.eqb _ _); auto with agree.
      apply agree_opt_match; auto with agree. apply agree_mapM. intros; apply Hfg.
Qed.

Lemma meet_agree : forall n n' s t, agree (meet ct no_cache m n s t) (meet ct no_cache m n' s t).
Proof.
  induction n; destruct n'; intros s t; try (simpl; auto with agree; fail).
  rewrite !meet_unfold.
  destruct (sq K_proper_np s t) as [[|]|]; auto with agree.
  destruct (sq K_proper_np t s) as [[|]|]; auto with agree.
  destruct (is_any s); auto with agree.
  apply visit_agree. intros; apply IHn.
Qed.

Lemma mapM_total : forall A B (f : A -> option B) l ys, mapM f l = Some ys ->
  forall a, In a l -> exists y, f a = Some y /\ In y ys.
Proof.
  induction l; simpl; intros ys H a0 Ha; [contradiction|].
  destruct (f a) as [b|] eqn:E; [|discriminate]. destruct (mapM f l) as [bs|] eqn:E2; [|discriminate].
  inversion H; subst. destruct Ha as [<-|Ha].
  - exists b; simpl; auto.
  - destruct (IHl bs eq_refl a0 Ha) as [y [Hy Hin]]. exists y; simpl; auto.
Qed.

Lemma not_le_np : forall l r, frag1 ct l = true -> frag1 ct r = true -> sq K_proper_np l r = Some false -> ~ le ct true l r.
Proof. intros l r Fl Fr H L. assert (T := C_le ct K_proper_np eq_refl l r L Fl Fr m _ H). discriminate. Qed.

Lemma in_pairs_rev : forall (titems sitems : list ty) a b, In a titems -> In b sitems ->
  In (a, b) (flat_map (fun x => map (fun y => (x, y)) sitems) titems).
Proof.
  intros. apply in_flat_map. exists a. split; auto. apply in_map_iff. exists b. auto.
Qed.

Lemma atom_not_union : forall a, atom_ok ct a = true -> is_union a = false.
Proof. destruct a; simpl; auto; discriminate. Qed.

Section Step.
Variable f : ty -> ty -> option ty.
Hypothesis Hspec : forall a b y, frag1 ct a = true -> frag1 ct b = true -> f a b = Some y -> meet_ok ct a b y.
Hypothesis Hcomm : forall a b x y, frag1 ct a = true -> frag1 ct b = true -> f a b = Some x -> f b a = Some y -> le ct false x y.

(* both arguments are unions *)
Lemma union_union_comm : forall ss ts x y,
  frag1 ct (TUnion ss) = true -> frag1 ct (TUnion ts) = true ->
  meet_visit ct m f (TUnion ss) (TUnion ts) = Some x -> meet_visit ct m f (TUnion ts) (TUnion ss) = Some y ->
  le ct false x y.
Proof.
  intros ss ts x y Fs Ft H1 H2. simpl in H1, H2.
  destruct (union_atoms ct ss Fs) as [As _]. destruct (union_atoms ct ts Ft) as [At _].
  destruct (mapM _ _) as [L1|] eqn:E1 in H1; [|discriminate].
  destruct (mapM _ _) as [L2|] eqn:E2 in H2; [|discriminate].
  (* facts about the items of both lists *)
  assert (Hit : forall L (pairs : list (ty * ty)),
            mapM (fun xy => f (fst xy) (snd xy)) pairs = Some L ->
            (forall a b, In (a, b) pairs -> atom_ok ct a = true /\ atom_ok ct b = true) ->
            forallb (item_ok ct) L = true).
  { intros L pairs Em Hp. apply forallb_forall. intros z Hz.
    destruct (mapM_in _ _ _ _ _ Em z Hz) as [[a b] [Hab Hf]]. simpl in Hf. destruct (Hp a b Hab) as [Aa Ab].
    destruct (Hspec a b z (atom_frag _ _ Aa) (atom_frag _ _ Ab) Hf) as [F [_ [_ D]]].
    assert (Ua : is_union a = false) by (apply atom_not_union; auto).
    assert (Ub : is_union b = false) by (apply atom_not_union; auto).
    unfold item_ok. destruct (D Ua Ub) as [ -> | [ -> | -> ] ]; try rewrite Aa; try rewrite Ab; auto. }
  assert (P1 : forall a b, In (a, b) (flat_map (fun x => map (fun y => (x, y)) ss) ts) -> atom_ok ct a = true /\ atom_ok ct b = true).
  { intros a b Hab. apply in_pairs in Hab. destruct Hab. rewrite forallb_forall in As, At. auto. }
  assert (P2 : forall a b, In (a, b) (flat_map (fun x => map (fun y => (x, y)) ts) ss) -> atom_ok ct a = true /\ atom_ok ct b = true).
  { intros a b Hab. apply in_pairs in Hab. destruct Hab. rewrite forallb_forall in As, At. auto. }
  assert (I1 := Hit L1 _ E1 P1). assert (I2 := Hit L2 _ E2 P2).
  destruct (simpl_union_spec ct Hwf m L1 x I1 H1) as [_ [Lx _]].
  destruct (simpl_union_spec ct Hwf m L2 y I2 H2) as [Fy [_ Cy]].
  apply Lx. intros z1 Hz1 Nz1.
  destruct (mapM_in _ _ _ _ _ E1 z1 Hz1) as [[a b] [Hab Hf1]]. simpl in Hf1.
  destruct (P1 a b Hab) as [Aa Ab]. apply in_pairs in Hab. destruct Hab as [Ha Hb].
  destruct (mapM_total _ _ _ _ _ E2 (b, a) (in_pairs_rev ss ts b a Hb Ha)) as [z2 [Hf2 Hz2]]. simpl in Hf2.
  assert (Lz : le ct false z1 z2) by (apply (Hcomm a b z1 z2); auto using atom_frag).
  destruct (Hspec a b z1 (atom_frag _ _ Aa) (atom_frag _ _ Ab) Hf1) as [F1 [_ [_ D1]]].
  assert (Ua : is_union a = false) by (apply atom_not_union; auto).
  assert (Ub : is_union b = false) by (apply atom_not_union; auto).
  assert (Az1 : atom_ok ct z1 = true).
  { destruct (D1 Ua Ub) as [ -> | [ -> | -> ] ]; auto; try discriminate. }
  destruct (is_never z2) eqn:Nz2.
  - destruct z2; try discriminate. rewrite le_atom in Lz; auto. simpl in Lz.
    destruct z1 as [| | |? [|? ?]|? ?| |]; simpl in Lz; contradiction.
  - rewrite le_atom in Lz; auto.
    eapply (ale_u_le_trans ct Hwf); [exact Lz|].
    assert (C2 := Cy false z2 Hz2 Nz2).
    rewrite forallb_forall in I2. specialize (I2 z2 Hz2). unfold item_ok in I2. rewrite Nz2, orb_false_r in I2.
    rewrite le_atom; auto.
Qed.
End Step.

Lemma meet_comm_le : forall n s t x y, frag1 ct s = true -> frag1 ct t = true ->
  meet ct no_cache m n s t = Some x -> meet ct no_cache m n t s = Some y -> le ct false x y.
Proof.
  induction n; intros s t x y Fs Ft H1 H2; [discriminate|].
  assert (Hx := H1). assert (Hy := H2).
  destruct (meet_spec ct Hwf m (S n) s t x Fs Ft H1) as [Fx _].
  rewrite meet_unfold in H1, H2.
  destruct (sq K_proper_np s t) as [[|]|] eqn:D1; try discriminate.
  { injection H1 as <-. destruct (sq K_proper_np t s) as [[|]|] eqn:D2; try discriminate; injection H2 as <-.
    - apply (dec_np ct Hwf m); auto.
    - apply le_refl; auto. }
  destruct (sq K_proper_np t s) as [[|]|] eqn:D2; try discriminate.
  { injection H1 as <-. injection H2 as <-. apply le_refl; auto. }
  assert (N1 := not_le_np s t Fs Ft D1). assert (N2 := not_le_np t s Ft Fs D2).
  assert (Hs_nv : s <> TNever) by (intros ->; apply N1; simpl; auto).
  assert (Ht_nv : t <> TNever) by (intros ->; apply N2; simpl; auto).
  rewrite (frag_not_any ct s Fs) in H1. rewrite (frag_not_any ct t Ft) in H2.
  cbv zeta in H1, H2. unfold swap_if in H1, H2.
  assert (Hsp : forall a b z, frag1 ct a = true -> frag1 ct b = true -> meet ct no_cache m n a b = Some z -> meet_ok ct a b z)
    by (intros; eapply meet_spec; eauto).
  destruct (is_union s) eqn:U1; destruct (is_union t) eqn:U2; cbn [andb negb fst snd] in H1, H2.
  - destruct s; try discriminate. destruct t; try discriminate.
    exact (union_union_comm (meet ct no_cache m n) Hsp IHn _ _ x y Fs Ft H1 H2).
  - rewrite H1 in H2. injection H2 as <-. apply le_refl; auto.
  - rewrite H1 in H2. injection H2 as <-. apply le_refl; auto.
  - (* two atoms *)
    assert (As : atom_ok ct s = true) by (apply (frag_atom ct); auto).
    assert (At : atom_ok ct t = true) by (apply (frag_atom ct); auto).
    assert (R1 : ~ le ct true s s -> False) by (intros R; apply R; apply le_refl; auto).
    destruct s as [| | |c [|? ?]|c v| |]; simpl in As; try discriminate;
    destruct t as [| | |d [|? ?]|d w| |]; simpl in At; try discriminate; cbn in H1, H2.
    all: try (exfalso; apply N1; simpl; auto; fail).
    all: try (injection H1 as <-; simpl; auto; fail).
    + (* Inst c / None *)
      destruct (Pos.eqb c (k_object ct)) eqn:E.
      * exfalso. apply N2. simpl. apply Pos.eqb_eq; auto.
      * injection H1 as <-. simpl; auto.
    + (* Inst c / Inst d *)
      destruct (Pos.eqb c d) eqn:E.
      * exfalso. apply N1. apply Pos.eqb_eq in E. subst. simpl. apply ile_refl.
      * rewrite Pos.eqb_sym in E. rewrite E in H1.
        destruct (sq K_sub (TInst d []) (TInst c [])) as [[|]|] eqn:A; try discriminate;
        destruct (sq K_sub (TInst c []) (TInst d [])) as [[|]|] eqn:B; try discriminate;
          injection H1 as <-; injection H2 as <-; try (apply le_refl; auto); simpl; auto.
        exact (dec_sub ct Hwf m (TInst d []) (TInst c []) At As A).
    + (* Inst c / Lit d w *)
      assert (G := meet_agree n (S n) (TInst c []) (TLit d w) _ _ H2 Hx). subst. apply le_refl; auto.
    + (* Lit c v / Inst d *)
      assert (G := meet_agree n (S n) (TInst d []) (TLit c v) _ _ H1 Hy). subst. apply le_refl.
      destruct (meet_spec ct Hwf m (S n) _ _ _ Ft Fs Hy) as [Fy _]. auto.
    + (* Lit / Lit *)
      destruct ((c =? d)%positive && (v =? w)%Z) eqn:E.
      * exfalso. apply N1. apply andb_prop in E. destruct E as [E1 E2].
        apply Pos.eqb_eq in E1. apply Z.eqb_eq in E2. subst. simpl. auto.
      * injection H1 as <-. simpl; auto.
Qed.

Theorem meet_comm_F1 : forall n s t x y, frag1 ct s = true -> frag1 ct t = true ->
  meet ct no_cache m n s t = Some x -> meet ct no_cache m n t s = Some y ->
  frag1 ct x = true /\ frag1 ct y = true /\ le ct false x y /\ le ct false y x.
Proof.
  intros n s t x y Fs Ft H1 H2.
  destruct (meet_spec ct Hwf m n s t x Fs Ft H1) as [Fx _].
  destruct (meet_spec ct Hwf m n t s y Ft Fs H2) as [Fy _].
  split; [|split; [|split]]; auto.
  - apply (meet_comm_le n s t x y); auto.
  - apply (meet_comm_le n t s y x); auto.
Qed.
End MC.
