(* Lemmas for C08: reflexivity, answers independent of fuel and of (sound) caches,
   proper subtype => subtype. *)
From Coq Require Import ZArith List Bool PArith Lia.
From C08 Require Import Model.
Import ListNotations.

(* ---------------------------------------------------------------- induction principle for ty *)
Section TyInd.
Variable P : ty -> Prop.
Hypothesis HAny : P TAny.
Hypothesis HNever : P TNever.
Hypothesis HNone : P TNone.
Hypothesis HInst : forall c args, Forall P args -> P (TInst c args).
Hypothesis HLit : forall c v, P (TLit c v).
Hypothesis HUnion : forall ts, Forall P ts -> P (TUnion ts).
Hypothesis HTuple : forall ts, Forall P ts -> P (TTuple ts).
Fixpoint ty_ind' (t : ty) : P t :=
  match t with
  | TAny => HAny
  | TNever => HNever
  | TNone => HNone
  | TInst c args => HInst c args ((fix go l : Forall P l := match l with [] => Forall_nil _ | x :: r => Forall_cons _ (ty_ind' x) (go r) end) args)
  | TLit c v => HLit c v
  | TUnion ts => HUnion ts ((fix go l : Forall P l := match l with [] => Forall_nil _ | x :: r => Forall_cons _ (ty_ind' x) (go r) end) ts)
  | TTuple ts => HTuple ts ((fix go l : Forall P l := match l with [] => Forall_nil _ | x :: r => Forall_cons _ (ty_ind' x) (go r) end) ts)
  end.
End TyInd.

Lemma ty_eqb_refl : forall t, ty_eqb t t = true.
Proof.
  induction t using ty_ind'; simpl; auto.
  - rewrite Pos.eqb_refl. simpl. induction H; auto. rewrite H, IHForall. reflexivity.
  - rewrite Pos.eqb_refl, Z.eqb_refl. reflexivity.
  - (* union: set equality *)
    assert (A : forall ys, (forall x, In x ts -> existsb (ty_eqb x) ys = true) ->
       (fix incl1 (xs : list ty) : bool := match xs with [] => true | x :: xs' => existsb (ty_eqb x) ys && incl1 xs' end) ts = true).
    { intros ys. induction ts as [|a l IH]; intros Hin; auto.
      rewrite (Hin a (or_introl eq_refl)). simpl. apply IH.
      - inversion H; auto.
      - intros; apply Hin; right; auto. }
    assert (M : forall x, In x ts -> existsb (ty_eqb x) ts = true).
    { intros x Hx. apply existsb_exists. exists x. split; auto.
      rewrite Forall_forall in H. apply H; auto. }
    rewrite (A ts M). simpl.
    apply forallb_forall. intros y Hy.
    clear A M. induction ts as [|a l IH]; [inversion Hy|].
    inversion H; subst. destruct Hy as [->|Hy].
    + rewrite H2. reflexivity.
    + rewrite (IH H3 Hy). apply orb_true_r.
  - induction H; auto. rewrite H, IHForall. reflexivity.
Qed.

(* ---------------------------------------------------------------- reflexivity *)
Lemma sub_refl : forall ct lk n k t, sub ct lk (S n) k t t = Some true.
Proof. intros. simpl. unfold sub_step. rewrite ty_eqb_refl. reflexivity. Qed.

(* ---------------------------------------------------------------- agreement of partial answers *)
Definition agree {A} (a b : option A) : Prop := forall x y, a = Some x -> b = Some y -> x = y.

Lemma agree_same : forall A (a : option A), agree a a.
Proof. intros A a x y H1 H2. congruence. Qed.
Lemma agree_none_l : forall A (b : option A), agree None b.
Proof. intros A b x y H; discriminate. Qed.
Lemma agree_none_r : forall A (a : option A), agree a None.
Proof. intros A b x y H H'; discriminate. Qed.
Lemma agree_some : forall A (x y : A), x = y -> agree (Some x) (Some y).
Proof. intros A x y -> a b H1 H2. congruence. Qed.
#[export] Hint Resolve agree_same agree_none_l agree_none_r : agree.

Lemma agree_match : forall A (a b : ob) (x1 x2 y1 y2 : option A),
  agree a b -> agree x1 x2 -> agree y1 y2 ->
  agree (match a with None => None | Some true => x1 | Some false => y1 end)
        (match b with None => None | Some true => x2 | Some false => y2 end).
Proof.
  intros A a b x1 x2 y1 y2 Hab Hx Hy.
  destruct a as [[|]|], b as [[|]|]; auto with agree;
    try (specialize (Hab _ _ eq_refl eq_refl); discriminate).
Qed.

Lemma agree_opt_match : forall A B (a b : option A) (f g : A -> option B),
  agree a b -> (forall x, agree (f x) (g x)) ->
  agree (match a with None => None | Some x => f x end) (match b with None => None | Some x => g x end).
Proof.
  intros A B a b f g Hab Hf. destruct a, b; auto with agree.
  rewrite (Hab _ _ eq_refl eq_refl). apply Hf.
Qed.

Lemma agree_anyM : forall A (f g : A -> ob) l,
  (forall x, In x l -> agree (f x) (g x)) -> agree (anyM f l) (anyM g l).
Proof.
  induction l; simpl; intros H; auto with agree.
  apply agree_match; auto with agree datatypes.
Qed.
Lemma agree_allM : forall A (f g : A -> ob) l,
  (forall x, In x l -> agree (f x) (g x)) -> agree (allM f l) (allM g l).
Proof.
  induction l; simpl; intros H; auto with agree.
  apply agree_match; auto with agree datatypes.
Qed.
Lemma agree_allM_ns : forall A (f g : A -> ob) l,
  (forall x, In x l -> agree (f x) (g x)) -> agree (allM_ns f l) (allM_ns g l).
Proof.
  induction l; simpl; intros H; auto with agree.
  assert (H1 := H a (or_introl eq_refl)).
  assert (H2 : agree (allM_ns f l) (allM_ns g l)) by (apply IHl; intros; apply H; right; auto).
  destruct (f a), (g a), (allM_ns f l), (allM_ns g l); auto with agree.
  rewrite (H1 _ _ eq_refl eq_refl), (H2 _ _ eq_refl eq_refl). apply agree_same.
Qed.
Lemma agree_andM : forall a1 a2 b1 b2,
  agree a1 a2 -> agree (b1 tt) (b2 tt) -> agree (andM a1 b1) (andM a2 b2).
Proof. intros. unfold andM. apply agree_match; auto with agree. Qed.

Section Agree.
Variable ct : ctable.
Variables f g : kind -> ty -> ty -> ob.
Hypothesis Hfg : forall k l r, agree (f k l r) (g k l r).

Lemma agree_rr_pass : forall items new fbs, agree (rr_pass f items new fbs) (rr_pass g items new fbs).
Proof.
  induction items as [|ti rest IH]; intros new fbs; simpl; auto with agree.
  destruct (is_never ti); auto.
  match goal with |- agree (match ?d1 with _ => _ end) (match ?d2 with _ => _ end) =>
    assert (Hd : agree d1 d2); [|destruct d1 as [[|]|], d2 as [[|]|]; auto with agree;
    specialize (Hd _ _ eq_refl eq_refl); discriminate] end.
  destruct (mem_ty ti new); auto with agree.
  destruct ti; try (apply agree_anyM; intros; apply Hfg).
  destruct (mem_cid c fbs); auto with agree. apply agree_anyM; intros; apply Hfg.
Qed.

Lemma agree_remove_redundant : forall items, agree (remove_redundant f items) (remove_redundant g items).
Proof.
  intros. unfold remove_redundant.
  assert (H1 := agree_rr_pass items [] []).
  destruct (rr_pass f items [] []) as [p1|], (rr_pass g items [] []) as [q1|]; auto with agree.
  rewrite (H1 _ _ eq_refl eq_refl).
  destruct (short q1); auto with agree.
  assert (H2 := agree_rr_pass (rev q1) [] []).
  destruct (rr_pass f (rev q1) [] []) as [p2|], (rr_pass g (rev q1) [] []) as [q2|]; auto with agree.
  rewrite (H2 _ _ eq_refl eq_refl). auto with agree.
Qed.

Lemma agree_simpl_union : forall items, agree (simpl_union ct f items) (simpl_union ct g items).
Proof.
  intros. unfold simpl_union.
  assert (H := agree_remove_redundant (flatten items)).
  destruct (flatten items) as [|x [|y l]]; auto with agree;
  (destruct (remove_redundant f _) as [p|], (remove_redundant g _) as [q|]; auto with agree;
   rewrite (H _ _ eq_refl eq_refl); auto with agree).
Qed.

Lemma agree_tuple_fallback : forall items, agree (tuple_fallback ct f items) (tuple_fallback ct g items).
Proof.
  intros. unfold tuple_fallback. assert (H := agree_simpl_union items).
  destruct (simpl_union ct f items), (simpl_union ct g items); auto with agree.
  rewrite (H _ _ eq_refl eq_refl); auto with agree.
Qed.

Lemma agree_same_gen : forall a kk b, agree (same_gen f kk a b) (same_gen g kk a b).
Proof.
  induction a using ty_ind'; intros kk b; simpl;
    try (apply agree_andM; apply Hfg).
  destruct b; try (apply agree_andM; apply Hfg).
  destruct (_ && _); [|apply agree_andM; apply Hfg].
  revert args0. induction H; intros ys; simpl; auto with agree.
  destruct ys; auto with agree.
  apply agree_match; auto with agree.
Qed.

Lemma step_agree : forall lk k l r,
  (forall b, lk k l r = Some b -> forall y, sub_step ct no_cache g k l r = Some y -> y = b) ->
  agree (sub_step ct lk f k l r) (sub_step ct no_cache g k l r).
Proof.
  intros lk k l r Hlk. revert Hlk. unfold sub_step.
  destruct (ty_eqb l r); [auto with agree|].
  destruct (negb (k_proper k) && is_any r); [auto with agree|].
  assert (Hcp : forall p : ty * ty * variance,
     agree (let '(la, ra, v) := p in
            match v with
            | Inv => if k_proper k then same_gen f k la ra else andM (f k la ra) (fun _ => f k ra la)
            | Cov => f k la ra
            | Contra => f k ra la
            end)
           (let '(la, ra, v) := p in
            match v with
            | Inv => if k_proper k then same_gen g k la ra else andM (g k la ra) (fun _ => g k ra la)
            | Cov => g k la ra
            | Contra => g k ra la
            end)).
  { intros [[la ra] v]. destruct v; try apply Hfg.
    destruct (k_proper k); [apply agree_same_gen | apply agree_andM; apply Hfg]. }
  assert (Hgo : forall r0 litems seen,
    agree ((fix go (items : list ty) (seen : list cid) : ob :=
                 match items with
                 | [] => Some true
                 | TLit c v :: rest =>
                     if mem_cid c seen then go rest seen
                     else match f k (TInst c []) r0 with
                          | None => None
                          | Some false => Some false
                          | Some true => go rest (c :: seen)
                          end
                 | it :: rest =>
                     match f k it r0 with
                     | None => None
                     | Some false => Some false
                     | Some true => go rest seen
                     end
                 end) litems seen)
          ((fix go (items : list ty) (seen : list cid) : ob :=
                 match items with
                 | [] => Some true
                 | TLit c v :: rest =>
                     if mem_cid c seen then go rest seen
                     else match g k (TInst c []) r0 with
                          | None => None
                          | Some false => Some false
                          | Some true => go rest (c :: seen)
                          end
                 | it :: rest =>
                     match g k it r0 with
                     | None => None
                     | Some false => Some false
                     | Some true => go rest seen
                     end
                 end) litems seen)).
  { intros r0. induction litems as [|it rest IH]; intros seen; auto with agree.
    destruct it; try (apply agree_match; auto with agree; apply Hfg).
    destruct (mem_cid c seen); auto.
    apply agree_match; auto with agree; apply Hfg. }
  destruct r; destruct l; intros Hlk; auto with agree;
    try (apply Hfg);
    try (apply agree_allM; intros; apply Hfg);
    try (apply Hgo);
    try (apply agree_match; [apply agree_anyM; intros; apply Hfg | auto with agree | auto with agree]).
  - (* Inst / Inst *)
    unfold no_cache.
    destruct (lk k (TInst c0 args0) (TInst c args)) as [b|] eqn:E.
    + intros x y Hx Hy. inversion Hx; subst. symmetry. apply (Hlk _ eq_refl). exact Hy.
    + apply agree_match; auto with agree.
      * destruct (_ && _); auto with agree.
        apply agree_anyM; intros. apply agree_anyM; intros. apply Hfg.
      * destruct (_ || _); auto with agree. destruct (k_notparams k); auto with agree.
        apply agree_allM_ns. intros; apply Hcp.
  - (* Tuple / Inst *)
    destruct (Pos.eqb c (k_sized ct)); auto with agree.
    destruct (mem_cid c (k_tuplelike ct)).
    + destruct args.
      * destruct (k_proper k); auto with agree. destruct (Pos.eqb c (k_tuple ct)); auto with agree.
        apply agree_allM; intros; apply Hfg.
      * destruct (_ && _); auto with agree. apply agree_allM; intros; apply Hfg.
    + apply agree_andM; [apply Hfg|].
      apply agree_opt_match; [apply agree_tuple_fallback | intros; apply Hfg].
  - destruct (contractible ct c); auto with agree. apply agree_anyM; intros; apply Hfg.
  - (* Union / Union *)
    simpl. apply agree_allM. intros it _. destruct (mem_ty it (flatten ts)); auto with agree.
    destruct it; try apply Hfg. destruct (mem_ty _ _); auto with agree.
  - (* Tuple / Tuple *)
    destruct (negb _); auto with agree. apply agree_allM; intros; apply Hfg.
Qed.
End Agree.

(* ---------------------------------------------------------------- answers do not depend on fuel or on a sound cache *)
Definition sound (ct : ctable) (lk : kind -> ty -> ty -> option bool) : Prop :=
  forall k l r b, lk k l r = Some b -> forall n y, sub ct no_cache n k l r = Some y -> y = b.

Lemma sub_agree : forall ct lk, sound ct lk ->
  forall n m k l r, agree (sub ct lk n k l r) (sub ct no_cache m k l r).
Proof.
  intros ct lk Hs. induction n; destruct m; simpl; intros; auto with agree.
  apply step_agree.
  - intros; apply IHn.
  - intros b Hb y Hy. apply (Hs _ _ _ _ Hb (S m)). exact Hy.
Qed.

Lemma sound_no_cache : forall ct, sound ct no_cache.
Proof. intros ct k l r b H. discriminate. Qed.

Lemma fuel_irrelevant : forall ct n m k l r, agree (sub ct no_cache n k l r) (sub ct no_cache m k l r).
Proof. intros. apply sub_agree. apply sound_no_cache. Qed.

(* ---------------------------------------------------------------- the cache state machine *)
Fixpoint no_union (t : ty) : bool :=
  match t with
  | TUnion _ => false
  | TInst _ a => forallb no_union a
  | TTuple a => forallb no_union a
  | _ => true
  end.

Lemma ty_eqb_eq : forall a b, no_union b = true -> ty_eqb a b = true -> a = b.
Proof.
  induction a using ty_ind'; intros b Hn He; destruct b; simpl in *; try discriminate; auto.
  - apply andb_prop in He. destruct He as [Hc Hl]. apply Pos.eqb_eq in Hc. subst c0. f_equal.
    revert args0 Hn Hl. induction H; intros ys Hn Hl; destruct ys; try discriminate; auto.
    simpl in Hn. apply andb_prop in Hn. destruct Hn. apply andb_prop in Hl. destruct Hl.
    f_equal; auto.
  - apply andb_prop in He. destruct He as [Hc Hl]. apply Pos.eqb_eq in Hc. apply Z.eqb_eq in Hl. congruence.
  - f_equal.
    revert ts0 Hn He. induction H; intros ys Hn Hl; destruct ys; try discriminate; auto.
    simpl in Hn. apply andb_prop in Hn. destruct Hn. apply andb_prop in Hl. destruct Hl.
    f_equal; auto.
Qed.

Lemma kind_eqb_eq : forall a b, kind_eqb a b = true -> a = b.
Proof.
  intros [a1 a2 a3] [b1 b2 b3]. unfold kind_eqb. simpl.
  destruct a1, a2, a3, b1, b2, b3; simpl; intros; try discriminate; reflexivity.
Qed.

Definition entries_ok (ct : ctable) (es : list centry) (b : bool) : Prop :=
  forall k l r, In (k, l, r) es ->
    no_union l = true /\ no_union r = true /\
    forall n y, sub ct no_cache n k l r = Some y -> y = b.

Definition cache_ok (ct : ctable) (c : cache) : Prop :=
  entries_ok ct (c_pos c) true /\ entries_ok ct (c_neg c) false.

Lemma in_cache_inv : forall ct es b k l r, entries_ok ct es b -> in_cache k l r es = true ->
  forall n y, sub ct no_cache n k l r = Some y -> y = b.
Proof.
  intros ct es b k l r Hok Hin. unfold in_cache in Hin. apply existsb_exists in Hin.
  destruct Hin as [[[k' l'] r'] [Hin He]]. unfold entry_eqb in He.
  apply andb_prop in He. destruct He as [He Hr]. apply andb_prop in He. destruct He as [Hk Hl].
  destruct (Hok _ _ _ Hin) as [Nl [Nr Hs]].
  apply kind_eqb_eq in Hk. apply ty_eqb_eq in Hl; auto. apply ty_eqb_eq in Hr; auto. subst. exact Hs.
Qed.

Lemma cache_ok_sound : forall ct c, cache_ok ct c -> sound ct (lookup c).
Proof.
  intros ct c [Hp Hn] k l r b. unfold lookup.
  destruct (in_cache k l r (c_pos c)) eqn:E1.
  - intros Hb n y Hy. inversion Hb; subst. eapply in_cache_inv; eauto.
  - destruct (in_cache k l r (c_neg c)) eqn:E2; [|discriminate].
    intros Hb n y Hy. inversion Hb; subst. eapply in_cache_inv; eauto.
Qed.

Lemma cache_ok_empty : forall ct, cache_ok ct empty_cache.
Proof. intros ct. split; intros k l r []. Qed.

Definition op_ok (o : op) : Prop :=
  match o with
  | Query k l r => is_inst l && is_inst r = true -> no_union l = true /\ no_union r = true
  | Reset => True
  end.

Lemma cache_ok_record : forall ct c k l r b,
  cache_ok ct c -> no_union l = true -> no_union r = true ->
  (forall n y, sub ct no_cache n k l r = Some y -> y = b) ->
  cache_ok ct (record c k l r b).
Proof.
  intros ct c k l r b [Hp Hn] Nl Nr Hs. unfold record. destruct b; split; simpl; auto;
    intros k' l' r' [He|Hin]; auto; inversion He; subst; auto.
Qed.

Lemma run_cache_agree : forall ct fuel ops c, cache_ok ct c -> Forall op_ok ops ->
  Forall2 agree (run_with_cache ct fuel c ops) (run_uncached ct fuel ops).
Proof.
  intros ct fuel. induction ops as [|o ops IH]; intros c Hc Hops; simpl; [constructor|].
  inversion Hops as [|? ? Ho Hops']; subst.
  destruct o as [k l r|].
  - assert (Ha : forall m, agree (sub ct (lookup c) fuel k l r) (sub ct no_cache m k l r))
      by (intros; apply sub_agree; apply cache_ok_sound; auto).
    constructor; [apply Ha|].
    apply IH; auto.
    destruct (sub ct (lookup c) fuel k l r) as [b|] eqn:E; auto.
    destruct (is_inst l && is_inst r) eqn:Ei; auto.
    simpl in Ho. destruct (Ho Ei) as [Nl Nr].
    apply cache_ok_record; auto.
    intros n y Hy. symmetry. apply (Ha n b y); auto.
  - apply IH; auto. apply cache_ok_empty.
Qed.
