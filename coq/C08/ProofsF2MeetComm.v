(* meet_types(s, t) and meet_types(t, s) are equivalent on F2 outside families X2 and X3 *)
From Coq Require Import ZArith List Bool PArith Lia.
From C08 Require Import Model Proofs ProofsKind ProofsTrans ProofsTrans2 ProofsUnion ProofsMeet ProofsMeetComm
  ProofsF2 ProofsF2Sound ProofsF2Comp ProofsF2Eq ProofsF2Trans ProofsF2Union ProofsF2Meet.
Import ListNotations.

Lemma mapM_zip3_two : forall (mf : ty -> ty -> option ty) xs ys (vs : list variance) zs1 zs2,
  mapM (fun q : ty * ty * variance => mf (fst (fst q)) (snd (fst q))) (zip3 xs ys vs) = Some zs1 ->
  mapM (fun q : ty * ty * variance => mf (fst (fst q)) (snd (fst q))) (zip3 ys xs vs) = Some zs2 ->
  forall z1 z2 v, In (z1, z2, v) (zip3 zs1 zs2 vs) ->
  exists x y, In (x, y, v) (zip3 xs ys vs) /\ mf x y = Some z1 /\ mf y x = Some z2.
Proof.
  intros mf. induction xs as [|x xs IH]; destruct ys as [|y ys], vs as [|v0 vs]; simpl; intros zs1 zs2 H1 H2 z1 z2 v Hin;
    try (injection H1 as <-; simpl in Hin; contradiction).
  destruct (mf x y) as [a|] eqn:Ea; [|discriminate]. destruct (mf y x) as [b|] eqn:Eb; [|discriminate].
  destruct (mapM _ (zip3 xs ys vs)) as [r1|] eqn:E1; [|discriminate].
  destruct (mapM _ (zip3 ys xs vs)) as [r2|] eqn:E2; [|discriminate].
  injection H1 as <-. injection H2 as <-. simpl in Hin. destruct Hin as [Hin|Hin].
  - inversion Hin; subst. exists x, y. auto.
  - destruct (IH ys vs r1 r2 E1 E2 z1 z2 v Hin) as [x' [y' [A [B C]]]]. exists x', y'. auto.
Qed.

Section MC2.
Variable ct : ctable.
Hypothesis Hwf : wf_ct ct = true.
Hypothesis Hgen : wf_gen ct = true.
Hypothesis Hcontr : wf_contr ct = true.
Variable m : nat.
Notation sq := (sub ct no_cache m).

Lemma not_LE_np : forall l r, frag2 ct l = true -> frag2 ct r = true -> sq K_proper_np l r = Some false -> ~ LE ct true l r.
Proof.
  intros l r Fl Fr H L.
  assert (T := sub_complete2 ct Hwf no_cache (Hlk0 ct) true l r L Fl Fr K_proper_np eq_refl eq_refl eq_refl m _ H). discriminate.
Qed.

Lemma LE_atom_never : forall np y, is_atomish y = true -> ~ LE ct np y TNever.
Proof.
  intros np y A [h L]. destruct h; [contradiction|]. rewrite leh_eq in L. unfold leh_step in L.
  destruct y; simpl in A; try discriminate; contradiction.
Qed.

Lemma goodm_good : forall y, goodm ct y = true -> is_atomish y = true -> good ct y = true.
Proof. intros y G A. destruct (goodm_parts ct y G) as [F [N _]]. unfold good. rewrite F, A, N. reflexivity. Qed.

Section Step.
Variable f : ty -> ty -> option ty.
Hypothesis Hspec : forall a b y, goodm ct a = true -> goodm ct b = true -> f a b = Some y -> meet_ok2 ct a b y.
Hypothesis Hcomm : forall a b x y, goodm ct a = true -> goodm ct b = true -> f a b = Some x -> f b a = Some y -> LE ct false x y.

Lemma union_union_comm2 : forall ss ts x y,
  goodm ct (TUnion ss) = true -> goodm ct (TUnion ts) = true ->
  meet_visit ct m f (TUnion ss) (TUnion ts) = Some x -> meet_visit ct m f (TUnion ts) (TUnion ss) = Some y ->
  LE ct false x y.
Proof.
  intros ss ts x y Gs Gt H1 H2. simpl in H1, H2.
  destruct (mapM _ _) as [L1|] eqn:E1 in H1; [|discriminate].
  destruct (mapM _ _) as [L2|] eqn:E2 in H2; [|discriminate].
  assert (Hit : forall us a, goodm ct (TUnion us) = true -> In a us -> goodm ct a = true /\ is_atomish a = true).
  { intros us a G Ha. destruct (goodm_parts ct _ G) as [F [N C]]. destruct (frag2_atomish ct us a F Ha) as [A Fa].
    split; auto. unfold goodm. rewrite Fa. simpl in N, C. rewrite forallb_forall in N, C. rewrite (N a Ha), (C a Ha). auto. }
  (* items of both lists *)
  assert (Hitem : forall L (us vs : list ty), goodm ct (TUnion us) = true -> goodm ct (TUnion vs) = true ->
            mapM (fun xy => f (fst xy) (snd xy)) (flat_map (fun x0 => map (fun y0 => (x0, y0)) vs) us) = Some L ->
            forall z, In z L -> exists a b, In a us /\ In b vs /\ f a b = Some z /\ meet_ok2 ct a b z /\ is_union z = false).
  { intros L us vs Gu Gv Em z Hz. destruct (mapM_in _ _ _ _ _ Em z Hz) as [[a b] [Hab Hf]]. simpl in Hf.
    apply in_pairs in Hab. destruct Hab as [Ha Hb]. destruct (Hit us a Gu Ha) as [Ga Aa]. destruct (Hit vs b Gv Hb) as [Gb Ab].
    exists a, b. assert (Sp := Hspec a b z Ga Gb Hf). split; [exact Ha|]. split; [exact Hb|]. split; [exact Hf|]. split; [exact Sp|].
    destruct Sp as [_ [_ [_ D]]]. unfold is_atomish in Aa, Ab. apply andb_prop in Aa. apply andb_prop in Ab.
    destruct Aa as [Ua _]. destruct Ab as [Ub _]. apply negb_true_iff in Ua. apply negb_true_iff in Ub. exact (D Ua Ub). }
  assert (Hgn : forall L (us vs : list ty), goodm ct (TUnion us) = true -> goodm ct (TUnion vs) = true ->
            mapM (fun xy => f (fst xy) (snd xy)) (flat_map (fun x0 => map (fun y0 => (x0, y0)) vs) us) = Some L ->
            forallb (goodn ct) L = true).
  { intros L us vs Gu Gv Em. apply forallb_forall. intros z Hz.
    destruct (Hitem L us vs Gu Gv Em z Hz) as [a [b [_ [_ [_ [[Gz _] Uz]]]]]].
    destruct (goodm_parts ct z Gz) as [Fz [Nz _]]. unfold goodn, good, is_atomish. rewrite Fz, Nz, Uz. simpl.
    destruct (is_never z); auto. }
  assert (G1 := Hgn L1 ts ss Gt Gs E1). assert (G2 := Hgn L2 ss ts Gs Gt E2).
  destruct (simpl_never_items ct Hwf Hgen Hcontr m L1 x G1 H1) as [[_ ->]|[Ne1 [Gf1 [_ [Fx [Nx [Lx _]]]]]]]; [apply LE_never|].
  destruct (union_good_frag ct _ Ne1 Gf1) as [FU1 NU1].
  (* every surviving item of L1 is below y *)
  assert (Hz1 : forall z1, In z1 (filter nn L1) -> LE ct false z1 y).
  { intros z1 Hz1. apply filter_In in Hz1. destruct Hz1 as [Hz1 Nz1]. unfold nn in Nz1. apply negb_true_iff in Nz1.
    destruct (Hitem L1 ts ss Gt Gs E1 z1 Hz1) as [a [b [Ha [Hb [Hf1 [[Gz1 _] Uz1]]]]]].
    destruct (Hit ts a Gt Ha) as [Ga _]. destruct (Hit ss b Gs Hb) as [Gb _].
    destruct (mapM_total _ _ _ _ _ E2 (b, a) (in_pairs_rev ss ts b a Hb Ha)) as [z2 [Hf2 Hz2]]. simpl in Hf2.
    assert (Lz : LE ct false z1 z2) by (apply (Hcomm a b z1 z2); auto).
    assert (Az1 : is_atomish z1 = true) by (unfold is_atomish; rewrite Uz1, Nz1; auto).
    destruct (is_never z2) eqn:Nz2; [destruct z2; try discriminate; destruct (LE_atom_never false z1 Az1 Lz)|].
    destruct (Hitem L2 ss ts Gs Gt E2 z2 Hz2) as [_ [_ [_ [_ [_ [[Gz2 _] Uz2]]]]]].
    assert (Az2 : is_atomish z2 = true) by (unfold is_atomish; rewrite Uz2, Nz2; auto).
    destruct (simpl_never_items ct Hwf Hgen Hcontr m L2 y G2 H2) as [[Ef _]|[Ne2 [Gf2 [_ [Fy [Ny [_ Ly]]]]]]].
    - assert (Hin : In z2 (filter nn L2)) by (apply filter_In; split; auto; unfold nn; rewrite Nz2; auto).
      rewrite Ef in Hin. destruct Hin.
    - destruct (union_good_frag ct _ Ne2 Gf2) as [FU2 NU2].
      destruct (goodm_parts ct z1 Gz1) as [Fz1 [Nz1' _]]. destruct (goodm_parts ct z2 Gz2) as [Fz2 [Nz2' _]].
      apply (LE_trans ct Hwf Hgen Hcontr false z1 z2 y); auto.
      apply (LE_trans ct Hwf Hgen Hcontr false z2 (TUnion (filter nn L2)) y); auto.
      apply (LE_union_r ct false z2 _ z2); auto; [apply filter_In; split; auto; unfold nn; rewrite Nz2; auto|apply LE_refl2; auto]. }
  (* y is in the fragment *)
  assert (Fy : frag2 ct y = true /\ lits_ok ct y = true).
  { destruct (simpl_never_items ct Hwf Hgen Hcontr m L2 y G2 H2) as [[_ ->]|[_ [_ [_ [Fy [Ny _]]]]]]; auto. }
  destruct Fy as [Fy Ny].
  apply (LE_trans ct Hwf Hgen Hcontr false x (TUnion (filter nn L1)) y); auto.
  apply LE_union_l. exact Hz1.
Qed.
End Step.

Lemma meet_comm_le2 : forall n s t x y, goodm ct s = true -> goodm ct t = true ->
  meet ct no_cache m n s t = Some x -> meet ct no_cache m n t s = Some y -> LE ct false x y.
Proof.
  induction n; intros s t x y Gs Gt H1 H2; [discriminate|].
  assert (Hx := H1). assert (Hy := H2).
  destruct (goodm_parts ct s Gs) as [Fs [Ls Cs]]. destruct (goodm_parts ct t Gt) as [Ft [Lt Ct]].
  destruct (meet_spec2 ct Hwf Hgen Hcontr m (S n) s t x Gs Gt H1) as [Gx _].
  destruct (meet_spec2 ct Hwf Hgen Hcontr m (S n) t s y Gt Gs H2) as [Gy _].
  destruct (goodm_parts ct x Gx) as [Fx _]. destruct (goodm_parts ct y Gy) as [Fy _].
  rewrite meet_unfold in H1, H2.
  destruct (sq K_proper_np s t) as [[|]|] eqn:D1; try discriminate.
  { injection H1 as <-. destruct (sq K_proper_np t s) as [[|]|] eqn:D2; try discriminate; injection H2 as <-.
    - apply (dec2 ct Hwf m K_proper_np); auto.
    - apply LE_refl2; auto. }
  destruct (sq K_proper_np t s) as [[|]|] eqn:D2; try discriminate.
  { injection H1 as <-. injection H2 as <-. apply LE_refl2; auto. }
  assert (N1 := not_LE_np s t Fs Ft D1). assert (N2 := not_LE_np t s Ft Fs D2).
  assert (Hs_nv : s <> TNever) by (intros ->; apply N1; apply LE_never).
  assert (Ht_nv : t <> TNever) by (intros ->; apply N2; apply LE_never).
  rewrite (frag2_not_any ct s Fs) in H1. rewrite (frag2_not_any ct t Ft) in H2.
  cbv zeta in H1, H2. unfold swap_if in H1, H2.
  assert (Hsp : forall a b z, goodm ct a = true -> goodm ct b = true -> meet ct no_cache m n a b = Some z -> meet_ok2 ct a b z)
    by (intros; eapply meet_spec2; eauto).
  destruct (is_union s) eqn:U1; destruct (is_union t) eqn:U2; cbn [andb negb fst snd] in H1, H2.
  - destruct s; try discriminate. destruct t; try discriminate.
    exact (union_union_comm2 (meet ct no_cache m n) Hsp IHn _ _ x y Gs Gt H1 H2).
  - rewrite H1 in H2. injection H2 as <-. apply LE_refl2; auto.
  - rewrite H1 in H2. injection H2 as <-. apply LE_refl2; auto.
  - (* two atoms *)
    destruct s as [| | |c xs|c v| |]; try (simpl in Fs; discriminate); try congruence;
    destruct t as [| | |d ys|d w| |]; try (simpl in Ft; discriminate); try congruence; simpl in H1, H2.
    + (* None / None *) injection H1 as <-. injection H2 as <-. apply LE_refl2; auto.
    + (* s None, t Inst *) injection H1 as <-. apply LE_never.
    + injection H1 as <-. apply LE_never.
    + (* s Inst c, t None *)
      destruct (Pos.eqb c (k_object ct)) eqn:E; injection H1 as <-; [|apply LE_never].
      exfalso. apply N2. apply Pos.eqb_eq in E. subst. apply LE_none_obj.
    + (* Inst c xs / Inst d ys *)
      destruct (Pos.eqb d c) eqn:E.
      * apply Pos.eqb_eq in E. subst d. rewrite Pos.eqb_refl in H2.
        destruct (sq K_sub (TInst c ys) (TInst c xs)) as [[|]|] eqn:A; try discriminate;
        destruct (sq K_sub (TInst c xs) (TInst c ys)) as [[|]|] eqn:B; try discriminate;
          try (injection H1 as <-; apply LE_never).
        all: destruct (mapM _ _) as [zs1|] eqn:E1 in H1; [|discriminate]; injection H1 as <-;
             destruct (mapM _ _) as [zs2|] eqn:E2 in H2; [|discriminate]; injection H2 as <-;
             apply LE_inst_nom; [left; unfold has_base; rewrite Pos.eqb_refl; auto|];
             unfold map_to_super; rewrite Pos.eqb_refl; intros [[z1 z2] v0] Hin;
             destruct (mapM_zip3_two _ _ _ _ _ _ E1 E2 z1 z2 v0 Hin) as [y0 [x0 [Hxy [M1 M2]]]];
             assert (Hcv : forallb is_cov (c_var (cls_of ct c)) = true) by (simpl in Ct; apply andb_prop in Ct; tauto);
             assert (Vc : v0 = Cov) by
               (assert (Hv := in_zip3_third _ _ _ _ _ _ _ _ _ Hin); rewrite forallb_forall in Hcv; specialize (Hcv _ Hv);
                destruct v0; simpl in Hcv; try discriminate; auto);
             subst v0; simpl;
             assert (Hc := in_zip3_combine _ _ _ _ _ _ _ _ _ Hxy);
             assert (Hy0 := in_combine_l _ _ _ _ Hc); assert (Hx0 := in_combine_r _ _ _ _ Hc);
             destruct (frag2_inst ct _ _ Ft) as [_ [_ Fys]]; destruct (frag2_inst ct _ _ Fs) as [_ [_ Fxs]];
             simpl in Lt, Ls, Ct, Cs;
             apply andb_prop in Ct; destruct Ct as [_ Ct]; apply andb_prop in Cs; destruct Cs as [_ Cs];
             rewrite forallb_forall in Lt, Ls, Ct, Cs;
             apply (IHn y0 x0 z1 z2); auto; unfold goodm;
             [rewrite (Fys _ Hy0), (Lt _ Hy0), (Ct _ Hy0)|rewrite (Fxs _ Hx0), (Ls _ Hx0), (Cs _ Hx0)]; reflexivity.
      * rewrite Pos.eqb_sym in E. rewrite E in H2.
        destruct (sq K_sub (TInst d ys) (TInst c xs)) as [[|]|] eqn:A; try discriminate;
        destruct (sq K_sub (TInst c xs) (TInst d ys)) as [[|]|] eqn:B; try discriminate;
          injection H1 as <-; injection H2 as <-; try (apply LE_refl2; auto; fail); try apply LE_never.
        exact (dec2 ct Hwf m K_sub _ _ eq_refl eq_refl Ft Fs A).
    + (* s Inst c xs, t Lit d w *)
      assert (G := meet_agree ct m n (S n) (TInst c xs) (TLit d w) _ _ H2 Hx). subst. apply LE_refl2; auto.
    + (* s Lit, t None *) injection H1 as <-. apply LE_never.
    + (* s Lit c v, t Inst d ys *)
      assert (G := meet_agree ct m n (S n) (TInst d ys) (TLit c v) _ _ H1 Hy). subst. apply LE_refl2; auto.
    + (* Lit / Lit *)
      destruct ((c =? d)%positive && (v =? w)%Z) eqn:E.
      * apply andb_prop in E. destruct E as [E1 E2]. apply Pos.eqb_eq in E1. apply Z.eqb_eq in E2. subst.
        rewrite Pos.eqb_refl, Z.eqb_refl in H2. injection H1 as <-. injection H2 as <-. apply LE_refl2; auto.
      * injection H1 as <-. apply LE_never.
Qed.

Theorem meet_comm_F2 : forall n s t x y, goodm ct s = true -> goodm ct t = true ->
  meet ct no_cache m n s t = Some x -> meet ct no_cache m n t s = Some y ->
  goodm ct x = true /\ goodm ct y = true /\ LE ct false x y /\ LE ct false y x.
Proof.
  intros n s t x y Gs Gt H1 H2.
  destruct (meet_spec2 ct Hwf Hgen Hcontr m n s t x Gs Gt H1) as [Gx _].
  destruct (meet_spec2 ct Hwf Hgen Hcontr m n t s y Gt Gs H2) as [Gy _].
  split; [|split; [|split]]; auto.
  - apply (meet_comm_le2 n s t x y); auto.
  - apply (meet_comm_le2 n t s y x); auto.
Qed.
End MC2.
