(* make_simplified_union on fragment F1: the result is equivalent to the plain union, whatever the item order *)
From Coq Require Import ZArith List Bool PArith Lia Sorting.Permutation.
From C08 Require Import Model Proofs ProofsKind ProofsTrans ProofsTrans2.
Import ListNotations.

Section U.
Variable ct : ctable.
Hypothesis Hwf : wf_ct ct = true.

Definition item_ok (t : ty) : bool := atom_ok ct t || is_never t.

Lemma ile_mono : forall np c d, ile ct true c d -> ile ct np c d.
Proof. intros np c d H. induction H; [apply ile_nom; auto|discriminate]. Qed.

Lemma ale_mono : forall np l r, ale ct true l r -> ale ct np l r.
Proof.
  intros np l r. destruct l as [| | |c [|? ?]|c v| |]; destruct r as [| | |d [|? ?]|d w| |]; simpl; auto;
    apply ile_mono.
Qed.

Definition cov (np : bool) (x : ty) (ys : list ty) : Prop := exists y, In y ys /\ ale ct np x y.

Lemma cov_incl : forall np x ys zs, cov np x ys -> incl ys zs -> cov np x zs.
Proof. intros np x ys zs [y [Hy H]] Hi. exists y. split; auto. Qed.

Lemma rr_pass_spec : forall n items new fbs out,
  forallb item_ok items = true -> forallb (atom_ok ct) new = true ->
  rr_pass (sub ct no_cache n) items new fbs = Some out ->
  forallb (atom_ok ct) out = true /\ incl new out /\ (forall x, In x out -> In x new \/ In x items) /\
  (forall x, In x items -> is_never x = false -> cov true x out).
Proof.
  intros n. induction items as [|ti rest IH]; intros new fbs out Hi Hnew H; simpl in H.
  - inversion H; subst. repeat split; auto using incl_refl. intros x [].
  - simpl in Hi. apply andb_prop in Hi. destruct Hi as [Hti Hrest].
    destruct (is_never ti) eqn:Nv.
    + destruct (IH _ _ _ Hrest Hnew H) as [A [B [C D]]]. repeat split; auto.
      * intros x Hx. destruct (C x Hx); auto. right; right; auto.
      * intros x [<-|Hx] Hn; [congruence|auto].
    + assert (Ati : atom_ok ct ti = true) by (unfold item_ok in Hti; rewrite Nv, orb_false_r in Hti; auto).
      (* the two possible continuations *)
      assert (Hdup : rr_pass (sub ct no_cache n) rest new fbs = Some out -> cov true ti new ->
                forallb (atom_ok ct) out = true /\ incl new out /\
                (forall x, In x out -> In x new \/ In x (ti :: rest)) /\
                (forall x, In x (ti :: rest) -> is_never x = false -> cov true x out)).
      { intros H' Hc. destruct (IH _ _ _ Hrest Hnew H') as [A [B [C D]]]. repeat split; auto.
        - intros x Hx. destruct (C x Hx); auto. right; right; auto.
        - intros x [<-|Hx] Hn; [eapply cov_incl; eauto|auto]. }
      assert (Hkeep : forall fbs', rr_pass (sub ct no_cache n) rest (new ++ [ti]) fbs' = Some out ->
                forallb (atom_ok ct) out = true /\ incl new out /\
                (forall x, In x out -> In x new \/ In x (ti :: rest)) /\
                (forall x, In x (ti :: rest) -> is_never x = false -> cov true x out)).
      { intros fbs' H'.
        assert (Hn' : forallb (atom_ok ct) (new ++ [ti]) = true) by (rewrite forallb_app, Hnew; simpl; rewrite Ati; auto).
        destruct (IH _ _ _ Hrest Hn' H') as [A [B [C D]]]. repeat split; auto.
        - intros x Hx. apply B. apply in_or_app; auto.
        - intros x Hx. destruct (C x Hx) as [Hc|Hc]; [|right; right; auto].
          apply in_app_or in Hc. destruct Hc as [Hc|[<-|[]]]; auto. right; left; auto.
        - intros x [<-|Hx] Hn; [|auto]. exists ti. split; [apply B; apply in_or_app; right; left; auto|apply ale_refl; auto]. }
      assert (Hany : forall b, anyM (fun tj : ty => sub ct no_cache n K_proper_np ti tj) new = Some b ->
                (if b then rr_pass (sub ct no_cache n) rest new fbs
                 else rr_pass (sub ct no_cache n) rest (new ++ [ti]) (match ti with TLit c _ => c :: fbs | _ => fbs end)) = Some out ->
                forallb (atom_ok ct) out = true /\ incl new out /\
                (forall x, In x out -> In x new \/ In x (ti :: rest)) /\
                (forall x, In x (ti :: rest) -> is_never x = false -> cov true x out)).
      { intros [|] Hb H'; [|eapply Hkeep; eauto].
        apply Hdup; auto. apply anyM_true_inv in Hb. destruct Hb as [tj [Htj Hs]].
        assert (Atj : atom_ok ct tj = true) by (rewrite forallb_forall in Hnew; auto).
        assert (L := sub_sound ct Hwf n K_proper_np ti tj eq_refl (atom_frag ct _ Ati) (atom_frag ct _ Atj) Hs).
        rewrite le_atom in L; auto. rewrite atom_le in L; auto. exists tj. split; auto. }
      destruct (mem_ty ti new) eqn:M.
      * apply Hdup; auto. apply (mem_ty_atoms ct ti new Hnew) in M. exists ti. split; auto. apply ale_refl; auto.
      * destruct ti as [| | |ci ai|cl vl|us|us]; try (destruct (anyM _ new) as [b|] eqn:EA; [|discriminate]; apply (Hany b eq_refl); destruct b; exact H).
        destruct (mem_cid cl fbs).
        -- eapply Hkeep; eauto.
        -- destruct (anyM _ new) as [b|] eqn:EA; [|discriminate]. apply (Hany b eq_refl); destruct b; exact H.
Qed.

Lemma cov_trans : forall x ys zs, cov true x ys -> (forall y, In y ys -> cov true y zs) -> cov true x zs.
Proof.
  intros x ys zs [y [Hy Hxy]] H. destruct (H y Hy) as [z [Hz Hyz]]. exists z. split; auto.
  eapply ale_trans; eauto.
Qed.

Lemma atoms_items : forall l, forallb (atom_ok ct) l = true -> forallb item_ok l = true.
Proof.
  intros l H. rewrite forallb_forall in *. intros x Hx. unfold item_ok. rewrite (H x Hx). reflexivity.
Qed.
Lemma atom_not_never : forall x, atom_ok ct x = true -> is_never x = false.
Proof. destruct x; simpl; auto; discriminate. Qed.

Lemma remove_redundant_spec : forall n items out,
  forallb item_ok items = true -> remove_redundant (sub ct no_cache n) items = Some out ->
  forallb (atom_ok ct) out = true /\ incl out items /\
  (forall x, In x items -> is_never x = false -> cov true x out).
Proof.
  intros n items out Hi H. unfold remove_redundant in H.
  destruct (rr_pass (sub ct no_cache n) items [] []) as [p1|] eqn:E1; [|discriminate].
  destruct (rr_pass_spec n items [] [] p1 Hi eq_refl E1) as [A1 [_ [C1 D1]]].
  assert (I1 : incl p1 items) by (intros x Hx; destruct (C1 x Hx) as [[]|]; auto).
  destruct (short p1); [inversion H; subst; auto|].
  destruct (rr_pass (sub ct no_cache n) (rev p1) [] []) as [p2|] eqn:E2; [|discriminate].
  assert (Hr : forallb item_ok (rev p1) = true).
  { apply atoms_items. rewrite forallb_forall in *. intros x Hx. apply A1. apply in_rev; auto. }
  destruct (rr_pass_spec n (rev p1) [] [] p2 Hr eq_refl E2) as [A2 [_ [C2 D2]]].
  assert (I2 : incl p2 items).
  { intros x Hx. destruct (C2 x Hx) as [[]|Hc]. apply I1. apply in_rev; auto. }
  assert (V2 : forall x, In x items -> is_never x = false -> cov true x p2).
  { intros x Hx Hn. eapply cov_trans; [apply D1; auto|].
    intros y Hy. apply D2; [apply in_rev; rewrite rev_involutive; auto|].
    apply atom_not_never. rewrite forallb_forall in A1; auto. }
  destruct (short p2); inversion H; subst; auto.
  repeat split.
  - rewrite forallb_forall in *. intros x Hx. apply A2. apply in_rev; auto.
  - intros x Hx. apply I2. apply in_rev; auto.
  - intros x Hx Hn. destruct (V2 x Hx Hn) as [y [Hy Hxy]]. exists y. split; auto. apply in_rev in Hy; auto.
Qed.

Lemma contract_go_plain : forall all items done, forallb (atom_ok ct) items = true -> contract_go ct all items done = items.
Proof.
  induction items as [|a r IH]; intros done H; simpl; auto.
  simpl in H. apply andb_prop in H. destruct H as [Ha Hr].
  destruct a; simpl in Ha; try discriminate; try (rewrite IH; auto; fail).
  unfold plain in Ha. apply andb_prop in Ha. destruct Ha as [Ha _]. apply andb_prop in Ha. destruct Ha as [_ Ha].
  apply negb_true_iff in Ha. rewrite Ha. simpl. rewrite IH; auto.
Qed.

Lemma flatten_items : forall l, forallb item_ok l = true -> flatten l = l.
Proof.
  induction l; simpl; intros H; auto. apply andb_prop in H. destruct H as [H1 H2].
  unfold flatten in *. simpl. rewrite IHl; auto.
  unfold item_ok in H1. destruct a; simpl in *; auto; discriminate.
Qed.

(* what make_simplified_union returns on a list of atoms / Never *)
Lemma simpl_union_spec : forall n items u,
  forallb item_ok items = true -> simpl_union ct (sub ct no_cache n) items = Some u ->
  frag1 ct u = true /\
  (forall np r, (forall x, In x items -> is_never x = false -> ale_u ct np x r) -> le ct np u r) /\
  (forall np x, In x items -> is_never x = false -> ale_u ct np x u).
Proof.
  intros n items u Hi H. unfold simpl_union in H. rewrite (flatten_items items Hi) in H.
  assert (Hone : forall x, items = [x] -> u = x ->
     frag1 ct u = true /\
     (forall np r, (forall x, In x items -> is_never x = false -> ale_u ct np x r) -> le ct np u r) /\
     (forall np x, In x items -> is_never x = false -> ale_u ct np x u)).
  { intros x -> ->. simpl in Hi. rewrite andb_true_r in Hi. unfold item_ok in Hi.
    destruct (is_never x) eqn:Nv.
    - destruct x; try discriminate. repeat split; simpl; auto. intros np x [<-|[]] Hn. discriminate.
    - rewrite orb_false_r in Hi. repeat split.
      + apply atom_frag; auto.
      + intros np r Hr. rewrite le_atom; auto. apply Hr; simpl; auto.
      + intros np y [<-|[]] _. rewrite atom_le; auto. apply ale_refl; auto. }
  assert (Hgen : forall rr, remove_redundant (sub ct no_cache n) items = Some rr ->
     u = make_union (if Nat.ltb 1 (count_lit rr) then contract ct rr else rr) ->
     frag1 ct u = true /\
     (forall np r, (forall x, In x items -> is_never x = false -> ale_u ct np x r) -> le ct np u r) /\
     (forall np x, In x items -> is_never x = false -> ale_u ct np x u)).
  { intros rr Hrr Hu. destruct (remove_redundant_spec n items rr Hi Hrr) as [A [I V]].
    assert (Hc : (if Nat.ltb 1 (count_lit rr) then contract ct rr else rr) = rr).
    { destruct (Nat.ltb 1 (count_lit rr)); auto. unfold contract. apply contract_go_plain; auto. }
    rewrite Hc in Hu. subst u.
    assert (Hcov : forall np x, In x items -> is_never x = false -> exists y, In y rr /\ ale ct np x y).
    { intros np x Hx Hn. destruct (V x Hx Hn) as [y [Hy Hxy]]. exists y. split; auto. apply ale_mono; auto. }
    destruct rr as [|y [|z rr']]; simpl.
    - repeat split; auto. intros np x Hx Hn. destruct (Hcov np x Hx Hn) as [y [[] _]].
    - simpl in A. rewrite andb_true_r in A. repeat split.
      + apply atom_frag; auto.
      + intros np r Hr. rewrite le_atom; auto. apply Hr; [apply I; simpl; auto|apply atom_not_never; auto].
      + intros np x Hx Hn. destruct (Hcov np x Hx Hn) as [y' [[<-|[]] Hxy]]. rewrite atom_le; auto.
    - repeat split.
      + exact A.
      + intros np r Hr x Hx. apply Hr; [apply I; auto|]. apply atom_not_never. rewrite forallb_forall in A; auto.
      + intros np x Hx Hn. exact (Hcov np x Hx Hn). }
  destruct items as [|x [|y l]].
  - unfold remove_redundant in H. simpl in H. injection H as Hu. apply (Hgen []); auto.
  - injection H as Hu. apply (Hone x); auto.
  - destruct (remove_redundant (sub ct no_cache n) (x :: y :: l)) as [rr|] eqn:E; [|discriminate].
    injection H as Hu. apply (Hgen rr); auto.
Qed.

Lemma union_frag : forall items, items <> [] -> forallb (atom_ok ct) items = true -> frag1 ct (TUnion items) = true.
Proof. intros items Hne H. simpl. destruct items; [congruence|exact H]. Qed.

Lemma le_union_incl : forall np items items', forallb (atom_ok ct) items = true -> incl items items' ->
  le ct np (TUnion items) (TUnion items').
Proof.
  intros np items items' Ha Hi x Hx. simpl. exists x. split; auto. apply ale_refl; auto.
  rewrite forallb_forall in Ha; auto.
Qed.

Lemma simpl_le_both : forall n items u, items <> [] -> forallb (atom_ok ct) items = true ->
  simplified_union ct no_cache n items = Some u ->
  frag1 ct u = true /\ (forall np, le ct np u (TUnion items)) /\ (forall np, le ct np (TUnion items) u).
Proof.
  intros n items u Hne Ha H. unfold simplified_union in H.
  destruct (simpl_union_spec n items u (atoms_items _ Ha) H) as [F [L1 L2]].
  repeat split; auto.
  - intros np. apply L1. intros x Hx _. simpl. exists x. split; auto. apply ale_refl; auto.
    rewrite forallb_forall in Ha; auto.
  - intros np x Hx. apply L2; auto. apply atom_not_never. rewrite forallb_forall in Ha; auto.
Qed.

Theorem simplified_union_equiv_F1 : forall n n' items items' u u',
  items <> [] -> forallb (atom_ok ct) items = true -> Permutation items items' ->
  simplified_union ct no_cache n items = Some u -> simplified_union ct no_cache n' items' = Some u' ->
  frag1 ct u = true /\
  forall k, k_notparams k = false -> forall m,
    trueish (sub ct no_cache m k u (TUnion items)) /\ trueish (sub ct no_cache m k (TUnion items) u) /\
    trueish (sub ct no_cache m k u u') /\ trueish (sub ct no_cache m k u' u).
Proof.
  intros n n' items items' u u' Hne Ha Hp H H'.
  assert (Hne' : items' <> []).
  { intros ->. apply Permutation_sym in Hp. apply Permutation_nil in Hp. contradiction. }
  assert (Ha' : forallb (atom_ok ct) items' = true).
  { rewrite forallb_forall in *. intros x Hx. apply Ha. eapply Permutation_in; [apply Permutation_sym; eauto|auto]. }
  destruct (simpl_le_both n items u Hne Ha H) as [F [L1 L2]].
  destruct (simpl_le_both n' items' u' Hne' Ha' H') as [F' [L1' L2']].
  assert (FU := union_frag items Hne Ha). assert (FU' := union_frag items' Hne' Ha').
  split; auto. intros k Hk m.
  assert (I : incl items items') by (intros x Hx; eapply Permutation_in; eauto).
  assert (I' : incl items' items) by (intros x Hx; eapply Permutation_in; [apply Permutation_sym; eauto|auto]).
  repeat split; apply C_le; auto.
  - eapply (le_trans ct Hwf); [apply L1|]. eapply (le_trans ct Hwf); [apply le_union_incl; eauto|apply L2'].
  - eapply (le_trans ct Hwf); [apply L1'|]. eapply (le_trans ct Hwf); [apply le_union_incl; eauto|apply L2].
Qed.
End U.
