From Coq Require Import ZArith List Bool Extraction ExtrOcamlBasic.
From C08 Require Import Model.
Extraction "c08.ml" is_subtype is_proper_subtype is_same_type make_simplified_union join_types meet_types
  is_subtype_c sub no_cache wf_ct wf_class empty_cache record K_sub K_proper K_proper_np K_proper_ntp any_free frag1 frag_up frag2 wf_lat wf_gen wf_contr lits_ok no_contr covt chains_ok table_guard type_guard trans_guard meet_guard.
