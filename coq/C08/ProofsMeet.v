(* meet_types on fragment F1: the result is a lower bound of both arguments *)
From Coq Require Import ZArith List Bool PArith Lia.
From C08 Require Import Model Proofs ProofsKind ProofsTrans ProofsTrans2 ProofsUnion.
Import ListNotations.

Lemma mapM_in : forall A B (f : A -> option B) l ys, mapM f l = Some ys ->
  forall y, In y ys -> exists a, In a l /\ f a = Some y.
Proof.
  induction l; simpl; intros ys H y Hy.
  - inversion H; subst. destruct Hy.
  - destruct (f a) as [b|] eqn:E; [|discriminate]. destruct (mapM f l) as [bs|] eqn:E2; [|discriminate].
    inversion H; subst. destruct Hy as [<-|Hy].
    + exists a; auto.
    + destruct (IHl bs eq_refl y Hy) as [a' [Ha' Hf]]. exists a'; auto.
Qed.

Section M.
Variable ct : ctable.
Hypothesis Hwf : wf_ct ct = true.
Variable m : nat.                      (* fuel of the subtype queries issued by meet *)

Lemma le_mono : forall np l r, le ct true l r -> le ct np l r.
Proof.
  intros np l r H.
  assert (A : forall x, ale_u ct true x r -> ale_u ct np x r).
  { intros x. unfold ale_u. destruct r; try apply ale_mono. intros [y [Hy Hxy]]. exists y. split; auto. apply ale_mono; auto. }
  destruct l; simpl in *; auto.
Qed.

Lemma le_refl : forall np t, frag1 ct t = true -> le ct np t t.
Proof. intros np t F. apply eq_le; auto. apply ty_eqb_refl. Qed.

Notation sq := (sub ct no_cache m).

(* a proper-subtype decision with ignore_promotions gives `le` for the default kind *)
Lemma dec_np : forall l r, frag1 ct l = true -> frag1 ct r = true -> sq K_proper_np l r = Some true -> le ct false l r.
Proof. intros l r Fl Fr H. apply le_mono. exact (sub_sound ct Hwf m K_proper_np l r eq_refl Fl Fr H). Qed.
Lemma dec_sub : forall l r, frag1 ct l = true -> frag1 ct r = true -> sq K_sub l r = Some true -> le ct false l r.
Proof. intros l r Fl Fr H. exact (sub_sound ct Hwf m K_sub l r eq_refl Fl Fr H). Qed.

(* the visitor part of meet_types, with the recursive call abstracted *)
Definition meet_visit (mf : ty -> ty -> option ty) (s t : ty) : option ty :=
      match t with
      | TAny => Some s
      | TUnion titems =>
          match (match s with
                 | TUnion sitems =>
                     mapM (fun xy => mf (fst xy) (snd xy))
                          (flat_map (fun x => map (fun y => (x, y)) sitems) titems)
                 | _ => mapM (fun x => mf x s) titems
                 end) with
          | None => None
          | Some meets => (simpl_union ct (sub ct no_cache m)) meets
          end
      | TNone =>
          match s with
          | TNone => Some t
          | TInst d _ => if Pos.eqb d (k_object ct) then Some t else Some TNever
          | _ => Some TNever
          end
      | TNever => Some t
      | TInst c targs =>
          match s with
          | TInst d sargs =>
              if Pos.eqb c d then
                match (match (sub ct no_cache m) K_sub t s with
                       | None => None
                       | Some true => Some true
                       | Some false => (sub ct no_cache m) K_sub s t
                       end) with
                | None => None
                | Some true =>
                    match mapM (fun q => mf (fst (fst q)) (snd (fst q)))
                               (zip3 targs sargs (c_var (cls_of ct c))) with
                    | None => None
                    | Some args => Some (TInst c args)
                    end
                | Some false => Some TNever
                end
              else
                match (sub ct no_cache m) K_sub t s with
                | None => None
                | Some true => Some t
                | Some false =>
                    match (sub ct no_cache m) K_sub s t with
                    | None => None
                    | Some true => Some s
                    | Some false => Some TNever
                    end
                end
          | TTuple _ => mf t s
          | TLit _ _ => mf t s
          | _ => Some TNever
          end
      | TLit c v =>
          match s with
          | TLit _ _ => if ty_eqb s t then Some t else Some TNever
          | TInst _ _ =>
              match (sub ct no_cache m) K_sub (TInst c []) s with
              | None => None
              | Some true => Some t
              | Some false => Some TNever
              end
          | _ => Some TNever
          end
      | TTuple titems =>
          match s with
          | TTuple sitems =>
              if Nat.eqb (length sitems) (length titems) then
                match mapM (fun q => mf (fst q) (snd q)) (combine titems sitems) with
                | None => None
                | Some items => Some (TTuple items)
                end
              else Some TNever
          | TInst d sargs =>
              match (if mem_cid d (k_tuplelike ct) then sargs else []) with
              | arg :: _ =>
                  match mapM (fun it => mf it arg) titems with
                  | None => None
                  | Some items => Some (TTuple items)
                  end
              | [] =>
                  match (sub ct no_cache m) K_proper t s with
                  | None => None
                  | Some true => Some t
                  | Some false => Some TNever
                  end
              end
          | _ => Some TNever
          end
      end.

Lemma meet_unfold : forall n s0 t0,
  meet ct no_cache m (S n) s0 t0 =
  match sub ct no_cache m K_proper_np s0 t0 with
  | None => None
  | Some true => Some s0
  | Some false =>
    match sub ct no_cache m K_proper_np t0 s0 with
    | None => None
    | Some true => Some t0
    | Some false =>
      if is_any s0 then Some t0 else
      let p := swap_if (is_union s0 && negb (is_union t0)) (s0, t0) in
      meet_visit (meet ct no_cache m n) (fst p) (snd p)
    end
  end.
Proof. reflexivity. Qed.

Definition meet_ok (s t x : ty) : Prop :=
  frag1 ct x = true /\ le ct false x s /\ le ct false x t /\
  (is_union s = false -> is_union t = false -> x = s \/ x = t \/ x = TNever).

Lemma never_ok : forall s t, meet_ok s t TNever.
Proof. intros. repeat split; simpl; auto. Qed.


Lemma meet_ok_sym : forall s t x, meet_ok s t x -> meet_ok t s x.
Proof. intros s t x [A [B [C D]]]. repeat split; auto. intros U1 U2. destruct (D U2 U1) as [|[|]]; auto. Qed.

Lemma frag_atom : forall t, frag1 ct t = true -> is_union t = false -> t <> TNever -> atom_ok ct t = true.
Proof. destruct t; simpl; intros; auto; try discriminate; congruence. Qed.

Lemma le_in_union : forall y a items, atom_ok ct a = true -> In a items ->
  le ct false y a -> y <> TNever -> is_union y = false -> frag1 ct y = true -> ale_u ct false y (TUnion items).
Proof.
  intros y a items Aa Hin L Nv U F. assert (Ay := frag_atom y F U Nv).
  rewrite le_atom in L; auto. rewrite atom_le in L; auto. simpl. exists a; auto.
Qed.

Section Visit.
Variable mf : ty -> ty -> option ty.
Hypothesis IH : forall a b y, frag1 ct a = true -> frag1 ct b = true -> mf a b = Some y -> meet_ok a b y.

Lemma union_case : forall (pairs : list (ty * ty)) meets x s t,
  mapM (fun xy => mf (fst xy) (snd xy)) pairs = Some meets ->
  (forall a b, In (a, b) pairs -> atom_ok ct a = true /\ atom_ok ct b = true /\
      (forall y, le ct false y a -> y <> TNever -> is_union y = false -> frag1 ct y = true -> ale_u ct false y t) /\
      (forall y, le ct false y b -> y <> TNever -> is_union y = false -> frag1 ct y = true -> ale_u ct false y s)) ->
  simpl_union ct sq meets = Some x -> is_union t = true ->
  meet_ok s t x.
Proof.
  intros pairs meets x s t Hm Hp Hs Ut.
  assert (Hy : forall y, In y meets -> exists a b, In (a, b) pairs /\ meet_ok a b y).
  { intros y Hy. destruct (mapM_in _ _ _ _ _ Hm y Hy) as [[a b] [Hab Hf]]. simpl in Hf.
    destruct (Hp a b Hab) as [Aa [Ab _]]. exists a, b. split; auto.
    apply IH; auto using atom_frag. }
  assert (Hitem : forall y, In y meets -> is_never y = false -> y <> TNever /\ is_union y = false /\ frag1 ct y = true).
  { intros y Hin Hn. destruct (Hy y Hin) as [a [b [Hab [F [_ [_ D]]]]]]. destruct (Hp a b Hab) as [Aa [Ab _]].
    repeat split; auto.
    - intros ->. discriminate.
    - assert (Ua : is_union a = false) by (destruct a; simpl in Aa; try discriminate; auto; destruct args; auto).
      assert (Ub : is_union b = false) by (destruct b; simpl in Ab; try discriminate; auto; destruct args; auto).
      destruct (D Ua Ub) as [ -> | [ -> | -> ] ]; auto. }
  assert (Hio : forallb (item_ok ct) meets = true).
  { apply forallb_forall. intros y Hin. unfold item_ok. destruct (is_never y) eqn:Nv; [apply orb_true_r|].
    destruct (Hitem y Hin Nv) as [N [U F]]. rewrite (frag_atom y F U N). reflexivity. }
  destruct (simpl_union_spec ct Hwf m meets x Hio Hs) as [F [L _]].
  repeat split; auto.
  - apply L. intros y Hin Hn. destruct (Hy y Hin) as [a [b [Hab [_ [La [Lb _]]]]]].
    destruct (Hitem y Hin Hn) as [N [U Fy]]. destruct (Hp a b Hab) as [_ [_ [_ Hb]]]. apply Hb; auto.
  - apply L. intros y Hin Hn. destruct (Hy y Hin) as [a [b [Hab [_ [La [Lb _]]]]]].
    destruct (Hitem y Hin Hn) as [N [U Fy]]. destruct (Hp a b Hab) as [_ [_ [Ha _]]]. apply Ha; auto.
  - intros _ U. congruence.
Qed.

Lemma in_pairs : forall (titems sitems : list ty) a b,
  In (a, b) (flat_map (fun x => map (fun y => (x, y)) sitems) titems) -> In a titems /\ In b sitems.
Proof.
  intros titems sitems a b H. apply in_flat_map in H. destruct H as [x [Hx H]].
  apply in_map_iff in H. destruct H as [y [E Hy]]. inversion E; subst. auto.
Qed.

Lemma visit_spec : forall s t x, frag1 ct s = true -> frag1 ct t = true -> s <> TNever -> t <> TNever ->
  (is_union s = true -> is_union t = true) -> meet_visit mf s t = Some x -> meet_ok s t x.
Proof.
  intros s t x Fs Ft Ns Nt Hu H.
  destruct t as [| | |c [|? ?]|c v|titems|]; simpl in Ft; try discriminate; try congruence.
  - (* t = None *)
    destruct s as [| | |d [|? ?]|d w|sitems|]; simpl in Fs; try discriminate; try congruence; simpl in H.
    + inversion H; subst. repeat split; simpl; auto.
    + destruct (Pos.eqb d (k_object ct)) eqn:E; inversion H; subst; [|apply never_ok].
      apply Pos.eqb_eq in E. subst. repeat split; simpl; auto.
    + inversion H; subst. apply never_ok.
    + specialize (Hu eq_refl). discriminate.
  - (* t = Inst c [] *)
    destruct s as [| | |d [|? ?]|d w|sitems|]; simpl in Fs; try discriminate; try congruence; simpl in H.
    + inversion H; subst. apply never_ok.
    + destruct (Pos.eqb c d) eqn:E.
      * apply Pos.eqb_eq in E. subst d.
        match type of H with match ?a with _ => _ end = _ => destruct a as [[|]|] end; try discriminate.
        -- simpl in H. inversion H; subst. repeat split; simpl; auto; apply ile_refl.
        -- inversion H; subst. apply never_ok.
      * destruct (sq K_sub (TInst c []) (TInst d [])) as [[|]|] eqn:E1; try discriminate.
        -- inversion H; subst. repeat split; auto. apply dec_sub; auto. apply le_refl; auto.
        -- destruct (sq K_sub (TInst d []) (TInst c [])) as [[|]|] eqn:E2; try discriminate; inversion H; subst.
           ++ repeat split; auto. apply le_refl; auto. apply dec_sub; auto.
           ++ apply never_ok.
    + apply meet_ok_sym. apply IH; auto.
    + specialize (Hu eq_refl). discriminate.
  - (* t = Lit c v *)
    destruct s as [| | |d [|? ?]|d w|sitems|]; simpl in Fs; try discriminate; try congruence; simpl in H.
    + inversion H; subst. apply never_ok.
    + destruct (sq K_sub (TInst c []) (TInst d [])) as [[|]|] eqn:E1; try discriminate; inversion H; subst; [|apply never_ok].
      repeat split; auto.
      all: try exact (dec_sub (TInst c []) (TInst d []) Ft Fs E1).
      all: try (apply (le_refl false (TLit c v)); auto).
    + destruct (Pos.eqb d c && Z.eqb w v) eqn:E; inversion H; subst; [|apply never_ok].
      apply andb_prop in E. destruct E as [E1 E2]. apply Pos.eqb_eq in E1. apply Z.eqb_eq in E2. subst.
      repeat split; auto; simpl; auto.
    + specialize (Hu eq_refl). discriminate.
  - (* t = Union titems *)
    assert (Ft' : frag1 ct (TUnion titems) = true) by exact Ft.
    destruct (union_atoms ct titems Ft') as [At _].
    simpl in H. assert (Fs0 := Fs).
    destruct s as [| | |d ds|d w|sitems|]; simpl in Fs; try discriminate; try congruence.
    1-3: destruct (mapM _ titems) as [meets|] eqn:Em; [|discriminate].
    1-3: match goal with |- meet_ok ?s _ _ =>
           assert (As : atom_ok ct s = true) by (apply frag_atom; auto);
           apply (union_case (map (fun x => (x, s)) titems) meets x s (TUnion titems)); auto;
           [ clear - Em; revert meets Em; induction titems; simpl; intros; auto;
             destruct (mf a s); [|discriminate]; destruct (mapM _ titems); [|discriminate];
             rewrite (IHtitems l eq_refl); auto
           | intros a b Hab; apply in_map_iff in Hab; destruct Hab as [x0 [E Hx0]]; inversion E; subst;
             assert (Aa : atom_ok ct a = true) by (rewrite forallb_forall in At; auto);
             repeat split; auto;
             [ intros y L N U F; eapply le_in_union; eauto
             | intros y L N U F; rewrite le_atom in L by (apply frag_atom; auto); exact L ] ]
         end.
    (* both unions *)
    assert (Fs' : frag1 ct (TUnion sitems) = true) by exact Fs.
    destruct (union_atoms ct sitems Fs') as [Asi _].
    destruct (mapM _ _) as [meets|] eqn:Em; [|discriminate].
    apply (union_case _ meets x (TUnion sitems) (TUnion titems) Em); auto.
    intros a b Hab. apply in_pairs in Hab. destruct Hab as [Ha Hb].
    assert (Aa : atom_ok ct a = true) by (rewrite forallb_forall in At; auto).
    assert (Ab : atom_ok ct b = true) by (rewrite forallb_forall in Asi; auto).
    repeat split; auto.
    + intros y L N U F. apply (le_in_union y a titems); auto.
    + intros y L N U F. apply (le_in_union y b sitems); auto.
Qed.
End Visit.

Theorem meet_spec : forall n s t x, frag1 ct s = true -> frag1 ct t = true ->
  meet ct no_cache m n s t = Some x -> meet_ok s t x.
Proof.
  induction n; intros s0 t0 x Fs Ft H; [discriminate|].
  rewrite meet_unfold in H.
  destruct (sq K_proper_np s0 t0) as [[|]|] eqn:E1; try discriminate.
  { inversion H; subst. repeat split; auto. apply le_refl; auto. apply dec_np; auto. }
  destruct (sq K_proper_np t0 s0) as [[|]|] eqn:E2; try discriminate.
  { inversion H; subst. repeat split; auto. apply dec_np; auto. apply le_refl; auto. }
  assert (Hs_nv : s0 <> TNever).
  { intros ->. assert (T := C_never ct K_proper_np t0 Ft m _ E1). discriminate. }
  assert (Ht_nv : t0 <> TNever).
  { intros ->. assert (T := C_never ct K_proper_np s0 Fs m _ E2). discriminate. }
  rewrite (frag_not_any ct s0 Fs) in H. cbv zeta in H. unfold swap_if in H.
  destruct (is_union s0) eqn:U1; destruct (is_union t0) eqn:U2; simpl in H.
  - apply (visit_spec _ IHn); auto.
  - apply meet_ok_sym. apply (visit_spec _ IHn); auto; intros; congruence.
  - apply (visit_spec _ IHn); auto; intros; congruence.
  - apply (visit_spec _ IHn); auto; intros; congruence.
Qed.
End M.
